"""Effect-skeleton translator: every function of the non-test package -> coq/Gen/EffectSkeleton.v.

Fail-closed rules
 * a statement form the translator does not know becomes an `Eff KUnsupported` site;
 * a guard counts as a dry_run guard only when its test is literally `dry_run`, `not dry_run`, a
   conjunction containing one of those, or a name assigned exactly once from such a conjunction, in a
   function where `dry_run` is a parameter that is never re-bound; anything else is opaque
   (both branches reachable);
 * a reference to a package function / class as a value (argument of map/partial, stored, returned)
   counts as a call with the caller's flag; `partial(f, dry_run=...)` counts as a call with that flag;
 * an attribute call `obj.m(...)` on an object the translator cannot resolve counts as a call to every
   method named `m` defined by a class of the package;
 * effect sites: names imported from os/shutil/tempfile/subprocess/socket..., `os.x`/`shutil.x`
   attribute calls, pathlib-style write methods on unresolved objects, `open` with a mode that is not a
   literal read mode, eval/exec/compile/__import__/import_module.
Not covered (trusted, validated at run time by the audit-hook runs): calls through variables
(`getattr(mod, name)(...)`, callables received as arguments), third-party library internals.
"""
import ast
import os

from .common import REPO, discover, is_test_module, parse

FLAG = ["dry_run"]  # the boolean parameter the guards are classified against

FS_FUNCS = {
    "makedirs", "mkdir", "remove", "rmtree", "unlink", "rename", "renames", "replace", "rmdir", "removedirs",
    "copy", "copy2", "copyfile", "copytree", "copymode", "copystat", "move", "symlink", "link", "chmod", "chown",
    "utime", "truncate", "mkfifo", "mknod", "mkdtemp", "mkstemp", "NamedTemporaryFile", "TemporaryDirectory",
    "TemporaryFile", "SpooledTemporaryFile", "write_text", "write_bytes", "touch", "rmtree", "make_archive",
    "unpack_archive",
}
FS_MODULES = {"os", "shutil", "tempfile", "pathlib"}
PATHLIB_METHODS = {"write_text", "write_bytes", "touch", "mkdir", "unlink", "rmdir", "rename", "symlink_to",
                   "hardlink_to", "chmod"}
EXEC_BUILTINS = {"eval", "exec", "compile", "__import__"}
EXEC_EXT = {"importlib.import_module", "importlib.__import__", "runpy.run_path", "runpy.run_module",
            "builtins.eval", "builtins.exec"}
# deserialisers that construct arbitrary objects / call arbitrary callables named in the data: code execution by another name
DESERIALIZE = {"yaml.load", "yaml.load_all", "yaml.unsafe_load", "yaml.unsafe_load_all", "yaml.full_load", "yaml.full_load_all",
               "yaml.Loader", "yaml.UnsafeLoader", "yaml.FullLoader", "yaml.CLoader", "yaml.CUnsafeLoader", "yaml.CFullLoader",
               "pickle.load", "pickle.loads", "pickle.Unpickler", "marshal.load", "marshal.loads", "shelve.open", "dill.load",
               "dill.loads", "cloudpickle.load", "cloudpickle.loads", "jsonpickle.decode"}
PROC_MODULES = {"subprocess", "multiprocessing", "pty"}
PROC_OS = {"system", "popen", "execv", "execve", "execl", "execlp", "execvp", "spawnl", "spawnv", "spawnlp",
           "spawnvp", "fork", "startfile", "posix_spawn", "kill"}
NET_MODULES = {"socket", "urllib", "urllib.request", "http", "http.client", "ftplib", "smtplib", "requests",
               "ssl", "asyncio", "xmlrpc"}


class Fn:
    def __init__(self, fqn, mod, node, cls, parent):
        self.fqn, self.mod, self.node, self.cls, self.parent = fqn, mod, node, cls, parent
        self.locals = {}  # nested defs / classes: name -> fqn-ish key
        self.idx = None


class World:
    def __init__(self):
        self.mods = {}     # module name -> ast
        self.sym = {}      # module name -> {name: entry}
        self.fns = {}      # fqn -> Fn
        self.classes = {}  # fqn -> [method fqns]
        self.methods = {}  # simple method name -> [fqn]
        self.sites = []    # effect sites (kind, module, line, text)
        self.notes = []

    # ---- collection
    def load(self):
        for m, (path, _pkg) in sorted(discover(include_tests=True).items()):
            if is_test_module(m):
                continue
            self.mods[m] = parse(path)
        for m, tree in self.mods.items():
            self.sym[m] = {}
            self._collect(m, tree.body, None, None, m)
        for m, tree in self.mods.items():
            self._imports(m, tree)
        # module-level code of each module as a pseudo-function "<module>"
        for m, tree in self.mods.items():
            node = ast.FunctionDef(name="<module>", args=ast.arguments(posonlyargs=[], args=[], vararg=None, kwonlyargs=[],
                                                                      kw_defaults=[], kwarg=None, defaults=[]),
                                   body=tree.body, decorator_list=[], returns=None, lineno=1, col_offset=0)
            self.fns[m + ".<module>"] = Fn(m + ".<module>", m, node, None, None)

    def _collect(self, mod, body, cls, parent, prefix):
        for n in body:
            if isinstance(n, (ast.FunctionDef, ast.AsyncFunctionDef)):
                fqn = prefix + "." + n.name
                while fqn in self.fns:      # re-definition under the same name: keep both
                    fqn += "'"
                fn = Fn(fqn, mod, n, cls, parent)
                self.fns[fqn] = fn
                if cls is not None and parent is None:
                    self.classes[cls].append(fqn)
                    self.methods.setdefault(n.name, []).append(fqn)
                if parent is not None:
                    parent.locals.setdefault(n.name, []).append(("func", fqn))
                elif cls is None:
                    self.sym[mod].setdefault(n.name, []).append(("func", fqn))
                self._collect_nested(mod, n, fn)
            elif isinstance(n, ast.ClassDef):
                cq = prefix + "." + n.name
                self.classes.setdefault(cq, [])
                if parent is not None:
                    parent.locals.setdefault(n.name, []).append(("class", cq))
                elif cls is None:
                    self.sym[mod].setdefault(n.name, []).append(("class", cq))
                self._collect(mod, n.body, cq, None, cq)
            elif isinstance(n, (ast.If, ast.Try, ast.With, ast.For, ast.While)):
                for fld in ("body", "orelse", "finalbody"):
                    self._collect(mod, getattr(n, fld, []) or [], cls, parent, prefix)
                for h in getattr(n, "handlers", []) or []:
                    self._collect(mod, h.body, cls, parent, prefix)

    def _collect_nested(self, mod, fnode, fn):
        """defs/classes nested anywhere inside a function body."""
        stack = list(fnode.body)
        while stack:
            n = stack.pop()
            if isinstance(n, (ast.FunctionDef, ast.AsyncFunctionDef, ast.ClassDef)):
                self._collect(mod, [n], None, fn, fn.fqn + ".<locals>")
                continue
            for ch in ast.iter_child_nodes(n):
                if isinstance(ch, ast.stmt):
                    stack.append(ch)
                elif isinstance(ch, ast.excepthandler) or isinstance(ch, getattr(ast, "match_case", ())):
                    stack.extend(ch.body)

    def _imports(self, mod, tree):
        pkg = mod if os.path.basename(discover()[mod][0]) == "__init__.py" else mod.rpartition(".")[0]
        for n in ast.walk(tree):
            if isinstance(n, ast.Import):
                for a in n.names:
                    if a.asname:
                        self.sym[mod].setdefault(a.asname, []).append(("mod", a.name))
                    else:
                        top = a.name.split(".")[0]
                        self.sym[mod].setdefault(top, []).append(("mod", top))
            elif isinstance(n, ast.ImportFrom):
                base = n.module or ""
                if n.level:
                    parts = pkg.split(".")
                    parts = parts[: len(parts) - (n.level - 1)]
                    base = ".".join(parts + ([n.module] if n.module else []))
                for a in n.names:
                    self.sym[mod].setdefault(a.asname or a.name, []).append(("from", base, a.name))

    # ---- resolution: returns list of entries ('func', fqn) | ('class', fqn) | ('mod', name) | ('ext', dotted)
    def lookup_module_attr(self, modname, attr, depth=0):
        if depth > 8:
            return []
        sub = modname + "." + attr
        out = []
        if modname in self.mods:
            for e in self.sym[modname].get(attr, []):
                out += self.norm(e, depth + 1)
            if not out and sub in self.mods:
                out.append(("mod", sub))
            return out
        # external module
        if sub in self.mods:
            return [("mod", sub)]
        return [("ext", sub)]

    def norm(self, e, depth=0):
        if e[0] == "from":
            _, base, name = e
            if base in self.mods or (base + "." + name) in self.mods:
                r = self.lookup_module_attr(base, name, depth) if base in self.mods else [("mod", base + "." + name)]
                return r
            return [("ext", base + "." + name)]
        return [e]

    def resolve_name(self, fn, mod, name):
        f = fn
        while f is not None:
            if name in f.locals:
                return list(f.locals[name])
            f = f.parent
        out = []
        for e in self.sym[mod].get(name, []):
            out += self.norm(e)
        return out

    def resolve_expr(self, fn, mod, e):
        """Resolve a Name / dotted Attribute chain; [] if unknown."""
        if isinstance(e, ast.Name):
            return self.resolve_name(fn, mod, e.id)
        if isinstance(e, ast.Attribute):
            base = self.resolve_expr(fn, mod, e.value)
            out = []
            for b in base:
                if b[0] == "mod":
                    out += self.lookup_module_attr(b[1], e.attr)
                elif b[0] == "ext":
                    out.append(("ext", b[1] + "." + e.attr))
                elif b[0] == "class":
                    for mq in self.classes.get(b[1], []):
                        if mq.rsplit(".", 1)[1].rstrip("'") == e.attr:
                            out.append(("func", mq))
            return out
        return []


class Translator:
    def __init__(self, world):
        self.w = world
        self.fn = None
        self.dry_ok = False
        self.derived = {}

    # --- guards
    def dry_test(self, t):
        if not self.dry_ok:
            return None
        if isinstance(t, ast.Name) and t.id == FLAG[0]:
            return ("dry", True)
        if isinstance(t, ast.UnaryOp) and isinstance(t.op, ast.Not) and isinstance(t.operand, ast.Name) \
                and t.operand.id == FLAG[0]:
            return ("dry", False)
        if isinstance(t, ast.BoolOp) and isinstance(t.op, ast.And):
            subs = [self.dry_test(v) for v in t.values]
            for pol in (False, True):
                if any(s in (("dry", pol), ("imp", pol)) for s in subs):
                    return ("imp", pol)
        if isinstance(t, ast.Name) and t.id in self.derived:
            return self.derived[t.id]
        return None

    def guard(self, t):
        d = self.dry_test(t)
        if d is None:
            return "GOpaque"
        return "(%s %s)" % ("GDry" if d[0] == "dry" else "GImplies", "true" if d[1] else "false")

    def setup_fn(self, fn):
        self.fn = fn
        node = fn.node
        params = [a.arg for a in node.args.posonlyargs + node.args.args + node.args.kwonlyargs]
        stores = {}
        for n in ast.walk(node):
            if isinstance(n, (ast.FunctionDef, ast.AsyncFunctionDef, ast.Lambda)) and n is not node:
                continue
            if isinstance(n, ast.Name) and isinstance(n.ctx, (ast.Store, ast.Del)):
                stores[n.id] = stores.get(n.id, 0) + 1
        # nested functions/lambdas re-binding dry_run as a parameter shadow it: be conservative
        shadow = False
        for n in ast.walk(node):
            if n is not node and isinstance(n, (ast.FunctionDef, ast.AsyncFunctionDef, ast.Lambda)):
                a = n.args
                if any(x.arg == FLAG[0] for x in a.posonlyargs + a.args + a.kwonlyargs):
                    shadow = True
        # a closure sees the enclosing function's dry_run
        has_param = FLAG[0] in params
        f = fn.parent
        inherited = False
        while not has_param and f is not None:
            pa = f.node.args
            if any(x.arg == FLAG[0] for x in pa.posonlyargs + pa.args + pa.kwonlyargs):
                inherited = True
                break
            f = f.parent
        self.dry_ok = (has_param or inherited) and stores.get(FLAG[0], 0) == 0 and not shadow
        self.derived = {}
        if self.dry_ok:
            for n in ast.walk(node):
                tgt = val = None
                if isinstance(n, ast.Assign) and len(n.targets) == 1 and isinstance(n.targets[0], ast.Name):
                    tgt, val = n.targets[0].id, n.value
                elif isinstance(n, ast.AnnAssign) and isinstance(n.target, ast.Name) and n.value is not None:
                    tgt, val = n.target.id, n.value
                if tgt and tgt != FLAG[0] and stores.get(tgt, 0) == 1 and tgt not in params:
                    d = self.dry_test(val)
                    if d is not None:
                        self.derived[tgt] = ("imp", d[1])

    # --- effects
    def site(self, kind, node, text):
        try:
            code = " ".join(ast.unparse(node).split())
        except Exception:  # noqa
            code = "?"
        self.w.sites.append({"kind": kind, "module": self.fn.mod, "function": self.fn.fqn,
                             "line": getattr(node, "lineno", 0), "what": text, "code": code[:200]})
        return "Eff %s %d" % (kind, len(self.w.sites) - 1)

    def classify_ext(self, dotted):
        parts = dotted.split(".")
        top, last = parts[0], parts[-1]
        if dotted in EXEC_EXT or (top == "importlib" and last in ("import_module", "__import__", "exec_module")):
            return "KExec"
        if dotted in DESERIALIZE:
            return "KExec"
        if top in PROC_MODULES or (top == "os" and last in PROC_OS):
            return "KProc"
        if top in NET_MODULES or dotted.startswith("urllib.request"):
            return "KNet"
        if top in FS_MODULES and last in FS_FUNCS:
            if len(parts) >= 2 and parts[1] == "path":
                return None
            return "KFs"
        return None

    def open_mode_effect(self, c):
        mode = None
        if len(c.args) > 1:
            mode = c.args[1]
        for k in c.keywords:
            if k.arg == "mode":
                mode = k.value
            if k.arg is None:
                return True
        if mode is None:
            return False
        if isinstance(mode, ast.Constant) and isinstance(mode.value, str):
            return any(ch in mode.value for ch in "wax+")
        if isinstance(mode, ast.Name) and self.fn is not None:
            return self.param_mode_effect(mode.id)
        return True

    def param_mode_effect(self, pname):
        """open(x, <parameter>): harmless iff the parameter has a literal read-mode default, is never re-bound,
        and no call site anywhere in the package (matched by the callee's simple name, also through partial)
        supplies it with anything but a literal read mode."""
        node = self.fn.node
        a = node.args
        pos = [x.arg for x in a.posonlyargs + a.args]
        if pname not in pos:
            return True
        for n in ast.walk(node):
            if isinstance(n, ast.Name) and n.id == pname and isinstance(n.ctx, (ast.Store, ast.Del)):
                return True
        i = pos.index(pname) - (len(pos) - len(a.defaults))
        if i < 0:
            return True
        d = a.defaults[i]
        if not (isinstance(d, ast.Constant) and isinstance(d.value, str)) or any(ch in d.value for ch in "wax+"):
            return True
        idx = pos.index(pname)
        simple = node.name

        def readonly(x):
            return isinstance(x, ast.Constant) and isinstance(x.value, str) and not any(ch in x.value for ch in "wax+")

        def tname(f):
            return f.id if isinstance(f, ast.Name) else f.attr if isinstance(f, ast.Attribute) else None

        for tree in self.w.mods.values():
            for c in ast.walk(tree):
                if not isinstance(c, ast.Call):
                    continue
                args = None
                if tname(c.func) == simple:
                    args = c.args
                elif tname(c.func) in ("partial", "rpartial") and c.args and tname(c.args[0]) == simple:
                    if tname(c.func) == "rpartial" and len(c.args) > 1:
                        return True
                    args = c.args[1:]
                if args is None:
                    continue
                if any(isinstance(x, ast.Starred) for x in args) or any(k.arg is None for k in c.keywords):
                    return True
                if len(args) > idx and not readonly(args[idx]):
                    return True
                for k in c.keywords:
                    if k.arg == pname and not readonly(k.value):
                        return True
        return False

    def dry_arg(self, c, callee_fqns, partial_=False):
        """How dry_run reaches the callee(s)."""
        for k in c.keywords:
            if k.arg == FLAG[0]:
                if isinstance(k.value, ast.Name) and k.value.id == FLAG[0] and self.dry_ok:
                    return "DPass"
                if isinstance(k.value, ast.Constant) and isinstance(k.value.value, bool):
                    return "(DConst %s)" % ("true" if k.value.value else "false")
                return "DUnknown"
            if k.arg is None:
                return "DUnknown"
        res = None
        for fq in callee_fqns:
            node = self.w.fns[fq].node
            a = node.args
            pos = [x.arg for x in a.posonlyargs + a.args]
            allp = pos + [x.arg for x in a.kwonlyargs]
            if FLAG[0] not in allp:
                # closure: inherits the lexically enclosing flag
                r = "DPass"
            else:
                r = None
                args = c.args[1:] if partial_ else c.args
                if any(isinstance(x, ast.Starred) for x in args):
                    r = "DUnknown"
                elif FLAG[0] in pos:
                    i = pos.index(FLAG[0])
                    if self.w.fns[fq].cls is not None and pos and pos[0] in ("self", "cls"):
                        i -= 1
                    if 0 <= i < len(args):
                        x = args[i]
                        if isinstance(x, ast.Name) and x.id == FLAG[0] and self.dry_ok:
                            r = "DPass"
                        elif isinstance(x, ast.Constant) and isinstance(x.value, bool):
                            r = "(DConst %s)" % ("true" if x.value else "false")
                        else:
                            r = "DUnknown"
                if r is None:
                    # not supplied: default value, or supplied later (partial) -> unknown
                    if partial_:
                        r = "DUnknown"
                    else:
                        dflt = None
                        if FLAG[0] in pos:
                            i = pos.index(FLAG[0]) - (len(pos) - len(a.defaults))
                            if i >= 0:
                                dflt = a.defaults[i]
                        else:
                            i = [x.arg for x in a.kwonlyargs].index(FLAG[0])
                            dflt = a.kw_defaults[i]
                        if isinstance(dflt, ast.Constant) and isinstance(dflt.value, bool):
                            r = "(DConst %s)" % ("true" if dflt.value else "false")
                        else:
                            r = "DUnknown"
            if res is None:
                res = r
            elif res != r:
                res = "DUnknown"
        return res or "DPass"

    def calls_to(self, entries, c=None, partial_=False):
        out = []
        for e in entries:
            if e[0] == "func":
                d = self.dry_arg(c, [e[1]], partial_) if c is not None else "DPass"
                # a bare reference to a function with its own dry_run parameter: flag supplied elsewhere
                if c is None:
                    a = self.w.fns[e[1]].node.args
                    if any(x.arg == FLAG[0] for x in a.posonlyargs + a.args + a.kwonlyargs):
                        d = "DUnknown"
                out.append("Call %d %s" % (self.w.fns[e[1]].idx, d))
            elif e[0] == "class":
                for mq in self.w.classes.get(e[1], []):
                    a = self.w.fns[mq].node.args
                    d = "DUnknown" if any(x.arg == FLAG[0] for x in a.posonlyargs + a.args + a.kwonlyargs) else "DPass"
                    out.append("Call %d %s" % (self.w.fns[mq].idx, d))
        return out

    # --- expressions
    def expr(self, e):
        out = []
        if e is None:
            return out
        if isinstance(e, ast.IfExp):
            out += self.expr(e.test)
            t, f = self.expr(e.body), self.expr(e.orelse)
            if t or f:
                out.append(("if", self.guard(e.test), t, f))
            return out
        if isinstance(e, ast.BoolOp):
            # short-circuit: later operands are conditional
            out += self.expr(e.values[0])
            rest = []
            for v in e.values[1:]:
                rest += self.expr(v)
            if rest:
                out.append(("if", "GOpaque", rest, []))
            return out
        if isinstance(e, ast.Lambda):
            b = self.expr(e.body)
            for d in e.args.defaults + [x for x in e.args.kw_defaults if x is not None]:
                out += self.expr(d)
            return out + b  # body treated as executed where the lambda is written (conservative)
        if isinstance(e, ast.Call):
            f = e.func
            res = self.w.resolve_expr(self.fn, self.fn.mod, f) if isinstance(f, (ast.Name, ast.Attribute)) else []
            is_partial = any(r == ("ext", "functools.partial") for r in res) and e.args and \
                isinstance(e.args[0], (ast.Name, ast.Attribute)) and \
                any(r[0] in ("func", "class") for r in self.w.resolve_expr(self.fn, self.fn.mod, e.args[0]))
            for a in (e.args[1:] if is_partial else e.args):
                out += self.expr(a.value if isinstance(a, ast.Starred) else a)
            for k in e.keywords:
                out += self.expr(k.value)
            if isinstance(f, ast.Name) and not res:
                if f.id == "open" and self.open_mode_effect(e):
                    out.append(self.site("KFs", e, "open(..., mode) with a write/unknown mode"))
                elif f.id in EXEC_BUILTINS:
                    out.append(self.site("KExec", e, f.id + "(...)"))
                return out
            if not res:
                if isinstance(f, ast.Attribute):
                    out += self.expr(f.value)
                    if f.attr in PATHLIB_METHODS:
                        out.append(self.site("KFs", e, "." + f.attr + "(...) on an unresolved object"))
                    elif f.attr == "open" and self.open_mode_effect(ast.Call(func=f, args=[ast.Constant(0)] + e.args,
                                                                              keywords=e.keywords)):
                        out.append(self.site("KFs", e, ".open(mode) on an unresolved object"))
                    elif f.attr in self.w.methods:
                        for mq in self.w.methods[f.attr]:
                            out += self.calls_to([("func", mq)], e)
                else:
                    out += self.expr(f)
                return out
            for r in res:
                if r[0] == "ext":
                    if r[1] in ("functools.partial",) and e.args:
                        tgt = self.w.resolve_expr(self.fn, self.fn.mod, e.args[0]) \
                            if isinstance(e.args[0], (ast.Name, ast.Attribute)) else []
                        out += self.calls_to(tgt, e, partial_=True)
                        continue
                    if r[1] in ("io.open", "builtins.open", "codecs.open") and self.open_mode_effect(e):
                        out.append(self.site("KFs", e, r[1]))
                        continue
                    k = self.classify_ext(r[1])
                    if k:
                        out.append(self.site(k, e, r[1] + "(...)"))
                else:
                    out += self.calls_to([r], e)
            return out
        if isinstance(e, (ast.Name, ast.Attribute)):
            if isinstance(getattr(e, "ctx", None), ast.Load):
                res = self.w.resolve_expr(self.fn, self.fn.mod, e)
                refs = [r for r in res if r[0] in ("func", "class") and not (r[0] == "func" and r[1] == self.fn.fqn)]
                if refs:
                    # partial(f, ...) handled at the call; any other mention = value reference
                    return out + self.calls_to(refs)
                exts = [r for r in res if r[0] == "ext"]
                for r in exts:
                    k = self.classify_ext(r[1])
                    if k:
                        out.append(self.site(k, e, "reference to " + r[1]))
                if not res and isinstance(e, ast.Attribute):
                    out += self.expr(e.value)
            return out
        if isinstance(e, (ast.ListComp, ast.SetComp, ast.GeneratorExp, ast.DictComp)):
            inner = []
            for g in e.generators:
                out += self.expr(g.iter) if g is e.generators[0] else []
                if g is not e.generators[0]:
                    inner += self.expr(g.iter)
                for i in g.ifs:
                    inner += self.expr(i)
            if isinstance(e, ast.DictComp):
                inner += self.expr(e.key) + self.expr(e.value)
            else:
                inner += self.expr(e.elt)
            if inner:
                out.append(("loop", inner))
            return out
        for ch in ast.iter_child_nodes(e):
            if isinstance(ch, ast.expr):
                out += self.expr(ch)
            elif isinstance(ch, ast.keyword):
                out += self.expr(ch.value)
            elif isinstance(ch, ast.comprehension):
                out += self.expr(ch.iter)
                for i in ch.ifs:
                    out += self.expr(i)
        return out

    # --- statements
    def stmts(self, ss):
        out = []
        for s in ss:
            if isinstance(s, ast.If):
                if self.fn.node.name == "<module>" and " ".join(ast.unparse(s.test).split()) in (
                        "__name__ == '__main__'", "'__main__' == __name__"):
                    out += self.stmts(s.orelse)   # not executed at import
                    continue
                out += self.expr(s.test)
                t, f = self.stmts(s.body), self.stmts(s.orelse)
                if t or f:
                    out.append(("if", self.guard(s.test), t, f))
            elif isinstance(s, (ast.For, ast.AsyncFor)):
                out += self.expr(s.iter)
                b = self.stmts(s.body)
                if b:
                    out.append(("loop", b))
                out += self.stmts(s.orelse)
            elif isinstance(s, ast.While):
                b = self.expr(s.test) + self.stmts(s.body)
                if b:
                    out.append(("loop", b))
                out += self.stmts(s.orelse)
            elif isinstance(s, (ast.With, ast.AsyncWith)):
                for it in s.items:
                    out += self.expr(it.context_expr)
                out += self.stmts(s.body)
            elif isinstance(s, ast.Try) or s.__class__.__name__ == "TryStar":
                out += self.stmts(s.body)
                for h in s.handlers:
                    b = self.expr(h.type) + self.stmts(h.body)
                    if b:
                        out.append(("if", "GOpaque", b, []))
                out += self.stmts(s.orelse) + self.stmts(s.finalbody)
            elif isinstance(s, (ast.FunctionDef, ast.AsyncFunctionDef)):
                for d in s.decorator_list + s.args.defaults + [x for x in s.args.kw_defaults if x is not None]:
                    out += self.expr(d)
            elif isinstance(s, ast.ClassDef):
                for d in s.decorator_list + s.bases:
                    out += self.expr(d)
                out += self.stmts(s.body)      # a class body is executed where it is written
            elif s.__class__.__name__ == "Match":
                out += self.expr(s.subject)
                for c in s.cases:
                    b = self.expr(c.guard) + self.stmts(c.body)
                    if b:
                        out.append(("if", "GOpaque", b, []))
            elif isinstance(s, (ast.Return, ast.Expr, ast.Assign, ast.AugAssign, ast.AnnAssign, ast.Raise, ast.Assert,
                                ast.Delete, ast.Pass, ast.Break, ast.Continue, ast.Global, ast.Nonlocal, ast.Import,
                                ast.ImportFrom)):
                for ch in ast.iter_child_nodes(s):
                    if isinstance(ch, ast.expr):
                        out += self.expr(ch)
            else:
                out.append(self.site("KUnsupported", s, "statement " + s.__class__.__name__))
        return out


def render(block):
    s = "BNil"
    for st in reversed(block):
        if isinstance(st, str):
            x = st
        elif st[0] == "if":
            x = "If %s (%s) (%s)" % (st[1], render(st[2]), render(st[3]))
        else:
            x = "Loop (%s)" % render(st[1])
        s = "BCons (%s) (%s)" % (x, s)
    return s


def size(block):
    n = 0
    for st in block:
        n += 1
        if not isinstance(st, str):
            n += size(st[2]) + size(st[3]) if st[0] == "if" else size(st[1])
    return n


ENTRIES = {
    "exmod": "cdd.compound.exmod.exmod",
    "main": "cdd.__main__.main",
    "doctrans": "cdd.compound.doctrans.doctrans",
    "sync_properties": "cdd.compound.sync_properties.sync_properties",
    "gen": "cdd.compound.gen.gen",
    "ground_truth": "cdd.shared.conformance.ground_truth",
    "parse_docstring": "cdd.shared.docstring_parsers.parse_docstring",
    "emit_docstring": "cdd.docstring.emit.docstring",
}


def build(flag="dry_run"):
    FLAG[0] = flag
    w = World()
    w.load()
    order = sorted(w.fns)
    for i, q in enumerate(order):
        w.fns[q].idx = i
    tr = Translator(w)
    blocks = []
    for q in order:
        fn = w.fns[q]
        tr.setup_fn(fn)
        blocks.append(tr.stmts(fn.node.body))
    return w, order, blocks


def analysis_entries(w):
    """Public functions of the parser / emitter modules + the commands that analyse files."""
    out = []
    for q, fn in sorted(w.fns.items()):
        if fn.cls is not None or fn.parent is not None or fn.node.name.startswith("_") or fn.node.name == "<module>":
            continue
        parts = fn.mod.split(".")
        if "parse" in parts or "emit" in parts or fn.mod in ("cdd.shared.docstring_parsers", "cdd.shared.conformance",
                                                            "cdd.compound.doctrans", "cdd.compound.gen",
                                                            "cdd.compound.sync_properties", "cdd.shared.cst",
                                                            "cdd.compound.doctrans_utils"):
            out.append(q)
    return out


def site_key(s):
    return "%s|%s|%s" % (s["kind"], s["function"], s["code"])


def generate():
    w, order, blocks = build("dry_run")
    w2, order2, blocks2 = build("input_eval")
    assert order == order2 and [site_key(s) for s in w.sites] == [site_key(s) for s in w2.sites]
    lines = ["(* GENERATED by translate/effects.py from /repo -- do not edit. *)",
             "From Coq Require Import List String.", "Import ListNotations.", "From CDD Require Import EffectSem.",
             "Local Open Scope string_scope.", ""]
    for nm, bl, flag in (("skeleton", blocks, "dry_run"), ("skeleton_ie", blocks2, "input_eval")):
        lines.append("(* guards classified against the parameter `%s` *)" % flag)
        lines.append("Definition %s : prog := [" % nm)
        for i, q in enumerate(order):
            lines.append("  (* %d %s *) %s%s" % (i, q.replace("*)", "* )"), render(bl[i]), ";" if i + 1 < len(order) else ""))
        lines.append("].")
    missing = []
    for k, q in ENTRIES.items():
        if q in w.fns:
            lines.append("Definition id_%s : nat := %d." % (k, w.fns[q].idx))
        else:
            missing.append(q)
            lines.append("Definition id_%s : nat := %d." % (k, len(order) + 7))  # out of range = bad_block
    ents = analysis_entries(w)
    lines.append("Definition analysis_entries : list nat := [%s]." % "; ".join(str(w.fns[q].idx) for q in ents))
    lines.append("Definition module_bodies : list nat := [%s]." %
                 "; ".join(str(w.fns[q].idx) for q in order if q.endswith(".<module>")))
    lines.append("Definition site_info : list (nat * string) := [")
    lines.append(";\n".join('  (%d, "%s")' % (i, site_key(s).replace('"', '""')) for i, s in enumerate(w.sites)))
    lines.append("].")
    # importlib.util.find_spec imports every PARENT package of a dotted name: each call is listed (module|function|call text)
    specs = []
    from .common import discover as _discover, is_test_module as _is_test, parse as _parse
    for m_, (path_, _p) in sorted(_discover().items()):
        if _is_test(m_):
            continue
        tree_ = _parse(path_)
        parents_ = {}
        for n_ in ast.walk(tree_):
            for ch_ in ast.iter_child_nodes(n_):
                parents_[ch_] = n_
        for n_ in ast.walk(tree_):
            if isinstance(n_, ast.Call) and ((isinstance(n_.func, ast.Name) and n_.func.id == "find_spec") or
                                            (isinstance(n_.func, ast.Attribute) and n_.func.attr == "find_spec")):
                f_ = n_
                while f_ in parents_ and not isinstance(f_, (ast.FunctionDef, ast.AsyncFunctionDef)):
                    f_ = parents_[f_]
                fn_ = f_.name if isinstance(f_, (ast.FunctionDef, ast.AsyncFunctionDef)) else "<module>"
                specs.append("%s|%s|%s" % (m_, fn_, " ".join(ast.unparse(n_).split())[:120]))
    lines.append("Definition find_spec_calls : list string := [%s]." % "; ".join('"%s"' % x.replace('"', '""') for x in specs))
    lines.append("Definition n_functions : nat := %d." % len(order))
    lines.append("Definition n_sites : nat := %d." % len(w.sites))
    meta = {"functions": len(order), "sites": len(w.sites), "stmts": sum(size(b) for b in blocks),
            "unsupported": [s for s in w.sites if s["kind"] == "KUnsupported"], "missing_entries": missing,
            "site_table": w.sites, "names": order, "analysis_entries": ents, "find_spec_calls": specs}
    return {"EffectSkeleton.v": "\n".join(lines) + "\n"}, meta


# ---- Python port of the checker, used only to SEARCH for a witness path when the theorem fails
def find_path(order, blocks, entry_idx, dry, bad_kinds):
    seen = set()

    def walk(block, dry, path):
        for st in block:
            if isinstance(st, str):
                tok = st.split()
                if tok[0] == "Eff":
                    if (bad_kinds(tok[1], int(tok[2])) if callable(bad_kinds) else tok[1] in bad_kinds):
                        return path + [("EFF", tok[1], int(tok[2]))]
                else:  # Call idx darg
                    idx = int(tok[1])
                    d = " ".join(tok[2:])
                    vals = [dry] if d == "DPass" else [True, False] if d == "DUnknown" else ["true" in d]
                    for v in vals:
                        if (idx, v) in seen:
                            continue
                        seen.add((idx, v))
                        r = walk(blocks[idx], v, path + [("CALL", order[idx], v)]) if idx < len(blocks) else path + [("BAD-ID", idx)]
                        if r:
                            return r
            elif st[0] == "if":
                g = st[1]
                brs = [st[2], st[3]]
                if g.startswith("(GDry"):
                    pol = "true" in g
                    brs = [st[2]] if dry == pol else [st[3]]
                elif g.startswith("(GImplies"):
                    pol = "true" in g
                    brs = [st[2], st[3]] if dry == pol else [st[3]]
                for b in brs:
                    r = walk(b, dry, path)
                    if r:
                        return r
            else:
                r = walk(st[1], dry, path)
                if r:
                    return r
        return None

    seen.add((entry_idx, dry))
    return walk(blocks[entry_idx], dry, [("ENTRY", order[entry_idx], dry)])


if __name__ == "__main__":
    import json
    import sys
    w, order, blocks = build()
    for k, q in ENTRIES.items():
        if q in w.fns:
            p = find_path(order, blocks, w.fns[q].idx, True, {"KFs", "KUnsupported"})
            print(k, "dry=True fs:", "SAFE" if p is None else p)
            if p:
                print("   site:", w.sites[p[-1][2]] if p[-1][0] == "EFF" else None)
    print(len(order), "functions", len(w.sites), "sites")
    if len(sys.argv) > 1:
        print(json.dumps(w.sites, indent=1))
