"""cdd/compound/exmod.py:exmod_single_folder -> the black/whitelist gate as a boolean formula (Gen/ExmodGate.v).

Atoms (about mod_path and the two sets):  AInBl  `mod_path in blacklist`     AInWl  `mod_path in whitelist`
                                          ABlEmpty `not blacklist`           AWlEmpty `not whitelist`
                                          ABothEmpty `sum(map(len, (blacklist, whitelist))) == 0`
Anything else becomes BUnknown (the Coq evaluator then has no theorem).  Also emitted: the text of the statement that
normalises the two lists, whether `if not proceed: return` directly follows the gate, and the calls made before it.
"""
import ast
import os

from .common import REPO, coq_string


def U(n):
    return " ".join(ast.unparse(n).split())


def tr(e):
    if isinstance(e, ast.Constant) and e.value is True:
        return "BTrue"
    if isinstance(e, ast.Constant) and e.value is False:
        return "BFalse"
    if isinstance(e, ast.BoolOp):
        op = "BAnd" if isinstance(e.op, ast.And) else "BOr"
        out = tr(e.values[0])
        for v in e.values[1:]:
            out = "(%s %s %s)" % (op, out, tr(v))
        return out
    if isinstance(e, ast.UnaryOp) and isinstance(e.op, ast.Not):
        if U(e.operand) == "blacklist":
            return "(BAtom ABlEmpty)"
        if U(e.operand) == "whitelist":
            return "(BAtom AWlEmpty)"
        return "(BNot %s)" % tr(e.operand)
    if isinstance(e, ast.Name) and e.id == "blacklist":
        return "(BNot (BAtom ABlEmpty))"
    if isinstance(e, ast.Name) and e.id == "whitelist":
        return "(BNot (BAtom AWlEmpty))"
    if isinstance(e, ast.IfExp):
        return "(BIf %s %s %s)" % (tr(e.test), tr(e.body), tr(e.orelse))
    if isinstance(e, ast.Compare) and len(e.ops) == 1:
        l, r = U(e.left), U(e.comparators[0])
        if l == "mod_path" and r in ("blacklist", "whitelist"):
            atom = "(BAtom %s)" % ("AInBl" if r == "blacklist" else "AInWl")
            if isinstance(e.ops[0], ast.In):
                return atom
            if isinstance(e.ops[0], ast.NotIn):
                return "(BNot %s)" % atom
        if isinstance(e.ops[0], ast.Eq) and r == "0" and l in ("sum(map(len, (blacklist, whitelist)))", "sum(map(len, (whitelist, blacklist)))",
                                                                 "len(blacklist) + len(whitelist)"):
            return "(BAtom ABothEmpty)"
    if isinstance(e, ast.Call) and isinstance(e.func, ast.Name) and e.func.id in ("any", "all") and len(e.args) == 1 \
            and isinstance(e.args[0], (ast.Tuple, ast.List)) and not e.keywords:
        return "(%s [%s])" % ("BAny" if e.func.id == "any" else "BAll", "; ".join(tr(x) for x in e.args[0].elts))
    return "(BUnknown %s)" % coq_string(U(e)[:100])


def generate():
    path = os.path.join(REPO, "cdd", "compound", "exmod.py")
    tree = ast.parse(open(path).read())
    fn = next((n for n in tree.body if isinstance(n, ast.FunctionDef) and n.name == "exmod_single_folder"), None)
    gate, norm, modpath, guarded, calls_before = '(BUnknown "no gate found")', "", "", False, []
    if fn is not None:
        body = [s for s in fn.body if not (isinstance(s, ast.Expr) and isinstance(s.value, ast.Constant))]
        for i, s in enumerate(body):
            tgt = s.target if isinstance(s, ast.AnnAssign) else (s.targets[0] if isinstance(s, ast.Assign) and len(s.targets) == 1 else None)
            if tgt is not None and U(tgt) == "proceed" and s.value is not None:
                gate = tr(s.value)
                nxt = body[i + 1] if i + 1 < len(body) else None
                guarded = (isinstance(nxt, ast.If) and U(nxt.test) == "not proceed" and len(nxt.body) == 1
                           and isinstance(nxt.body[0], ast.Return) and nxt.body[0].value is None and not nxt.orelse)
                for prev in body[:i]:
                    ptgt = prev.target if isinstance(prev, ast.AnnAssign) else (prev.targets[0] if isinstance(prev, ast.Assign) else None)
                    if ptgt is not None and U(ptgt) in ("blacklist, whitelist", "(blacklist, whitelist)"):
                        norm = U(prev.value)
                    elif ptgt is not None and U(ptgt) == "mod_path":
                        modpath = U(prev.value)
                    for c in ast.walk(prev):
                        if isinstance(c, ast.Call):
                            calls_before.append(U(c.func))
                break
    # the command line: how `--blacklist` / `--whitelist` of the exmod sub-parser collect their values (every occurrence must count)
    cli = []
    mtree = ast.parse(open(os.path.join(REPO, "cdd", "__main__.py")).read())
    for c in ast.walk(mtree):
        if isinstance(c, ast.Call) and isinstance(c.func, ast.Attribute) and c.func.attr == "add_argument" and U(c.func.value) == "exmod_parser" \
                and c.args and isinstance(c.args[0], ast.Constant) and c.args[0].value in ("--blacklist", "--whitelist"):
            kws = sorted("%s=%s" % (k.arg, U(k.value)) for k in c.keywords if k.arg not in ("help", "dest", "metavar"))
            cli.append((" ".join(a.value for a in c.args if isinstance(a, ast.Constant)), ", ".join(kws)))
    text = ["(* GENERATED by translate/gate.py from /repo/cdd/compound/exmod.py -- do not edit. *)",
            "From Coq Require Import List String.", "Import ListNotations.", "From CDD Require Import Gate.",
            "Local Open Scope string_scope.", "",
            "Definition exmod_gate : bexp := %s." % gate,
            "Definition gate_guards_return : bool := %s." % ("true" if guarded else "false"),
            "Definition list_normalisation : string := %s." % coq_string(norm),
            "Definition mod_path_expr : string := %s." % coq_string(modpath),
            "Definition calls_before_gate : list string := [%s]." % "; ".join(coq_string(c) for c in sorted(set(calls_before))),
            "(* exmod_parser.add_argument(<option>, <keywords other than help>) of cdd/__main__.py *)",
            "Definition cli_list_options : list (string * string) := [%s]." % "; ".join("(%s, %s)" % (coq_string(a), coq_string(b)) for a, b in sorted(cli)), ""]
    return {"ExmodGate.v": "\n".join(text)}, {"gate": gate, "guarded": guarded, "normalisation": norm, "calls_before": sorted(set(calls_before)), "cli_list_options": sorted(cli)}
