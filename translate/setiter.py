"""Inventory of every place the non-test package ITERATES a set (Gen/SetIterSites.v), plus mutable default
arguments and module-level state mutated from function bodies.

A set-valued expression (syntactically): set(...)/frozenset(...) calls, set literals/comprehensions, `&  | - ^` between
set-valued operands or dict views (.keys()/.items()), a local name assigned (only) from such an expression in the same
function, `.union/.intersection/.difference/.symmetric_difference(...)` results.

Its iteration context is found by walking up through order-transparent wrappers (map, filter, filterfalse, chain,
chain.from_iterable, generator/list comprehension, iter, enumerate, reversed, tuple, list, deque, starred, join):
  Insensitive  consumed by sorted/min/max/sum/len/any/all/set/frozenset/Counter, a set comprehension, a membership
               test, set algebra, bool test, comparison (==, <=, ...), isinstance/issubclass, or not iterated at all
  Ordered      anything else that iterates it: for loop, list/dict/generator result used otherwise, join, next(iter()),
               argument to an unknown callable
Fail closed: an unknown consumer is Ordered.
"""
import ast

from .common import coq_string, discover, is_test_module, parse

TRANSPARENT_CALLS = {"map", "filter", "filterfalse", "chain", "from_iterable", "iter", "enumerate", "reversed", "tuple",
                     "list", "deque", "islice", "takewhile", "dropwhile", "starmap", "zip", "join", "partial"}
INSENSITIVE_CALLS = {"sorted", "min", "max", "sum", "len", "any", "all", "set", "frozenset", "Counter", "isinstance",
                     "issubclass", "bool", "contains", "issubset", "issuperset", "isdisjoint", "update", "intersection",
                     "union", "difference", "symmetric_difference", "intersection_update", "difference_update",
                     "__contains__", "rpartial", "count_iter_items", "str", "repr", "print", "hash", "type", "id", "frozenset"}
SET_METHODS = {"union", "intersection", "difference", "symmetric_difference", "copy"}
VIEW_METHODS = {"keys", "items"}


def U(n):
    return " ".join(ast.unparse(n).split())


def tname(f):
    return f.id if isinstance(f, ast.Name) else f.attr if isinstance(f, ast.Attribute) else None


class Scope:
    def __init__(self, node):
        self.node = node
        self.setvars = {}


def set_names(fn):
    """local names assigned exactly once, from a set-valued expression (fixed point, two rounds)."""
    stores = {}
    assigns = {}
    for n in ast.walk(fn):
        if isinstance(n, ast.Name) and isinstance(n.ctx, ast.Store):
            stores[n.id] = stores.get(n.id, 0) + 1
        tgt = val = None
        if isinstance(n, ast.Assign) and len(n.targets) == 1 and isinstance(n.targets[0], ast.Name):
            tgt, val = n.targets[0].id, n.value
        elif isinstance(n, ast.AnnAssign) and isinstance(n.target, ast.Name) and n.value is not None:
            tgt, val = n.target.id, n.value
        if tgt:
            assigns.setdefault(tgt, []).append(val)
    names = set()
    for _ in range(3):
        for k, vals in assigns.items():
            if stores.get(k, 0) == len(vals) and all(is_set_expr(v, names) for v in vals):
                names.add(k)
    return names


def is_view(e):
    return isinstance(e, ast.Call) and isinstance(e.func, ast.Attribute) and e.func.attr in VIEW_METHODS and not e.args


def is_set_expr(e, names):
    if isinstance(e, (ast.Set, ast.SetComp)):
        return True
    if isinstance(e, ast.Call):
        n = tname(e.func)
        if isinstance(e.func, ast.Name) and n in ("set", "frozenset"):
            return True
        if isinstance(e.func, ast.Attribute) and n in SET_METHODS and n != "copy" and is_set_expr(e.func.value, names):
            return True
        if isinstance(e.func, ast.Attribute) and n in ("union", "intersection", "difference", "symmetric_difference"):
            # frozenset.union(a, b) / x.keys().__and__ ...
            return isinstance(e.func.value, ast.Name) and e.func.value.id in ("set", "frozenset") or \
                is_set_expr(e.func.value, names)
        return False
    if isinstance(e, ast.BinOp) and isinstance(e.op, (ast.BitAnd, ast.BitOr, ast.Sub, ast.BitXor)):
        l, r = e.left, e.right
        return (is_set_expr(l, names) or is_view(l)) and (is_set_expr(r, names) or is_view(r) or True) and \
            (is_set_expr(l, names) or is_view(l) or is_set_expr(r, names))
    if isinstance(e, ast.Name):
        return e.id in names
    if isinstance(e, ast.IfExp):
        return is_set_expr(e.body, names) or is_set_expr(e.orelse, names)
    return False


def classify(node, parents):
    """Walk up from a set-valued expression to its consumer."""
    cur = node
    while True:
        p = parents.get(cur)
        if p is None:
            return "Insensitive", "unused"
        if isinstance(p, ast.Call):
            if cur is p.func or (isinstance(p.func, ast.Attribute) and cur is p.func.value):
                # method call on the set: x.method(...)
                m = tname(p.func)
                if m in INSENSITIVE_CALLS or m in ("add", "discard", "remove", "clear", "copy", "get"):
                    return "Insensitive", "method " + str(m)
                if m == "pop":
                    return "Ordered", "set.pop()"
                return "Ordered", "method " + str(m)
            n = tname(p.func)
            if n in ("sorted", "min", "max") and any(k.arg == "key" for k in p.keywords):
                # a key function need not be injective: elements with equal keys keep the order the set yields them in
                return "Ordered", "%s with a key function (ties keep the set's order)" % n
            if n in INSENSITIVE_CALLS:
                return "Insensitive", "consumed by " + n
            if n in TRANSPARENT_CALLS:
                if n == "partial" and p.args and cur is p.args[0]:
                    return "Ordered", "partial callee"
                cur = p
                continue
            if n == "next":
                return "Ordered", "next()"
            return "Ordered", "argument of " + str(n)
        if isinstance(p, ast.comprehension):
            if cur is p.iter:
                # find the comprehension node owning p
                owner = parents.get(p)
                if isinstance(owner, ast.SetComp):
                    return "Insensitive", "set comprehension"
                if isinstance(owner, ast.DictComp):
                    return "Ordered", "dict comprehension (insertion order)"
                cur = owner
                continue
            return "Insensitive", "comprehension condition"
        if isinstance(p, (ast.For, ast.AsyncFor)):
            if cur is p.iter:
                return "Ordered", "for loop"
            return "Insensitive", "inside for"
        if isinstance(p, ast.Compare):
            return "Insensitive", "comparison / membership"
        if isinstance(p, ast.BinOp) and isinstance(p.op, (ast.BitAnd, ast.BitOr, ast.Sub, ast.BitXor)):
            return "Insensitive", "set algebra operand"   # the enclosing BinOp is itself a set expression (visited separately)
        if isinstance(p, (ast.BoolOp, ast.UnaryOp, ast.If, ast.While, ast.IfExp, ast.Assert)):
            if isinstance(p, ast.IfExp) and cur is not p.test:
                cur = p
                continue
            return "Insensitive", "truth test"
        if isinstance(p, ast.Starred):
            cur = p
            continue
        if isinstance(p, (ast.Assign, ast.AnnAssign, ast.NamedExpr)):
            if isinstance(cur, (ast.Set, ast.SetComp)) or is_set_expr(cur, set()):
                return "Insensitive", "stored (uses of the name are visited separately)"
            return "Ordered", "iteration result stored"
        if isinstance(p, ast.keyword):
            owner = parents.get(p)
            n = tname(owner.func) if isinstance(owner, ast.Call) else None
            if n in INSENSITIVE_CALLS:
                return "Insensitive", "keyword of " + str(n)
            if isinstance(cur, (ast.Set, ast.SetComp)) or is_set_expr(cur, set()):
                return "Insensitive", "passed as a set value (keyword %s)" % p.arg
            return "Ordered", "keyword argument"
        if isinstance(p, (ast.Return, ast.Expr, ast.Yield, ast.YieldFrom)):
            if is_set_expr(cur, set()) or isinstance(cur, (ast.Set, ast.SetComp)):
                return "Insensitive", "returned as a set value"
            return "Ordered", "iteration result returned"
        if isinstance(p, (ast.Tuple, ast.List, ast.Dict, ast.Subscript, ast.Attribute, ast.JoinedStr, ast.FormattedValue)):
            if is_set_expr(cur, set()) or isinstance(cur, (ast.Set, ast.SetComp)):
                if isinstance(p, (ast.FormattedValue, ast.JoinedStr)):
                    return "Ordered", "formatted into a string"
                return "Insensitive", "stored in a container as a set value"
            cur = p
            continue
        if isinstance(p, (ast.GeneratorExp, ast.ListComp)):
            cur = p
            continue
        if isinstance(p, (ast.FunctionDef, ast.AsyncFunctionDef, ast.Lambda, ast.arguments)):
            return "Insensitive", "default value"
        return "Ordered", "unknown consumer " + p.__class__.__name__


def scan_module(mod, tree, sites, mutdefaults, globals_mut, memo=None):
    parents = {}
    for n in ast.walk(tree):
        for ch in ast.iter_child_nodes(n):
            parents[ch] = n
    funcs = [n for n in ast.walk(tree) if isinstance(n, (ast.FunctionDef, ast.AsyncFunctionDef))]

    def enclosing(n):
        q = n
        while q in parents:
            q = parents[q]
            if isinstance(q, (ast.FunctionDef, ast.AsyncFunctionDef)):
                return q
        return None

    names_by_fn = {f: set_names(f) for f in funcs}
    mod_names = set()
    for n in ast.walk(tree):
        if isinstance(n, ast.expr):
            f = enclosing(n)
            names = names_by_fn.get(f, mod_names)
            if isinstance(n, ast.Name):
                if not (isinstance(n.ctx, ast.Load) and n.id in names):
                    continue
            elif not is_set_expr(n, names):
                continue
            # operands of a bigger set expression are reported through the bigger one
            p = parents.get(n)
            if isinstance(p, ast.BinOp) and is_set_expr(p, names):
                continue
            cls, why = classify(n, parents)
            if cls == "Insensitive" and why in ("unused",):
                continue
            sites.append({"module": mod, "function": f.name if f else "<module>", "line": n.lineno, "expr": U(n)[:100],
                          "class": cls, "why": why})
    # module-level names bound to a mutable container: a function that mutates one keeps state between calls
    MUT_CTORS = ("list", "dict", "set", "OrderedDict", "defaultdict", "deque", "Counter")
    MUT_METHODS = {"append", "extend", "add", "update", "setdefault", "pop", "popitem", "clear", "insert", "remove", "discard", "sort",
                   "reverse", "__setitem__", "appendleft"}
    mod_mutables = set()
    imported_from_cdd = {a.asname or a.name for st in tree.body if isinstance(st, ast.ImportFrom) and (st.module or "").startswith("cdd")
                         for a in st.names}
    for st in tree.body:
        tgt, val = None, None
        if isinstance(st, ast.Assign) and len(st.targets) == 1 and isinstance(st.targets[0], ast.Name):
            tgt, val = st.targets[0].id, st.value
        elif isinstance(st, ast.AnnAssign) and isinstance(st.target, ast.Name) and st.value is not None:
            tgt, val = st.target.id, st.value
        if tgt and (isinstance(val, (ast.List, ast.Dict, ast.Set, ast.ListComp, ast.DictComp, ast.SetComp)) or
                    (isinstance(val, ast.Call) and tname(val.func) in MUT_CTORS)):
            mod_mutables.add(tgt)
    for f in funcs:
        local = {a.arg for a in f.args.posonlyargs + f.args.args + f.args.kwonlyargs} | \
            {n.id for n in ast.walk(f) if isinstance(n, ast.Name) and isinstance(n.ctx, ast.Store)}
        for n in ast.walk(f):
            name = None
            if isinstance(n, (ast.Assign, ast.AugAssign, ast.Delete)):
                tg = n.targets if isinstance(n, (ast.Assign, ast.Delete)) else [n.target]
                for t in tg:
                    if isinstance(t, ast.Subscript) and isinstance(t.value, ast.Name):
                        name = t.value.id
                    elif isinstance(n, ast.AugAssign) and isinstance(t, ast.Name):
                        name = t.id
            elif isinstance(n, ast.Call) and isinstance(n.func, ast.Attribute) and n.func.attr in MUT_METHODS and isinstance(n.func.value, ast.Name):
                name = n.func.value.id
            if name in mod_mutables and name not in local:
                globals_mut.append({"module": mod, "function": f.name, "line": n.lineno, "what": "mutates module-level " + name})
            # ... of ANOTHER module: through its dotted path (cdd.x.y.NAME.setdefault(..), cdd.x.y.NAME[k] = v) or a from-imported name
            dotted = None
            if isinstance(n, (ast.Assign, ast.AugAssign, ast.Delete)):
                tg = n.targets if isinstance(n, (ast.Assign, ast.Delete)) else [n.target]
                for t in tg:
                    if isinstance(t, ast.Subscript) and isinstance(t.value, ast.Attribute):
                        dotted = t.value
            elif isinstance(n, ast.Call) and isinstance(n.func, ast.Attribute) and n.func.attr in MUT_METHODS and isinstance(n.func.value, ast.Attribute):
                dotted = n.func.value
            if dotted is not None:
                root = dotted
                while isinstance(root, ast.Attribute):
                    root = root.value
                if isinstance(root, ast.Name) and root.id == "cdd" and root.id not in local:
                    globals_mut.append({"module": mod, "function": f.name, "line": n.lineno, "what": "mutates " + U(dotted)})
            if name is not None and name in imported_from_cdd and name not in local and name not in mod_mutables:
                globals_mut.append({"module": mod, "function": f.name, "line": n.lineno, "what": "mutates imported " + name})
    # memoisation: a result kept from an earlier call (and, when mutable, changed by its users) makes the output depend on the
    # call history.  Any reference to a memoising helper is recorded, whatever it is applied to.
    if memo is not None:
        MEMO = {"lru_cache", "cache", "cached_property", "memoize", "memoise", "memoized", "memoised"}
        for n in ast.walk(tree):
            ident = n.id if isinstance(n, ast.Name) else n.attr if isinstance(n, ast.Attribute) else None
            par = parents.get(n)
            applied = isinstance(par, (ast.FunctionDef, ast.AsyncFunctionDef, ast.ClassDef)) or (isinstance(par, ast.Call) and par.func is n) or \
                (isinstance(par, ast.Call) and n in par.args)        # used as a decorator, called, or handed to another callable
            if ident in MEMO and applied:
                f = enclosing(n)
                p = parents.get(n)
                while p is not None and not isinstance(p, (ast.FunctionDef, ast.AsyncFunctionDef, ast.ClassDef, ast.Assign, ast.Module)):
                    p = parents.get(p)
                on = p.name if isinstance(p, (ast.FunctionDef, ast.AsyncFunctionDef, ast.ClassDef)) else (f.name if f else "<module>")
                memo.append({"module": mod, "function": on, "line": n.lineno, "what": ident})
    for f in funcs:
        a = f.args
        for d in a.defaults + [x for x in a.kw_defaults if x is not None]:
            if isinstance(d, (ast.List, ast.Dict, ast.Set, ast.ListComp, ast.DictComp, ast.SetComp)) or \
                    (isinstance(d, ast.Call) and tname(d.func) in ("list", "dict", "set", "OrderedDict", "defaultdict", "deque")):
                mutdefaults.append({"module": mod, "function": f.name, "line": d.lineno, "expr": U(d)[:60]})
        for n in ast.walk(f):
            if isinstance(n, ast.Global):
                globals_mut.append({"module": mod, "function": f.name, "line": n.lineno, "what": "global " + ", ".join(n.names)})
            if isinstance(n, ast.Call) and isinstance(n.func, ast.Attribute) and n.func.attr == "update" and \
                    isinstance(n.func.value, ast.Call) and tname(n.func.value.func) == "globals":
                globals_mut.append({"module": mod, "function": f.name, "line": n.lineno, "what": "globals().update(...)"})


def key(s):
    return "%s|%s|%s" % (s["module"], s["function"], s["expr"])


def generate():
    sites, mutdefaults, globals_mut, memo = [], [], [], []
    for m, (path, _p) in sorted(discover().items()):
        if is_test_module(m):
            continue
        scan_module(m, parse(path), sites, mutdefaults, globals_mut, memo)
    ordered = [s for s in sites if s["class"] == "Ordered"]
    lines = ["(* GENERATED by translate/setiter.py from /repo -- do not edit. *)",
             "From Coq Require Import List String.", "Import ListNotations.", "Local Open Scope string_scope.", "",
             "(* every iteration of a set whose order can reach the result: module|function|expression *)",
             "Definition ordered_set_iterations : list string := [" +
             ";\n  ".join(coq_string(key(s)) for s in ordered) + "].",
             "Definition insensitive_set_uses : nat := %d." % (len(sites) - len(ordered)),
             "(* mutable default arguments: module|function|expression *)",
             "Definition mutable_defaults : list string := [" +
             ";\n  ".join(coq_string("%s|%s|%s" % (s["module"], s["function"], s["expr"])) for s in mutdefaults) + "].",
             "(* functions that write module globals *)",
             "Definition global_writers : list string := [" +
             ";\n  ".join(coq_string("%s|%s|%s" % (s["module"], s["function"], s["what"])) for s in globals_mut) + "].",
             "(* memoising helpers (results kept between calls): module|function|helper *)",
             "Definition memoised : list string := [" +
             ";\n  ".join(coq_string("%s|%s|%s" % (s["module"], s["function"], s["what"])) for s in memo) + "].", ""]
    return {"SetIterSites.v": "\n".join(lines)}, {"sites": sites, "ordered": ordered, "mutable_defaults": mutdefaults,
                                                  "global_writers": globals_mut, "memoised": memo}


if __name__ == "__main__":
    files, meta = generate()
    for s in meta["sites"]:
        print(s["class"], s["module"], s["function"], s["line"], s["expr"], "--", s["why"])
    print("mutable defaults:", meta["mutable_defaults"])
    print("global writers:", meta["global_writers"])
    print("memoised:", meta["memoised"])
