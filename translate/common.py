"""Shared helpers for the translators (fail-closed, ast based)."""
import ast
import os

REPO = os.environ.get("CDD_REPO", "/repo")


def discover(include_tests=True):
    """module name -> (path, is_pkg) for every .py under /repo/cdd."""
    mods = {}
    for root, dirs, files in os.walk(os.path.join(REPO, "cdd")):
        dirs[:] = sorted(d for d in dirs if d != "__pycache__")
        for f in sorted(files):
            if f.endswith(".py"):
                p = os.path.relpath(os.path.join(root, f), REPO)[:-3].replace(os.sep, ".")
                is_pkg = p.endswith(".__init__")
                if is_pkg:
                    p = p[:-9]
                if not include_tests and (".tests." in p + "." ):
                    continue
                mods[p] = (os.path.join(root, f), is_pkg)
    return mods


def is_test_module(m):
    return ".tests." in m + "."


def parse(path):
    with open(path, encoding="utf-8") as f:
        return ast.parse(f.read(), filename=path)


def coq_list(items, sep="; "):
    return "[" + sep.join(items) + "]"


def coq_string(s):
    """Coq string literal for ASCII text."""
    return '"' + s.replace('"', '""') + '"'
