"""C18 translator: the package's import graph -> coq/Gen/ImportGraph.v.

Per module, the module-level statements that matter for importability, in execution order:
  SImport  chain bind            import a.b.c [as x]
  SFrom    chain m items         from a.b import n [as x], ...   (item: name, submodule id?, bound name)
  SBind    name                  def / class / assignment / external import binds a name
  SUse     [cdd; a; b; x]        module-level evaluation of the attribute chain cdd.a.b.x
  SUnsupported                   a construct the translator does not understand -> import fails in the model
Function and lambda bodies are not entered (decorators, defaults and annotations are); both arms of an
`if` are entered except for version guards, which are evaluated for CPython 3.12.
"""
import ast
import sys

from .common import coq_list, discover, is_test_module, parse

PY = (3, 12)


def chain_of(node):
    parts = []
    while isinstance(node, ast.Attribute):
        parts.append(node.attr)
        node = node.value
    if isinstance(node, ast.Name):
        parts.append(node.id)
        return parts[::-1]
    return None


def static_test(test, consts):
    """Evaluate version guards; returns True/False/None (unknown)."""
    if isinstance(test, ast.Name) and test.id in consts:
        return consts[test.id]
    if isinstance(test, ast.Name) and test.id == "TYPE_CHECKING":
        return False
    if isinstance(test, ast.UnaryOp) and isinstance(test.op, ast.Not):
        v = static_test(test.operand, consts)
        return None if v is None else not v
    if isinstance(test, ast.Compare) and len(test.ops) == 1:
        src = ast.unparse(test.left)
        if src.startswith("sys.version_info"):
            try:
                return bool(eval(compile(ast.Expression(test), "<guard>", "eval"),
                                 {"sys": type("S", (), {"version_info": PY + (0, "final", 0)})}))
            except Exception:
                return None
    return None


class Collect(ast.NodeVisitor):
    def __init__(self, mods, consts):
        self.out = []
        self.mods = mods
        self.consts = consts

    def visit_Import(self, n):
        for a in n.names:
            self.out.append(("import", a.name, a.asname))

    def visit_ImportFrom(self, n):
        if n.level != 0:
            self.out.append(("unsupported", "relative import line %d" % n.lineno))
            return
        items = []
        for a in n.names:
            if a.name == "*":
                if n.module in self.mods:
                    self.out.append(("unsupported", "star import from package module line %d" % n.lineno))
                    return
                continue
            items.append((a.name, a.asname))
        self.out.append(("from", n.module, items))

    def _func(self, n):
        for d in n.decorator_list:
            self.visit(d)
        for d in n.args.defaults + [k for k in n.args.kw_defaults if k]:
            self.visit(d)
        for a in n.args.args + n.args.kwonlyargs + n.args.posonlyargs + [x for x in (n.args.vararg, n.args.kwarg) if x]:
            if a.annotation:
                self.visit(a.annotation)
        if n.returns:
            self.visit(n.returns)
        self.out.append(("def", n.name))

    visit_FunctionDef = _func
    visit_AsyncFunctionDef = _func

    def visit_Lambda(self, n):
        pass

    def visit_ClassDef(self, n):
        for d in n.decorator_list + n.bases + [k.value for k in n.keywords]:
            self.visit(d)
        for b in n.body:
            self.visit(b)
        self.out.append(("def", n.name))

    def visit_Assign(self, n):
        self.visit(n.value)
        for t in n.targets:
            for x in ast.walk(t):
                if isinstance(x, ast.Name):
                    self.out.append(("def", x.id))

    def visit_AnnAssign(self, n):
        if n.value:
            self.visit(n.value)
        self.visit(n.annotation)
        if isinstance(n.target, ast.Name):
            self.out.append(("def", n.target.id))

    def visit_If(self, n):
        v = static_test(n.test, self.consts)
        self.visit(n.test)
        if v is None or v:
            for b in n.body:
                self.visit(b)
        if v is None or not v:
            for b in n.orelse:
                self.visit(b)

    def visit_Attribute(self, n):
        c = chain_of(n)
        if c and c[0] == "cdd":
            self.out.append(("use", c))
        else:
            self.generic_visit(n)


def module_statements(mods):
    consts = {"PY_GTE_3_8": True, "PY_GTE_3_9": True, "PY_GTE_3_10": True, "PY_GTE_3_11": True, "PY_GTE_3_12": True,
              "PY3_8": False}
    prog = {}
    for m, (path, _pkg) in mods.items():
        c = Collect(mods, consts)
        try:
            c.visit(parse(path))
        except SyntaxError as e:
            c.out = [("unsupported", "syntax error %s" % e)]
        prog[m] = c.out
    return prog


def generate():
    mods = discover()
    prog = module_statements(mods)
    names = sorted(mods)
    mid = {m: i + 1 for i, m in enumerate(names)}
    nids = {}

    def nid(n):
        if n not in nids:
            nids[n] = len(nids) + 1
        return nids[n]

    nid("cdd")
    defs = []
    nstmts = 0
    unsupported = []
    for m in names:
        ss = []
        for s in prog[m]:
            nstmts += 1
            if s[0] == "import":
                parts = s[1].split(".")
                pref = [".".join(parts[: i + 1]) for i in range(len(parts))]
                if pref[0] not in mid:
                    ss.append("SBind %d" % nid(s[2] or parts[0]))
                    continue
                if pref[-1] not in mid:
                    ss.append("SUnsupported")
                    unsupported.append((m, "import of unknown package module " + s[1]))
                    continue
                # `import a.b.c` binds a; `import a.b.c as x` binds x (to a.b.c)
                ss.append("SImport %s %d" % (coq_list([str(mid[p]) for p in pref]), nid(s[2] or parts[0])))
            elif s[0] == "from":
                m2 = s[1]
                if m2 is None or m2.split(".")[0] != "cdd":
                    for name, asname in s[2]:
                        ss.append("SBind %d" % nid(asname or name))
                    continue
                if m2 not in mid:
                    ss.append("SUnsupported")
                    unsupported.append((m, "from-import of unknown package module " + m2))
                    continue
                parts = m2.split(".")
                pref = [".".join(parts[: i + 1]) for i in range(len(parts))]
                items = []
                for name, asname in s[2]:
                    sub = m2 + "." + name
                    items.append("(%d, %s, %d)" % (nid(name), ("Some %d" % mid[sub]) if sub in mid else "None",
                                                   nid(asname or name)))
                ss.append("SFrom %s %d %s" % (coq_list([str(mid[p]) for p in pref]), mid[m2], coq_list(items)))
            elif s[0] == "def":
                ss.append("SBind %d" % nid(s[1]))
            elif s[0] == "use":
                ss.append("SUse %s" % coq_list([str(nid(x)) for x in s[1]]))
            elif s[0] == "unsupported":
                ss.append("SUnsupported")
                unsupported.append((m, s[1]))
        parent = m.rpartition(".")[0]
        defs.append("(%d, mkMod %s %d %s)" % (mid[m], ("(Some %d)" % mid[parent]) if parent in mid else "None",
                                              nid(m.rpartition(".")[2]), coq_list(ss)))
    public = [m for m in names if not is_test_module(m)]

    def chain(m):
        parts = m.split(".")
        return coq_list([str(mid[".".join(parts[: i + 1])]) for i in range(len(parts))])

    out = ["(* GENERATED by translate/imports.py from /repo -- do not edit *)",
           "From Coq Require Import List PArith.", "Import ListNotations.", "From CDD Require Import ImportSem.",
           "Open Scope positive_scope.", "",
           "Definition modules : list (positive * modinfo) :=\n  " + coq_list(["\n   " + d for d in defs]) + ".", "",
           "Definition public : list (list positive) := %s." % coq_list(["\n   " + chain(m) for m in public]), "",
           "Definition root_mod : positive := %d." % mid["cdd"],
           "Definition root_name : positive := %d." % nid("cdd"),
           "Definition n_modules : nat := %d." % len(names), ""]
    meta = {"modules": len(names), "public": len(public), "statements": nstmts, "names": len(nids),
            "unsupported": unsupported, "public_names": public,
            "module_ids": {m: mid[m] for m in public}}
    return {"ImportGraph.v": "\n".join(out)}, meta


if __name__ == "__main__":
    files, meta = generate()
    sys.stdout.write(files["ImportGraph.v"][:2000])
    print({k: v for k, v in meta.items() if k not in ("public_names", "module_ids")})
