"""Run every translator: regenerate coq/Gen/*.v from /repo's working tree."""
import importlib
import os
import sys

HERE = os.path.dirname(os.path.abspath(__file__))
VERIF = os.path.dirname(HERE)
GEN = os.path.join(VERIF, "coq", "Gen")
TRANSLATORS = ["imports", "effects", "guards", "setiter", "loops", "writeorder", "gate", "constants", "sqlemit"]  # module names under translate/ exposing generate() -> {filename: text}, info


def write_if_changed(path, text):
    if os.path.exists(path) and open(path).read() == text:
        return False
    with open(path + ".tmp", "w") as f:
        f.write(text)
    os.replace(path + ".tmp", path)
    return True


def main():
    info = {}
    os.makedirs(GEN, exist_ok=True)
    for name in TRANSLATORS:
        mod = importlib.import_module("translate." + name)
        files, meta = mod.generate()
        for fn, text in files.items():
            meta.setdefault("changed", {})[fn] = write_if_changed(os.path.join(GEN, fn), text)
        info[name] = meta
    return info


if __name__ == "__main__":
    sys.path.insert(0, VERIF)
    print(main())
