# make setup : build the whole Coq development + extracted model driver from files on disk (offline)
.PHONY: setup clean
setup:
	PYTHONPATH=/repo:/verif PYTHONHASHSEED=0 /venv/bin/python -W ignore -m harness.coqbuild
clean:
	-$(MAKE) -C coq clean
	rm -f coq/Makefile coq/Makefile.conf coq/Extract/model_driver coq/Extract/model.ml coq/Extract/model.mli
