(* Line protocol driver for the extracted model.
   request : <fn> <val>      response : <val>
   val ::= S n c1..cn | I z | L n v1..vn | N | T | F     (space separated tokens) *)
module M = Model

let rec pos_of_int (i : int) : M.positive =
  if i = 1 then M.XH
  else if i land 1 = 1 then M.XI (pos_of_int (i lsr 1))
  else M.XO (pos_of_int (i lsr 1))
let n_of_int (i : int) : M.n = if i = 0 then M.N0 else M.Npos (pos_of_int i)
let z_of_int (i : int) : M.z =
  if i = 0 then M.Z0 else if i > 0 then M.Zpos (pos_of_int i) else M.Zneg (pos_of_int (- i))
let rec int_of_pos (p : M.positive) : int =
  match p with M.XH -> 1 | M.XO q -> 2 * int_of_pos q | M.XI q -> 2 * int_of_pos q + 1
let int_of_n (x : M.n) : int = match x with M.N0 -> 0 | M.Npos p -> int_of_pos p
let int_of_z (x : M.z) : int =
  match x with M.Z0 -> 0 | M.Zpos p -> int_of_pos p | M.Zneg p -> - (int_of_pos p)

let parse_val (toks : string array) (pos : int ref) : M.val0 =
  let next () = let t = toks.(!pos) in incr pos; t in
  let rec go () =
    match next () with
    | "S" ->
        let k = int_of_string (next ()) in
        let rec rd i acc = if i = 0 then List.rev acc else rd (i - 1) (n_of_int (int_of_string (next ())) :: acc) in
        M.VS (rd k [])
    | "I" -> M.VZ (z_of_int (int_of_string (next ())))
    | "L" ->
        let k = int_of_string (next ()) in
        let rec rd i acc = if i = 0 then List.rev acc else let v = go () in rd (i - 1) (v :: acc) in
        M.VL (rd k [])
    | "N" -> M.VN
    | "T" -> M.VB true
    | "F" -> M.VB false
    | t -> failwith ("bad token " ^ t)
  in go ()

let rec print_val (b : Buffer.t) (v : M.val0) : unit =
  match v with
  | M.VS s ->
      Buffer.add_string b "S "; Buffer.add_string b (string_of_int (List.length s));
      List.iter (fun c -> Buffer.add_char b ' '; Buffer.add_string b (string_of_int (int_of_n c))) s
  | M.VZ z -> Buffer.add_string b "I "; Buffer.add_string b (string_of_int (int_of_z z))
  | M.VL l ->
      Buffer.add_string b "L "; Buffer.add_string b (string_of_int (List.length l));
      List.iter (fun x -> Buffer.add_char b ' '; print_val b x) l
  | M.VN -> Buffer.add_string b "N"
  | M.VB true -> Buffer.add_string b "T"
  | M.VB false -> Buffer.add_string b "F"

let () =
  try
    while true do
      let line = input_line stdin in
      let toks = Array.of_list (List.filter (fun s -> s <> "") (String.split_on_char ' ' line)) in
      let b = Buffer.create 256 in
      (try
        let fn = toks.(0) in
        let fnl = List.init (String.length fn) (fun i -> n_of_int (Char.code fn.[i])) in
        let pos = ref 1 in
        let a = parse_val toks pos in
        print_val b (M.dispatch fnl a)
      with
      | Stack_overflow -> Buffer.clear b; Buffer.add_string b "L 2 S 1 33 S 2 83 79"
      | Failure m -> Buffer.clear b; Buffer.add_string b ("L 2 S 1 33 S 1 80") ; ignore m
      | Invalid_argument _ -> Buffer.clear b; Buffer.add_string b ("L 2 S 1 33 S 1 80"));
      print_string (Buffer.contents b); print_newline ()
    done
  with End_of_file -> ()
