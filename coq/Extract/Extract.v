From Coq Require Import ExtrOcamlBasic.
From CDD Require Import Dispatch.
Extraction Language OCaml.
Extraction "model.ml" Dispatch.dispatch.
