(* C16 -- the generated OpenAPI document is closed and matches the requested CRUD. *)
From Coq Require Import String.
From CDD Require Import PyStr OpenApi OpenApiProofs.

(* For EVERY list of (name, model, route, id, crud) entries -- any names, any routes, repeated names,
   colliding routes -- every $ref string anywhere in the document emitted by
   cdd.compound.openapi.emit.openapi points at a schema / request body defined in that document
   (the model schemas themselves carrying no $ref). *)
Theorem C16_closed_emit : forall ses entries,
  schemas_ref_free (run ses entries) ->
  forall r, In r (refs (openapi ses entries)) -> defined (run ses entries) r.
Proof. exact openapi_closed. Qed.
Print Assumptions C16_closed_emit.

(* exactly the requested operations: Create -> POST on the collection, Read -> GET and
   Delete -> DELETE on the item, nothing else, for every subset of CRUD letters *)
Theorem C16_crud_exact : forall ses e,
  crud_valid (e_crud e) = true ->
  map (fun kp => (fst kp, ops_of (snd kp))) (st_paths (run ses [e])) =
    (if has "C" (e_crud e) then [(e_route e, ["post"%string])] else [])
    ++ [(item_route (e_route e) (e_id e),
         (if has "R" (e_crud e) then ["get"%string] else []) ++ (if has "D" (e_crud e) then ["delete"%string] else []))].
Proof. exact crud_exact. Qed.
Print Assumptions C16_crud_exact.

(* the item path declares the parameter of its template *)
Theorem C16_path_params_declared : forall n id g d,
  exists rest, render_pitem (PItem n id g d) = JO ((L "parameters", JA [path_parameter n id]) :: rest)
  /\ exists rest2, path_parameter n id = JO ((L "name", JS id) :: (L "in", JS (L "path")) :: rest2).
Proof. exact path_parameter_declared. Qed.

(* openapi_bulk derives the component key from the table name with .replace("_tbl","",1).title():
   the statement "the key is the name the routes refer to" is FALSE of the faithful model *)
Theorem C16_bulk_key_refuted : exists name, bulk_component_key name <> name.
Proof. exists (s2l "UserProfile"). vm_compute. discriminate. Qed.
Example C16_bulk_key_ok_example : bulk_component_key (s2l "Foo") = s2l "Foo" /\ bulk_component_key (s2l "foo_tbl") = s2l "Foo".
Proof. split; vm_compute; reflexivity. Qed.

Example C16_closed_nonvacuous :
  refs (openapi [] [mkEntry (s2l "Foo") [] (s2l "/api/foo") (s2l "id") (s2l "CRD")])
  = [s2l "#/components/schemas/Foo"; s2l "#/components/requestBodies/FooBody"; s2l "#/components/schemas/Foo";
     s2l "#/components/schemas/ServerError"; s2l "#/components/schemas/Foo"; s2l "#/components/schemas/ServerError"].
Proof. vm_compute. reflexivity. Qed.

(* ---- reading the routes back: the entity names of a route's yml block (Model/Entities.v, a transcription of
   openapi/utils/parse_utils.py:extract_entities compared with the code on generated texts each run).  For EVERY text made of
   words without blanks or backticks, each followed by a whitespace character of any kind (a space, a line break, ...), some of them written between ``` fences: the entities are exactly the fenced
   words, in order -- whatever characters the names are made of (digits and underscores included).  The operation is about the last
   entity that is not "ServerError" (pick_entity). *)
From CDD Require Entities EntitiesProofs.
Theorem C16_entities_are_the_fenced_words : forall (ts : list EntitiesProofs.spaced) last_,
  forallb EntitiesProofs.spaced_ok ts = true -> EntitiesProofs.token_ok last_ = true ->
  Entities.extract_entities (concat (map EntitiesProofs.render_spaced ts) ++ EntitiesProofs.render last_)
  = EntitiesProofs.entities_of (map fst ts ++ [last_]).
Proof. exact EntitiesProofs.entities_are_the_fenced_words. Qed.
Print Assumptions C16_entities_are_the_fenced_words.
Example C16_entities_example :
  Entities.extract_entities (s2l "responses:" ++ [NL] ++ s2l "  '200':" ++ [NL] ++ s2l "    description: A `Config` object." ++ [NL] ++ s2l "    $ref: ```Config```" ++ [NL]
                    ++ s2l "  '400':" ++ [NL] ++ s2l "    $ref: ```ServerError```")
  = [s2l "Config"; s2l "ServerError"]
  /\ Entities.pick_entity [s2l "Config"; s2l "ServerError"] = Some (s2l "Config")
  /\ Entities.pick_entity [s2l "ServerError"] = None.
Proof. exact EntitiesProofs.entities_example. Qed.
(* outside the domain: a character glued to the closing fence becomes an entity of its own *)
Example C16_entities_refuted : Entities.extract_entities (s2l "```Config```s") = [s2l "Config"; s2l "s"].
Proof. exact EntitiesProofs.entities_refuted. Qed.
