(* C07 -- doctrans changes only docstrings and annotations, never the program. *)
From CDD Require Import PyStr Cst CstProofs Doctrans DoctransProofs DoctransOrder.

(* The write-back is "".join(node.value for node in cst_list) after doctransify_cst replaced the text of some nodes
   in place.  For EVERY source text and EVERY set of replacements: the node count is kept and each node that was not
   replaced is written back byte for byte ... *)
Theorem C07_cst_untouched : forall (src : str) (repl : list (nat * str)),
  let nodes := map n_value (cst_parse src) in
  length (apply_repl repl nodes) = length nodes /\
  forall j, ~ In j (map fst repl) -> nth_error (apply_repl repl nodes) j = nth_error nodes j.
Proof. intros src repl nodes. split; [apply apply_repl_length | intros j H; apply apply_repl_untouched; exact H]. Qed.
Print Assumptions C07_cst_untouched.

(* ... with no replacement the file text is reproduced exactly (C09 losslessness) ... *)
Theorem C07_nothing_replaced_is_identity : forall src : str, concat (apply_repl [] (map n_value (cst_parse src))) = src.
Proof.
  intro src. change (apply_repl [] (map n_value (cst_parse src))) with (map n_value (cst_parse src)).
  assert (E : map n_value (cst_parse src) = cst_scanner src) by exact (parser_values_aux (cst_scanner src) 1%Z UnchangingLine).
  rewrite E. exact (cst_scanner_gen_lossless char _ _ _ _ _ src).
Qed.
Print Assumptions C07_nothing_replaced_is_identity.

(* ... and with one replaced node every byte before it and every byte after it is the original one. *)
Theorem C07_one_node_replaced : forall (src : str) (i : nat) (v : str),
  let nodes := map n_value (cst_parse src) in
  (i < length nodes)%nat ->
  concat (apply_repl [(i, v)] nodes) = concat (firstn i nodes) ++ v ++ concat (skipn (S i) nodes)
  /\ concat (firstn i nodes) ++ concat (skipn i nodes) = src.
Proof.
  intros src i v nodes H. split; [exact (set_nth_concat i v nodes H)|].
  rewrite <- concat_app, firstn_skipn. unfold nodes.
  assert (E : map n_value (cst_parse src) = cst_scanner src) by exact (parser_values_aux (cst_scanner src) 1%Z UnchangingLine).
  rewrite E. exact (cst_scanner_gen_lossless char _ _ _ _ _ src).
Qed.
Print Assumptions C07_one_node_replaced.

(* The replaced text of a function header (maybe_replace_function_args): whatever the header, everything up to the
   opening parenthesis and from the closing one on is kept, and what lies between is ONLY the names and annotations
   of the positional parameters ... *)
Theorem C07_header_reprint_shape : forall value new_args,
  exists pre suf mid, header_reprint value new_args = pre ++ mid ++ suf /\ mid = join (s2l ", ") (map render_arg new_args).
Proof. exact reprint_keeps_prefix_and_suffix. Qed.
Print Assumptions C07_header_reprint_shape.

(* ... so the full property is FALSE of the faithful model whenever a re-printed header had a default value, *args,
   keyword-only parameters or **kwargs: the program changes.  (Known finding on the pinned tree.) *)
Theorem C07_header_reprint_refuted :
  header_reprint (s2l "def f(a=1, *rest, flag=False, **kw) -> int:") [(s2l "a", Some (s2l "int"))]
  = s2l "def f(a: int) -> int:".
Proof. vm_compute. reflexivity. Qed.

Example C07_header_reprint_examples :
  header_reprint (s2l "def f(a, b):") [(s2l "a", Some (s2l "int")); (s2l "b", None)] = s2l "def f(a: int, b):"
  /\ header_reprint (s2l "@lru_cache(maxsize=None)
    async def cache(self, key: str) -> Dict[str, int]:") [(s2l "self", None); (s2l "key", None)]
     = s2l "@lru_cache(maxsize=None)
    async def cache(self, key) -> Dict[str, int]:".
Proof. split; vm_compute; reflexivity. Qed.

(* The other header edit, maybe_replace_function_return_type.  Removing the annotation keeps a prefix of the header and ends it
   with one colon (whatever followed the last "->", a trailing comment included, is dropped); adding one to a header that
   ends with its colon inserts " -> type" in front of that colon and touches nothing else. *)
Theorem C07_return_removed_shape : forall s, exists p t, remove_return_typ s = p ++ s2l ":" /\ s = p ++ t.
Proof. exact remove_return_typ_shape. Qed.
Print Assumptions C07_return_removed_shape.
Theorem C07_return_added : forall h rt, add_return_typ (h ++ s2l ":") rt = h ++ s2l " -> " ++ rt ++ s2l ":".
Proof. exact add_return_typ_spec. Qed.
Print Assumptions C07_return_added.
Example C07_return_examples :
  retype_header (s2l "def f(a, b=1) -> int:") (Some (s2l "int")) None = Some (s2l "def f(a, b=1):")
  /\ retype_header (s2l "def f(a, b=1):") None (Some (s2l "str")) = Some (s2l "def f(a, b=1) -> str:")
  /\ retype_header (s2l "    async def g(x: int) -> List[int]:") (Some (s2l "List[int]")) (Some (s2l "bool")) = Some (s2l "    async def g(x: int) -> bool:")
  /\ retype_header (s2l "def f(a) -> int:  # why") (Some (s2l "int")) None = Some (s2l "def f(a):").
Proof. repeat split; vm_compute; reflexivity. Qed.

(* The docstring edit (maybe_replace_doc_str_in_function_or_class) inserts, deletes or replaces ONE node, the one right after the
   def / class header at index i: the header, everything before it, and everything from the second node after it on are
   written back byte for byte, whatever the edit. *)
Theorem C07_doc_edit_outside : forall e i (l : list str),
  exists mid k, (S i <= k <= S (S i))%nat /\ concat (apply_edit e i l) = concat (firstn (S i) l) ++ mid ++ concat (skipn k l).
Proof. exact apply_edit_outside. Qed.
Print Assumptions C07_doc_edit_outside.
(* the new node is a triple-quoted string on lines of its own, its quotes indented like the node it is placed in front of *)
Theorem C07_new_docstring_node_shape : forall after doc,
  exists space body, formatted_doc_str after doc = [NL] ++ space ++ TQ ++ body ++ [NL] ++ space ++ TQ /\ forallb is_space space = true.
Proof. exact formatted_doc_str_shape. Qed.
Example C07_doc_edit_examples :
  doc_edit [] (s2l "
    x = 1") false = ENop
  /\ doc_edit [] (s2l "
    """"""old""""""") true = EDeleteAfter
  /\ doc_edit (s2l "old") (s2l "
    """"""  old
    """"""") true = ENop
  /\ doc_edit (s2l "
Summary
") (s2l "
    return 1") false = EInsertAfter (s2l "
    """"""
Summary
    """"""").
Proof. repeat split; vm_compute; reflexivity. Qed.

(* doctransify_cst as a whole (Model/DoctransFlow.v): for every definition of the converted AST, in any order, with any new
   docstring and ANY rewrite of the header text -- find the CST node, edit the docstring node after it, rewrite the header.
   Every CST node that is neither a def / class header nor a docstring keeps its text and its place; so do all the
   statements, comments and blank lines they hold. *)
From CDD Require Import DoctransFlow DoctransFlowProofs.
Theorem C07_only_headers_and_docstrings_change : forall defs l,
  forallb (fun d => header_kind (d_kind d)) defs = true -> others (doctransify l defs) = others l.
Proof. exact doctransify_others. Qed.
Print Assumptions C07_only_headers_and_docstrings_change.

(* Which CST node an AST definition is written back to (find_cst_at_ast): the FIRST node whose line window contains the
   definition's line and whose kind and name agree; when there is none, no node satisfies the three conditions. *)
Theorem C07_find_cst_first_match : forall l lineno kind name k,
  find_cst l lineno kind name = Some k ->
  exists c, nth_error l k = Some c /\ cst_matches lineno kind name c = true
            /\ forall j' c', (j' < k)%nat -> nth_error l j' = Some c' -> cst_matches lineno kind name c' = false.
Proof. exact find_cst_first_match. Qed.
Print Assumptions C07_find_cst_first_match.
Theorem C07_find_cst_none : forall l lineno kind name,
  find_cst l lineno kind name = None -> forall c, In c l -> cst_matches lineno kind name c = false.
Proof. exact find_cst_none. Qed.

(* Failure atomicity.  doctrans_order (Gen/DoctransOrder.v) is the list of calls of cdd/compound/doctrans.py:doctrans
   in evaluation order, regenerated from the source on every run.  Whichever package call raises, no open-for-write
   has been executed before it: the file on disk is still the original. *)
Theorem C07_checker_sound : forall items i c,
  atomic false items = true -> nth_error items i = Some (ECall c) -> truncated_when_raising_at items i = false.
Proof. exact atomic_sound. Qed.
Print Assumptions C07_checker_sound.

Theorem C07_failure_atomic : forall i c,
  nth_error doctrans_order i = Some (ECall c) -> truncated_when_raising_at doctrans_order i = false.
Proof. intros i c. apply atomic_sound. vm_compute. reflexivity. Qed.
Print Assumptions C07_failure_atomic.

(* non-vacuity: the order does write the file, and package calls that can raise do precede it *)
Theorem C07_order_nonvacuous :
  In EOpenWrite doctrans_order /\ In (ECall (s2l "doctransify_cst")) doctrans_order /\ In (ECall (s2l "cst_parse")) doctrans_order.
Proof. repeat split; vm_compute; tauto. Qed.

(* ---- how a header comes to be re-printed at all: doctrans takes the header text out of the file, makes it parsable with
   cst_utils.reindent_block_with_pass_body (Model/Reindent.v, compared with the code on generated headers each run) and compares the
   parsed arguments with the ones it computed.  For EVERY one-line header without a run of four blanks, whatever its indentation, the
   text that is parsed is the header itself plus " pass" -- so its arguments compare equal and it is left alone.  A header WITH four
   blanks in a row (a string default such as '    ') is changed by the helper: the recorded finding
   "header-reprint-.../positional-annotations-unchanged". *)
From CDD Require Reindent ReindentProofs RestDocIndentProofs.
Theorem C07_header_untouched_by_reindent : forall ind h : str,
  RestDocProofs.blank ind = true -> RestDocIndentProofs.one_line ind = true -> RestDocIndentProofs.one_line h = true ->
  RestDocProofs.head_ok h = true -> contains Reindent.TAB4 h = false ->
  Reindent.reindent_block_with_pass_body (ind ++ h) = h ++ Reindent.PASS.
Proof. exact ReindentProofs.header_untouched. Qed.
Print Assumptions C07_header_untouched_by_reindent.
Example C07_reindent_refuted :
  Reindent.reindent_block_with_pass_body (s2l "    def f(a, indent='    '):") = s2l "def f(a, indent=''): pass".
Proof. exact ReindentProofs.header_with_four_blanks_refuted. Qed.
Example C07_reindent_example :
  Reindent.reindent_block_with_pass_body (s2l "    def f(a: int = 5, *rest, sep=',  '):") = s2l "def f(a: int = 5, *rest, sep=',  '): pass".
Proof. exact ReindentProofs.header_example. Qed.
