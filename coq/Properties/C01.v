(* C01 -- docstring <-> interface round trip: the "default <-> 'Defaults to' prose" mechanism. *)
From CDD Require Import PyStr DefaultDoc DefaultDocProofs.

(* For EVERY description that announces no default and EVERY rendered default text: the announcer is appended
   after the description (the description is a prefix, a full stop is added only when neither '.' nor ','
   ends it) ... *)
Theorem C01_default_in_prose : forall strip doc t,
  has_defaults doc = false ->
  exists rest, set_default_doc strip doc (Some t) true = doc ++ rest /\
               (ends_with_stop doc = true -> rest = s2l " Defaults to " ++ t) /\
               (ends_with_stop doc = false -> rest = [46] ++ s2l " Defaults to " ++ t).
Proof. exact set_default_doc_keeps_description. Qed.
Print Assumptions C01_default_in_prose.
(* ... exactly once, however often the emitter is applied (has_defaults guard) ... *)
Theorem C01_default_announced_once : forall strip doc t,
  has_defaults doc = false ->
  set_default_doc strip (set_default_doc strip doc (Some t) true) (Some t) true = set_default_doc strip doc (Some t) true.
Proof. exact set_default_doc_idempotent. Qed.
(* ... and with emit_default_doc off nothing is written into the prose *)
Theorem C01_default_stripped : forall strip doc d, has_defaults doc = false -> set_default_doc strip doc d false = doc.
Proof. exact set_default_doc_off. Qed.
(* string defaults are quoted exactly once *)
Theorem C01_quote_idempotent : forall s, quote (quote s) = quote s.
Proof. exact quote_idempotent. Qed.
Print Assumptions C01_quote_idempotent.

Example C01_example :
  set_default_doc (fun d => d) (s2l "the value") (Some (quote (s2l "x"))) true = s2l "the value. Defaults to ""x""".
Proof. vm_compute. reflexivity. Qed.

(* ---------------------------------------------------------------------------------------------------------------
   The ReST round trip itself.  Model/RestDoc.v transcribes the ReST emitter (cdd/docstring/emit.py:docstring +
   emit_param_str; word_wrap off, indent 0) and the ReST scanner / parser (_scan_phase_rest, _parse_phase_rest). *)
From CDD Require Import RestDoc RestDocProofs.

(* the scanner loses no character: for EVERY string the scanned segments concatenate to the docstring *)
Theorem C01_rest_scan_lossless : forall doc : str, concat (map snd (scan_rest doc)) = doc.
Proof. exact scan_rest_lossless. Qed.
Print Assumptions C01_rest_scan_lossless.

(* it cuts exactly in front of every token when the text between tokens is inert (line_ok: after a token no later
   prefix of the stack ends with a token -- decided by the text from the last colon on) *)
Theorem C01_rest_scan_splits_at_tokens : forall (h : str) (tb : str * str) (L : list (str * str)),
  no_colon h = true -> Forall line_ok (tb :: L) ->
  scan_rest (h ++ concat (map cat (tb :: L))) = (false, h) :: map (fun x => (true, cat x)) (tb :: L).
Proof. exact scan_lines. Qed.
Print Assumptions C01_rest_scan_splits_at_tokens.

(* for EVERY description with clean prose (non-blank first and last character, no colon), distinct plain parameter names
   (non-empty, no blank / colon, no leading star, not ...kwargs), each parameter with a description and / or a type
   (no back-tick, no colon, not **...), at least one parameter, optional return entry:
   the emitter writes header, blank line, ":param n: d" / ":type n: ```t```" blocks separated by blank lines, return lines *)
Theorem C01_rest_emit_canonical : forall doc ps ret,
  clean doc = true -> forallb param_ok ps = true -> ps <> [] -> ret_ok ret = true ->
  emit_rest true doc ps ret = render doc ps ret.
Proof. exact emit_is_render. Qed.
Print Assumptions C01_rest_emit_canonical.

(* the parser reads that text back as exactly the description it came from (also with no parameter but a return entry) *)
Theorem C01_rest_parse_canonical : forall doc ps ret,
  clean doc = true -> forallb param_ok ps = true -> NoDup (map fst ps) -> ret_ok ret = true -> (ps <> [] \/ ret <> None) ->
  parse_rest (render doc ps ret) = {| p_doc := doc; p_params := ps; p_ret := ret |}.
Proof. exact parse_render. Qed.
Print Assumptions C01_rest_parse_canonical.

(* hence: render-as-ReST then parse-back returns names, order, descriptions, types and the return entry unchanged *)
Theorem C01_rest_roundtrip : forall doc ps ret,
  clean doc = true -> forallb param_ok ps = true -> NoDup (map fst ps) -> ps <> [] -> ret_ok ret = true ->
  parse_rest (emit_rest true doc ps ret) = {| p_doc := doc; p_params := ps; p_ret := ret |}.
Proof. exact rest_roundtrip. Qed.
Print Assumptions C01_rest_roundtrip.

(* ... also for a description that has a return entry and no parameter *)
Theorem C01_rest_roundtrip_return_only : forall doc r,
  clean doc = true -> entry_ok r = true ->
  parse_rest (emit_rest true doc [] (Some r)) = {| p_doc := doc; p_params := []; p_ret := Some r |}.
Proof. exact rest_roundtrip_ret_only. Qed.
Print Assumptions C01_rest_roundtrip_return_only.

(* with emit_types off the text is the one of the description without its types, and reads back as that description
   (every parameter must then carry a description: one that has only a type is not written at all) *)
Theorem C01_rest_roundtrip_no_types : forall doc ps ret,
  clean doc = true -> forallb param_ok (drop_typs ps) = true -> NoDup (map fst ps) -> ps <> [] -> ret_ok (option_map drop_typ ret) = true ->
  parse_rest (emit_rest false doc ps ret) = {| p_doc := doc; p_params := drop_typs ps; p_ret := option_map drop_typ ret |}.
Proof. exact rest_roundtrip_no_types. Qed.
Print Assumptions C01_rest_roundtrip_no_types.

(* ... and for the docstring as it is written INSIDE a function or a class (indent_level = k+1: every line prefixed with k+1 tabs,
   wrapped in a leading newline and a trailing newline + tabs), for every k, when the texts hold no line break *)
From CDD Require Import RestDocIndentProofs.
Theorem C01_rest_emit_indented_canonical : forall k doc ps ret,
  clean doc = true -> one_line doc = true -> forallb param_ok ps = true -> forallb param_1l ps = true -> ps <> [] ->
  ret_ok ret = true -> ret_1l ret = true ->
  emit_rest_indented (S k) true doc ps ret
  = grender (S1_of (S k)) (S2_of (S k)) (S1_of (S k)) (S1_of (S k)) (S2_of (S k)) doc ps ret.
Proof. exact emit_indented_is_grender. Qed.
Print Assumptions C01_rest_emit_indented_canonical.
Theorem C01_rest_roundtrip_indented : forall k doc ps ret,
  clean doc = true -> one_line doc = true -> forallb param_ok ps = true -> forallb param_1l ps = true -> NoDup (map fst ps) -> ps <> [] ->
  ret_ok ret = true -> ret_1l ret = true ->
  parse_rest (emit_rest_indented (S k) true doc ps ret) = {| p_doc := doc; p_params := ps; p_ret := ret |}.
Proof. exact rest_roundtrip_indented. Qed.
Print Assumptions C01_rest_roundtrip_indented.

(* non-vacuity: a description meeting every hypothesis, and what is written for it *)
Example C01_rest_example :
  let ps := [(s2l "dataset_name", {| pe_doc := Some (s2l "name of dataset"); pe_typ := Some (s2l "str") |});
             (s2l "K", {| pe_doc := None; pe_typ := Some (s2l "Literal['np', 'tf']") |})] in
  let ret := Some {| pe_doc := Some (s2l "the outcome"); pe_typ := None |} in
  clean (s2l "Acquire from the official tensorflow_datasets model zoo") = true /\ forallb param_ok ps = true /\ ret_ok ret = true
  /\ emit_rest true (s2l "Acquire from the official tensorflow_datasets model zoo") ps ret
     = s2l "Acquire from the official tensorflow_datasets model zoo

:param dataset_name: name of dataset
:type dataset_name: ```str```

:type K: ```Literal['np', 'tf']```

:return: the outcome
".
Proof. vm_compute. repeat split; reflexivity. Qed.

(* the token lists of Model/RestDoc.v are the ones the source declares (TOKENS.rest and its split into ARG_TOKENS / RETURN_TOKENS,
   regenerated from cdd/shared/docstring_utils.py on every run by translate/constants.py) *)
From CDD Require Import SourceConstants.
Theorem C01_rest_tokens_are_the_sources :
  arg_tokens = src_rest_arg_tokens /\ return_tokens = src_rest_return_tokens /\ all_tokens = src_rest_tokens.
Proof. repeat split; vm_compute; reflexivity. Qed.

(* ---- defaults carried in the prose: what the emitter announces, the parser's extract_default finds again ---------------------
   Model/ExtractDefault.v transcribes cdd/shared/defaults_utils.py:extract_default at text level (location_within with the
   case-folding comparator over DEFAULTS_TO_VARIANTS, plain and parenthesised; the character loop that delimits the default; the
   slicing that removes the announcer); Model/DefaultDoc.v:set_default_doc is the emitter's side.  [has_kw x = false] says that x
   does not contain the word "default" in any capitalisation. *)
From CDD Require ExtractDefault ExtractDefaultProofs DefaultDoc.

(* a description that never says "default" is returned unchanged and no default is invented -- for EVERY such text *)
Theorem C01_no_announcer_no_default : forall (line : str) (emit_default_doc : bool),
  ExtractDefaultProofs.has_kw line = false ->
  ExtractDefault.extract_default_text line emit_default_doc = (line, None).
Proof. exact ExtractDefaultProofs.no_default_identity. Qed.
Print Assumptions C01_no_announcer_no_default.

(* for EVERY description d and default text t that do not contain the word "default", t being a text the character loop keeps
   whole (no sentence-ending "."): the line the emitter writes, "<d>[.] Defaults to <t>", is read back as exactly t (code quotes
   and blanks around it removed), and the description comes back as d plus the full stop the emitter added -- nothing of d is cut
   off, nothing of t leaks into it, whatever characters (any script, any case-folding behaviour) d contains *)
Theorem C01_default_text_roundtrip : forall (strip : str -> str) (d t : str),
  ExtractDefaultProofs.has_kw d = false -> ExtractDefaultProofs.has_kw t = false -> ExtractDefault.scan_default t false = t ->
  ExtractDefault.extract_default_text (DefaultDoc.set_default_doc strip d (Some t) true) false
    = (ExtractDefaultProofs.dotted d, Some (ExtractDefaultProofs.strip3 t))
  /\ ExtractDefault.extract_default_text (DefaultDoc.set_default_doc strip d (Some t) true) true
    = (DefaultDoc.set_default_doc strip d (Some t) true, Some (ExtractDefaultProofs.strip3 t)).
Proof. exact ExtractDefaultProofs.default_text_roundtrip. Qed.
Print Assumptions C01_default_text_roundtrip.

(* a sufficient syntactic condition for the hypothesis on t *)
Theorem C01_text_without_full_stop_is_kept : forall (t : str),
  forallb (fun c => negb (N.eqb c ExtractDefault.DOT)) t = true -> forall b, ExtractDefault.scan_default t b = t.
Proof. exact ExtractDefaultProofs.scan_no_dot. Qed.

(* the hypotheses are met by non-trivial inputs, and what the model returns on them: a negative number after a description with
   a character whose case-folding is longer than itself; a code-quoted expression with ".join" after a closed bracket group *)
Example C01_default_text_examples :
  let run d t := ExtractDefault.extract_default_text (DefaultDoc.set_default_doc (fun x => x) (s2l d) (Some (s2l t)) true) false in
  ExtractDefaultProofs.has_kw (s2l "Größe des Puffers"%string) = false
  /\ ExtractDefault.scan_default (s2l "12.5"%string) false = s2l "12.5"%string
  /\ run "the size"%string "-16"%string = (s2l "the size."%string, Some (s2l "-16"%string))
  /\ run "the ratio,"%string "12.5"%string = (s2l "the ratio,"%string, Some (s2l "12.5"%string))
  /\ run "the separator"%string "```(""-"" * 3).join(""ab"")```"%string = (s2l "the separator."%string, Some (s2l "(""-"" * 3).join(""ab"")"%string))
  (* outside the hypothesis: a default with a sentence-ending "."%string is cut there, and the rest lands in the description *)
  /\ run "the host"%string "a.b"%string = (s2l "the host.b"%string, Some (s2l "a"%string)).
Proof. vm_compute. repeat split; reflexivity. Qed.

(* the announcers the model searches for are the ones of the source (regenerated on every run) *)
Theorem C01_announcers_are_the_sources : ExtractDefault.VARIANTS = src_defaults_to_variants.
Proof. vm_compute. reflexivity. Qed.

(* ---- the whole ReST pipeline for defaults carried in the prose: set_default_doc -> ReST emitter -> scanner -> parser ->
   extract_default.  For EVERY clean description, EVERY non-empty list of distinctly named parameters, each with a description
   d and a default text t in the stated domain (no colon, no blank at the outer ends, the word "default" nowhere, t kept whole by
   the scan): rendering and parsing back returns the same names in the same order, and for each of them the description d (plus
   the emitter's full stop) and exactly the default text t. *)
From CDD Require RestDefaultProofs.
Theorem C01_rest_default_roundtrip : forall (doc : str) (items : list RestDefaultProofs.item),
  clean doc = true -> forallb RestDefaultProofs.item_ok items = true -> NoDup (map fst items) -> items <> [] ->
  let back := parse_rest (emit_rest true doc (map RestDefaultProofs.item_param items) None) in
  p_doc back = doc /\ p_ret back = None
  /\ map RestDefaultProofs.read_back (p_params back)
     = map (fun it => (fst it, (ExtractDefaultProofs.dotted (fst (snd it)), Some (ExtractDefaultProofs.strip3 (snd (snd it)))))) items.
Proof. exact RestDefaultProofs.rest_default_roundtrip. Qed.
Print Assumptions C01_rest_default_roundtrip.

Example C01_rest_default_example :
  let items := [(s2l "size"%string, (s2l "Größe des Puffers"%string, s2l "-16"%string)); (s2l "ratio"%string, (s2l "load factor,"%string, s2l "12.5"%string))] in
  forallb RestDefaultProofs.item_ok items = true
  /\ emit_rest true (s2l "Resize it"%string) (map RestDefaultProofs.item_param items) None
     = s2l "Resize it

:param size: Größe des Puffers. Defaults to -16

:param ratio: load factor, Defaults to 12.5
"%string.
Proof. vm_compute. split; reflexivity. Qed.

(* ---- style detection precedes parsing (derive_docstring_format: token presence, ReST first; Model/StyleDetect.v, compared with
   the code on token text each run).  The ReST text of EVERY interface of the round-trip theorem's domain is detected as ReST, so the
   ReST scanner and parser of the theorems above are the ones parse_docstring runs on it. *)
From CDD Require StyleDetect StyleDetectProofs.
Theorem C01_rest_text_is_detected_as_rest : forall doc ps ret,
  clean doc = true -> forallb param_ok ps = true -> ps <> [] -> ret_ok ret = true ->
  StyleDetect.derive_format (emit_rest true doc ps ret) = StyleDetect.Rest.
Proof. exact StyleDetectProofs.emitted_rest_is_rest. Qed.
Print Assumptions C01_rest_text_is_detected_as_rest.

Theorem C01_style_tokens_are_the_sources :
  StyleDetect.google_tokens = src_google_tokens /\ StyleDetect.numpydoc_tokens = src_numpydoc_tokens.
Proof. split; vm_compute; reflexivity. Qed.

(* prose alone decides as well (facts about the faithful model): a description that merely mentions "Args:" is read as Google *)
Example C01_style_examples :
  StyleDetect.derive_format (s2l "Just prose."%string) = StyleDetect.Numpydoc
  /\ StyleDetect.derive_format (s2l "Args: are described below"%string) = StyleDetect.Google
  /\ StyleDetect.derive_format (s2l "See :param x: above. Args: too"%string) = StyleDetect.Rest.
Proof. exact StyleDetectProofs.style_examples. Qed.

(* ---- the parameter lines of a Google-style docstring (Model/GoogleLine.v: emit_param_str for style "google" and the unit reader of the
   Google / NumPy parse phase, both compared with the code each run through emit_param_str and parse_docstring).  For EVERY list of
   entries of the domain -- names and types that are not blank at either end and hold no colon, names without "(", types without the
   word " or ", descriptions (if any) that are not blank at either end, do not end in a colon and are not the "{a, b}" choice syntax --
   the lines written are read back as exactly those entries, in order: no written line is taken for the start of the free text
   "afterwards" (C01_google_line_not_afterward: it ends in a blank or in the last character of its description). *)
From CDD Require GoogleLine GoogleLineProofs.
Theorem C01_google_params_roundtrip : forall es, forallb GoogleLineProofs.entry_ok es = true ->
  GoogleLine.google_params (map GoogleLineProofs.emit_entry es) = GoogleLine.PList (map GoogleLineProofs.read_entry es).
Proof. exact GoogleLineProofs.google_params_roundtrip. Qed.
Print Assumptions C01_google_params_roundtrip.
Theorem C01_google_line_not_afterward : forall n t d,
  match d with Some x => x <> [] /\ match last_opt x with Some c => negb (N.eqb c GoogleLine.GCOLON) | None => true end = true | None => True end ->
  GoogleLine.is_afterward (GoogleLine.emit_google_param n t d) = false.
Proof. exact GoogleLineProofs.google_line_not_afterward. Qed.
Print Assumptions C01_google_line_not_afterward.
(* non-vacuity, and what lies outside the domain: a parameter line whose trailing blank was trimmed ("  b (int):") ends the parameter
   list -- it and every line after it become free text; a colon-less line ends the list silently; "(int or str)" is read as a Union *)
Example C01_google_examples :
  GoogleLine.google_params [s2l "  a (int): the value"; s2l "  b: other"; s2l "  c (List[str]): "]
  = GoogleLine.PList [(s2l "a", Some (s2l "int"), s2l "the value"); (s2l "b", None, s2l "other"); (s2l "c", Some (s2l "List[str]"), [])]
  /\ forallb GoogleLineProofs.entry_ok [(s2l "a", Some (s2l "int"), Some (s2l "the value")); (s2l "b", None, Some (s2l "other")); (s2l "c", Some (s2l "List[str]"), None)] = true
  /\ GoogleLine.google_params [s2l "  a (int): v"; s2l "  b (int):"; s2l "  c (int): w"] = GoogleLine.PList [(s2l "a", Some (s2l "int"), s2l "v")]
  /\ GoogleLine.google_params [s2l "  a (int or str): v"] = GoogleLine.PList [(s2l "a", Some (s2l "Union[int, str]"), s2l "v")]
  /\ GoogleLine.google_params [s2l "  a (int)x: v"] = GoogleLine.PRaises
  /\ GoogleLine.google_params [s2l "  a (int): v"; s2l "  b"; s2l "  c: w"] = GoogleLine.PList [(s2l "a", Some (s2l "int"), s2l "v")].
Proof. exact GoogleLineProofs.google_examples. Qed.

(* ---- the NumPy counterpart (Model/NumpyLine.v, compared with emit_param_str and, through parse_docstring, with the NumPy unit reader):
   for EVERY name that is not blank at either end and holds no colon, every type and one-line description that do not start with a
   blank, "name : typ" followed by the indented description is read back as that entry.  With types omitted only the description
   line is written and is read as a NAME (C01_numpy_without_types_refuted: the recorded names/missing finding, as a fact about the
   faithful model). *)
From CDD Require NumpyLine NumpyLineProofs.
Theorem C01_numpy_unit_roundtrip : forall n t d,
  RestDocProofs.head_ok n = true -> RestDocProofs.head_ok (rev n) = true -> GoogleLineProofs.lacks GoogleLine.GCOLON n = true ->
  RestDocProofs.head_ok t = true -> match d with Some x => RestDocProofs.head_ok x = true | None => True end ->
  NumpyLine.parse_numpy_unit (NumpyLine.emit_numpy_param true true n (Some t) d)
  = NumpyLine.NEntry n (Some t) (Some (match d with Some x => x | None => [] end)).
Proof. exact NumpyLineProofs.numpy_unit_roundtrip. Qed.
Print Assumptions C01_numpy_unit_roundtrip.
Example C01_numpy_without_types_refuted :
  NumpyLine.emit_numpy_param false true (s2l "size") (Some (s2l "int")) (Some (s2l "how big")) = [s2l "    how big"]
  /\ NumpyLine.parse_numpy_unit [s2l "    how big"] = NumpyLine.NEntry (s2l "how big") None None.
Proof. exact NumpyLineProofs.numpy_without_types_refuted. Qed.
Theorem C01_numpy_params_roundtrip : forall es, forallb NumpyLineProofs.nentry_ok es = true ->
  NumpyLine.numpy_params (map NumpyLineProofs.emit_nentry es) = map NumpyLineProofs.read_nentry es.
Proof. exact NumpyLineProofs.numpy_params_roundtrip. Qed.
Print Assumptions C01_numpy_params_roundtrip.
Example C01_numpy_example :
  NumpyLine.parse_numpy_unit (NumpyLine.emit_numpy_param true true (s2l "size") (Some (s2l "Optional[int]")) (Some (s2l "how big")))
  = NumpyLine.NEntry (s2l "size") (Some (s2l "Optional[int]")) (Some (s2l "how big")).
Proof. exact NumpyLineProofs.numpy_example. Qed.

(* ---- one ReST token line at a time (Model/RestDoc.v): the value of a ":return:" / ":rtype:" / ":param name:" line is EVERYTHING after
   the colon that closes the key, further colons in the prose included ("exit status: 0 on success" stays whole) -- for every text
   and every parser state. *)
From CDD Require RestLineProofs.
Theorem C01_rest_return_line_value : forall s body,
  RestDoc.st_ret (RestDoc.parse_token_line s (s2l ":return:" ++ body))
  = Some (RestDoc.set_doc (match RestDoc.st_ret s with Some e => e | None => RestDoc.empty_entry end) (strip body)).
Proof. exact RestLineProofs.return_line_value. Qed.
Print Assumptions C01_rest_return_line_value.
Theorem C01_rest_param_line_value : forall s n body, RestDocProofs.name_ok n = true ->
  RestDoc.st_cur (RestDoc.parse_token_line s (s2l ":param " ++ n ++ RestDoc.COLON :: body)) = Some (n, RestDoc.set_doc (RestDocProofs.cur_entry s n) (strip body)).
Proof. exact RestLineProofs.param_line_value. Qed.
Print Assumptions C01_rest_param_line_value.
Example C01_rest_return_line_with_colons :
  RestDoc.st_ret (RestDoc.parse_token_line RestDoc.init_state (s2l ":return: exit status: 0 on success"))
  = Some {| RestDoc.pe_doc := Some (s2l "exit status: 0 on success"); RestDoc.pe_typ := None |}.
Proof. exact RestLineProofs.return_line_with_colons. Qed.

(* ---- a WHOLE Google-style docstring (Model/GoogleHead.v: where the prose ends; Model/GoogleScan.v: the line scanner that groups the
   lines after "Args:" into units by indentation; Model/GoogleLine.v: what a unit says -- each compared with the code each run, the
   composition through parse_docstring).  For EVERY colon-free header (one paragraph or several) that is not blank at either end,
   whatever blank text surrounds it, and EVERY non-empty list of one-line entries of the domain of C01_google_params_roundtrip: the
   text "<header><blank>Args:" followed by one line per entry is read back as that header and exactly those entries, in order. *)
From CDD Require GoogleHead GoogleScan GoogleScanProofs.
Theorem C01_google_docstring_roundtrip : forall (pre H sep : str) (es : list GoogleLineProofs.entry),
  RestDocProofs.blank pre = true -> RestDocProofs.head_ok H = true -> RestDocProofs.head_ok (rev H) = true ->
  GoogleLineProofs.lacks GoogleLine.GCOLON H = true -> RestDocProofs.blank sep = true ->
  es <> [] -> forallb GoogleScanProofs.entry_ok1 es = true ->
  GoogleScan.google_docstring (pre ++ H ++ sep ++ GoogleHead.ARGS ++ [NL] ++ join [NL] (map GoogleLineProofs.emit_entry es))
  = (H, GoogleLine.PList (map GoogleLineProofs.read_entry es)).
Proof. exact GoogleScanProofs.google_docstring_roundtrip. Qed.
Print Assumptions C01_google_docstring_roundtrip.
Example C01_google_docstring_example :
  GoogleScan.google_docstring ([NL] ++ s2l "Load the dataset." ++ [NL; NL] ++ s2l "Rows are kept in order." ++ [NL; NL] ++ s2l "Args:" ++ [NL]
                    ++ s2l "  name (str): dataset to load" ++ [NL] ++ s2l "  batch_size (int): " ++ [NL] ++ s2l "  shuffle: randomise the row order")
  = (s2l "Load the dataset." ++ [NL; NL] ++ s2l "Rows are kept in order.",
     GoogleLine.PList [(s2l "name", Some (s2l "str"), s2l "dataset to load"); (s2l "batch_size", Some (s2l "int"), []); (s2l "shuffle", None, s2l "randomise the row order")]).
Proof. exact GoogleScanProofs.google_docstring_example. Qed.

(* ---- a WHOLE NumPy-style docstring (Model/NumpyScan.v: where the prose ends; the line scanner of Model/GoogleScan.v; the unit reader
   of Model/NumpyLine.v; the composition compared with parse_docstring each run).  For EVERY header without "-" that is not blank at
   either end, whatever blank text surrounds it, and EVERY non-empty list of typed one-line entries of the domain of
   C01_numpy_params_roundtrip: "<header><blank>Parameters / ----------" followed by "name : typ" and the indented description of each
   entry is read back as that header and exactly those entries, in order. *)
From CDD Require NumpyScan NumpyScanProofs.
Theorem C01_numpy_docstring_roundtrip : forall (pre H sep : str) (es : list NumpyLineProofs.nentry),
  RestDocProofs.blank pre = true -> RestDocProofs.head_ok H = true -> RestDocProofs.head_ok (rev H) = true ->
  GoogleLineProofs.lacks NumpyScanProofs.DASH H = true -> RestDocProofs.blank sep = true ->
  es <> [] -> forallb NumpyScanProofs.nentry_ok1 es = true ->
  NumpyScan.numpy_docstring (pre ++ H ++ sep ++ NumpyScan.NPARAMS ++ [NL] ++ join [NL] (concat (map NumpyLineProofs.emit_nentry es)))
  = (H, map NumpyLineProofs.read_nentry es).
Proof. exact NumpyScanProofs.numpy_docstring_roundtrip. Qed.
Print Assumptions C01_numpy_docstring_roundtrip.
Example C01_numpy_docstring_example :
  NumpyScan.numpy_docstring ([NL] ++ s2l "Load the dataset." ++ [NL; NL] ++ s2l "Parameters" ++ [NL] ++ s2l "----------" ++ [NL]
                   ++ s2l "name : str" ++ [NL] ++ s2l "    dataset to load" ++ [NL] ++ s2l "batch_size : int")
  = (s2l "Load the dataset.", [(s2l "name", Some (s2l "str"), Some (s2l "dataset to load")); (s2l "batch_size", Some (s2l "int"), Some [])]).
Proof. exact NumpyScanProofs.numpy_docstring_example. Qed.

(* ---- the Google ROUND TRIP as text (Model/GoogleEmit.v: cdd/docstring/emit.py:docstring for the Google style -- "Args:" and one line per
   parameter joined to the description by header_args_footer_to_str -- compared with the real emitter each run; the parse side is
   C01_google_docstring_roundtrip with a line break after the last parameter).  For EVERY clean description (one paragraph, no
   colon, not blank at either end) and EVERY non-empty list of documented one-line entries of the domain: the text the emitter writes
   is given in closed form (C01_google_emit_text) and parsing it yields that description and exactly those entries. *)
From CDD Require GoogleEmit GoogleEmitProofs.
Theorem C01_google_emit_text : forall doc es, RestDocProofs.clean doc = true -> es <> [] ->
  forallb GoogleScanProofs.entry_ok1 es = true -> forallb GoogleEmitProofs.documented es = true ->
  GoogleEmit.emit_google doc es = doc ++ [NL; NL] ++ GoogleHead.ARGS ++ [NL] ++ join [NL] (map GoogleLineProofs.emit_entry es) ++ [NL].
Proof. exact GoogleEmitProofs.emit_google_text. Qed.
Print Assumptions C01_google_emit_text.
Theorem C01_google_emit_parse_roundtrip : forall doc es, RestDocProofs.clean doc = true -> es <> [] ->
  forallb GoogleScanProofs.entry_ok1 es = true -> forallb GoogleEmitProofs.documented es = true ->
  GoogleScan.google_docstring (GoogleEmit.emit_google doc es) = (doc, GoogleLine.PList (map GoogleLineProofs.read_entry es)).
Proof. exact GoogleEmitProofs.google_emit_parse_roundtrip. Qed.
Print Assumptions C01_google_emit_parse_roundtrip.
Example C01_google_emit_example :
  GoogleEmit.emit_google (s2l "Load the dataset.") [(s2l "name", Some (s2l "str"), Some (s2l "dataset to load")); (s2l "shuffle", None, Some (s2l "randomise the row order"))]
  = s2l "Load the dataset." ++ [NL; NL] ++ s2l "Args:" ++ [NL] ++ s2l "  name (str): dataset to load" ++ [NL] ++ s2l "  shuffle: randomise the row order" ++ [NL].
Proof. exact GoogleEmitProofs.google_emit_example. Qed.

(* ---- the NumPy ROUND TRIP as text (Model/NumpyEmit.v, compared with the real emitter each run): for EVERY clean description without
   "-" and EVERY non-empty list of typed one-line entries whose last written character is visible, the text the emitter writes is
   given in closed form and parsing it yields that description and exactly those entries. *)
From CDD Require NumpyEmit NumpyEmitProofs.
Theorem C01_numpy_emit_text : forall doc es, RestDocProofs.clean doc = true -> es <> [] ->
  forallb NumpyScanProofs.nentry_ok1 es = true -> forallb NumpyEmitProofs.ends_visible es = true ->
  NumpyEmit.emit_numpy doc (map NumpyEmitProofs.as_entry es)
  = doc ++ [NL; NL] ++ NumpyScan.NPARAMS ++ [NL] ++ join [NL] (concat (map NumpyLineProofs.emit_nentry es)) ++ [NL].
Proof. exact NumpyEmitProofs.emit_numpy_text. Qed.
Print Assumptions C01_numpy_emit_text.
Theorem C01_numpy_emit_parse_roundtrip : forall doc es, RestDocProofs.clean doc = true -> GoogleLineProofs.lacks NumpyScanProofs.DASH doc = true -> es <> [] ->
  forallb NumpyScanProofs.nentry_ok1 es = true -> forallb NumpyEmitProofs.ends_visible es = true ->
  NumpyScan.numpy_docstring (NumpyEmit.emit_numpy doc (map NumpyEmitProofs.as_entry es)) = (doc, map NumpyLineProofs.read_nentry es).
Proof. exact NumpyEmitProofs.numpy_emit_parse_roundtrip. Qed.
Print Assumptions C01_numpy_emit_parse_roundtrip.
Example C01_numpy_emit_example :
  NumpyEmit.emit_numpy (s2l "Load the dataset.") [(s2l "name", Some (s2l "str"), Some (s2l "dataset to load")); (s2l "batch_size", Some (s2l "int"), None)]
  = s2l "Load the dataset." ++ [NL; NL] ++ s2l "Parameters" ++ [NL] ++ s2l "----------" ++ [NL] ++ s2l "name : str" ++ [NL] ++ s2l "    dataset to load"
    ++ [NL] ++ s2l "batch_size : int" ++ [NL].
Proof. exact NumpyEmitProofs.numpy_emit_example. Qed.

(* ---- "defaults forming a suffix of the parameter list for Google / NumPy" (the quantifier's domain) is where the parser leaves
   defaults alone (Model/ForceDefaults.v: the sticky require_default flag of the Google / NumPy parse phase over interpolate_defaults,
   compared with the code through parse_docstring each run).  For EVERY parameter list whose announced defaults form a suffix, each
   parameter keeps exactly its own default (C01_suffix_defaults_are_kept); for ANY list, what comes out is suffix-shaped -- a parameter
   behind the first default that announces none is GIVEN one, the zero of its simple type or NoneStr (C01_forced_defaults_example:
   outside the domain the interface changes). *)
From CDD Require ForceDefaults ForceDefaultsProofs.
Theorem C01_suffix_defaults_are_kept : forall (D : Type) ps, ForceDefaultsProofs.suffix_shaped D false ps = true ->
  ForceDefaults.force_future D false ps = map (ForceDefaultsProofs.own D) ps.
Proof. exact ForceDefaultsProofs.suffix_defaults_are_kept. Qed.
Print Assumptions C01_suffix_defaults_are_kept.
Theorem C01_defaults_come_out_as_a_suffix : forall (D : Type) ps b,
  ForceDefaultsProofs.out_shaped D b (ForceDefaults.force_future D b ps) = true.
Proof. exact ForceDefaultsProofs.result_is_suffix_shaped. Qed.
Print Assumptions C01_defaults_come_out_as_a_suffix.
Example C01_forced_defaults_example :
  ForceDefaults.force_future N false [(Some (s2l "int"), None); (Some (s2l "str"), Some 7%N); (Some (s2l "int"), None); (Some (s2l "List[str]"), None)]
  = [None; Some (ForceDefaults.FOwn N 7%N); Some (ForceDefaults.FZero N (s2l "int")); Some (ForceDefaults.FNoneStr N)].
Proof. exact ForceDefaultsProofs.force_example. Qed.
