(* C01 -- docstring <-> interface round trip: the "default <-> 'Defaults to' prose" mechanism. *)
From CDD Require Import PyStr DefaultDoc DefaultDocProofs.

(* For EVERY description that announces no default and EVERY rendered default text: the announcer is appended
   after the description (the description is a prefix, a full stop is added only when neither '.' nor ','
   ends it) ... *)
Theorem C01_default_in_prose : forall strip doc t,
  has_defaults doc = false ->
  exists rest, set_default_doc strip doc (Some t) true = doc ++ rest /\
               (ends_with_stop doc = true -> rest = s2l " Defaults to " ++ t) /\
               (ends_with_stop doc = false -> rest = [46] ++ s2l " Defaults to " ++ t).
Proof. exact set_default_doc_keeps_description. Qed.
Print Assumptions C01_default_in_prose.
(* ... exactly once, however often the emitter is applied (has_defaults guard) ... *)
Theorem C01_default_announced_once : forall strip doc t,
  has_defaults doc = false ->
  set_default_doc strip (set_default_doc strip doc (Some t) true) (Some t) true = set_default_doc strip doc (Some t) true.
Proof. exact set_default_doc_idempotent. Qed.
(* ... and with emit_default_doc off nothing is written into the prose *)
Theorem C01_default_stripped : forall strip doc d, has_defaults doc = false -> set_default_doc strip doc d false = doc.
Proof. exact set_default_doc_off. Qed.
(* string defaults are quoted exactly once *)
Theorem C01_quote_idempotent : forall s, quote (quote s) = quote s.
Proof. exact quote_idempotent. Qed.
Print Assumptions C01_quote_idempotent.

Example C01_example :
  set_default_doc (fun d => d) (s2l "the value") (Some (quote (s2l "x"))) true = s2l "the value. Defaults to ""x""".
Proof. vm_compute. reflexivity. Qed.
