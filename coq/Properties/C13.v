(* C13 -- sync_properties updates exactly the selected property (the output-side rewrite). *)
From CDD Require Import PyStr Rewrite RewriteProofs.

(* For EVERY module, search path and replacement: the rewritten module has the same definitions and
   statements in the same order, every function keeps its number of positional parameters, keyword-only
   parameters and defaults (alignment), and every statement that is not an attribute assignment is
   untouched. *)
Theorem C13_shape_preserved : forall search r m m' b,
  rewrite search r m = Some (m', b) -> map shape m' = map shape m.
Proof. exact rewrite_shape. Qed.
Print Assumptions C13_shape_preserved.

(* inside the function that is hit, exactly ONE parameter is replaced, in place *)
Theorem C13_one_parameter : forall loc search new args args' b,
  replace_arg loc search new args = (args', b) ->
  (b = false /\ args' = args) \/
  (b = true /\ exists pre a post, args = pre ++ a :: post /\ args' = pre ++ new :: post /\
                                   strs_eqb (loc ++ [a_name a]) search = true).
Proof. exact replace_arg_spec. Qed.
Print Assumptions C13_one_parameter.

Theorem C13_alignment : forall search r loc args kwonly defaults a' k' d' b,
  visit_func search r loc args kwonly defaults = (a', k', d', b) ->
  length a' = length args /\ length k' = length kwonly /\ length d' = length defaults.
Proof. exact visit_func_alignment. Qed.

(* every default value is unchanged -- PROVIDED the replacement is not a class attribute with a value whose
   name is also the name of a positional parameter of the function ... *)
Theorem C13_defaults_unchanged_partial : forall search r loc args kwonly defaults a' k' d' b,
  visit_func search r loc args kwonly defaults = (a', k', d', b) ->
  match r with RAnn t _ (Some _) => idx_of t args (start_idx args) = None | _ => True end ->
  d' = defaults.
Proof. exact visit_func_defaults_unchanged. Qed.
Print Assumptions C13_defaults_unchanged_partial.

(* ... otherwise the faithful model overwrites a default that belongs to ANOTHER parameter (the index of the
   argument is used as an index into `defaults`, which is aligned to the tail):
   In.a = 5 synced onto f.a of  def f(x, a='why', z=0.0)  turns z's default into 5 *)
Theorem C13_defaults_refuted :
  visit_func [s2l "f"; s2l "a"] (RAnn (s2l "a") (s2l "int") (Some (s2l "5"))) [s2l "f"]
             [mkArg (s2l "x") None; mkArg (s2l "a") None; mkArg (s2l "z") None] [] [s2l "'why'"; s2l "0.0"]
  = ([mkArg (s2l "x") None; mkArg (s2l "a") (Some (s2l "int")); mkArg (s2l "z") None], [], [s2l "'why'"; s2l "5"], true).
Proof. vm_compute. reflexivity. Qed.
