(* C13 -- sync_properties updates exactly the selected property (the output-side rewrite). *)
From CDD Require Import PyStr Rewrite RewriteProofs.

(* For EVERY module, search path and replacement: the rewritten module has the same definitions and
   statements in the same order, every function keeps its number of positional parameters, keyword-only
   parameters and defaults (alignment), and every statement that is not an attribute assignment is
   untouched. *)
Theorem C13_shape_preserved : forall search r m m' b,
  rewrite search r m = Some (m', b) -> map shape m' = map shape m.
Proof. exact rewrite_shape. Qed.
Print Assumptions C13_shape_preserved.

(* inside the function that is hit, exactly ONE parameter is replaced, in place *)
Theorem C13_one_parameter : forall loc search new args args' b,
  replace_arg loc search new args = (args', b) ->
  (b = false /\ args' = args) \/
  (b = true /\ exists pre a post, args = pre ++ a :: post /\ args' = pre ++ new :: post /\
                                   strs_eqb (loc ++ [a_name a]) search = true).
Proof. exact replace_arg_spec. Qed.
Print Assumptions C13_one_parameter.

Theorem C13_alignment : forall search r loc args kwonly defaults a' k' d' b,
  visit_func search r loc args kwonly defaults = (a', k', d', b) ->
  length a' = length args /\ length k' = length kwonly /\ length d' = length defaults.
Proof. exact visit_func_alignment. Qed.

(* every default value is unchanged -- PROVIDED the replacement is not a class attribute with a value whose
   name is also the name of a positional parameter of the function ... *)
Theorem C13_defaults_unchanged_partial : forall search r loc args kwonly defaults a' k' d' b,
  visit_func search r loc args kwonly defaults = (a', k', d', b) ->
  match r with RAnn t _ (Some _) => idx_of t args (start_idx args) = None | _ => True end ->
  d' = defaults.
Proof. exact visit_func_defaults_unchanged. Qed.
Print Assumptions C13_defaults_unchanged_partial.

(* ... otherwise the faithful model overwrites a default that belongs to ANOTHER parameter (the index of the
   argument is used as an index into `defaults`, which is aligned to the tail):
   In.a = 5 synced onto f.a of  def f(x, a='why', z=0.0)  turns z's default into 5 *)
Theorem C13_defaults_refuted :
  visit_func [s2l "f"; s2l "a"] (RAnn (s2l "a") (s2l "int") (Some (s2l "5"))) [s2l "f"]
             [mkArg (s2l "x") None; mkArg (s2l "a") None; mkArg (s2l "z") None] [] [s2l "'why'"; s2l "0.0"]
  = ([mkArg (s2l "x") None; mkArg (s2l "a") (Some (s2l "int")); mkArg (s2l "z") None], [], [s2l "'why'"; s2l "5"], true).
Proof. vm_compute. reflexivity. Qed.

(* ---- the lookup of a dotted path (find_in_ast after annotate_ancestry; Model/FindAst.v is a transcription of its two nested loops
   with their shared state, compared with the code by position on generated modules each run) --------------------------------
   [inert search parent q cs x]: the sibling x is not the node searched for, is not an annotated assignment or class called like
   the current query q, and -- if it is a function -- nothing is left to pop (cs = []) and no positional parameter is called q. *)
From CDD Require FindAst FindAstProofs.

(* a class attribute C.a: found, at its position, for EVERY module in which only inert siblings precede the class and the attribute *)
Theorem C13_lookup_class_attribute : forall C a pre body post bpre y bpost,
  forallb (FindAstProofs.inert [C; a] [] C [a]) pre = true -> str_eqb C a = false ->
  body = bpre ++ y :: bpost -> forallb (FindAstProofs.inert [C; a] [C] a []) bpre = true -> FindAst.node_loc [C] y = Some [C; a] ->
  FindAst.find_in_ast [C; a] (pre ++ NClass C body :: post) = FindAst.FNode [length pre; length bpre].
Proof. exact FindAstProofs.find_attr. Qed.
Print Assumptions C13_lookup_class_attribute.

(* a positional parameter f.p of a top-level function, when only inert siblings precede f *)
Theorem C13_lookup_parameter : forall f p pre args kw dfl bid post k,
  forallb (FindAstProofs.inert [f; p] [] f [p]) pre = true -> FindAst.find_arg p args O = Some k ->
  FindAst.find_in_ast [f; p] (pre ++ NFunc f args kw dfl bid :: post) = FindAst.FArg [length pre] k.
Proof. exact FindAstProofs.find_param. Qed.
Print Assumptions C13_lookup_parameter.

(* what the conditions exclude -- the recorded findings, as facts about the faithful model: an earlier function with a parameter of
   the same name wins (the function name is never compared); a function before the class consumes the attribute name and the
   class is never entered (None -> sync_property's assert); keyword-only parameters are never found; a path through a parameter
   raises *)
Theorem C13_lookup_refuted :
  FindAst.find_in_ast [s2l "f"; s2l "p"] [NFunc (s2l "g") [FindAstProofs.A "p"] [] [] 1; NFunc (s2l "f") [FindAstProofs.A "x"; FindAstProofs.A "p"] [] [] 2]
    = FindAst.FArg [0%nat] 0
  /\ FindAst.find_in_ast [s2l "C"; s2l "a"] [NFunc (s2l "g") [FindAstProofs.A "x"] [] [] 1; NClass (s2l "C") [NAnn (s2l "a") (s2l "int") None]] = FindAst.FNone
  /\ FindAst.find_in_ast [s2l "f"; s2l "k"] [NFunc (s2l "f") [FindAstProofs.A "x"] [FindAstProofs.A "k"] [] 1] = FindAst.FNone
  /\ FindAst.find_in_ast [s2l "f"; s2l "x"; s2l "y"] [NFunc (s2l "f") [FindAstProofs.A "x"] [] [] 1] = FindAst.FErr.
Proof. repeat split; vm_compute; reflexivity. Qed.

Example C13_lookup_examples :
  let m := [NOther 1; NAssign (s2l "K") (s2l "1");
            NClass (s2l "C") [NOther 2; NAnn (s2l "a") (s2l "int") (Some (s2l "5")); NFunc (s2l "run") [FindAstProofs.A "self"; FindAstProofs.A "b"] [] [] 3];
            NFunc (s2l "f") [FindAstProofs.A "x"; FindAstProofs.A "p"] [] [s2l "1"] 4] in
  FindAst.find_in_ast [s2l "C"; s2l "a"] m = FindAst.FNode [2%nat; 1%nat] /\ FindAst.find_in_ast [s2l "f"; s2l "p"] m = FindAst.FArg [3%nat] 1
  /\ forallb (FindAstProofs.inert [s2l "C"; s2l "a"] [] (s2l "C") [s2l "a"]) (firstn 2 m) = true
  /\ forallb (FindAstProofs.inert [s2l "f"; s2l "p"] [] (s2l "f") [s2l "p"]) (firstn 3 m) = true.
Proof. vm_compute. repeat split; reflexivity. Qed.

(* ---- the members of the Literal written by --input-eval go through ast_utils.set_value (Model/SetValue.v, compared with the code
   each run): for EVERY text of at most two characters, and every text that does not wear a matching pair of quotes, the member
   written is the member evaluated; the function differs from pure_utils.unquote exactly on '' and "" (which it keeps).  A member
   that is itself written in quotes loses them (C13_eval_member_refuted). *)
From CDD Require Quote SetValue SetValueProofs.
Theorem C13_eval_member_kept : forall s, (length s <= 2)%nat \/ SetValue.wears_quotes s = false -> SetValue.set_value_text s = s.
Proof. exact SetValueProofs.set_value_keeps. Qed.
Print Assumptions C13_eval_member_kept.
Theorem C13_eval_member_vs_unquote : forall s, length s <> 2%nat -> SetValue.set_value_text s = Quote.unquote s.
Proof. exact SetValueProofs.set_value_vs_unquote. Qed.
Print Assumptions C13_eval_member_vs_unquote.
Example C13_eval_member_examples :
  SetValue.set_value_text (s2l "''") = s2l "''" /\ SetValue.set_value_text [DefaultDoc.DQ; DefaultDoc.DQ] = [DefaultDoc.DQ; DefaultDoc.DQ]
  /\ SetValue.set_value_text (s2l "'") = s2l "'" /\ SetValue.set_value_text (s2l "NULL") = s2l "NULL" /\ Quote.unquote (s2l "''") = [].
Proof. exact SetValueProofs.set_value_examples. Qed.
Example C13_eval_member_refuted : SetValue.set_value_text (s2l "'ab'") = s2l "ab" /\ SetValue.wears_quotes (s2l "'ab'") = true.
Proof. exact SetValueProofs.set_value_refuted. Qed.
