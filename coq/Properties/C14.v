(* C14 -- every parser returns a well-formed interface description (the mechanisms that make it so). *)
From Coq Require Import Permutation.
From CDD Require Import PyStr Merge MergeProofs NameSan NameSanProofs.

(* for EVERY parameter name, the sanitised name has no leading asterisk *)
Theorem C14_name_sanitised : forall name, no_leading_star (sanitise_name name) = true.
Proof. exact sanitise_no_leading_star. Qed.
Print Assumptions C14_name_sanitised.

(* merging the signature's parameters into the documented ones (any enumeration of the key
   intersection): no name is duplicated, and every signature parameter appears exactly once *)
Theorem C14_merge_nodup : forall enum (other t : list (str * cparam)),
  NoDup (names str cparam t) -> NoDup (names str cparam (cmerge enum other t)).
Proof. intros. apply merge_nodup; [exact str_eqb_eq | assumption]. Qed.
Print Assumptions C14_merge_nodup.

Theorem C14_signature_once : forall enum (other t : list (str * cparam)) n
  (eq_dec : forall a b : str, {a = b} + {a <> b}),
  NoDup (names str cparam t) -> In n (names str cparam other) ->
  count_occ eq_dec (names str cparam (cmerge enum other t)) n = 1%nat.
Proof. intros. apply merge_signature_once; [exact str_eqb_eq | assumption | assumption]. Qed.
Print Assumptions C14_signature_once.

Example C14_examples :
  sanitise_name (s2l "**kw") = s2l "kw" /\ sanitise_name (s2l "*args") = s2l "args" /\
  sanitise_name (s2l "**kwargs") = s2l "kwargs" /\ sanitise_name (s2l "plain") = s2l "plain".
Proof. repeat split; vm_compute; reflexivity. Qed.

(* ---- the ReST docstring parser (Model/RestDoc.v: _scan_phase_rest + _parse_phase_rest with the name handling of
   _set_name_and_type), for EVERY input text -- no well-formedness hypothesis: the parameter names it returns are pairwise
   distinct and none starts with an asterisk; the return entry is at most one by construction (an option). *)
From CDD Require RestDoc RestDocShapeProofs.
Theorem C14_rest_names_once_and_star_free : forall (doc : str),
  NoDup (map fst (RestDoc.p_params (RestDoc.parse_rest doc)))
  /\ Forall (fun n => startswith [STAR] n = false) (map fst (RestDoc.p_params (RestDoc.parse_rest doc))).
Proof. exact RestDocShapeProofs.parse_rest_names_ok. Qed.
Print Assumptions C14_rest_names_once_and_star_free.

(* the parser's name handling is the sanitiser of C14_name_sanitised *)
Theorem C14_rest_parser_sanitises : forall n, RestDoc.norm_name n = sanitise_name n.
Proof. intro n. unfold RestDoc.norm_name, sanitise_name. destruct n as [|c r]; reflexivity. Qed.

Example C14_rest_names_example :
  map fst (RestDoc.p_params (RestDoc.parse_rest (s2l ":param x: a :param **kw: b :param x: c :param *args: d :type kw: ```dict```")))
  = [s2l "x"; s2l "kw"; s2l "args"].
Proof. vm_compute. reflexivity. Qed.

(* ---- the Google and NumPy unit readers (Model/GoogleLine.v, Model/NumpyLine.v, compared with the code through parse_docstring each run
   by C01's check): for EVERY line / unit, a name that is returned carries no blank at either end. *)
From CDD Require GoogleLine NumpyLine UnitNameProofs.
Theorem C14_google_numpy_names_stripped :
  (forall l n t d, GoogleLine.parse_google_unit l = GoogleLine.UOk n t d -> UnitNameProofs.stripped n)
  /\ (forall u n t d, NumpyLine.parse_numpy_unit u = NumpyLine.NEntry n t d -> UnitNameProofs.stripped n).
Proof. split; [exact UnitNameProofs.google_name_stripped | exact UnitNameProofs.numpy_name_stripped]. Qed.
Print Assumptions C14_google_numpy_names_stripped.
