(* C02 -- class / pydantic / function / argparse emit -> parse round trip: the signature mechanism. *)
From CDD Require Import PyStr FuncSig FuncSigProofs.

(* For EVERY signature (any names, any defaults, len(defaults) <= len(args)): the parser's left-padding
   of the defaults list pairs each argument with exactly the default CPython gives it (tail alignment):
   a default can never "leak" onto the following or preceding parameter. *)
Theorem C02_defaults_alignment : forall (args : list str) (defaults : list str),
  (length defaults <= length args)%nat ->
  parse_pairs str str (args, defaults) = python_pairs str str (args, defaults).
Proof. exact (defaults_alignment str str). Qed.
Print Assumptions C02_defaults_alignment.

(* function emit -> parse, for every parameter list: same names in the same order, a present default is
   returned unchanged at the same position, an absent one is shown as None (the documented normalisation) *)
Theorem C02_function_roundtrip : forall (none_ : str) (ps : list (str * option str)),
  parse_pairs str str (emit_sig str str none_ ps)
  = map (fun p => (fst p, Some (match snd p with Some d => d | None => none_ end))) ps.
Proof. exact (function_roundtrip str str). Qed.
Print Assumptions C02_function_roundtrip.

Theorem C02_default_stays_on_its_parameter : forall (none_ : str) ps i n d,
  nth_error ps i = Some (n, Some d) ->
  nth_error (parse_pairs str str (emit_sig str str none_ ps)) i = Some (n, Some d).
Proof. exact (function_roundtrip_nth str str). Qed.

Theorem C02_class_roundtrip : forall (ps : list (str * option str)), parse_class str str (emit_class str str ps) = ps.
Proof. exact (class_roundtrip str str). Qed.

Example C02_alignment_example :
  parse_pairs str str ([s2l "a"; s2l "b"; s2l "c"], [s2l "1"; s2l "2"])
  = [(s2l "a", None); (s2l "b", Some (s2l "1")); (s2l "c", Some (s2l "2"))].
Proof. vm_compute. reflexivity. Qed.

(* ---- the class format as text: docstring + annotated assignments (Model/ClassFmt.v) ---------------------------------
   emit_class writes the description and one ":cvar name: doc" line per attribute into the class docstring (tab-indented,
   right-stripped: cdd/class_/emit.py + cdd/docstring/emit.py with purpose "class", indent_level 1) and one annotated
   assignment per attribute into the body; parse_class runs the ReST scanner and parser over the docstring and lets the
   body fill in typ and default.  For EVERY description and EVERY attribute list in the stated domain (one-line texts with
   no colon and no blank at either end, distinct identifier names, each attribute typed and documented, at least one
   attribute): every attribute comes back exactly once, under its own name, in its position, with its own description,
   type and default -- present and absent defaults alike (an absent one stays absent, a present one stays on its owner). *)
From CDD Require RestDoc ClassFmt ClassFmtProofs RestDocProofs RestDocIndentProofs.

Theorem C02_class_text_roundtrip : forall (doc : str) (ps : list (str * ClassFmt.cparam)),
  RestDocProofs.clean doc = true -> RestDocIndentProofs.one_line doc = true ->
  forallb ClassFmtProofs.cparam_ok ps = true -> NoDup (map fst ps) -> ps <> [] ->
  ClassFmt.parse_class (ClassFmt.emit_class doc ps) = (doc, ps).
Proof. exact ClassFmtProofs.class_roundtrip. Qed.
Print Assumptions C02_class_text_roundtrip.

(* the emitted class docstring is exactly: newline + tab, description, blank line, the :cvar lines, tab-indented *)
Theorem C02_class_docstring_canonical : forall (doc : str) (ps : list (str * ClassFmt.cparam)),
  RestDocProofs.clean doc = true -> RestDocIndentProofs.one_line doc = true ->
  forallb ClassFmtProofs.cparam_ok ps = true -> ps <> [] ->
  ClassFmt.class_docstring doc ps
  = ClassFmtProofs.crender ClassFmtProofs.C_HP [] ClassFmtProofs.C_HP ClassFmtProofs.C_HS doc (ClassFmtProofs.docs_of ps).
Proof. exact ClassFmtProofs.class_docstring_is_crender. Qed.
Print Assumptions C02_class_docstring_canonical.

(* the hypotheses are satisfiable, and what the theorem says of a concrete class (one default present, one absent) *)
Example C02_class_text_example :
  let doc := s2l "Acquire from the official tensorflow_datasets model zoo" in
  let ps := [(s2l "dataset_name", {| ClassFmt.cp_typ := Some (s2l "str"); ClassFmt.cp_doc := Some (s2l "name of dataset"); ClassFmt.cp_default := Some (s2l "'mnist'") |});
             (s2l "as_numpy", {| ClassFmt.cp_typ := Some (s2l "Optional[bool]"); ClassFmt.cp_doc := Some (s2l "Convert to numpy ndarrays"); ClassFmt.cp_default := None |})] in
  RestDocProofs.clean doc = true /\ RestDocIndentProofs.one_line doc = true /\ forallb ClassFmtProofs.cparam_ok ps = true
  /\ ClassFmt.class_docstring doc ps
     = [NL] ++ RestDoc.TAB ++ doc ++ [NL] ++ RestDoc.TAB ++ [NL] ++ RestDoc.TAB ++ s2l ":cvar dataset_name: name of dataset"
       ++ [NL] ++ RestDoc.TAB ++ s2l ":cvar as_numpy: Convert to numpy ndarrays"
  /\ ClassFmt.parse_class (ClassFmt.emit_class doc ps) = (doc, ps).
Proof. vm_compute. repeat split; reflexivity. Qed.

(* ---- the function format as text (Model/FuncFmt.v: docstring + signature; the parser = ReST scanner + parser, then the merge of
   the signature into the documented parameters, Model/Merge.v).  [ftext k doc es] is the canonical docstring text at indent level
   k with emit_separating_tab off (blank lines carry no tab).  For EVERY clean description and EVERY non-empty list of distinctly
   named, documented and typed parameters, with type_annotations on or off and at every indent level: parsing the canonical text
   together with the signature returns every parameter once, in order, with its own description, type and default -- an absent
   default reads back as None (the documented normalisation of the function format). *)
From CDD Require FuncFmt FuncFmtProofs.
Theorem C02_function_text_parse_canonical : forall (ta : bool) (k : nat) (doc : str) (ps : list (str * FuncFmt.fparam)),
  RestDocProofs.clean doc = true -> forallb FuncFmtProofs.fparam_ok ps = true -> NoDup (map fst ps) -> ps <> [] ->
  FuncFmt.parse_function {| FuncFmt.f_doc := FuncFmtProofs.ftext k doc (map (fun p => (fst p, FuncFmt.entry_of (negb ta) (snd p))) ps);
                            FuncFmt.f_args := FuncFmtProofs.sig_of ta ps |}
  = (doc, FuncFmtProofs.expected ps).
Proof. exact FuncFmtProofs.function_parse_canonical. Qed.
Print Assumptions C02_function_text_parse_canonical.

(* and the emitter (Model/RestDoc.v:emit_rest_indented_nt, a transcription of the tail of cdd/docstring/emit.py:docstring with
   emit_separating_tab off, compared with the code each run) writes exactly that canonical text, so for EVERY one-line clean
   description and EVERY non-empty list of distinctly named parameters with one-line descriptions and types:
   parse(emit(x)) = x up to the documented normalisation (an absent default reads back as None) *)
From CDD Require FuncEmitProofs.
Theorem C02_function_text_roundtrip : forall (ta : bool) (doc : str) (ps : list (str * FuncFmt.fparam)),
  RestDocProofs.clean doc = true -> RestDocIndentProofs.one_line doc = true ->
  forallb FuncFmtProofs.fparam_ok ps = true -> forallb FuncEmitProofs.fparam_1l ps = true -> NoDup (map fst ps) -> ps <> [] ->
  FuncFmt.parse_function (FuncFmt.emit_function ta doc ps) = (doc, FuncFmtProofs.expected ps).
Proof. exact FuncEmitProofs.function_roundtrip. Qed.
Print Assumptions C02_function_text_roundtrip.

Example C02_function_text_example :
  let doc := s2l "Acquire from the zoo" in
  let ps := [(s2l "dataset_name", {| FuncFmt.fp_typ := Some (s2l "str"); FuncFmt.fp_doc := Some (s2l "name of dataset"); FuncFmt.fp_default := Some (s2l "'mnist'") |});
             (s2l "as_numpy", {| FuncFmt.fp_typ := Some (s2l "Optional[bool]"); FuncFmt.fp_doc := Some (s2l "Convert to numpy ndarrays"); FuncFmt.fp_default := None |})] in
  forallb FuncFmtProofs.fparam_ok ps = true
  /\ FuncFmt.f_doc (FuncFmt.emit_function true doc ps) = FuncFmtProofs.ftext FuncFmt.INDENT doc (map (fun p => (fst p, FuncFmt.entry_of false (snd p))) ps)
  /\ FuncFmt.f_doc (FuncFmt.emit_function false doc ps) = FuncFmtProofs.ftext FuncFmt.INDENT doc (map (fun p => (fst p, FuncFmt.entry_of true (snd p))) ps)
  /\ FuncFmt.f_args (FuncFmt.emit_function true doc ps) = FuncFmtProofs.sig_of true ps
  /\ FuncFmt.parse_function (FuncFmt.emit_function true doc ps) = (doc, FuncFmtProofs.expected ps).
Proof. vm_compute. repeat split; reflexivity. Qed.

(* ---- reading an argparse function back: one add_argument(...) call (Model/ArgRead.v, a transcription of parse_out_param with
   _handle_value / _handle_keyword, compared with the code on generated calls each run).  For EVERY call that is read at all: a default
   that is written is the parameter's default -- 0, 0.0, False and '' included; the members of `choices` become a Literal in the order
   written; a plainly typed option is Optional exactly when it is not required.  (Members that are not strings under a type other
   than str make the reader raise: C02_argparse_int_choices_raise, the recorded behaviour.) *)
From CDD Require ArgRead ArgReadProofs.
Theorem C02_argparse_written_default_is_kept : forall c d r, ArgRead.a_default c = Some d -> ArgRead.parse_out_param c = Some r ->
  ArgRead.r_default r = Some (ArgRead.AVal d).
Proof. exact ArgReadProofs.written_default_is_kept. Qed.
Print Assumptions C02_argparse_written_default_is_kept.
Theorem C02_argparse_choices_in_order : forall c elts, ArgRead.a_type c = None -> ArgRead.a_action c = None -> ArgRead.a_choices c = Some elts ->
  ArgRead.a_required c = true ->
  option_map ArgRead.r_typ (ArgRead.parse_out_param c) = Some (s2l "Literal[" ++ join (s2l ", ") (map ArgReadProofs.quoted elts) ++ s2l "]").
Proof. exact ArgReadProofs.choices_in_order. Qed.
Print Assumptions C02_argparse_choices_in_order.
Theorem C02_argparse_optional_iff_not_required : forall c t, ArgRead.a_type c = Some t -> ArgReadProofs.plain_typ t = true ->
  ArgRead.a_choices c = None -> ArgRead.a_action c = None ->
  option_map ArgRead.r_typ (ArgRead.parse_out_param c) = Some (if ArgRead.a_required c then t else s2l "Optional[" ++ t ++ s2l "]").
Proof. exact ArgReadProofs.optional_iff_not_required. Qed.
Print Assumptions C02_argparse_optional_iff_not_required.
Example C02_argparse_int_choices_raise :
  ArgRead.parse_out_param {| ArgRead.a_name := s2l "n"; ArgRead.a_type := Some (s2l "int"); ArgRead.a_help := None; ArgRead.a_required := true;
                     ArgRead.a_default := None; ArgRead.a_action := None;
                     ArgRead.a_choices := Some [{| ArgRead.v_repr := s2l "2"; ArgRead.v_str := s2l "2"; ArgRead.v_empty := false; ArgRead.v_is_str := false |}] |} = None.
Proof. exact ArgReadProofs.int_choices_raise. Qed.
