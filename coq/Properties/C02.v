(* C02 -- class / pydantic / function / argparse emit -> parse round trip: the signature mechanism. *)
From CDD Require Import PyStr FuncSig FuncSigProofs.

(* For EVERY signature (any names, any defaults, len(defaults) <= len(args)): the parser's left-padding
   of the defaults list pairs each argument with exactly the default CPython gives it (tail alignment):
   a default can never "leak" onto the following or preceding parameter. *)
Theorem C02_defaults_alignment : forall (args : list str) (defaults : list str),
  (length defaults <= length args)%nat ->
  parse_pairs str str (args, defaults) = python_pairs str str (args, defaults).
Proof. exact (defaults_alignment str str). Qed.
Print Assumptions C02_defaults_alignment.

(* function emit -> parse, for every parameter list: same names in the same order, a present default is
   returned unchanged at the same position, an absent one is shown as None (the documented normalisation) *)
Theorem C02_function_roundtrip : forall (none_ : str) (ps : list (str * option str)),
  parse_pairs str str (emit_sig str str none_ ps)
  = map (fun p => (fst p, Some (match snd p with Some d => d | None => none_ end))) ps.
Proof. exact (function_roundtrip str str). Qed.
Print Assumptions C02_function_roundtrip.

Theorem C02_default_stays_on_its_parameter : forall (none_ : str) ps i n d,
  nth_error ps i = Some (n, Some d) ->
  nth_error (parse_pairs str str (emit_sig str str none_ ps)) i = Some (n, Some d).
Proof. exact (function_roundtrip_nth str str). Qed.

Theorem C02_class_roundtrip : forall (ps : list (str * option str)), parse_class str str (emit_class str str ps) = ps.
Proof. exact (class_roundtrip str str). Qed.

Example C02_alignment_example :
  parse_pairs str str ([s2l "a"; s2l "b"; s2l "c"], [s2l "1"; s2l "2"])
  = [(s2l "a", None); (s2l "b", Some (s2l "1")); (s2l "c", Some (s2l "2"))].
Proof. vm_compute. reflexivity. Qed.
