(* C10 -- output is a deterministic function of the input alone.
   CDD.SetIterSites is REGENERATED from /repo on every run by translate/setiter.py. *)
From Coq Require Import Permutation String.
From CDD Require Import PyStr Merge MergeProofs SetIterSites.

(* For EVERY pair of parameter dicts and ANY two enumerations of the key intersection (= any hash seed):
   merge_params gives the same ordered result. *)
Theorem C10_merge_enum_independent :
  forall (other t : list (str * cparam)) (e1 e2 : list str),
  Permutation e1 e2 -> NoDup e1 -> cmerge e1 other t = cmerge e2 other t.
Proof.
  intros. apply merge_enum_independent; [exact str_eqb_eq | assumption | assumption].
Qed.
Print Assumptions C10_merge_enum_independent.

(* the order is a function of the two inputs only: documented names in documented order, then the
   undocumented signature names in signature order *)
Theorem C10_order_spec : forall enum (other t : list (str * cparam)),
  names str cparam (cmerge enum other t)
  = names str cparam t ++ fresh str str_eqb (names str cparam t) (names str cparam other).
Proof. intros. apply merge_order_spec. Qed.
Print Assumptions C10_order_spec.

(* _join_non_none: the joined key->value MAP does not depend on the enumeration of the key set *)
Theorem C10_join_enum_independent : forall e1 e2 primacy other,
  (forall k, In k e1 <-> In k e2) ->
  forall k, kv_get k (join_non_none e1 primacy other) = kv_get k (join_non_none e2 primacy other).
Proof. exact join_enum_independent. Qed.
Print Assumptions C10_join_enum_independent.

(* Inventory: every place the package iterates a set in an order-relevant way is one of these, each
   with its justification.  A new unsorted set reaching a loop / join / list breaks this theorem. *)
Local Open Scope string_scope.
Definition approved_ordered : list string := [
  (* independent point updates: C10_merge_enum_independent *)
  "cdd.shared.parse.utils.parser_utils|merge_params|other_params.keys() & target_params.keys()";
  (* dict.update from a dict comprehension over the key set: C10_join_enum_independent (only the
     insertion order of keys inside ONE parameter record can differ; emitters read records by key) *)
  "cdd.shared.parse.utils.parser_utils|_join_non_none|all_keys";
  (* passed on for membership tests only (RewriteName.node_ids / make_call_meth / `name not in required`) *)
  "cdd.class_.emit|class_|param_names";
  "cdd.json_schema.parse|json_schema|required"
].
Definition approved_mutable_defaults : list string := [
  "cdd.compound.exmod_utils|get_module_contents|{}"      (* named in the property's anchors; observed by the exmod runs *)
].
Definition approved_global_writers : list string := [
  "cdd.compound.gen|gen|globals().update(...)"            (* gen --prepend: named in the property's anchors *)
].
Definition all_in (approved l : list string) : bool := forallb (fun s => existsb (String.eqb s) approved) l.

Theorem C10_sites :
  all_in approved_ordered ordered_set_iterations = true /\
  all_in approved_mutable_defaults mutable_defaults = true /\
  all_in approved_global_writers global_writers = true.
Proof. repeat split; vm_compute; reflexivity. Qed.
Print Assumptions C10_sites.

(* the inventory is looking at something: sets are used (insensitively) in many places *)
Example C10_inventory_nonempty : Nat.leb 20 insensitive_set_uses = true.
Proof. vm_compute. reflexivity. Qed.

Example C10_merge_example :
  let P := fun s => (s2l s, mkCP None None None) in
  names str cparam (cmerge [s2l "c"] [P "a"; P "b"; P "c"; P "d"] [P "c"]) = [s2l "c"; s2l "a"; s2l "b"; s2l "d"].
Proof. vm_compute. reflexivity. Qed.
