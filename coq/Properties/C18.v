(* C18 -- every public module imports on its own, and in any order with any other.
   The module table CDD.ImportGraph is REGENERATED from /repo on every run; the domain is the finite
   list [public]; the claims are decided inside the kernel and lifted to forall. *)
From Coq Require Import List PArith Bool.
Import ListNotations.
From CDD Require Import ImportSem ImportGraph.

Definition fuel : nat := 4 * n_modules.
Definition single (m : list positive) : bool := single_ok modules root_name root_mod fuel m.
Definition pair (ab : list positive * list positive) : bool := pair_ok modules root_name root_mod fuel ab.

Theorem C18_single : forall m, In m public -> single m = true.
Proof. apply forallb_forall. vm_compute. reflexivity. Qed.
Print Assumptions C18_single.

Theorem C18_pairs : forall a b, In a public -> In b public -> pair (a, b) = true.
Proof.
  intros a b Ha Hb.
  assert (H : forallb pair (list_prod public public) = true) by (vm_compute; reflexivity).
  rewrite forallb_forall in H. apply H. apply in_prod; assumption.
Qed.
Print Assumptions C18_pairs.

(* non-vacuity: the domain is not empty and a successful run binds names *)
Example C18_nonempty : Nat.leb 10 (length public) = true.
Proof. vm_compute. reflexivity. Qed.
