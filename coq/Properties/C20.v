(* C20 -- exmod --dry-run reaches no file-system effect.
   CDD.EffectSkeleton is REGENERATED from /repo on every run by translate/effects.py. *)
From Coq Require Import List Bool.
Import ListNotations.
From CDD Require Import EffectSem EffectProofs EffectSkeleton.

(* proved once, for every program of the skeleton language and every entry *)
Theorem C20_checker_sound : forall bad p f d,
  safe_from bad p (f, d) = true -> forall tr, exec p d (body_of p f) tr -> harmless bad tr.
Proof. exact safe_from_sound. Qed.
Print Assumptions C20_checker_sound.

(* every execution of exmod's skeleton with dry_run = True contains no file-system write site
   (and no construct the translator could not classify) *)
Theorem C20_dry_run : forall tr,
  exec skeleton true (body_of skeleton id_exmod) tr -> harmless bad_fs tr.
Proof. apply safe_from_sound. vm_compute. reflexivity. Qed.
Print Assumptions C20_dry_run.

(* non-vacuity: the same entry with dry_run = False does reach write sites, i.e. the checker is
   looking at a skeleton that contains the effects the guards protect *)
Theorem C20_real_run_has_effects : safe_from bad_fs skeleton (id_exmod, false) = false.
Proof. vm_compute. reflexivity. Qed.
Print Assumptions C20_real_run_has_effects.

Theorem C20_entry_in_range : Nat.ltb id_exmod (length skeleton) = true.
Proof. vm_compute. reflexivity. Qed.
