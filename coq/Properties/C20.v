(* C20 -- exmod --dry-run reaches no file-system effect.
   CDD.EffectSkeleton is REGENERATED from /repo on every run by translate/effects.py. *)
From Coq Require Import List Bool.
Import ListNotations.
From CDD Require Import EffectSem EffectProofs EffectSkeleton.

(* proved once, for every program of the skeleton language and every entry *)
Theorem C20_checker_sound : forall bad p f d,
  safe_from bad p (f, d) = true -> forall tr, exec p d (body_of p f) tr -> harmless bad tr.
Proof. exact safe_from_sound. Qed.
Print Assumptions C20_checker_sound.

(* every execution of exmod's skeleton with dry_run = True contains no file-system write site
   (and no construct the translator could not classify) *)
Theorem C20_dry_run : forall tr,
  exec skeleton true (body_of skeleton id_exmod) tr -> harmless bad_fs tr.
Proof. apply safe_from_sound. vm_compute. reflexivity. Qed.
Print Assumptions C20_dry_run.

(* non-vacuity: the same entry with dry_run = False does reach write sites, i.e. the checker is
   looking at a skeleton that contains the effects the guards protect *)
Theorem C20_real_run_has_effects : safe_from bad_fs skeleton (id_exmod, false) = false.
Proof. vm_compute. reflexivity. Qed.
Print Assumptions C20_real_run_has_effects.

Theorem C20_entry_in_range : Nat.ltb id_exmod (length skeleton) = true.
Proof. vm_compute. reflexivity. Qed.

(* The black/whitelist gate.  exmod_gate (Gen/ExmodGate.v) is the boolean expression assigned to `proceed` in
   exmod_single_folder, regenerated from the source on every run.  For EVERY blacklist, whitelist and module path:
   the module proceeds to emission iff it is not blacklisted and (there is no whitelist or it is whitelisted) ... *)
From CDD Require Import PyStr Gate GateProofs ExmodGate.

Theorem C20_gate_table_sound : forall g,
  (forall ib iw be we, (ib = true -> be = false) -> (iw = true -> we = false) -> eval4 ib iw be we g = Some (gate_spec ib iw be we)) ->
  forall bl wl m, proceeds g bl wl m = Some (negb (mem_str m bl) && (is_nil wl || mem_str m wl)).
Proof. exact gate_correct_from_table. Qed.
Print Assumptions C20_gate_table_sound.

Theorem C20_gate : forall bl wl m,
  proceeds exmod_gate bl wl m = Some (negb (mem_str m bl) && (is_nil wl || mem_str m wl)).
Proof.
  apply gate_correct_from_table.
  intros [] [] [] [] H1 H2; try (specialize (H1 eq_refl); discriminate); try (specialize (H2 eq_refl); discriminate);
  vm_compute; reflexivity.
Qed.
Print Assumptions C20_gate.

(* ... in particular a blacklisted module never proceeds, whatever the whitelist says, and with a whitelist present a
   module outside it never proceeds ... *)
Theorem C20_blacklist_wins : forall bl wl m, mem_str m bl = true -> proceeds exmod_gate bl wl m = Some false.
Proof. intros bl wl m. apply blacklisted_never_proceeds, C20_gate. Qed.
Theorem C20_whitelist_excludes : forall bl wl m,
  is_nil wl = false -> mem_str m wl = false -> proceeds exmod_gate bl wl m = Some false.
Proof. intros bl wl m. apply not_whitelisted_never_proceeds, C20_gate. Qed.

(* ... and the gate is what decides: `if not proceed: return` follows it directly, the two lists are normalised to sets of
   the given names and nothing but string / iterator helpers is called before it. *)
Theorem C20_gate_in_force :
  gate_guards_return = true
  /\ list_normalisation = "map(frozenset, (blacklist or iter(()), whitelist or iter(())))"%string
  /\ forallb (fun c => existsb (String.eqb c) ["'.'.join"; "iter"; "map"; "module_name.startswith"; "frozenset"]%string) calls_before_gate = true.
Proof. repeat split; vm_compute; reflexivity. Qed.

(* ... and on the command line every occurrence of --blacklist / --whitelist counts: both options of the exmod sub-parser (read from
   cdd/__main__.py on every run) collect with action='append' and nothing else (no nargs, no type, no default). *)
Theorem C20_cli_lists_accumulate :
  cli_list_options = [("--blacklist", "action='append'"); ("--whitelist", "action='append'")]%string.
Proof. vm_compute. reflexivity. Qed.
