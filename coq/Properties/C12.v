(* C12 -- sync makes every target equivalent to the truth, then is a no-op (decision table of _conform_filename). *)
From CDD Require Import PyStr Sync SyncProofs MergeProofs.

Definition cex_ (find : str -> list (item str str) -> option str) := conform_existing str str_eqb str str_eqb find.
Definition conform_ (find : str -> list (item str str) -> option str) := conform str str_eqb str str_eqb find.
Definition lookup_ := lookup str str_eqb str.

(* whatever find_in_ast does, for every kind of target and every existing file: code outside the named target is unchanged *)
Theorem C12_outside_unchanged : forall find k n gold items items',
  cex_ find k n gold items = Some items' ->
  other_defs str str_eqb str n items' = other_defs str str_eqb str n items.
Proof. intros find k n gold items items'. apply outside_unchanged. exact str_eqb_refl. Qed.
Print Assumptions C12_outside_unchanged.

(* a missing class / argparse target file is created with exactly the truth's interface, under the name the
   emitter uses when it is given no options ... *)
Theorem C12_created_equiv : forall find k n gname gold, k <> KFunction ->
  conform_ find k n gname gold None = Some (Some [Def str str gname gold]) /\ lookup_ gname [Def str str gname gold] = Some gold.
Proof. intros. apply created_equiv; [exact str_eqb_refl | assumption]. Qed.
(* ... REFUTED as a statement about the NAMED target when that name differs (a missing class file synced from a
   function truth is written as `class <function name>`), and for a missing function file (the command fails) *)
Theorem C12_created_wrong_name_refuted : forall find k n gname gold, k <> KFunction -> str_eqb gname n = false ->
  exists items, conform_ find k n gname gold None = Some (Some items) /\ lookup_ n items = None.
Proof. intros find k n gname gold. apply created_wrong_name. Qed.
Theorem C12_missing_function_refuted : forall find n gname gold, conform_ find KFunction n gname gold None = None.
Proof. intros. apply missing_function_crashes. Qed.

(* a class target that find_in_ast locates ends up with the truth's interface ... *)
Theorem C12_class_target_equiv : forall find n gold items old items',
  find n items = Some old -> lookup_ n items = Some old ->
  cex_ find KClass n gold items = Some items' -> lookup_ n items' = Some gold.
Proof. intros find n gold items old items'. apply class_target_equiv. intros a b H. apply str_eqb_eq. exact H. Qed.
Print Assumptions C12_class_target_equiv.

(* ... and a second run is then a no-op (when the lookup finds what is there) *)
Theorem C12_idempotent_partial : forall find n gold items items',
  (forall l, find n l = lookup_ n l) ->
  cex_ find KClass n gold items = Some items' -> cex_ find KClass n gold items' = Some items'.
Proof. intros find n gold items items'. apply class_idempotent; exact str_eqb_refl. Qed.
Print Assumptions C12_idempotent_partial.

(* REFUTED for function and argparse targets: an existing target that differs from the truth is left as it was *)
Theorem C12_function_target_refuted : forall find k n gold items old,
  k <> KClass -> find n items = Some old -> str_eqb old gold = false -> cex_ find k n gold items = Some items.
Proof. intros find k n gold items old. apply function_target_untouched. Qed.

(* REFUTED when find_in_ast misses an existing definition: the target is appended again on every run *)
Theorem C12_append_refuted : forall find k n gold items,
  find n items = None -> find n (items ++ [Def str str n gold]) = None ->
  cex_ find k n gold (items ++ [Def str str n gold]) = Some ((items ++ [Def str str n gold]) ++ [Def str str n gold]).
Proof. intros find k n gold items. apply append_grows. Qed.

(* cmp_ast is the change detector: `sync` prints "unchanged" and leaves a target alone exactly when it answers True.  For every
   pair of Python object trees (instances of one class carrying the same number of fields, as Python guarantees): it answers
   True only for equal trees -- in particular never for a list that is a proper prefix of the other -- and always for equal ones. *)
From CDD Require Import CmpAst CmpAstProofs.
Theorem C12_cmp_ast_only_equal : forall a b, same_arity a b = true -> cmp_ast a b = true -> a = b.
Proof. exact cmp_ast_sound. Qed.
Print Assumptions C12_cmp_ast_only_equal.
Theorem C12_cmp_ast_reflexive : forall a, cmp_ast a a = true.
Proof. exact cmp_ast_refl. Qed.
Theorem C12_cmp_ast_lists_same_length : forall x y, cmp_ast (Lst x) (Lst y) = true -> length x = length y.
Proof. exact cmp_ast_list_length. Qed.
Example C12_cmp_ast_prefix_example :
  cmp_ast (Lst [Atom (s2l "int") (s2l "1"); Atom (s2l "int") (s2l "2")]) (Lst [Atom (s2l "int") (s2l "1")]) = false
  /\ cmp_ast (Lst []) (Lst [Atom (s2l "int") (s2l "1")]) = false.
Proof. split; vm_compute; reflexivity. Qed.

(* ---- how sync finds its target in a listed file: find_in_ast [name] (Model/FindAst.v, a transcription compared with the code each
   run).  For EVERY module in which no earlier top-level sibling is a function with a positional parameter called like the target
   (nor an annotated assignment / class of that name -- which would BE the first definition of the name), the first top-level
   definition of the name is found, at its position. *)
From CDD Require Rewrite FindAst FindAstProofs.
Theorem C12_target_lookup : forall n pre x post,
  forallb (FindAstProofs.inert [n] [] n []) pre = true -> FindAst.node_loc [] x = Some [n] ->
  FindAst.find_in_ast [n] (pre ++ x :: post) = FindAst.FNode [length pre].
Proof. exact FindAstProofs.find_top. Qed.
Print Assumptions C12_target_lookup.

(* otherwise: an earlier function's parameter of that name is returned instead of the definition *)
Theorem C12_target_lookup_refuted :
  FindAst.find_in_ast [s2l "n"] [Rewrite.NFunc (s2l "g") [FindAstProofs.A "n"] [] [] 1; Rewrite.NClass (s2l "n") []] = FindAst.FArg [0%nat] 0.
Proof. vm_compute. reflexivity. Qed.
