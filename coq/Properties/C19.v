(* C19 -- gen exports exactly what it generated, and never overwrites.
   CDD.MainGuard is REGENERATED from /repo/cdd/__main__.py on every run. *)
From Coq Require Import Permutation String.
From CDD Require Import PyStr Gen GenProofs GuardSeq GuardSeqProofs MainGuard.

(* the never-overwrite guard: proved for every statement list the checker accepts ... *)
Theorem C19_guard_sound : forall items other,
  guarded false items = true -> ~ In "gen"%string (run true other true items).
Proof. exact guarded_sound. Qed.
Print Assumptions C19_guard_sound.

(* ... and the branch of main() that the translator extracted from the current source is accepted:
   when the output file exists and phase = 0, gen is not called, whatever else holds *)
Theorem C19_guard : forall other, ~ In "gen"%string (run true other true gen_branch).
Proof. intro other. apply guarded_sound. vm_compute. reflexivity. Qed.
Print Assumptions C19_guard.

(* gen receives exactly the parsed arguments the guard looked at *)
Theorem C19_guard_args :
  args_dict_derivation = approved_derivation /\
  existsb (fun i => match i with ICall f a => String.eqb f "gen" && String.eqb a approved_call_args | _ => false end)
          gen_branch = true.
Proof. split; vm_compute; reflexivity. Qed.

(* __all__ lists exactly one formatted name per entry of the mapping, in order, without duplicates *)
Theorem C19_all_exact : forall pre suf names,
  all_names pre suf names = map (fmt pre suf) names /\
  length (all_names pre suf names) = length names /\
  (NoDup names -> NoDup (all_names pre suf names)).
Proof.
  intros. split; [reflexivity|]. split; [apply all_names_length | apply all_names_nodup].
Qed.
Print Assumptions C19_all_exact.

(* when the template produces plain identifiers, every name in __all__ is the name of an emitted symbol *)
Theorem C19_symbols_defined : forall pre suf names,
  forallb (fun n => plain_identifier (fmt pre suf n)) names = true ->
  symbol_names pre suf names = all_names pre suf names.
Proof. exact symbols_eq_all. Qed.
Print Assumptions C19_symbols_defined.

(* the re-ordering of the module body (docstring, __future__ imports, imports, the rest) neither drops
   nor duplicates a node and keeps the definitions in order *)
Theorem C19_reorder_keeps_everything : forall has_doc body,
  (has_doc = true -> exists i r, body = NOther i :: r) ->
  Permutation (reorder has_doc body) body /\
  filter (fun n => negb (is_import n)) (reorder has_doc body) = filter (fun n => negb (is_import n)) body.
Proof. intros. split; [apply reorder_permutation | apply reorder_others_in_order]; assumption. Qed.
Print Assumptions C19_reorder_keeps_everything.

Example C19_example :
  symbol_names (s2l "") (s2l "Gen") [s2l "Alpha"; s2l "Beta"] = [s2l "AlphaGen"; s2l "BetaGen"].
Proof. vm_compute. reflexivity. Qed.

(* the sanitiser of symbol names (pure_utils.ensure_valid_identifier; compared with the code on strings over keywords, soft
   keywords, digits, punctuation and non-ASCII letters each run), for EVERY string: the result is never empty and consists of
   identifier characters only *)
Theorem C19_sanitised_name_chars : forall s,
  ensure_valid_identifier s <> [] /\ forallb valid_ident_char (ensure_valid_identifier s) = true.
Proof. exact ensure_valid_identifier_chars. Qed.
Print Assumptions C19_sanitised_name_chars.

(* ... but "identifier characters only" is not "an identifier": what is left after dropping the other characters may start with a
   digit or be a keyword (facts about the faithful model; the templated names of the generated inputs never get there) *)
Theorem C19_sanitised_name_refuted :
  ensure_valid_identifier (s2l "-1x") = s2l "1x" /\ ensure_valid_identifier (s2l "cl-ass") = s2l "class".
Proof. split; vm_compute; reflexivity. Qed.

(* ---- which parser `--parse infer` picks (parser_utils.infer, the AST-node branches; Model/Infer.v, compared with the code on
   generated nodes each run): a class is read as a SQLAlchemy model exactly when `Base` stands among its bases -- in ANY position --
   and as a plain class otherwise; an assignment is judged by its value. *)
From CDD Require Infer InferProofs.
Theorem C19_infer_model_wherever_base_stands : forall pre post,
  Infer.infer (Infer.IClass (pre ++ Some (s2l "Base") :: post)) = Infer.Parser (s2l "sqlalchemy").
Proof. exact InferProofs.base_anywhere. Qed.
Print Assumptions C19_infer_model_wherever_base_stands.
Theorem C19_infer_plain_class : forall bases,
  (forall b, In b bases -> b <> Some (s2l "Base")) -> Infer.infer (Infer.IClass bases) = Infer.Parser (s2l "class_").
Proof. exact InferProofs.no_base_is_a_class. Qed.
Example C19_infer_examples :
  Infer.infer (Infer.IClass [Some (s2l "TimestampMixin"); Some (s2l "Base")]) = Infer.Parser (s2l "sqlalchemy")
  /\ Infer.infer (Infer.IClass [None; Some (s2l "object")]) = Infer.Parser (s2l "class_")
  /\ Infer.infer (Infer.IFunction [s2l "argument_parser"]) = Infer.Parser (s2l "argparse_ast")
  /\ Infer.infer (Infer.IAssign (Infer.ICall 3 (Some (s2l "metadata")))) = Infer.Parser (s2l "sqlalchemy_table")
  /\ Infer.infer (Infer.IAssign (Infer.ICall 0 None)) = Infer.NoAnswer.
Proof. exact InferProofs.infer_examples. Qed.
