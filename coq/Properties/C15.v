(* C15 -- docstring prose outside the parameter section is preserved. *)
From CDD Require Import PyStr DocSplit DocSplitProofs.

(* The three parts are slices doc[:start], doc[start:last], doc[last:].  Whatever the two index
   functions compute, as long as start <= last (or one of them is "not found") the parts
   concatenate to the docstring exactly -- for every string and every pair of indices. *)
Theorem C15_slices : forall doc s l,
  (-1 <= s)%Z -> (-1 <= l)%Z -> (s = -1 \/ l = -1 \/ s <= l)%Z ->
  concat3 (split3 doc s l) = doc.
Proof. exact split3_concat. Qed.
Print Assumptions C15_slices.

(* the header ends at a line boundary: the start index is -1 or the first character of a line, so
   the header consists of whole lines of the original, in order *)
Theorem C15_start_is_line_start : forall doc,
  get_token_start_idx doc = (-1)%Z \/
  exists p, get_token_start_idx doc = Z.of_nat p /\ (p <= length doc)%nat /\ line_start doc p.
Proof. exact start_idx_line_start. Qed.
Print Assumptions C15_start_is_line_start.

(* re-assembly never rewrites the prose: the header is a prefix and the footer a suffix of the
   result, character for character, for all three arguments *)
Theorem C15_header_prefix : forall header args_returns footer,
  exists rest, header_args_footer_to_str header args_returns footer = header ++ rest.
Proof. exact header_is_prefix. Qed.
Theorem C15_footer_suffix : forall header args_returns footer,
  exists pre, header_args_footer_to_str header args_returns footer = pre ++ footer.
Proof. exact footer_is_suffix. Qed.
Print Assumptions C15_header_prefix.

Example C15_start_example :
  get_token_start_idx (s2l "Summary line.

More prose here.

:param a: the a
:type a: ```int```
") = 33%Z.
Proof. vm_compute. reflexivity. Qed.
Example C15_slices_nonvacuous : concat3 (split3 (s2l "hdr\n:param a: x\nfoot") 4 15) = s2l "hdr\n:param a: x\nfoot".
Proof. vm_compute. reflexivity. Qed.

(* ReST -> ReST through the parser and the emitter (Model/RestDoc.v, tied to the code by C01's correspondence): for every
   description of the domain of C01_rest_roundtrip the header prose is read back unchanged, none of it ends up in a
   parameter's description or type, and the re-emitted docstring starts with it. *)
From CDD Require Import RestDoc RestDocProofs.
Theorem C15_rest_header_survives : forall doc ps ret,
  clean doc = true -> forallb param_ok ps = true -> NoDup (map fst ps) -> ps <> [] -> ret_ok ret = true ->
  let p := parse_rest (emit_rest true doc ps ret) in
  p_doc p = doc /\ p_params p = ps /\ exists rest, emit_rest true (p_doc p) (p_params p) (p_ret p) = doc ++ rest.
Proof.
  intros doc ps ret H1 H2 H3 H4 H5. cbn zeta. rewrite (rest_roundtrip doc ps ret H1 H2 H3 H4 H5). cbn [p_doc p_params p_ret].
  repeat split. rewrite (emit_is_render doc ps ret H1 H2 H4 H5). unfold render. rewrite <- app_assoc. eexists. reflexivity.
Qed.
Print Assumptions C15_rest_header_survives.

(* the section tokens of Model/DocSplit.v are the source's TOKENS_SET (first line of every token of the three styles; regenerated
   from cdd/shared/docstring_utils.py by translate/constants.py, which also checks the expression that builds the set) *)
From CDD Require Import SourceConstants.
Theorem C15_tokens_set_is_the_sources : tokens_set = src_tokens_set_sorted.
Proof. vm_compute. reflexivity. Qed.

(* ---- where the prose of a Google-style docstring ends (Model/GoogleHead.v: location_within of "Args:" and the text in front of it, as
   _scan_phase_numpydoc_and_google computes it, and the description _parse_phase_numpydoc_and_google derives from it; both compared
   with the code each run).  For EVERY colon-free header that is not blank at either end -- one paragraph or several -- and EVERY
   blank separator (a line break, a blank line, an indented blank line, nothing), the description of the parsed interface is that
   header, whole: a paragraph that runs straight into "Args:" is not lost. *)
From CDD Require GoogleLine GoogleLineProofs GoogleHead GoogleHeadProofs.
Theorem C15_google_header_kept : forall H sep rest : str,
  RestDocProofs.head_ok H = true -> RestDocProofs.head_ok (rev H) = true -> GoogleLineProofs.lacks GoogleLine.GCOLON H = true ->
  RestDocProofs.blank sep = true ->
  fst (GoogleHead.google_scan_head (H ++ sep ++ GoogleHead.ARGS ++ rest)) = H /\ GoogleHead.google_ir_doc (H ++ sep ++ GoogleHead.ARGS ++ rest) = H.
Proof. exact GoogleHeadProofs.google_header_kept. Qed.
Print Assumptions C15_google_header_kept.
Example C15_google_header_examples :
  GoogleHead.google_ir_doc (s2l "Scale it." ++ [NL; NL] ++ s2l "Nothing is modified in place." ++ [NL] ++ s2l "Args:" ++ [NL] ++ s2l "  x (int): v")
  = s2l "Scale it." ++ [NL; NL] ++ s2l "Nothing is modified in place."
  /\ GoogleHead.google_ir_doc (s2l "Scale it." ++ [NL; SP; SP; SP; SP; NL; SP; SP; SP; SP] ++ s2l "Args:" ++ [NL] ++ s2l "  x (int): v") = s2l "Scale it."
  /\ GoogleHead.google_ir_doc (s2l "No section here") = s2l "No section here".
Proof. exact GoogleHeadProofs.google_header_examples. Qed.
(* outside the domain: prose that spells the token loses everything behind it (the FIRST "Args:" wins) *)
Example C15_google_header_refuted :
  GoogleHead.google_ir_doc (s2l "See Args: below." ++ [NL; NL] ++ s2l "Args:" ++ [NL] ++ s2l "  x: v") = s2l "See".
Proof. exact GoogleHeadProofs.google_header_refuted. Qed.
