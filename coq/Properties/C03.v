(* C03 -- any chain of format conversions preserves the interface. *)
From CDD Require Import PyStr Norm NormProofs.

(* On the stable part of the common domain (a default is present and is not None; ints non-negative) every
   chain of conversions over {class, pydantic, function, argparse, docstring-rest}, of ANY length, gives
   back exactly the type string and default it started with (same constructor, same value) *)
Theorem C03_chain : forall fs p, dom03 p = true -> chain fs p = Some p.
Proof. exact chain_preserves. Qed.
Print Assumptions C03_chain.
Theorem C03_commute : forall fs gs p, dom03 p = true -> chain fs p = chain gs p.
Proof. exact chains_commute. Qed.

(* outside that part the faithful model drifts, exactly as the code does: each statement below is the
   NEGATION of the property on a short chain, with its witness (the same chains are replayed on the
   implementation by the check, where they are recorded findings) *)
Definition T_int := mkT false (IBase BInt).
Theorem C03_refuted_absent_via_function :
  chain [FFunction; FClass] (T_int, DAbs) = Some (mkT true (IBase BInt), DNone).   (* the type widened on the 2nd hop *)
Proof. vm_compute. reflexivity. Qed.
Theorem C03_refuted_none_via_docstring :
  chain [FDocstring] (mkT true (IBase BInt), DNone) = Some (mkT true (IBase BInt), DStr (s2l "(None)")).
Proof. vm_compute. reflexivity. Qed.
Theorem C03_refuted_negative_int_via_docstring :
  chain [FDocstring] (T_int, DInt (-3)) = Some (T_int, DFloat (s2l "-3.0")).
Proof. vm_compute. reflexivity. Qed.
Theorem C03_refuted_argparse_zero :
  chain [FArgparse] (T_int, DAbs) = Some (T_int, DInt 0)
  /\ chain [FClass; FArgparse] (T_int, DAbs) <> chain [FClass; FFunction] (T_int, DAbs).   (* conversions do not commute *)
Proof. split; vm_compute; [reflexivity | discriminate]. Qed.

Example C03_nonvacuous : dom03 (mkT true (ILit [s2l "a"; s2l "b"]), DStr (s2l "a")) = true.
Proof. reflexivity. Qed.

(* ---- the argparse row of the normal-form table is not only measured: it is DERIVED from the two halves of the argparse hop.  For EVERY
   parameter of the table's domain on which the halves are consistent (a None default belongs to an Optional type; the members of an
   Optional Literal do not spell "Optional"): what the emitter registers (Model/Exec.v: argparse_action, compared with a live
   ArgumentParser by C04's check) read back by the transcribed reader (Model/ArgRead.v: parse_out_param, compared with the code on
   generated calls by this check and C02's) has the type and the default that N0 FArgparse states. *)
From CDD Require Exec ArgRead ArgChainProofs.
Theorem C03_argparse_row_derived : forall name t d, ArgChainProofs.chain_dom (t, d) = true ->
  match N0 FArgparse (t, d) with
  | Some (t', d') =>
      exists r, ArgRead.parse_out_param (ArgChainProofs.call_of name (Exec.argparse_action (t, d))) = Some r
                /\ ArgRead.r_typ r = ArgChainProofs.render_ctyp t' /\ ArgRead.r_default r = ArgChainProofs.adefault_of d'
  | None => True
  end.
Proof. exact ArgChainProofs.argparse_row_derived. Qed.
Print Assumptions C03_argparse_row_derived.
Example C03_argparse_row_examples :
  ArgChainProofs.chain_dom (mkT false (IBase BInt), DAbs) = true /\ ArgChainProofs.chain_dom (mkT true (ILit [s2l "a"; s2l "b"]), DStr (s2l "a")) = true
  /\ option_map ArgRead.r_typ (ArgRead.parse_out_param (ArgChainProofs.call_of (s2l "n") (Exec.argparse_action (mkT true (ILit [s2l "b"; s2l "a"]), DAbs))))
      = Some (s2l "Optional[Literal['b', 'a']]").
Proof. exact ArgChainProofs.argparse_row_examples. Qed.
