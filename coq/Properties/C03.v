(* C03 -- any chain of format conversions preserves the interface. *)
From CDD Require Import PyStr Norm NormProofs.

(* On the stable part of the common domain (a default is present and is not None; ints non-negative) every
   chain of conversions over {class, pydantic, function, argparse, docstring-rest}, of ANY length, gives
   back exactly the type string and default it started with (same constructor, same value) *)
Theorem C03_chain : forall fs p, dom03 p = true -> chain fs p = Some p.
Proof. exact chain_preserves. Qed.
Print Assumptions C03_chain.
Theorem C03_commute : forall fs gs p, dom03 p = true -> chain fs p = chain gs p.
Proof. exact chains_commute. Qed.

(* outside that part the faithful model drifts, exactly as the code does: each statement below is the
   NEGATION of the property on a short chain, with its witness (the same chains are replayed on the
   implementation by the check, where they are recorded findings) *)
Definition T_int := mkT false (IBase BInt).
Theorem C03_refuted_absent_via_function :
  chain [FFunction; FClass] (T_int, DAbs) = Some (mkT true (IBase BInt), DNone).   (* the type widened on the 2nd hop *)
Proof. vm_compute. reflexivity. Qed.
Theorem C03_refuted_none_via_docstring :
  chain [FDocstring] (mkT true (IBase BInt), DNone) = Some (mkT true (IBase BInt), DStr (s2l "(None)")).
Proof. vm_compute. reflexivity. Qed.
Theorem C03_refuted_negative_int_via_docstring :
  chain [FDocstring] (T_int, DInt (-3)) = Some (T_int, DFloat (s2l "-3.0")).
Proof. vm_compute. reflexivity. Qed.
Theorem C03_refuted_argparse_zero :
  chain [FArgparse] (T_int, DAbs) = Some (T_int, DInt 0)
  /\ chain [FClass; FArgparse] (T_int, DAbs) <> chain [FClass; FFunction] (T_int, DAbs).   (* conversions do not commute *)
Proof. split; vm_compute; [reflexivity | discriminate]. Qed.

Example C03_nonvacuous : dom03 (mkT true (ILit [s2l "a"; s2l "b"]), DStr (s2l "a")) = true.
Proof. reflexivity. Qed.
