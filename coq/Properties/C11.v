(* C11 -- every parse, emit and doctrans call terminates.
   CDD.LoopSites is REGENERATED from /repo on every run by translate/loops.py. *)
From Coq Require Import String.
From CDD Require Import PyStr DocSplit Loops LoopProofs LoopSites.
Open Scope Z_scope.

(* Each `while` loop of the package, for EVERY input and EVERY starting state: it leaves the loop
   after at most [mu] iterations, where mu is linear in the length of the text. *)
Theorem C11_emit_skip_loop_terminates : forall cds s, exists s' k,
  run _ (l1_guard cds) (l1_step cds) (S (l1_mu cds s)) s O = Some (s', k) /\ l1_guard cds s' = false /\ (k <= l1_mu cds s)%nat.
Proof. exact l1_terminates. Qed.
Print Assumptions C11_emit_skip_loop_terminates.
Theorem C11_last_idx_back_loop_terminates : forall doc idx, exists s' k,
  run _ (l2_guard doc) l2_step (S (l2_mu doc idx)) idx O = Some (s', k) /\ l2_guard doc s' = false /\ (k <= l2_mu doc idx)%nat.
Proof. exact l2_terminates. Qed.
Theorem C11_last_idx_forward_loop_terminates : forall doc i, exists s' k,
  run _ (l3_guard doc) l3_step (S (l3_mu doc i)) i O = Some (s', k) /\ l3_guard doc s' = false /\ (k <= l3_mu doc i)%nat.
Proof. exact l3_terminates. Qed.
Theorem C11_numpydoc_lines_loop_terminates : forall doc s, exists s' k,
  run _ (l4_guard doc) (l4_step doc) (S (l4_mu doc s)) s O = Some (s', k) /\ l4_guard doc s' = false /\ (k <= l4_mu doc s)%nat.
Proof. exact l4_terminates. Qed.
Theorem C11_union_phase0_loop_terminates : forall sen, exists s' k,
  run _ (l5_guard sen) (l5_step sen) (S (Z.to_nat (slen sen))) (0, (0, 0)) O = Some (s', k)
  /\ l5_guard sen s' = false /\ (k <= Z.to_nat (slen sen))%nat.
Proof. exact l5_terminates. Qed.
Print Assumptions C11_union_phase0_loop_terminates.
Theorem C11_find_in_ast_loop_terminates : forall (A : Type) pop (s : list A), exists s' k,
  run _ l6_guard (l6_step pop) (S (length s)) s O = Some (s', k) /\ l6_guard s' = false /\ (k <= length s)%nat.
Proof. intros. apply l6_terminates. Qed.

(* the l1 measure is linear in the text: at most len + 2 iterations from the loop's initial state *)
Theorem C11_emit_skip_linear : forall cds, (l1_mu cds (l1_init cds) <= S (S (length cds)))%nat.
Proof. exact l1_linear. Qed.

(* Inventory: these are ALL the `while` statements of the non-test package (module|function|condition|
   hash of the loop body), each covered by the termination theorem named beside it.  A new loop, or an
   edit to the body of one of these, breaks this theorem. *)
Local Open Scope string_scope.
Definition approved_loops : list string := [
  "cdd.docstring.emit|docstring|next_nl > -1|839f45706552";                                    (* C11_emit_skip_loop_terminates *)
  "cdd.docstring.utils.parse_utils|_union_literal_from_sentence_phase0|i < len(sentence)|4735046c433a"; (* C11_union_phase0_loop_terminates *)
  "cdd.shared.ast_utils|find_in_ast|len(current_search)|c9d65539d493";                         (* C11_find_in_ast_loop_terminates *)
  "cdd.shared.docstring_utils|_get_token_last_idx|idx != 0 and doc_str[idx] != '\n'|90ff9f8cc45d"; (* C11_last_idx_back_loop_terminates *)
  "cdd.shared.docstring_utils|_get_token_last_idx_if_no_next_token|line_end < len(doc_str)|e4adc378c892"; (* C11_numpydoc_lines_loop_terminates *)
  "cdd.shared.docstring_utils|_get_token_last_idx|i < len(doc_str) and doc_str[i] != '\n'|f9109e2c20f6" (* C11_last_idx_forward_loop_terminates *)
].
(* directly self-recursive functions: each recurses on a strictly smaller piece of a finite structure
   (get_module_contents: sub-module tree; cmp_ast / get_value: AST children; infer: one unwrapping step) *)
Definition approved_recursive : list string := [
  "cdd.compound.exmod_utils|get_module_contents"; "cdd.shared.ast_utils|cmp_ast"; "cdd.shared.ast_utils|get_value";
  "cdd.shared.parse.utils.parser_utils|infer"
].
(* no module of the package uses a regular-expression matcher (the one library call whose time is not polynomially bounded) *)
Definition approved_regex : list string := [].
Definition all_in (approved l : list string) : bool := forallb (fun s => existsb (String.eqb s) approved) l.
Theorem C11_inventory :
  all_in approved_loops while_loops = true /\ all_in approved_recursive self_recursive = true /\ all_in approved_regex regex_uses = true.
Proof. repeat split; vm_compute; reflexivity. Qed.
Print Assumptions C11_inventory.

Example C11_inventory_nonempty : List.length while_loops = 6%nat.
Proof. vm_compute. reflexivity. Qed.
