(* C08 -- one conversion round reaches a fixpoint. *)
From CDD Require Import PyStr Norm NormProofs Adhoc.

(* For EVERY parameter of the common domain (including the part where a round changes it: absent and None
   defaults, negative ints) and each of the five formats: whatever the first round returns, the second
   round returns the same, and so does every later one. *)
Theorem C08_idempotent : forall f p q, N f p = Some q -> N f q = Some q.
Proof. exact one_round_is_fixpoint. Qed.
Print Assumptions C08_idempotent.
Theorem C08_rounds : forall f p q, N f p = Some q -> forall n, rounds n f q = Some q.
Proof. exact rounds_stable. Qed.
Print Assumptions C08_rounds.

Example C08_nontrivial_round :
  N FDocstring (mkT false (IBase BInt), DInt (-3)) = Some (mkT false (IBase BInt), DFloat (s2l "-3.0"))
  /\ N FArgparse (mkT false (IBase BBool), DAbs) = Some (mkT true (IBase BBool), DAbs).
Proof. split; vm_compute; reflexivity. Qed.

(* The ReST docstring format at the level of the text itself (descriptions included): for every description of the
   domain of C01_rest_roundtrip, converting the emitted docstring once more (parse it, emit it again) writes the
   same text, and so does every later round. *)
From CDD Require Import RestDoc RestDocProofs.
Definition rest_round (t : str) : str := let p := parse_rest t in emit_rest true (p_doc p) (p_params p) (p_ret p).
Fixpoint rest_rounds (n : nat) (t : str) : str := match n with O => t | S k => rest_round (rest_rounds k t) end.
Theorem C08_rest_text_fixpoint : forall doc ps ret,
  clean doc = true -> forallb param_ok ps = true -> NoDup (map fst ps) -> ps <> [] -> ret_ok ret = true ->
  forall n, rest_rounds n (emit_rest true doc ps ret) = emit_rest true doc ps ret.
Proof.
  intros doc ps ret H1 H2 H3 H4 H5 n. induction n as [|n IH]; [reflexivity|]. cbn [rest_rounds]. rewrite IH.
  unfold rest_round. rewrite (rest_roundtrip doc ps ret H1 H2 H3 H4 H5). reflexivity.
Qed.
Print Assumptions C08_rest_text_fixpoint.

(* ---- the announcer is stripped and re-appended every round (formats with emit_default_doc): the second line equals the first ----
   For EVERY description d and default text t without the word "default", t kept whole by the scan and already free of code quotes
   and blanks at its ends: emit (set_default_doc), parse with the announcer stripped (extract_default), emit again -- the line
   written in round 2 is the line written in round 1 (the one change, the added full stop, happens in round 1 only). *)
From CDD Require ExtractDefault ExtractDefaultProofs DefaultDoc.
Theorem C08_announced_line_fixpoint : forall (strip : str -> str) (d t : str),
  ExtractDefaultProofs.has_kw d = false -> ExtractDefaultProofs.has_kw t = false -> ExtractDefault.scan_default t false = t ->
  ExtractDefaultProofs.strip3 t = t ->
  let line1 := DefaultDoc.set_default_doc strip d (Some t) true in
  let '(d1, t1) := ExtractDefault.extract_default_text line1 false in
  DefaultDoc.set_default_doc strip d1 t1 true = line1.
Proof. exact ExtractDefaultProofs.announced_line_fixpoint. Qed.
Print Assumptions C08_announced_line_fixpoint.

(* ---- quote / unquote (pure_utils; quote is Model/DefaultDoc.v, unquote Model/Quote.v, both compared with the code each run): the
   emitter writes a string default in quotes, the parser removes one pair.  For EVERY text that quote() wraps (not empty, not already
   wearing a matching pair of quotes) the pair cancels; a text that already wears quotes is left alone by quote and stripped by
   unquote, so ITS quotes are lost (C08_quote_refuted: the recorded drift of defaults such as '"q"'). *)
From CDD Require Quote QuoteProofs.
Theorem C08_unquote_quote : forall s, QuoteProofs.bare s = true -> Quote.unquote (DefaultDoc.quote s) = s.
Proof. exact QuoteProofs.unquote_quote. Qed.
Print Assumptions C08_unquote_quote.
Theorem C08_quote_refuted :
  DefaultDoc.quote (s2l "'q'") = s2l "'q'" /\ Quote.unquote (DefaultDoc.quote (s2l "'q'")) = s2l "q" /\ QuoteProofs.bare (s2l "'q'") = false.
Proof. exact QuoteProofs.quoted_text_loses_its_quotes. Qed.

(* ---- the class format at text level (Model/ClassFmt.v, compared with emit.class_ / parse.class_ each run): one round is already
   the fixpoint.  For EVERY one-line header and non-empty list of attributes of the domain: the class written from what was parsed
   back is the class that was written first, and parsing it again gives the same description. *)
From CDD Require DocSplit ClassFmt ClassFmtProofs RestDocIndentProofs TextFixpointProofs.
Theorem C08_class_text_fixpoint : forall doc ps,
  RestDocProofs.clean doc = true -> RestDocIndentProofs.one_line doc = true -> forallb ClassFmtProofs.cparam_ok ps = true ->
  NoDup (map fst ps) -> ps <> [] ->
  let r := ClassFmt.parse_class (ClassFmt.emit_class doc ps) in
  ClassFmt.emit_class (fst r) (snd r) = ClassFmt.emit_class doc ps
  /\ ClassFmt.parse_class (ClassFmt.emit_class (fst r) (snd r)) = r.
Proof. exact TextFixpointProofs.class_text_fixpoint. Qed.
Print Assumptions C08_class_text_fixpoint.

(* ---- one SQLAlchemy column (Model/SqlCol.v, compared with the column emitter / parser each run): for EVERY parameter whose
   description carries no key marker -- any type, any default, any number of full stops at the end of the description -- the second
   round (emit the column, read it back) changes nothing: all trailing full stops go in round 1, the one a default brings back is
   stripped and re-added every round. *)
From CDD Require SqlCol SqlColRoundProofs.
Theorem C08_column_round_idempotent : forall p, SqlColRoundProofs.no_marker (SqlColRoundProofs.doc_of p) = true ->
  SqlCol.parse_col (SqlCol.emit_col (SqlCol.parse_col (SqlCol.emit_col p))) = SqlCol.parse_col (SqlCol.emit_col p).
Proof. exact SqlColRoundProofs.col_round_idempotent. Qed.
Print Assumptions C08_column_round_idempotent.
Example C08_column_round_example :
  let p := {| SqlCol.p_typ := {| SqlCol.t_opt := false; SqlCol.t_base := SqlCol.BStr |}; SqlCol.p_doc := Some (s2l "the unit, in m/s etc..."); SqlCol.p_default := None |} in
  SqlCol.parse_col (SqlCol.emit_col (SqlCol.parse_col (SqlCol.emit_col p))) = SqlCol.parse_col (SqlCol.emit_col p)
  /\ SqlCol.p_doc (SqlCol.parse_col (SqlCol.emit_col p)) = Some (s2l "the unit, in m/s etc").
Proof. exact SqlColRoundProofs.col_round_example. Qed.

(* ---- the Google and NumPy docstring formats at text level (Model/GoogleEmit.v, Model/NumpyEmit.v and the parse side of C01's
   whole-docstring theorems, each compared with the code each run): for EVERY clean description and every non-empty list of entries
   of the domain, writing what was parsed back gives the text that was written first. *)
From CDD Require GoogleLine GoogleScan GoogleEmit GoogleEmitProofs NumpyScan NumpyEmit NumpyEmitProofs StyleFixpointProofs.
Theorem C08_google_text_fixpoint : forall doc es,
  RestDocProofs.clean doc = true -> es <> [] -> forallb GoogleScanProofs.entry_ok1 es = true -> forallb GoogleEmitProofs.documented es = true ->
  match GoogleScan.google_docstring (GoogleEmit.emit_google doc es) with
  | (doc', GoogleLine.PList ps) => GoogleEmit.emit_google doc' (map StyleFixpointProofs.reembed ps) = GoogleEmit.emit_google doc es
  | _ => False
  end.
Proof. exact StyleFixpointProofs.google_text_fixpoint. Qed.
Print Assumptions C08_google_text_fixpoint.
Theorem C08_numpy_text_fixpoint : forall doc es,
  RestDocProofs.clean doc = true -> GoogleLineProofs.lacks NumpyScanProofs.DASH doc = true -> es <> [] ->
  forallb NumpyScanProofs.nentry_ok1 es = true -> forallb NumpyEmitProofs.ends_visible es = true ->
  let r := NumpyScan.numpy_docstring (NumpyEmit.emit_numpy doc (map NumpyEmitProofs.as_entry es)) in
  NumpyEmit.emit_numpy (fst r) (map StyleFixpointProofs.reembed_n (snd r)) = NumpyEmit.emit_numpy doc (map NumpyEmitProofs.as_entry es).
Proof. exact StyleFixpointProofs.numpy_text_fixpoint. Qed.
Print Assumptions C08_numpy_text_fixpoint.
