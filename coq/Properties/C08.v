(* C08 -- one conversion round reaches a fixpoint. *)
From CDD Require Import PyStr Norm NormProofs Adhoc.

(* For EVERY parameter of the common domain (including the part where a round changes it: absent and None
   defaults, negative ints) and each of the five formats: whatever the first round returns, the second
   round returns the same, and so does every later one. *)
Theorem C08_idempotent : forall f p q, N f p = Some q -> N f q = Some q.
Proof. exact one_round_is_fixpoint. Qed.
Print Assumptions C08_idempotent.
Theorem C08_rounds : forall f p q, N f p = Some q -> forall n, rounds n f q = Some q.
Proof. exact rounds_stable. Qed.
Print Assumptions C08_rounds.

Example C08_nontrivial_round :
  N FDocstring (mkT false (IBase BInt), DInt (-3)) = Some (mkT false (IBase BInt), DFloat (s2l "-3.0"))
  /\ N FArgparse (mkT false (IBase BBool), DAbs) = Some (mkT true (IBase BBool), DAbs).
Proof. split; vm_compute; reflexivity. Qed.
