(* C04 -- emitted code runs and exposes the described interface (the mechanisms). *)
From CDD Require Import PyStr FuncSig Norm Exec ExecProofs.

(* inspect.signature of the emitted function, for EVERY parameter list: the described names in the described
   order, each with its described default (None where the description has none) *)
Theorem C04_function_signature : forall none_ ps,
  signature_of none_ ps = map (fun p => (fst p, Some (match snd p with Some d => d | None => none_ end))) ps.
Proof. exact signature_exposes_description. Qed.
Print Assumptions C04_function_signature.

(* argparse: if every parameter is Optional, parse_args([]) yields the described defaults ... *)
Theorem C04_argparse_defaults_partial : forall ps : list (str * cparam),
  forallb (fun np => t_opt (fst (snd np))) ps = true ->
  parse_args_empty (map (fun np => (fst np, argparse_action (snd np))) ps)
  = Some (map (fun np => (fst np, described_default (snd (snd np)))) ps).
Proof. exact parse_args_defaults. Qed.
Print Assumptions C04_argparse_defaults_partial.

(* ... but NOT in general: a non-Optional parameter WITH a default is registered required=True, so parsing no
   arguments is an error instead of yielding the default (faithful model; the live parser agrees) *)
Theorem C04_argparse_refuted_required :
  parse_args_empty [(s2l "p", argparse_action (mkT false (IBase BInt), DInt 5))] = None.
Proof. vm_compute. reflexivity. Qed.

Example C04_signature_example :
  signature_of (s2l "None") [(s2l "a", None); (s2l "b", Some (s2l "5"))]
  = [(s2l "a", Some (s2l "None")); (s2l "b", Some (s2l "5"))].
Proof. vm_compute. reflexivity. Qed.

(* ---- the class emitter (Model/ClassFmt.v, compared with cdd.class_.emit / cdd.pydantic.emit on generated classes each run): for
   EVERY description the body of the emitted class has exactly one annotated assignment per typed attribute, in order, with the
   described annotation and the described default -- and no value where none is described. *)
From CDD Require ClassFmt ClassBodyProofs.
Theorem C04_class_body_carries : forall doc ps,
  ClassFmt.k_body (ClassFmt.emit_class doc ps) = map ClassBodyProofs.item_of (filter ClassBodyProofs.typed ps).
Proof. exact ClassBodyProofs.class_body_carries. Qed.
Print Assumptions C04_class_body_carries.
Example C04_class_body_example :
  ClassFmt.k_body (ClassFmt.emit_class (s2l "Config")
     [(s2l "size", {| ClassFmt.cp_typ := Some (s2l "int"); ClassFmt.cp_doc := Some (s2l "how big"); ClassFmt.cp_default := Some (s2l "5") |});
      (s2l "label", {| ClassFmt.cp_typ := Some (s2l "Optional[str]"); ClassFmt.cp_doc := None; ClassFmt.cp_default := None |})])
  = [{| ClassFmt.b_name := s2l "size"; ClassFmt.b_typ := s2l "int"; ClassFmt.b_value := Some (s2l "5") |};
     {| ClassFmt.b_name := s2l "label"; ClassFmt.b_typ := s2l "Optional[str]"; ClassFmt.b_value := None |}].
Proof. exact ClassBodyProofs.class_body_example. Qed.
