(* C17 -- analysing source never executes it: inventory of every exec/eval/compile/import_module,
   process, network and file-write site reachable from the parsers, emitters, doctrans, sync and
   gen, with [input_eval = False].  CDD.EffectSkeleton is REGENERATED from /repo on every run. *)
From Coq Require Import List Bool String.
Import ListNotations.
From CDD Require Import EffectSem EffectProofs EffectSkeleton.
Local Open Scope string_scope.

(* The approved sites, by kind | enclosing function | exact call text.  Each entry carries its
   justification; anything else reachable from an analysis entry point breaks C17_sites. *)
Definition approved_texts : list string := [
  (* the one eval on analysed data: its argument is the result of parse_adhoc_doc_for_typ, whose
     alphabet is restricted by theorem C17_adhoc_alphabet *)
  "KExec|cdd.shared.docstring_parsers.__set_name_and_type_handle_doc_in_param|eval(typ, globals(), locals())";
  (* import_module with a literal or closed-table argument *)
  "KExec|cdd.shared.ast_utils._to_code|import_module('ast')";
  "KExec|cdd.shared.ast_utils._to_code|import_module('astor')";
  "KExec|cdd.shared.emit.utils.emitter_utils.get_emitter|import_module('.'.join(('cdd', 'sqlalchemy' if emit_name in frozenset(('sqlalchemy_hybrid', 'sqlalchemy_table')) else emit_name, 'emit')))";
  "KExec|cdd.shared.parse.utils.parser_utils.get_parser|import_module('.'.join(('cdd', parse_name, 'parse')))";
  (* explicit opt-in: gen --prepend (a command-line argument, not analysed source) *)
  "KExec|cdd.compound.gen.gen|compile(to_code(ast.fix_missing_locations(Module(body=prepend_imports, stmt=None, type_ignores=[]))), filename='<string>', mode='exec')";
  "KExec|cdd.compound.gen.gen|eval(compile(to_code(ast.fix_missing_locations(Module(body=prepend_imports, stmt=None, type_ignores=[]))), filename='<string>', mode='exec'), extra_symbols)";
  (* gen --input-mapping / --imports-from-file name a module to import: an explicit request of the command line *)
  "KExec|cdd.shared.pure_utils.get_module|import_module(name, package)";
  (* writes to the explicitly named output file *)
  "KFs|cdd.compound.doctrans.doctrans|open(filename, 'wt')";
  "KFs|cdd.compound.gen_utils.gen_file|open(output_filename, 'a')";
  "KFs|cdd.json_schema.emit.json_schema_file|open(output_filename, 'a')";
  "KFs|cdd.shared.emit.file.file|open(filename, mode)";
  "KFs|cdd.sqlalchemy.utils.emit_utils.update_fk_for_file|open(filename, 'wt')";
  "KFs|cdd.sqlalchemy.utils.emit_utils.update_with_imports_from_columns|open(filename, 'wt')"
].

Definition approved_ids : list nat :=
  map fst (filter (fun e => existsb (String.eqb (snd e)) approved_texts) site_info).

(* every execution of every analysis entry point (input_eval = False) touches approved sites only *)
Theorem C17_sites : forall f, In f analysis_entries ->
  forall tr, exec skeleton_ie false (body_of skeleton_ie f) tr -> harmless (bad_unless approved_ids) tr.
Proof. apply entries_sound. vm_compute. reflexivity. Qed.
Print Assumptions C17_sites.

(* module-level code (what runs at import) touches approved-literal import sites only *)
Definition import_literal_texts : list string := [
  "KExec|cdd.routes.parse.bottle.<module>|import_module('typing' if PY_GTE_3_8 else 'typing_extensions')";
  "KExec|cdd.shared.ast_utils.<module>|import_module('yaml')";
  "KExec|cdd.shared.ast_utils.<module>|import_module('pydantic')";
  "KExec|cdd.shared.ast_utils.<module>|import_module('sqlalchemy')";
  "KExec|cdd.shared.ast_utils.<module>|import_module('typing_extensions')";
  "KExec|cdd.shared.emit.file.<module>|import_module('black')";
  "KExec|cdd.shared.source_transformer.<module>|import_module('astor')";
  "KExec|cdd.shared.source_transformer.<module>|import_module('ast')"
].
Definition import_ids : list nat :=
  map fst (filter (fun e => existsb (String.eqb (snd e)) (import_literal_texts ++ approved_texts)) site_info).
Theorem C17_import_time : forall m, In m module_bodies ->
  forall tr, exec skeleton_ie false (body_of skeleton_ie m) tr -> harmless (bad_unless import_ids) tr.
Proof. apply entries_sound. vm_compute. reflexivity. Qed.
Print Assumptions C17_import_time.

(* the opt-in site is really behind the flag: with input_eval = True it is reachable (non-vacuity),
   with False it is not (it is not in the approved list and C17_sites holds) *)
Theorem C17_input_eval_reaches_eval :
  safe_from (bad_unless approved_ids) skeleton_ie (id_sync_properties, true) = false.
Proof. vm_compute. reflexivity. Qed.

Theorem C17_nonvacuous : Nat.leb 20 (List.length analysis_entries) = true /\ Nat.leb 10 (List.length approved_ids) = true.
Proof. split; vm_compute; reflexivity. Qed.

(* ---- the whitelist in front of the approved eval site ------------------------------------- *)
From CDD Require Import PyStr Adhoc AdhocProofs.

(* For EVERY docstring text: the sentences, words and candidate type that phase 0 of
   parse_adhoc_doc_for_typ hands on contain only word characters (ASCII letters, digits, backtick, both quotes, slash, bar),
   the separators . ; , and whitespace; the candidate type is a value of the constant table. *)
Theorem C17_phase0_alphabet : forall doc,
  forallb allowed (p_fst (phase0 doc)) = true /\
  (forall s, p_sentence (phase0 doc) = Some s -> forallb allowed s = true) /\
  Forall (fun w => forallb allowed w = true) (p_words (phase0 doc)) /\
  (forall t, p_candidate (phase0 doc) = Some t -> In t (map snd adhoc_type_table)).
Proof. exact phase0_alphabet. Qed.
Print Assumptions C17_phase0_alphabet.

(* none of ( ) [ ] { } _ : = @ \ ! $ % & * + - < > ? ^ ~ # passes the whitelist *)
Theorem C17_allowed_excludes :
  forallb (fun c => negb (allowed c)) (s2l "()[]{}_:=@\!$%&*+-<>?^~#") = true.
Proof. exact allowed_excludes. Qed.

Example C17_phase0_example :
  p_sentence (phase0 (s2l "Either `__import__('os').system('x')` or nothing. More."))
  = Some (s2l "Either `import'os'.system'x'` or nothing.").
Proof. vm_compute. reflexivity. Qed.

(* ---- importlib.util.find_spec imports (executes) every PARENT package of a dotted name.  Every call of the package is listed
   (regenerated on every run) and must be one of: a literal top-level name; the top-level part of a name (`names[0]`); a name that is
   already in sys.modules; PathFinder.find_spec, which imports nothing; the module named on the command line (--model-path etc.: an
   explicit request, not analysed source).  A new find_spec on a name taken from analysed source breaks the theorem (fix 74a4e6e
   removed the one the pinned tree had). *)
Definition approved_find_spec : list string := [
  "cdd.shared.ast_utils|<module>|find_spec('yaml')"; "cdd.shared.ast_utils|<module>|find_spec('pydantic')";
  "cdd.shared.ast_utils|<module>|find_spec('sqlalchemy')"; "cdd.shared.ast_utils|<module>|find_spec('typing_extensions')";
  "cdd.shared.emit.file|<module>|find_spec('black')";
  "cdd.shared.pure_utils|find_spec_sans_import|find_spec(names[0])";
  "cdd.shared.pure_utils|find_spec_sans_import|find_spec(name)";
  "cdd.shared.pure_utils|find_spec_sans_import|PathFinder.find_spec(name, spec.submodule_search_locations)";
  "cdd.shared.pure_utils|filename_from_mod_or_filename|find_spec(mod_or_filename)"
]%string.
Theorem C17_find_spec_calls : forallb (fun c => existsb (String.eqb c) approved_find_spec) find_spec_calls = true.
Proof. vm_compute. reflexivity. Qed.
