(* C05 -- SQLAlchemy forms agree and carry exactly one primary key (the mechanism). *)
From CDD Require Import PyStr SqlPk SqlPkProofs.

(* ensure_has_primary_key, which all three emitters run on the parameters before building the columns:
   for EVERY list of (distinct) column names and descriptions with at most one [PK] marker, and both values
   of force_pk_id, the result carries exactly one [PK] marker. *)
Theorem C05_one_pk : forall force ps,
  NoDup (map fst ps) -> (count_pk ps <= 1)%nat -> count_pk (ensure_pk force ps) = 1%nat.
Proof. exact ensure_pk_one. Qed.
Print Assumptions C05_one_pk.

Example C05_examples :
  ensure_pk false [(s2l "dataset_name", s2l "name of dataset"); (s2l "size", s2l "how big")]
    = [(s2l "dataset_name", s2l "[PK] name of dataset"); (s2l "size", s2l "how big")]
  /\ ensure_pk true [(s2l "dataset_name", s2l "name of dataset")]
    = [(s2l "dataset_name", s2l "name of dataset"); (s2l "id", s2l "[PK]")]
  /\ ensure_pk false [(s2l "a", s2l "[PK] x"); (s2l "b_id", s2l "y")] = [(s2l "a", s2l "[PK] x"); (s2l "b_id", s2l "y")].
Proof. repeat split; vm_compute; reflexivity. Qed.

(* Where the three emitters get their columns (Gen/SqlEmitters.v, regenerated from cdd/sqlalchemy/emit.py on every run): the Table
   expression and the declarative class both map param_to_sqlalchemy_column_calls over
   ensure_has_primary_key(intermediate_repr["params"], force_pk_id), and the hybrid class delegates to sqlalchemy_table forwarding
   the interface and force_pk_id unchanged.  With C05_one_pk this is why the three variants carry the same columns and one key. *)
From Coq Require Import String.
From CDD Require Import SqlEmitters.
Theorem C05_variants_share_the_column_source :
  sql_emitter_calls =
  [("sqlalchemy_table", "param_to_sqlalchemy_column_calls", "include_name=True");
   ("sqlalchemy_table", "ensure_has_primary_key", "intermediate_repr['params'], force_pk_id");
   ("sqlalchemy", "param_to_sqlalchemy_column_calls", "name_param, include_name=False");
   ("sqlalchemy", "ensure_has_primary_key", "intermediate_repr['params'], force_pk_id");
   ("sqlalchemy_hybrid", "sqlalchemy_table", "docstring_format=docstring_format, emit_default_doc=emit_default_doc, emit_original_whitespace=emit_original_whitespace, force_pk_id=force_pk_id, intermediate_repr=intermediate_repr, name='__table__', table_name=table_name or intermediate_repr['name'], word_wrap=word_wrap")]%string.
Proof. vm_compute. reflexivity. Qed.
