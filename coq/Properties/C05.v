(* C05 -- SQLAlchemy forms agree and carry exactly one primary key (the mechanism). *)
From CDD Require Import PyStr SqlPk SqlPkProofs.

(* ensure_has_primary_key, which all three emitters run on the parameters before building the columns:
   for EVERY list of (distinct) column names and descriptions with at most one [PK] marker, and both values
   of force_pk_id, the result carries exactly one [PK] marker. *)
Theorem C05_one_pk : forall force ps,
  NoDup (map fst ps) -> (count_pk ps <= 1)%nat -> count_pk (ensure_pk force ps) = 1%nat.
Proof. exact ensure_pk_one. Qed.
Print Assumptions C05_one_pk.

Example C05_examples :
  ensure_pk false [(s2l "dataset_name", s2l "name of dataset"); (s2l "size", s2l "how big")]
    = [(s2l "dataset_name", s2l "[PK] name of dataset"); (s2l "size", s2l "how big")]
  /\ ensure_pk true [(s2l "dataset_name", s2l "name of dataset")]
    = [(s2l "dataset_name", s2l "name of dataset"); (s2l "id", s2l "[PK]")]
  /\ ensure_pk false [(s2l "a", s2l "[PK] x"); (s2l "b_id", s2l "y")] = [(s2l "a", s2l "[PK] x"); (s2l "b_id", s2l "y")].
Proof. repeat split; vm_compute; reflexivity. Qed.

(* Where the three emitters get their columns (Gen/SqlEmitters.v, regenerated from cdd/sqlalchemy/emit.py on every run): the Table
   expression and the declarative class both map param_to_sqlalchemy_column_calls over
   ensure_has_primary_key(intermediate_repr["params"], force_pk_id), and the hybrid class delegates to sqlalchemy_table forwarding
   the interface and force_pk_id unchanged.  With C05_one_pk this is why the three variants carry the same columns and one key. *)
From Coq Require Import String.
From CDD Require Import SqlEmitters.
Theorem C05_variants_share_the_column_source :
  sql_emitter_calls =
  [("sqlalchemy_table", "param_to_sqlalchemy_column_calls", "include_name=True");
   ("sqlalchemy_table", "ensure_has_primary_key", "intermediate_repr['params'], force_pk_id");
   ("sqlalchemy", "param_to_sqlalchemy_column_calls", "name_param, include_name=False");
   ("sqlalchemy", "ensure_has_primary_key", "intermediate_repr['params'], force_pk_id");
   ("sqlalchemy_hybrid", "sqlalchemy_table", "docstring_format=docstring_format, emit_default_doc=emit_default_doc, emit_original_whitespace=emit_original_whitespace, force_pk_id=force_pk_id, intermediate_repr=intermediate_repr, name='__table__', table_name=table_name or intermediate_repr['name'], word_wrap=word_wrap")]%string.
Proof. vm_compute. reflexivity. Qed.

(* ---- one column through the emitter and the parser (Model/SqlCol.v: param_to_sqlalchemy_column_calls with its argument /
   keyword helpers, and column_call_to_param; a Column(...) call is the record of its arguments; compared with the code on
   generated parameters each run).  [plain_doc d]: d has no "[PK]" / "[FK" in front, is not empty and does not end with ".".
   [keeps_typ t]: t is not the bare `dict` (JSON reads back as Optional[dict] -- see C05_column_refuted). *)
From CDD Require SqlCol SqlColProofs.

(* for EVERY such description and every type of the domain (int, float, str, bool, Literal of any members, Optional of those):
   name-less column -> Column(...) -> parameter is the identity *)
Theorem C05_column_roundtrip : forall t d, SqlColProofs.keeps_typ t = true -> SqlColProofs.plain_doc d = true ->
  SqlCol.parse_col (SqlCol.emit_col {| SqlCol.p_typ := t; SqlCol.p_doc := Some d; SqlCol.p_default := None |})
  = {| SqlCol.p_typ := t; SqlCol.p_doc := Some d; SqlCol.p_default := None |}.
Proof. exact SqlColProofs.col_roundtrip_plain. Qed.
Print Assumptions C05_column_roundtrip.

(* the primary-key marker becomes primary_key=True, the rest of the description the comment, and both come back *)
Theorem C05_column_pk_marker : forall t d, SqlColProofs.keeps_typ t = true -> SqlColProofs.head_ok d = true ->
  match last_opt d with Some c => negb (N.eqb c SqlCol.DOT) | None => false end = true ->
  let p := {| SqlCol.p_typ := t; SqlCol.p_doc := Some (s2l "[PK] " ++ d); SqlCol.p_default := None |} in
  SqlCol.c_pk (SqlCol.emit_col p) = true /\ SqlCol.c_comment (SqlCol.emit_col p) = Some d /\ SqlCol.parse_col (SqlCol.emit_col p) = p.
Proof. exact SqlColProofs.col_roundtrip_pk. Qed.
Print Assumptions C05_column_pk_marker.

(* the foreign-key marker "[FK(target)] " becomes ForeignKey("target"), the rest of the description the comment, and the marker is
   rebuilt in front of it on the way back: for EVERY target without a closing square bracket and every such description *)
From CDD Require SqlColFkProofs.
Theorem C05_column_fk_marker : forall t f d, SqlColProofs.keeps_typ t = true -> SqlColFkProofs.target_ok f = true -> SqlColProofs.head_ok d = true ->
  match last_opt d with Some c => negb (N.eqb c SqlCol.DOT) | None => false end = true ->
  let p := {| SqlCol.p_typ := t; SqlCol.p_doc := Some (s2l "[FK(" ++ f ++ s2l ")] " ++ d); SqlCol.p_default := None |} in
  SqlCol.c_fk (SqlCol.emit_col p) = Some f /\ SqlCol.c_comment (SqlCol.emit_col p) = Some d /\ SqlCol.c_pk (SqlCol.emit_col p) = false
  /\ SqlCol.parse_col (SqlCol.emit_col p) = p.
Proof. exact SqlColFkProofs.col_roundtrip_fk. Qed.
Print Assumptions C05_column_fk_marker.

(* a non-None default on a non-Optional column: NOT NULL, default kept, the description comes back with a full stop *)
Theorem C05_column_default : forall b d v, b <> SqlCol.BDict -> SqlColProofs.plain_doc d = true -> SqlCol.is_none_default (SqlCol.DVal v) = false ->
  let p := {| SqlCol.p_typ := {| SqlCol.t_opt := false; SqlCol.t_base := b |}; SqlCol.p_doc := Some d; SqlCol.p_default := Some (SqlCol.DVal v) |} in
  SqlCol.c_nullable (SqlCol.emit_col p) = Some false
  /\ SqlCol.parse_col (SqlCol.emit_col p)
     = {| SqlCol.p_typ := {| SqlCol.t_opt := false; SqlCol.t_base := b |}; SqlCol.p_doc := Some (d ++ [SqlCol.DOT]); SqlCol.p_default := Some (SqlCol.DVal v) |}.
Proof. exact SqlColProofs.col_roundtrip_default. Qed.

(* Optional[..] with the None default stays Optional (nullable=True) and keeps None *)
Theorem C05_column_optional_none : forall b d, SqlColProofs.plain_doc d = true ->
  let p := {| SqlCol.p_typ := {| SqlCol.t_opt := true; SqlCol.t_base := b |}; SqlCol.p_doc := Some d; SqlCol.p_default := Some SqlCol.DNoneStr |} in
  SqlCol.c_nullable (SqlCol.emit_col p) = Some true
  /\ SqlCol.parse_col (SqlCol.emit_col p)
     = {| SqlCol.p_typ := {| SqlCol.t_opt := true; SqlCol.t_base := b |}; SqlCol.p_doc := Some (d ++ [SqlCol.DOT]); SqlCol.p_default := Some SqlCol.DNoneStr |}.
Proof. exact SqlColProofs.col_roundtrip_optional_none. Qed.

(* outside the stated domain, as facts about the faithful model: Optional with a non-None default comes back non-Optional; trailing
   full stops of a description are dropped; the bare dict comes back Optional[dict] *)
Theorem C05_column_refuted :
  SqlCol.p_typ (SqlCol.parse_col (SqlCol.emit_col {| SqlCol.p_typ := {| SqlCol.t_opt := true; SqlCol.t_base := SqlCol.BInt |}; SqlCol.p_doc := Some (s2l "n"); SqlCol.p_default := Some (SqlCol.DVal (s2l "5")) |}))
    = {| SqlCol.t_opt := false; SqlCol.t_base := SqlCol.BInt |}
  /\ SqlCol.p_doc (SqlCol.parse_col (SqlCol.emit_col {| SqlCol.p_typ := {| SqlCol.t_opt := false; SqlCol.t_base := SqlCol.BInt |}; SqlCol.p_doc := Some (s2l "the a.."); SqlCol.p_default := None |})) = Some (s2l "the a")
  /\ SqlCol.p_typ (SqlCol.parse_col (SqlCol.emit_col {| SqlCol.p_typ := {| SqlCol.t_opt := false; SqlCol.t_base := SqlCol.BDict |}; SqlCol.p_doc := Some (s2l "d"); SqlCol.p_default := None |})) = {| SqlCol.t_opt := true; SqlCol.t_base := SqlCol.BDict |}.
Proof. exact SqlColProofs.col_refuted. Qed.
