(* C05 -- SQLAlchemy forms agree and carry exactly one primary key (the mechanism). *)
From CDD Require Import PyStr SqlPk SqlPkProofs.

(* ensure_has_primary_key, which all three emitters run on the parameters before building the columns:
   for EVERY list of (distinct) column names and descriptions with at most one [PK] marker, and both values
   of force_pk_id, the result carries exactly one [PK] marker. *)
Theorem C05_one_pk : forall force ps,
  NoDup (map fst ps) -> (count_pk ps <= 1)%nat -> count_pk (ensure_pk force ps) = 1%nat.
Proof. exact ensure_pk_one. Qed.
Print Assumptions C05_one_pk.

Example C05_examples :
  ensure_pk false [(s2l "dataset_name", s2l "name of dataset"); (s2l "size", s2l "how big")]
    = [(s2l "dataset_name", s2l "[PK] name of dataset"); (s2l "size", s2l "how big")]
  /\ ensure_pk true [(s2l "dataset_name", s2l "name of dataset")]
    = [(s2l "dataset_name", s2l "name of dataset"); (s2l "id", s2l "[PK]")]
  /\ ensure_pk false [(s2l "a", s2l "[PK] x"); (s2l "b_id", s2l "y")] = [(s2l "a", s2l "[PK] x"); (s2l "b_id", s2l "y")].
Proof. repeat split; vm_compute; reflexivity. Qed.
