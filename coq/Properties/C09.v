(* C09 -- the concrete syntax tree is lossless for every input string.
   Only statements, closed by [exact], and Print Assumptions. *)
From CDD Require Import PyStr Cst CstProofs.

(* for any alphabet and ANY behaviour of the lexical predicates *)
Theorem C09_lossless_parametric :
  forall (C : Type) (is_nl : C -> bool) (is_comment has_triple is_other cut_here : list C -> bool) (src : list C),
    concat (cst_scanner_gen C is_nl is_comment has_triple is_other cut_here src) = src.
Proof. exact cst_scanner_gen_lossless. Qed.
Print Assumptions C09_lossless_parametric.

(* the executable instantiation that is run against cdd.shared.cst_utils.cst_scanner *)
Theorem C09_lossless : forall src : str, concat (cst_scanner src) = src.
Proof. exact (cst_scanner_gen_lossless char _ _ _ _ _). Qed.
Print Assumptions C09_lossless.

Theorem C09_values : forall src : str, map n_value (cst_parse src) = cst_scanner src.
Proof. exact (fun src => parser_values_aux (cst_scanner src) 1%Z UnchangingLine). Qed.
Print Assumptions C09_values.

Theorem C09_node_texts_concat : forall src : str, concat (map n_value (cst_parse src)) = src.
Proof. intro src. rewrite C09_values. exact (C09_lossless src). Qed.
Print Assumptions C09_node_texts_concat.

(* first node starts at line 1, each node starts where the previous ended,
   every node spans exactly as many line breaks as its text contains *)
Theorem C09_tiling : forall src : str,
  chain 1%Z (cst_parse src) /\ Forall spans (cst_parse src).
Proof. exact (fun src => parser_tiling_aux (cst_scanner src) 1%Z UnchangingLine). Qed.
Print Assumptions C09_tiling.

Theorem C09_last_line : forall src : str,
  last_end 1%Z (cst_parse src) = (1 + Z.of_nat (count_char NL src))%Z.
Proof.
  intro src. unfold cst_parse, cst_parser. rewrite parser_last_end_aux, (C09_lossless src). reflexivity.
Qed.
Print Assumptions C09_last_line.

(* non-vacuity: a comment, a decorator spanning lines, an unbalanced quote *)
Example C09_ex1 :
  map (fun n => (n_start n, n_end n, List.length (n_value n))) (cst_parse (s2l "# c
@a(
 1)
def f(): pass
x = '")) = [(1%Z, 1%Z, 3%nat); (1%Z, 5%Z, 28%nat)].
Proof. vm_compute. reflexivity. Qed.
