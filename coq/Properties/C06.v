(* C06 -- the emitted JSON-schema is self-consistent and round-trips (property level). *)
From CDD Require Import PyStr JsonSchema JsonSchemaProofs.

(* a property is listed as required exactly when its type is not Optional -- for every parameter list *)
Theorem C06_required_iff : forall ps n,
  In n (required_names ps) <-> exists p, In (n, p) ps /\ is_optional (p_typ p) = false.
Proof. exact required_iff. Qed.
Print Assumptions C06_required_iff.

(* emit -> parse gives back the same type string with Literal members sorted (compared as a set:
   C06_sorted_same_members), the description and the default, for every parameter of the domain
   (base types, Literal[str,..] with members over letters/digits/_-. and space, Optional[..] of those) *)
Theorem C06_roundtrip : forall ps n p,
  NoDup (map fst ps) -> In (n, p) ps -> typ_ok (p_typ p) = true ->
  parse_prop n (fst (emit_prop p)) (required_names ps) = Some (expected p).
Proof. exact roundtrip. Qed.
Print Assumptions C06_roundtrip.
Theorem C06_sorted_same_members : forall m ms, In m (sort_strs ms) <-> In m ms.
Proof. exact in_sort_strs. Qed.

(* every emitted default validates against its own property schema *)
Theorem C06_default_validates : forall p d,
  typ_ok (p_typ p) = true -> d <> DNone -> default_well_typed (p_typ p) d = true ->
  default_validates (fst (emit_prop p)) d = true.
Proof. exact default_validates_ok. Qed.
Print Assumptions C06_default_validates.

(* the pattern accepts every member ... *)
Theorem C06_pattern_accepts_members : forall ms m,
  negb (Nat.eqb (length ms) 0) && forallb member_ok ms = true -> In m ms ->
  pattern_accepts (join PIPE (sort_strs ms)) m = true.
Proof. exact pattern_accepts_members. Qed.
(* ... but NOT exactly the members: the pattern is an unanchored alternation (search semantics) *)
Theorem C06_pattern_exact_refuted : exists ms text,
  negb (Nat.eqb (length ms) 0) && forallb member_ok ms = true /\
  pattern_accepts (join PIPE (sort_strs ms)) text = true /\ ~ In text ms.
Proof.
  exists [s2l "np"; s2l "tf"], (s2l "npx"). split; [vm_compute; reflexivity|]. split; [vm_compute; reflexivity|].
  intros [H|[H|[]]]; discriminate.
Qed.

Example C06_example :
  fst (emit_prop (mkParam (TOpt (TLit [s2l "tf"; s2l "np"])) (Some (s2l "backend")) (Some (DStr (s2l "np")))))
  = mkProp (s2l "string") (Some (s2l "backend")) (Some (s2l "np|tf")) (Some (DStr (s2l "np"))).
Proof. vm_compute. reflexivity. Qed.
