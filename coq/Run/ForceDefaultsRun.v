From CDD Require Import PyStr Val ForceDefaults.
Definition table : list (string * (val -> val)) :=
  [ ("force_future", fun v =>        (* [[typ|N, has_own(bool)]...] -> [N | "own" | ["zero", typ] | "nonestr" ...] *)
       VL (map (fun x => match x with
                         | None => VN
                         | Some (FOwn _ _) => vstring "own"
                         | Some (FZero _ t) => VL [vstring "zero"; VS t]
                         | Some (FNoneStr _) => vstring "nonestr"
                         end)
               (force_future unit false (map (fun p => (as_opt_str (arg 0 p), if as_bool (arg 1 p) then Some tt else None)) (as_list v))))) ]%string.
