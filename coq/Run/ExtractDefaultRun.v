From CDD Require Import PyStr Val ExtractDefault.
Definition table : list (string * (val -> val)) :=
  [ ("extract_default_text", fun v =>   (* [line, emit_default_doc] -> [doc, default|N] *)
       let r := extract_default_text (as_str (arg 0 v)) (as_bool (arg 1 v)) in
       VL [VS (fst r); vopt VS (snd r)]) ]%string.
