From CDD Require Import PyStr Val DocSplit Loops.
Open Scope Z_scope.
Definition iters {S} (r : option (S * nat)) : val := match r with Some (_, k) => VZ (Z.of_nat k) | None => VN end.
Definition table : list (string * (val -> val)) :=
  [ ("l5_iterations", fun v => let sen := as_str v in
       iters (run _ (l5_guard sen) (l5_step sen) (S (Z.to_nat (slen sen))) (0, (0, 0)) O));
    ("l1_iterations", fun v => let cds := as_str v in
       iters (run _ (l1_guard cds) (l1_step cds) (S (l1_mu cds (l1_init cds))) (l1_init cds) O)) ]%string.
