From CDD Require Import PyStr Val GoogleLine GoogleHead GoogleScan.
Definition params_val (r : params_result) : val :=
  match r with
  | PList ps => VL (map (fun p : str * option str * str => VL [VS (fst (fst p)); vopt VS (snd (fst p)); VS (snd p)]) ps)
  | PRaises => vstring "raises"
  | POther => vstring "other"
  end.
Definition table : list (string * (val -> val)) :=
  [ ("google_section_units", fun v =>     (* text after the token line -> [[[line...]...], [leftover line...]] *)
       let r := section_units (as_str v) in VL [VL (map vstrs (fst r)); vstrs (snd r)]);
    ("google_docstring", fun v =>         (* whole text -> [doc, params, clean?] ; clean = no leftover lines and no afterward cut *)
       let text := as_str v in
       let r := google_docstring text in
       let clean := match google_scan_head text with
                    | (_, Some rest) => let su := section_units rest in
                                        match snd su with [] => Nat.eqb (length (take_until unit_is_afterward (fst su))) (length (fst su)) | _ => false end
                    | _ => true
                    end in
       VL [VS (fst r); params_val (snd r); VB clean]) ]%string.
