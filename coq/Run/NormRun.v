From CDD Require Import PyStr Val Norm.
(* ctyp: VL [VB opt; VS base] | VL [VB opt; VL members] ;  cdef: VN=absent | VL [VS kind; payload] *)
Definition base_of (s : str) : base :=
  if str_eqb s (s2l "int") then BInt else if str_eqb s (s2l "float") then BFloat else if str_eqb s (s2l "str") then BStr else BBool.
Definition base_name (b : base) : str := s2l match b with BInt => "int" | BFloat => "float" | BStr => "str" | BBool => "bool" end.
Definition ctyp_of (v : val) : ctyp :=
  mkT (as_bool (arg 0 v)) (match arg 1 v with VS s => IBase (base_of s) | x => ILit (map as_str (as_list x)) end).
Definition cdef_of (v : val) : cdef :=
  match v with
  | VN => DAbs
  | _ => let k := as_str (arg 0 v) in
         if str_eqb k (s2l "n") then DNone else if str_eqb k (s2l "i") then DInt (as_Z (arg 1 v))
         else if str_eqb k (s2l "f") then DFloat (as_str (arg 1 v)) else if str_eqb k (s2l "b") then DBool (as_bool (arg 1 v))
         else DStr (as_str (arg 1 v))
  end.
Definition ctyp_val (t : ctyp) : val :=
  VL [VB (t_opt t); match t_inner t with IBase b => VS (base_name b) | ILit ms => vstrs ms end].
Definition cdef_val (d : cdef) : val :=
  match d with
  | DAbs => VN | DNone => VL [VS (s2l "n"); VN] | DInt z => VL [VS (s2l "i"); VZ z] | DFloat r => VL [VS (s2l "f"); VS r]
  | DBool b => VL [VS (s2l "b"); VB b] | DStr s => VL [VS (s2l "s"); VS s]
  end.
Definition fmt_of (s : str) : fmt :=
  if str_eqb s (s2l "class") then FClass else if str_eqb s (s2l "pydantic") then FPydantic
  else if str_eqb s (s2l "function") then FFunction else if str_eqb s (s2l "argparse") then FArgparse else FDocstring.
Definition state_val (y : cparam) : val := VL [ctyp_val (fst y); cdef_val (snd y)].
Fixpoint run_chain (fs : list fmt) (cur : option cparam) : list val :=
  match fs with
  | [] => []
  | f :: r =>
      match cur with
      | Some x => match N f x with
                  | Some y => state_val y :: run_chain r (Some y)
                  | None => VN :: run_chain r None
                  end
      | None => VN :: run_chain r None
      end
  end.
Definition table : list (string * (val -> val)) :=
  [ ("norm_chain", fun v =>   (* [formats, [ctyp, cdef]] -> list of states after each hop *)
       let fs := map (fun x => fmt_of (as_str x)) (as_list (arg 0 v)) in
       VL (run_chain fs (Some (ctyp_of (arg 0 (arg 1 v)), cdef_of (arg 1 (arg 1 v)))))) ]%string.
