From CDD Require Import PyStr Val GoogleLine.
Definition table : list (string * (val -> val)) :=
  [ ("google_emit_param", fun v =>        (* [name, typ|N, doc|N] -> str *)
       VS (emit_google_param (as_str (arg 0 v)) (as_opt_str (arg 1 v)) (as_opt_str (arg 2 v))));
    ("google_params", fun v =>            (* [line...] -> [[name, typ|N, doc]...] | "raises" | "other" *)
       match google_params (map as_str (as_list v)) with
       | PList ps => VL (map (fun p : str * option str * str => VL [VS (fst (fst p)); vopt VS (snd (fst p)); VS (snd p)]) ps)
       | PRaises => vstring "raises"
       | POther => vstring "other"
       end) ]%string.
