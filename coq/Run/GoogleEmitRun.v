From CDD Require Import PyStr Val GoogleEmit.
Definition table : list (string * (val -> val)) :=
  [ ("google_emit", fun v =>              (* [doc, [[name, typ|N, doc|N]...]] -> str *)
       VS (emit_google (as_str (arg 0 v))
             (map (fun e => (as_str (arg 0 e), as_opt_str (arg 1 e), as_opt_str (arg 2 e))) (as_list (arg 1 v))))) ]%string.
