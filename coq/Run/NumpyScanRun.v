From CDD Require Import PyStr Val GoogleLine GoogleHead GoogleScan NumpyLine NumpyScan.
Definition table : list (string * (val -> val)) :=
  [ ("numpy_docstring", fun v =>          (* whole text -> [doc, [[name, typ|N, doc|N]...], clean?] *)
       let text := as_str v in
       let r := numpy_docstring text in
       let clean := match numpy_scan_head text with
                    | (_, Some rest) => let su := section_units rest in
                                        match snd su with [] => Nat.eqb (length (take_until unit_afterward (fst su))) (length (fst su)) | _ => false end
                    | _ => true
                    end in
       VL [VS (fst r); VL (map (fun p : str * option str * option str => VL [VS (fst (fst p)); vopt VS (snd (fst p)); vopt VS (snd p)]) (snd r)); VB clean]) ]%string.
