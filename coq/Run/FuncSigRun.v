From CDD Require Import PyStr Val FuncSig.
Definition pairs_val (l : list (str * option str)) : val := VL (map (fun p => VL [VS (fst p); vopt VS (snd p)]) l).
Definition table : list (string * (val -> val)) :=
  [ ("parse_pairs", fun v => pairs_val (parse_pairs str str (map as_str (as_list (arg 0 v)), map as_str (as_list (arg 1 v)))));
    ("emit_sig", fun v =>
       let ps := map (fun e => (as_str (arg 0 e), as_opt_str (arg 1 e))) (as_list v) in
       let s := emit_sig str str (s2l "None") ps in VL [vstrs (fst s); vstrs (snd s)]) ]%string.
