From CDD Require Import PyStr Val NameSan.
Definition table : list (string * (val -> val)) :=
  [ ("sanitise_name", fun v => VS (sanitise_name (as_str v))) ]%string.
