From CDD Require Import PyStr Val DocSplit.
Definition table : list (string * (val -> val)) :=
  [ ("get_token_start_idx", fun v => VZ (get_token_start_idx (as_str v)));
    ("header_args_footer_to_str", fun v => VS (header_args_footer_to_str (as_str (arg 0 v)) (as_str (arg 1 v)) (as_str (arg 2 v))));
    ("split3", fun v => let '(h, a, f) := split3 (as_str (arg 0 v)) (as_Z (arg 1 v)) (as_Z (arg 2 v)) in
                        VL [vopt VS h; VS a; vopt VS f]) ]%string.
