From CDD Require Import PyStr Val Merge.
Definition cparam_of (v : val) : cparam :=
  mkCP (as_opt_str (arg 0 v)) (as_opt_str (arg 1 v)) (as_opt_str (arg 2 v)).
Definition params_of (v : val) : list (str * cparam) :=
  map (fun e => (as_str (arg 0 e), cparam_of (arg 1 e))) (as_list v).
Definition cparam_val (c : cparam) : val := VL [vopt VS (c_typ c); vopt VS (c_doc c); vopt VS (c_default c)].
Definition table : list (string * (val -> val)) :=
  [ ("merge_params", fun v =>
       let enum := map as_str (as_list (arg 0 v)) in
       VL (map (fun kv => VL [VS (fst kv); cparam_val (snd kv)]) (cmerge enum (params_of (arg 1 v)) (params_of (arg 2 v))))) ]%string.
