From CDD Require Import PyStr Val Adhoc.

Definition table : list (string * (val -> val)) :=
  [ ("adhoc_phase0", fun v =>
       let r := phase0 (as_str v) in
       VL [ vopt VS (p_candidate r); VS (p_fst r); vopt VS (p_sentence r); vstrs (p_words r) ]) ]%string.
