From CDD Require Import PyStr Val Rewrite RewriteRun FindAst.
Definition found_val (f : found) : val :=
  match f with
  | FNode p => VL [VS (s2l "node"); VL (map (fun k => VZ (Z.of_nat k)) p)]
  | FArg p k => VL [VS (s2l "arg"); VL (map (fun k => VZ (Z.of_nat k)) p); VZ (Z.of_nat k)]
  | FNone => VL [VS (s2l "none")]
  | FErr => VL [VS (s2l "error")]
  end.
Definition table : list (string * (val -> val)) :=
  [ ("find_in_ast", fun v =>   (* [search, module nodes] *)
       found_val (find_in_ast (map as_str (as_list (arg 0 v))) (map (node_of 30) (as_list (arg 1 v))))) ]%string.
