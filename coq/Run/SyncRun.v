From CDD Require Import PyStr Val Sync.
(* item: VL [VS "d"; VS name; VS iface] | VL [VS "o"; VZ id] *)
Definition item_of (v : val) : item str str :=
  if str_eqb (as_str (arg 0 v)) (s2l "d") then Def str str (as_str (arg 1 v)) (as_str (arg 2 v)) else Other str str (Z.to_nat (as_Z (arg 1 v))).
Definition item_val (i : item str str) : val :=
  match i with Def _ _ n x => VL [VS (s2l "d"); VS n; VS x] | Other _ _ k => VL [VS (s2l "o"); VZ (Z.of_nat k)] end.
Definition kind_of (s : str) : kind := if str_eqb s (s2l "class") then KClass else if str_eqb s (s2l "function") then KFunction else KArgparse.
Definition table : list (string * (val -> val)) :=
  [ ("sync_conform", fun v =>   (* [kind, name, gold, found?, file | N, gname] -> items | N (file absent) | "!" crash *)
       let find := fun n l => if as_bool (arg 3 v) then lookup str str_eqb str n l else None in
       let f := match arg 4 v with VN => None | x => Some (map item_of (as_list x)) end in
       match conform str str_eqb str str_eqb find (kind_of (as_str (arg 0 v))) (as_str (arg 1 v)) (as_str (arg 5 v)) (as_str (arg 2 v)) f with
       | Some (Some items) => VL (map item_val items)
       | Some None => VN
       | None => VS (s2l "crash")
       end) ]%string.
