From CDD Require Import PyStr Val RestDoc Merge FuncFmt.
From CDD Require FuncFmtProofs.
Definition fparam_of (v : val) : fparam := {| fp_typ := as_opt_str (arg 0 v); fp_doc := as_opt_str (arg 1 v); fp_default := as_opt_str (arg 2 v) |}.
Definition cparam_val' (c : cparam) : val := VL [vopt VS (c_typ c); vopt VS (c_doc c); vopt VS (c_default c)].
Definition table : list (string * (val -> val)) :=
  [ ("function_docstring", fun v =>   (* [type_annotations, doc, [[name, [typ|N, doc|N, default|N]]...]] -> str *)
       VS (f_doc (emit_function (as_bool (arg 0 v)) (as_str (arg 1 v)) (map (fun a => (as_str (arg 0 a), fparam_of (arg 1 a))) (as_list (arg 2 v))))));
    ("function_canonical_text", fun v =>   (* the text of theorem C02_function_text_parse_canonical, same arguments *)
       VS (FuncFmtProofs.ftext INDENT (as_str (arg 1 v))
             (map (fun a => (as_str (arg 0 a), entry_of (negb (as_bool (arg 0 v))) (fparam_of (arg 1 a)))) (as_list (arg 2 v)))));
    ("parse_function", fun v =>       (* [docstring, [[name, ann|N, default]...]] -> [doc, [[name, [typ, doc, default]]...]] *)
       let f := {| f_doc := as_str (arg 0 v);
                   f_args := map (fun a => {| fa_name := as_str (arg 0 a); fa_ann := as_opt_str (arg 1 a); fa_default := as_str (arg 2 a) |}) (as_list (arg 1 v)) |} in
       let r := parse_function f in
       VL [VS (fst r); VL (map (fun ne : str * cparam => VL [VS (fst ne); cparam_val' (snd ne)]) (snd r))]) ]%string.
