From CDD Require Import PyStr Val ArgRead.
Definition pyval_of (v : val) : pyval := {| v_repr := as_str (arg 0 v); v_str := as_str (arg 1 v); v_empty := as_bool (arg 2 v); v_is_str := as_bool (arg 3 v) |}.
Definition opt_pyval (v : val) : option pyval := match v with VL _ => Some (pyval_of v) | _ => None end.
Definition table : list (string * (val -> val)) :=
  [ ("parse_out_param", fun v =>   (* [name, type|N, choices|N, help|N, required, default|N, action|N] -> [name, doc|N, typ, default] *)
       let c := {| a_name := as_str (arg 0 v); a_type := as_opt_str (arg 1 v);
                   a_choices := match arg 2 v with VL l => Some (map pyval_of l) | _ => None end;
                   a_help := as_opt_str (arg 3 v); a_required := as_bool (arg 4 v); a_default := opt_pyval (arg 5 v);
                   a_action := as_opt_str (arg 6 v) |} in
       match parse_out_param c with
       | None => vstring "raises"
       | Some r =>
           VL [VS (r_name r); vopt VS (r_doc r); VS (r_typ r);
               match r_default r with
               | None => VN
               | Some ANoneStr => VL [vstring "nonestr"]
               | Some (AVal d) => VL [vstring "val"; VS (v_repr d)]
               | Some (AFromDoc t) => VL [vstring "doc"; VS t]
               end]
       end) ]%string.
