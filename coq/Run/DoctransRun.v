From CDD Require Import PyStr Val Doctrans.
Definition table : list (string * (val -> val)) :=
  [ ("header_reprint", fun v =>   (* [value, [[name, ann|N], ...]] -> str *)
       VS (header_reprint (as_str (arg 0 v)) (map (fun a => (as_str (arg 0 a), as_opt_str (arg 1 a))) (as_list (arg 1 v)))));
    ("apply_repl", fun v =>       (* [[idx, text]..., nodes] -> nodes *)
       VL (map VS (apply_repl (map (fun a => (Z.to_nat (as_Z (arg 0 a)), as_str (arg 1 a))) (as_list (arg 0 v))) (map as_str (as_list (arg 1 v)))))) ]%string.
Definition table2 : list (string * (val -> val)) :=
  [ ("retype_header", fun v =>   (* [value, cur|N, new|N] -> str | N *)
       vopt VS (retype_header (as_str (arg 0 v)) (as_opt_str (arg 1 v)) (as_opt_str (arg 2 v)))) ]%string.
Definition table3 : list (string * (val -> val)) :=
  [ ("find_cst", fun v =>   (* [[[start, end, kind, name|N]...], lineno, kind, name|N] -> idx | N *)
       vopt (fun k => VZ (Z.of_nat k))
         (find_cst (map (fun c => {| c_start := as_Z (arg 0 c); c_end := as_Z (arg 1 c); c_kind := as_str (arg 2 c); c_name := as_opt_str (arg 3 c) |}) (as_list (arg 0 v)))
                   (as_Z (arg 1 v)) (as_str (arg 2 v)) (as_opt_str (arg 3 v)))) ]%string.
Definition edit_val (e : edit) : val :=
  match e with
  | ENop => VL [VS (s2l "nop")]
  | EInsertAfter v => VL [VS (s2l "insert"); VS v]
  | EDeleteAfter => VL [VS (s2l "delete")]
  | EReplaceAfter v => VL [VS (s2l "replace"); VS v]
  end.
Definition table4 : list (string * (val -> val)) :=
  [ ("doc_edit", fun v => edit_val (doc_edit (as_str (arg 0 v)) (as_str (arg 1 v)) (as_bool (arg 2 v))));   (* [new_doc, after_value, after_is_docstr] *)
    ("apply_edit", fun v =>   (* [edit as above, i, nodes] -> nodes *)
       let e := arg 0 v in
       let tag := as_str (arg 0 e) in
       let ed := if str_eqb tag (s2l "insert") then EInsertAfter (as_str (arg 1 e))
                 else if str_eqb tag (s2l "delete") then EDeleteAfter
                 else if str_eqb tag (s2l "replace") then EReplaceAfter (as_str (arg 1 e)) else ENop in
       VL (map VS (apply_edit ed (Z.to_nat (as_Z (arg 1 v))) (map as_str (as_list (arg 2 v)))))) ]%string.
From CDD Require Import DoctransFlow.
Definition knode_of (v : val) : knode :=
  {| k_kind := as_str (arg 0 v); k_text := as_str (arg 1 v); k_docstr := as_bool (arg 2 v); k_start := as_Z (arg 3 v); k_end := as_Z (arg 4 v);
     k_name := as_opt_str (arg 5 v) |}.
Definition defn_of (v : val) : defn :=
  {| d_lineno := as_Z (arg 0 v); d_kind := as_str (arg 1 v); d_name := as_opt_str (arg 2 v); d_doc := as_str (arg 3 v); d_header := fun h => h |}.
Definition table5 : list (string * (val -> val)) :=
  [ ("doctransify_docs", fun v =>   (* [[kind, text, is_docstr, start, end, name|N]..., [[lineno, kind, name|N, doc]...]] -> texts (headers left alone) *)
       VL (map (fun c => VS (k_text c)) (doctransify (map knode_of (as_list (arg 0 v))) (map defn_of (as_list (arg 1 v)))))) ]%string.
