From CDD Require Import PyStr Val Rewrite.
(* node: VL [VS tag; ...]   c: name body | f: name args kwonly defaults bid | a: target ann value | s: target value | o: id
   arg: VL [VS name; VS ann | VN] *)
Definition arg_of (v : val) : argd := mkArg (as_str (arg 0 v)) (as_opt_str (arg 1 v)).
Definition arg_val (a : argd) : val := VL [VS (a_name a); vopt VS (a_ann a)].
Fixpoint node_of (fuel : nat) (v : val) : node :=
  match fuel with
  | O => NOther 0
  | S f =>
      let tag := as_str (arg 0 v) in
      if str_eqb tag (s2l "c") then NClass (as_str (arg 1 v)) (map (node_of f) (as_list (arg 2 v)))
      else if str_eqb tag (s2l "f") then
        NFunc (as_str (arg 1 v)) (map arg_of (as_list (arg 2 v))) (map arg_of (as_list (arg 3 v)))
              (map as_str (as_list (arg 4 v))) (Z.to_nat (as_Z (arg 5 v)))
      else if str_eqb tag (s2l "a") then NAnn (as_str (arg 1 v)) (as_str (arg 2 v)) (as_opt_str (arg 3 v))
      else if str_eqb tag (s2l "s") then NAssign (as_str (arg 1 v)) (as_str (arg 2 v))
      else NOther (Z.to_nat (as_Z (arg 1 v)))
  end.
Fixpoint node_val (n : node) : val :=
  match n with
  | NClass name body => VL [VS (s2l "c"); VS name; VL ((fix go (l : list node) : list val :=
                                                           match l with [] => [] | x :: r => node_val x :: go r end) body)]
  | NFunc name args kwonly defaults bid =>
      VL [VS (s2l "f"); VS name; VL (map arg_val args); VL (map arg_val kwonly); vstrs defaults; VZ (Z.of_nat bid)]
  | NAnn t a v => VL [VS (s2l "a"); VS t; VS a; vopt VS v]
  | NAssign t v => VL [VS (s2l "s"); VS t; VS v]
  | NOther i => VL [VS (s2l "o"); VZ (Z.of_nat i)]
  end.
Definition repl_of (v : val) : repl :=
  if str_eqb (as_str (arg 0 v)) (s2l "arg") then RArg (arg_of (arg 1 v))
  else RAnn (as_str (arg 1 v)) (as_str (arg 2 v)) (as_opt_str (arg 3 v)).
Definition table : list (string * (val -> val)) :=
  [ ("rewrite", fun v =>
       match rewrite (map as_str (as_list (arg 0 v))) (repl_of (arg 1 v)) (map (node_of 30) (as_list (arg 2 v))) with
       | Some (m, b) => VL [VL (map node_val m); VB b]
       | None => VN
       end) ]%string.
