From CDD Require Import PyStr Val GoogleLine NumpyLine.
Definition table : list (string * (val -> val)) :=
  [ ("numpy_emit_param", fun v =>        (* [emit_type, emit_doc, name, typ|N, doc|N] -> [line...] *)
       vstrs (emit_numpy_param (as_bool (arg 0 v)) (as_bool (arg 1 v)) (as_str (arg 2 v)) (as_opt_str (arg 3 v)) (as_opt_str (arg 4 v))));
    ("numpy_params", fun v =>            (* [[line...]...] -> [[name, typ|N, doc|N]...] *)
       VL (map (fun p : str * option str * option str => VL [VS (fst (fst p)); vopt VS (snd (fst p)); vopt VS (snd p)])
               (numpy_params (map (fun u => map as_str (as_list u)) (as_list v)))));
    ("numpy_unit", fun v =>              (* [line...] -> N | [name, typ|N, doc|N] *)
       match parse_numpy_unit (map as_str (as_list v)) with
       | NSkip => VN
       | NEntry n t d => VL [VS n; vopt VS t; vopt VS d]
       end) ]%string.
