From CDD Require Import PyStr Val Entities.
Definition table : list (string * (val -> val)) :=
  [ ("extract_entities", fun v => vstrs (extract_entities (as_str v)));
    ("pick_entity", fun v => vopt VS (pick_entity (map as_str (as_list v)))) ]%string.
