From CDD Require Import PyStr Val DefaultDoc.
Definition table : list (string * (val -> val)) :=
  [ ("quote", fun v => VS (quote (as_str v)));
    ("set_default_doc", fun v => VS (set_default_doc (fun d => d) (as_str (arg 0 v)) (as_opt_str (arg 1 v)) (as_bool (arg 2 v)))) ]%string.
