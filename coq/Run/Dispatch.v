From CDD Require Import PyStr Val.
From CDD Require CstRun.

Definition tables : list (string * (val -> val)) := CstRun.table.

Definition dispatch (fn : str) (a : val) : val :=
  match lookup_fn fn tables with
  | Some f => f a
  | None => verr "unknown function"
  end.
