From CDD Require Import PyStr Val.
From CDD Require CstRun AdhocRun GenRun MergeRun DocSplitRun LoopsRun NameSanRun OpenApiRun JsonSchemaRun FuncSigRun NormRun ExecRun SqlPkRun DefaultDocRun RewriteRun SyncRun DoctransRun RestDocRun CmpAstRun ClassFmtRun ExtractDefaultRun FindAstRun SqlColRun FuncFmtRun StyleDetectRun QuoteRun InferRun SetValueRun GoogleLineRun NumpyLineRun GoogleHeadRun GoogleScanRun EntitiesRun NumpyScanRun GoogleEmitRun NumpyEmitRun ArgReadRun ReindentRun ForceDefaultsRun.

Definition tables : list (string * (val -> val)) := CstRun.table ++ AdhocRun.table ++ GenRun.table ++ MergeRun.table ++ DocSplitRun.table ++ LoopsRun.table ++ NameSanRun.table ++ OpenApiRun.table ++ JsonSchemaRun.table ++ FuncSigRun.table ++ NormRun.table ++ ExecRun.table ++ SqlPkRun.table ++ DefaultDocRun.table ++ RewriteRun.table ++ SyncRun.table ++ DoctransRun.table ++ DoctransRun.table2 ++ DoctransRun.table3 ++ DoctransRun.table4 ++ DoctransRun.table5 ++ RestDocRun.table ++ RestDocRun.table2 ++ CmpAstRun.table ++ ClassFmtRun.table ++ ExtractDefaultRun.table ++ FindAstRun.table ++ SqlColRun.table ++ FuncFmtRun.table ++ StyleDetectRun.table ++ QuoteRun.table ++ InferRun.table ++ SetValueRun.table ++ GoogleLineRun.table ++ NumpyLineRun.table ++ GoogleHeadRun.table ++ GoogleScanRun.table ++ EntitiesRun.table ++ NumpyScanRun.table ++ GoogleEmitRun.table ++ NumpyEmitRun.table ++ ArgReadRun.table ++ ReindentRun.table ++ ForceDefaultsRun.table.

Definition dispatch (fn : str) (a : val) : val :=
  match lookup_fn fn tables with
  | Some f => f a
  | None => verr "unknown function"
  end.
