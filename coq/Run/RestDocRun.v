From CDD Require Import PyStr Val RestDoc.
Definition entry_of (v : val) : pentry := {| pe_doc := as_opt_str (arg 0 v); pe_typ := as_opt_str (arg 1 v) |}.
Definition entry_val (e : pentry) : val := VL [vopt VS (pe_doc e); vopt VS (pe_typ e)].
Definition table : list (string * (val -> val)) :=
  [ ("rest_scan", fun v => VL (map (fun sg : seg => VL [VB (fst sg); VS (snd sg)]) (scan_rest (as_str v))));
    ("rest_parse", fun v =>
       let p := parse_rest (as_str v) in
       VL [VS (p_doc p); VL (map (fun ne : str * pentry => VL [VS (fst ne); entry_val (snd ne)]) (p_params p)); vopt entry_val (p_ret p)]);
    ("rest_emit", fun v =>   (* [emit_types, doc, [[name, [doc|N, typ|N]]...], ret|N] *)
       VS (emit_rest (as_bool (arg 0 v)) (as_str (arg 1 v))
             (map (fun a => (as_str (arg 0 a), entry_of (arg 1 a))) (as_list (arg 2 v)))
             (match arg 3 v with VN => None | r => Some (entry_of r) end))) ]%string.
Definition table2 : list (string * (val -> val)) :=
  [ ("rest_emit_indented", fun v =>   (* [indent_level, emit_types, doc, params, ret|N] *)
       VS (emit_rest_indented (Z.to_nat (as_Z (arg 0 v))) (as_bool (arg 1 v)) (as_str (arg 2 v))
             (map (fun a => (as_str (arg 0 a), entry_of (arg 1 a))) (as_list (arg 3 v)))
             (match arg 4 v with VN => None | r => Some (entry_of r) end))) ]%string.
