From CDD Require Import PyStr Val GoogleHead.
Definition table : list (string * (val -> val)) :=
  [ ("google_scan_doc", fun v => VS (fst (google_scan_head (as_str v))));
    ("google_ir_doc", fun v => VS (google_ir_doc (as_str v))) ]%string.
