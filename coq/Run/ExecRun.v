From CDD Require Import PyStr Val Norm Exec.
From CDD Require NormRun.
Definition table : list (string * (val -> val)) :=
  [ ("argparse_action", fun v =>
       let a := argparse_action (NormRun.ctyp_of (arg 0 v), NormRun.cdef_of (arg 1 v)) in
       VL [vopt VS (a_type a); vopt vstrs (a_choices a); NormRun.cdef_val (a_default a); VB (a_required a)]) ]%string.
