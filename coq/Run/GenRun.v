From CDD Require Import PyStr Val Gen.
Definition table : list (string * (val -> val)) :=
  [ ("gen_plan", fun v =>
       let pre := as_str (arg 0 v) in let suf := as_str (arg 1 v) in
       let names := map as_str (as_list (arg 2 v)) in
       VL [ vstrs (all_names pre suf names); vstrs (symbol_names pre suf names) ]);
    ("ensure_valid_identifier", fun v => VS (ensure_valid_identifier (as_str v))) ]%string.
