From CDD Require Import PyStr Val SqlCol.
(* typ: [opt, base] with base = "int"|"float"|"str"|"bool"|"dict"| [members]; default: N | "NONESTR"-tagged [VB true] | text *)
Definition base_ofv (v : val) : base :=
  match v with
  | VL ms => BLit (map as_str ms)
  | _ => let s := as_str v in
         if str_eqb s (s2l "int") then BInt else if str_eqb s (s2l "float") then BFloat else if str_eqb s (s2l "str") then BStr
         else if str_eqb s (s2l "bool") then BBool else BDict
  end.
Definition base_val (b : base) : val :=
  match b with BInt => VS (s2l "int") | BFloat => VS (s2l "float") | BStr => VS (s2l "str") | BBool => VS (s2l "bool") | BDict => VS (s2l "dict")
             | BLit ms => VL (map VS ms) end.
Definition dval_of (v : val) : option dval := match v with VN => None | VB _ => Some DNoneStr | x => Some (DVal (as_str x)) end.
Definition dval_val (d : option dval) : val := match d with None => VN | Some DNoneStr => VB true | Some (DVal t) => VS t end.
Definition ctype_val (c : ctype) : val :=
  match c with CInteger => VS (s2l "Integer") | CFloat => VS (s2l "Float") | CString => VS (s2l "String") | CBoolean => VS (s2l "Boolean")
             | CJSON => VS (s2l "JSON") | CEnum ms => VL (map VS ms) end.
Definition ctype_ofv (v : val) : ctype :=
  match v with
  | VL ms => CEnum (map as_str ms)
  | _ => let s := as_str v in
         if str_eqb s (s2l "Integer") then CInteger else if str_eqb s (s2l "Float") then CFloat else if str_eqb s (s2l "String") then CString
         else if str_eqb s (s2l "Boolean") then CBoolean else CJSON
  end.
Definition obool_val (o : option bool) : val := match o with Some b => VB b | None => VN end.
Definition obool_of (v : val) : option bool := match v with VB b => Some b | _ => None end.
Definition col_val (c : col) : val :=
  VL [ctype_val (c_type c); vopt VS (c_fk c); VB (c_pk c); vopt VS (c_comment c); dval_val (c_default c); obool_val (c_nullable c)].
Definition col_of (v : val) : col :=
  {| c_type := ctype_ofv (arg 0 v); c_fk := as_opt_str (arg 1 v); c_pk := as_bool (arg 2 v); c_comment := as_opt_str (arg 3 v);
     c_default := dval_of (arg 4 v); c_nullable := obool_of (arg 5 v) |}.
Definition param_of (v : val) : param :=
  {| p_typ := {| t_opt := as_bool (arg 0 (arg 0 v)); t_base := base_ofv (arg 1 (arg 0 v)) |}; p_doc := as_opt_str (arg 1 v); p_default := dval_of (arg 2 v) |}.
Definition param_val (p : param) : val :=
  VL [VL [VB (t_opt (p_typ p)); base_val (t_base (p_typ p))]; vopt VS (p_doc p); dval_val (p_default p)].
Definition table : list (string * (val -> val)) :=
  [ ("sql_emit_col", fun v => col_val (emit_col (param_of v)));
    ("sql_parse_col", fun v => param_val (parse_col (col_of v))) ]%string.
