From CDD Require Import PyStr Val SqlPk.
Definition table : list (string * (val -> val)) :=
  [ ("ensure_pk", fun v =>
       VL (map (fun kd => VL [VS (fst kd); VS (snd kd)])
               (ensure_pk (as_bool (arg 0 v)) (map (fun e => (as_str (arg 0 e), as_str (arg 1 e))) (as_list (arg 1 v)))))) ]%string.
