From CDD Require Import PyStr Val Reindent.
Definition table : list (string * (val -> val)) := [ ("reindent_block", fun v => VS (reindent_block_with_pass_body (as_str v))) ]%string.
