From CDD Require Import PyStr Val Cst.

Definition node_val (n : node) : val :=
  VL [ vstring (kind_name (n_kind n)); VZ (n_start n); VZ (n_end n); VS (n_value n);
       vopt VS (n_name n); vopt VB (n_double_q n); vopt VB (n_docstr n) ].

Definition table : list (string * (val -> val)) :=
  [ ("cst_scanner", fun v => vstrs (cst_scanner (as_str v)));
    ("cst_parse", fun v => VL (map node_val (cst_parse (as_str v))));
    ("balanced_parentheses", fun v => VB (balanced_parentheses (as_str v)));
    ("is_triple_quoted", fun v => VB (is_triple_quoted (as_str v)));
    ("strip", fun v => VS (strip (as_str v)));
    ("isspace", fun v => VB (isspace (as_str v)));
    ("words_of", fun v => vstrs (words_of (as_str v))) ]%string.
