From CDD Require Import PyStr Val StyleDetect.
Definition table : list (string * (val -> val)) :=
  [ ("derive_format", fun v => VS (match derive_format (as_str v) with Rest => s2l "rest" | Google => s2l "google" | Numpydoc => s2l "numpydoc" end)) ]%string.
