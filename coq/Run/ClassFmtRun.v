From CDD Require Import PyStr Val RestDoc ClassFmt.
Definition cparam_of (v : val) : cparam := {| cp_typ := as_opt_str (arg 0 v); cp_doc := as_opt_str (arg 1 v); cp_default := as_opt_str (arg 2 v) |}.
Definition cparam_val (c : cparam) : val := VL [vopt VS (cp_typ c); vopt VS (cp_doc c); vopt VS (cp_default c)].
Definition table : list (string * (val -> val)) :=
  [ ("class_docstring", fun v =>   (* [doc, [[name, [typ|N, doc|N, default|N]]...]] -> str *)
       VS (class_docstring (as_str (arg 0 v)) (map (fun a => (as_str (arg 0 a), cparam_of (arg 1 a))) (as_list (arg 1 v)))));
    ("class_body", fun v =>         (* [doc, [[name, [typ|N, doc|N, default|N]]...]] -> [[name, typ, value|N]...] *)
       VL (map (fun b => VL [VS (b_name b); VS (b_typ b); vopt VS (b_value b)])
               (k_body (emit_class (as_str (arg 0 v)) (map (fun a => (as_str (arg 0 a), cparam_of (arg 1 a))) (as_list (arg 1 v)))))));
    ("parse_class", fun v =>       (* [docstring|N, [[name, typ, value|N]...]] -> [doc, [[name, [typ, doc, default]]...]] *)
       let k := {| k_doc := as_opt_str (arg 0 v);
                   k_body := map (fun b => {| b_name := as_str (arg 0 b); b_typ := as_str (arg 1 b); b_value := as_opt_str (arg 2 b) |}) (as_list (arg 1 v)) |} in
       let r := parse_class k in
       VL [VS (fst r); VL (map (fun ne : str * cparam => VL [VS (fst ne); cparam_val (snd ne)]) (snd r))]) ]%string.
