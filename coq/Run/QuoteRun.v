From CDD Require Import PyStr Val Quote.
Definition table : list (string * (val -> val)) := [ ("unquote", fun v => VS (unquote (as_str v))) ]%string.
