From CDD Require Import PyStr Val JsonSchema.
(* typ: VL [VS "b"; VS name] | VL [VS "l"; VL members] | VL [VS "o"; typ] *)
Definition base_of (s : str) : base :=
  if str_eqb s (s2l "int") then BInt else if str_eqb s (s2l "float") then BFloat else if str_eqb s (s2l "str") then BStr
  else if str_eqb s (s2l "bool") then BBool else if str_eqb s (s2l "dict") then BDict else BList.
Fixpoint typ_of (fuel : nat) (v : val) : typ :=
  match fuel with
  | O => TBase BStr
  | S f =>
      let tag := as_str (arg 0 v) in
      if str_eqb tag (s2l "b") then TBase (base_of (as_str (arg 1 v)))
      else if str_eqb tag (s2l "l") then TLit (map as_str (as_list (arg 1 v)))
      else TOpt (typ_of f (arg 1 v))
  end.
(* default: VN = absent | VL [VS kind; payload] *)
Definition dflt_of (v : val) : option dflt :=
  match v with
  | VN => None
  | _ => let k := as_str (arg 0 v) in
         if str_eqb k (s2l "i") then Some (DInt (as_Z (arg 1 v)))
         else if str_eqb k (s2l "f") then Some (DFloat (as_str (arg 1 v)))
         else if str_eqb k (s2l "s") then Some (DStr (as_str (arg 1 v)))
         else if str_eqb k (s2l "b") then Some (DBool (as_bool (arg 1 v)))
         else Some DNone
  end.
Definition dflt_val (d : option dflt) : val :=
  match d with
  | None => VN
  | Some (DInt z) => VL [VS (s2l "i"); VZ z]
  | Some (DFloat r) => VL [VS (s2l "f"); VS r]
  | Some (DStr s) => VL [VS (s2l "s"); VS s]
  | Some (DBool b) => VL [VS (s2l "b"); VB b]
  | Some DNone => VL [VS (s2l "n"); VN]
  end.
Definition param_of (v : val) : param := mkParam (typ_of 5 (arg 0 v)) (as_opt_str (arg 1 v)) (dflt_of (arg 2 v)).
Definition prop_val (p : prop) : val := VL [VS (j_type p); vopt VS (j_description p); vopt VS (j_pattern p); dflt_val (j_default p)].
Definition table : list (string * (val -> val)) :=
  [ ("js_emit", fun v =>
       let ps := map (fun e => (as_str (arg 0 e), param_of (arg 1 e))) (as_list v) in
       VL [ VL (map (fun np => VL [VS (fst np); prop_val (snd np)]) (properties ps)); vstrs (required_names ps);
            VL (map (fun np => match parse_prop (fst np) (fst (emit_prop (snd np))) (required_names ps) with
                               | Some r => VL [VS (fst np); vopt VS (r_typ r); vopt VS (r_doc r); dflt_val (r_default r)]
                               | None => VN end) ps);
            vstrs (map (fun np => render_typ (p_typ (snd np))) ps) ]) ]%string.
