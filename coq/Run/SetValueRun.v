From CDD Require Import PyStr Val SetValue.
Definition table : list (string * (val -> val)) := [ ("set_value_text", fun v => VS (set_value_text (as_str v))) ]%string.
