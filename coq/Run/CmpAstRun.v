From CDD Require Import PyStr Val CmpAst.
(* ["n", cls, [fields]] | ["l", [items]] | ["t", [items]] | ["a", type, repr] *)
Fixpoint obj_of (fuel : nat) (v : val) : pyobj :=
  match fuel with
  | O => Atom (s2l "fuel") []
  | S f =>
    let tag := as_str (arg 0 v) in
    if str_eqb tag (s2l "n") then Node (as_str (arg 1 v)) (map (obj_of f) (as_list (arg 2 v)))
    else if str_eqb tag (s2l "l") then Lst (map (obj_of f) (as_list (arg 1 v)))
    else if str_eqb tag (s2l "t") then Tup (map (obj_of f) (as_list (arg 1 v)))
    else Atom (as_str (arg 1 v)) (as_str (arg 2 v))
  end.
Definition table : list (string * (val -> val)) :=
  [ ("cmp_ast", fun v => VB (cmp_ast (obj_of 200 (arg 0 v)) (obj_of 200 (arg 1 v)))) ]%string.
