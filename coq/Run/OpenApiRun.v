From CDD Require Import PyStr Val OpenApi.
(* json <-> val:  JS s = VS s;  JB b = VB b;  JO kv = VL [VS "o"; VL [VL [VS k; v] ...]];  JA l = VL [VS "a"; VL [...]] *)
Fixpoint json_of (fuel : nat) (v : val) : json :=
  match fuel with
  | O => JS []
  | S f =>
    match v with
    | VS s => JS s
    | VB b => JB b
    | VL [VS tag; VL items] =>
        if str_eqb tag (s2l "o") then JO (map (fun kv => (as_str (arg 0 kv), json_of f (arg 1 kv))) items)
        else JA (map (json_of f) items)
    | _ => JS []
    end
  end.
Fixpoint val_of (j : json) : val :=
  match j with
  | JS s => VS s
  | JB b => VB b
  | JO kv => VL [VS (s2l "o"); VL ((fix go (kv : list (str * json)) : list val :=
                                      match kv with [] => [] | (k, v) :: r => VL [VS k; val_of v] :: go r end) kv)]
  | JA l => VL [VS (s2l "a"); VL ((fix go (l : list json) : list val :=
                                      match l with [] => [] | x :: r => val_of x :: go r end) l)]
  end.
Definition obj_items (v : val) : list (str * json) :=
  match json_of 50 v with JO kv => kv | _ => [] end.
Definition entry_of (v : val) : entry :=
  mkEntry (as_str (arg 0 v)) (obj_items (arg 1 v)) (as_str (arg 2 v)) (as_str (arg 3 v)) (as_str (arg 4 v)).
Definition table : list (string * (val -> val)) :=
  [ ("openapi", fun v => val_of (openapi (obj_items (arg 0 v)) (map entry_of (as_list (arg 1 v)))));
    ("openapi_refs", fun v => vstrs (refs (openapi (obj_items (arg 0 v)) (map entry_of (as_list (arg 1 v))))));
    ("bulk_component_key", fun v => VS (bulk_component_key (as_str v))) ]%string.
