From CDD Require Import PyStr Val Infer.
Fixpoint inode_of (fuel : nat) (v : val) : inode :=
  match fuel with
  | O => IModule
  | S f =>
      let tag := as_str (arg 0 v) in
      if str_eqb tag (s2l "f") then IFunction (map as_str (as_list (arg 1 v)))
      else if str_eqb tag (s2l "c") then IClass (map as_opt_str (as_list (arg 1 v)))
      else if str_eqb tag (s2l "a") then IAssign (inode_of f (arg 1 v))
      else if str_eqb tag (s2l "k") then ICall (Z.to_nat (as_Z (arg 1 v))) (as_opt_str (arg 2 v))
      else IModule
  end.
Definition table : list (string * (val -> val)) :=
  [ ("infer", fun v => match infer (inode_of 8 v) with Parser n => VS n | NoAnswer => VS (s2l "<none>") | Raises => VS (s2l "<raises>") end) ]%string.
