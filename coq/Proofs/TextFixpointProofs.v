(* One round of the class format at text level is a fixpoint: emitting what was parsed back writes the same class. *)
From CDD Require Import PyStr DocSplit RestDoc ClassFmt RestDocProofs RestDocIndentProofs ClassFmtProofs.

Theorem class_text_fixpoint doc ps :
  clean doc = true -> one_line doc = true -> forallb cparam_ok ps = true -> NoDup (map fst ps) -> ps <> [] ->
  let r := parse_class (emit_class doc ps) in
  emit_class (fst r) (snd r) = emit_class doc ps /\ parse_class (emit_class (fst r) (snd r)) = r.
Proof.
  intros Hd H1 Hp Hn Hne. cbn zeta. rewrite (class_roundtrip doc ps Hd H1 Hp Hn Hne). cbn [fst snd].
  split; [reflexivity | apply class_roundtrip; assumption].
Qed.
