From Coq Require Import Lia.
From CDD Require Import PyStr OpenApi MergeProofs.
Open Scope N_scope.

(* refs of the rendering of a path item = its structural refs *)
Lemma refs_render_pitem p : refs (render_pitem p) = pitem_refs p.
Proof.
  destruct p as [n|n id g d]; [reflexivity|].
  destruct g, d; reflexivity.
Qed.

Lemma refs_request_body n : refs (request_body n) = [schema_ref n].
Proof. reflexivity. Qed.

(* a rendered mapping whose values are objects/arrays contributes the refs of its values *)
Lemma refs_obj_map {A} (f : A -> json) (l : list (str * A)) :
  (forall a, match f a with JS _ => False | _ => True end) ->
  refs (JO (map (fun kv => (fst kv, f (snd kv))) l)) = flat_map (fun kv => refs (f (snd kv))) l.
Proof.
  intro Hf. induction l as [|[k a] r IH]; [reflexivity|].
  cbn [map fst snd flat_map]. cbn [refs] in *. specialize (Hf a).
  destruct (f a) eqn:E; try contradiction; cbn [app]; rewrite <- E; f_equal; exact IH.
Qed.

Lemma in_dset {V} k (v : V) d x : In x (dset k v d) -> x = (k, v) \/ In x d \/ (exists w, x = (fst x, v) /\ In (fst x, w) d /\ str_eqb k (fst x) = true).
Proof.
  induction d as [|[a w] r IH]; cbn.
  - intros [<-|[]]. left. reflexivity.
  - destruct (str_eqb k a) eqn:E; cbn.
    + intros [<-|H]; [right; right; exists w; cbn; repeat split; [left; reflexivity | exact E] | right; left; right; exact H].
    + intros [<-|H]; [right; left; left; reflexivity|].
      destruct (IH H) as [H1|[H1|[w' [H1 [H2 H3]]]]]; [left; exact H1 | right; left; right; exact H1|].
      right. right. exists w'. repeat split; [exact H1 | right; exact H2 | exact H3].
Qed.

Lemma snd_in_dset {V} k (v : V) d x : In x (dset k v d) -> snd x = v \/ In x d.
Proof.
  intro H. destruct (in_dset k v d x H) as [->|[H1|[w [H1 _]]]]; [left; reflexivity | right; exact H1 | left; rewrite H1; reflexivity].
Qed.

Lemma keys_dset_mono {V} k (v : V) d a : In a (keys d) -> In a (keys (dset k v d)).
Proof.
  unfold keys. induction d as [|[b w] r IH]; cbn; [intros []|].
  destruct (str_eqb k b); cbn; intros [H|H]; auto.
Qed.
Lemma keys_dset_has {V} k (v : V) d : In k (keys (dset k v d)).
Proof.
  unfold keys. induction d as [|[b w] r IH]; cbn; [left; reflexivity|].
  destruct (str_eqb k b) eqn:E; cbn; [left; apply str_eqb_eq in E; congruence | right; exact IH].
Qed.

(* the invariant: every ref of every path item and every request body is defined *)
Definition Inv (st : state) : Prop :=
  (forall kp, In kp (st_paths st) -> forall r, In r (pitem_refs (snd kp)) -> defined st r) /\
  (forall kb, In kb (st_bodies st) -> defined st (schema_ref (snd kb))) /\
  In server_error (keys (st_schemas st)).

Lemma defined_mono st st' r :
  (forall a, In a (keys (st_schemas st)) -> In a (keys (st_schemas st'))) ->
  (forall a, In a (keys (st_bodies st)) -> In a (keys (st_bodies st'))) ->
  defined st r -> defined st' r.
Proof.
  intros Hs Hb [[n [-> H]]|[n [-> H]]]; [left|right]; exists n; split; auto.
Qed.

Lemma step_inv st e : Inv st -> Inv (step st e).
Proof.
  intros [Hp [Hb Hse]].
  assert (Ms : forall a, In a (keys (st_schemas st)) -> In a (keys (st_schemas (step st e)))).
  { intros a Ha. unfold step. cbn [st_schemas]. apply keys_dset_mono. exact Ha. }
  assert (Mb : forall a, In a (keys (st_bodies st)) -> In a (keys (st_bodies (step st e)))).
  { intros a Ha. unfold step. cbn [st_bodies]. destruct (has "C" (e_crud e)); [apply keys_dset_mono|]; exact Ha. }
  assert (Dn : In (e_name e) (keys (st_schemas (step st e)))).
  { unfold step. cbn [st_schemas]. apply keys_dset_has. }
  assert (Dse : In server_error (keys (st_schemas (step st e)))) by (apply Ms; exact Hse).
  split; [|split; [|exact Dse]].
  - (* paths *)
    intros kp Hin r Hr.
    assert (Old : forall kp0, In kp0 (st_paths st) -> forall r0, In r0 (pitem_refs (snd kp0)) -> defined (step st e) r0).
    { intros kp0 H0 r0 Hr0. eapply defined_mono; [exact Ms | exact Mb | eapply Hp; eauto]. }
    assert (NewC : has "C" (e_crud e) = true -> forall r0, In r0 (pitem_refs (PCollection (e_name e))) -> defined (step st e) r0).
    { intros Hc r0 [<-|[<-|[<-|[]]]].
      - right. exists (e_name e). split; [reflexivity|]. unfold step. cbn [st_bodies]. rewrite Hc. apply keys_dset_has.
      - left. exists (e_name e). split; [reflexivity | exact Dn].
      - left. exists server_error. split; [reflexivity | exact Dse]. }
    assert (NewI : forall g d r0, In r0 (pitem_refs (PItem (e_name e) (e_id e) g d)) -> defined (step st e) r0).
    { intros g d r0 H0. destruct g; cbn in H0; [|contradiction]. destruct H0 as [<-|[<-|[]]].
      - left. exists (e_name e). split; [reflexivity | exact Dn].
      - left. exists server_error. split; [reflexivity | exact Dse]. }
    unfold step in Hin. cbn [st_paths] in Hin.
    destruct (crud_valid (e_crud e)).
    + apply snd_in_dset in Hin as [Hs|Hin].
      * rewrite Hs in Hr. eapply NewI; eauto.
      * destruct (has "C" (e_crud e)) eqn:Hc.
        { apply snd_in_dset in Hin as [Hs|Hin]; [rewrite Hs in Hr; apply NewC; auto | eapply Old; eauto]. }
        { eapply Old; eauto. }
    + destruct (has "C" (e_crud e)) eqn:Hc.
      * apply snd_in_dset in Hin as [Hs|Hin]; [rewrite Hs in Hr; apply NewC; auto | eapply Old; eauto].
      * eapply Old; eauto.
  - (* bodies *)
    intros kb Hin. unfold step in Hin. cbn [st_bodies] in Hin.
    destruct (has "C" (e_crud e)).
    + apply snd_in_dset in Hin as [Hs|Hin].
      * rewrite Hs. left. exists (e_name e). split; [reflexivity | exact Dn].
      * eapply defined_mono; [exact Ms | exact Mb | apply Hb; exact Hin].
    + eapply defined_mono; [exact Ms | exact Mb | apply Hb; exact Hin].
Qed.

Lemma run_inv ses entries : Inv (run ses entries).
Proof.
  unfold run. assert (H0 : Inv (init ses)).
  { repeat split; cbn; try (intros ? []); left; reflexivity. }
  revert H0. generalize (init ses). induction entries as [|e r IH]; intros st H; cbn [fold_left]; [exact H|].
  apply IH. apply step_inv. exact H.
Qed.

(* refs of the whole rendered document, given that the model schemas carry no $ref of their own *)
Definition schemas_ref_free (st : state) : Prop := forall ks, In ks (st_schemas st) -> refs (JO (snd ks)) = [].

Lemma flat_map_nil {A B} (f : A -> list B) l : (forall x, In x l -> f x = []) -> flat_map f l = [].
Proof. induction l as [|x r IH]; cbn; [reflexivity|]. intro H. rewrite H by (left; reflexivity). apply IH. intros; apply H; right; assumption. Qed.

Lemma refs_render st : schemas_ref_free st ->
  refs (render st) = flat_map (fun kb => [schema_ref (snd kb)]) (st_bodies st)
                     ++ flat_map (fun kp => pitem_refs (snd kp)) (st_paths st).
Proof.
  intro Hfree. unfold render.
  set (B := map (fun kb => (fst kb, request_body (snd kb))) (st_bodies st)).
  set (S := map (fun ks => (fst ks, JO (snd ks))) (st_schemas st)).
  set (P := map (fun kp => (fst kp, render_pitem (snd kp))) (st_paths st)).
  assert (HB : refs (JO B) = flat_map (fun kb => [schema_ref (snd kb)]) (st_bodies st)).
  { unfold B. rewrite (refs_obj_map request_body); [|intro; exact I]. reflexivity. }
  assert (HS : refs (JO S) = []).
  { unfold S. rewrite (refs_obj_map (fun m => JO m)); [|intro; exact I]. apply flat_map_nil. intros ks Hin. apply Hfree. exact Hin. }
  assert (HP : refs (JO P) = flat_map (fun kp => pitem_refs (snd kp)) (st_paths st)).
  { unfold P. rewrite (refs_obj_map render_pitem); [|intros [n|n i g d]; exact I].
    apply flat_map_ext. intro a. apply refs_render_pitem. }
  change (refs (JO [(L "openapi", JS (L "3.0.0"));
                    (L "info", JO [(L "version", JS (L "0.0.1")); (L "title", JS (L "REST API"))]);
                    (L "components", JO [(L "requestBodies", JO B); (L "schemas", JO S)]);
                    (L "paths", JO P)]))
    with ([] ++ [] ++ ([] ++ [] ++ []) ++ (([] ++ refs (JO B) ++ ([] ++ refs (JO S) ++ [])) ++ ([] ++ refs (JO P) ++ []))).
  rewrite HB, HS, HP. cbn [app]. rewrite !app_nil_r. reflexivity.
Qed.

Theorem openapi_closed ses entries :
  schemas_ref_free (run ses entries) ->
  forall r, In r (refs (openapi ses entries)) -> defined (run ses entries) r.
Proof.
  intros Hfree r Hr. unfold openapi in Hr. rewrite (refs_render _ Hfree) in Hr.
  destruct (run_inv ses entries) as [Hp [Hb _]].
  apply in_app_or in Hr as [Hr|Hr]; apply in_flat_map in Hr as [x [Hin Hx]].
  - destruct Hx as [<-|[]]. apply Hb. exact Hin.
  - eapply Hp; eauto.
Qed.

(* ---- exactly the requested operations, for one model ---------------------------------------- *)
Definition ops_of (p : pitem) : list string :=
  match p with
  | PCollection _ => ["post"%string]
  | PItem _ _ g d => (if g then ["get"%string] else []) ++ (if d then ["delete"%string] else [])
  end.

Theorem single_entry_paths ses e :
  crud_valid (e_crud e) = true ->
  st_paths (run ses [e]) =
    (if has "C" (e_crud e) then [(e_route e, PCollection (e_name e))] else [])
    ++ [(item_route (e_route e) (e_id e), PItem (e_name e) (e_id e) (has "R" (e_crud e)) (has "D" (e_crud e)))]
  \/ (* only when the item route equals the collection route, impossible: the item route is strictly longer *)
     item_route (e_route e) (e_id e) = e_route e.
Proof.
  intro Hv. unfold run, init. cbn [fold_left]. unfold step. cbn [st_paths]. rewrite Hv.
  destruct (has "C" (e_crud e)); cbn [dset app]; [|left; reflexivity].
  destruct (str_eqb (item_route (e_route e) (e_id e)) (e_route e)) eqn:E.
  - right. apply str_eqb_eq. exact E.
  - left. reflexivity.
Qed.

Lemma item_route_longer route id : item_route route id <> route.
Proof.
  unfold item_route. intro H. apply (f_equal (@length char)) in H.
  rewrite !app_length in H. cbn [length L s2l] in H. lia.
Qed.

Theorem crud_exact ses e :
  crud_valid (e_crud e) = true ->
  map (fun kp => (fst kp, ops_of (snd kp))) (st_paths (run ses [e])) =
    (if has "C" (e_crud e) then [(e_route e, ["post"%string])] else [])
    ++ [(item_route (e_route e) (e_id e),
         (if has "R" (e_crud e) then ["get"%string] else []) ++ (if has "D" (e_crud e) then ["delete"%string] else []))].
Proof.
  intro Hv. destruct (single_entry_paths ses e Hv) as [H|H]; [|exfalso; exact (item_route_longer _ _ H)].
  rewrite H. destruct (has "C" (e_crud e)); reflexivity.
Qed.

(* the item path declares its template parameter *)
Theorem path_parameter_declared n id g d :
  exists rest, render_pitem (PItem n id g d) = JO ((L "parameters", JA [path_parameter n id]) :: rest)
  /\ exists rest2, path_parameter n id = JO ((L "name", JS id) :: (L "in", JS (L "path")) :: rest2).
Proof. eexists. split; [reflexivity|]. eexists. reflexivity. Qed.
