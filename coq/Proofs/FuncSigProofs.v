From Coq Require Import List Arith Lia.
Import ListNotations.
From CDD Require Import FuncSig.

Section Sig.
  Variable name : Type.
  Variable D : Type.
  Variable None_ : D.

  Lemma combine_app {A B} (l1 l2 : list A) (r1 r2 : list B) :
    length l1 = length r1 -> combine (l1 ++ l2) (r1 ++ r2) = combine l1 r1 ++ combine l2 r2.
  Proof.
    revert r1; induction l1 as [|a l1 IH]; intros [|b r1] H; cbn in *; try discriminate; [reflexivity|].
    f_equal. apply IH. lia.
  Qed.

  (* the padding of function.parse IS the tail alignment of CPython -- for every signature *)
  Theorem defaults_alignment args defaults :
    length defaults <= length args ->
    parse_pairs name D (args, defaults) = python_pairs name D (args, defaults).
  Proof.
    intro H. unfold parse_pairs, python_pairs.
    set (k := length args - length defaults).
    rewrite <- (firstn_skipn k args) at 1.
    apply combine_app. rewrite firstn_length, repeat_length. lia.
  Qed.

  (* emit -> parse: names and order kept; a present default is kept as is; an absent one becomes None_ *)
  Theorem function_roundtrip ps :
    parse_pairs name D (emit_sig name D None_ ps)
    = map (fun p => (fst p, Some (match snd p with Some d => d | None => None_ end))) ps.
  Proof.
    unfold parse_pairs, emit_sig. rewrite !map_length, Nat.sub_diag. cbn [repeat app].
    induction ps as [|[n d] r IH]; cbn; [reflexivity|]. f_equal. exact IH.
  Qed.

  (* a default never moves to another parameter: position i of the result carries the default of parameter i *)
  Corollary function_roundtrip_nth ps i n d :
    nth_error ps i = Some (n, Some d) ->
    nth_error (parse_pairs name D (emit_sig name D None_ ps)) i = Some (n, Some d).
  Proof. intro H. rewrite function_roundtrip. rewrite nth_error_map, H. reflexivity. Qed.

  Theorem class_roundtrip ps : parse_class name D (emit_class name D ps) = ps.
  Proof. reflexivity. Qed.
End Sig.
