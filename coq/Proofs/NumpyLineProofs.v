(* Model/NumpyLine.v: a typed parameter as the NumPy emitter writes it is read back by the NumPy unit reader; without its type line the
   entry loses its NAME (the description line is read as the name). *)
From Coq Require Import Lia.
From CDD Require Import PyStr RestDocProofs GoogleLine GoogleLineProofs NumpyLine.
Open Scope N_scope.

Theorem numpy_unit_roundtrip (n t : str) (d : option str) :
  head_ok n = true -> head_ok (rev n) = true -> lacks GCOLON n = true -> head_ok t = true ->
  match d with Some x => head_ok x = true | None => True end ->
  parse_numpy_unit (emit_numpy_param true true n (Some t) d)
  = NEntry n (Some t) (Some (match d with Some x => x | None => [] end)).
Proof.
  intros N1 N2 NC T1 Hd. unfold emit_numpy_param, parse_numpy_unit. cbn [app].
  match goal with |- context [break_at GCOLON ?X] => replace X with ((n ++ [SP]) ++ GCOLON :: (SP :: t)) by (rewrite <- !app_assoc; reflexivity) end.
  rewrite break_at_app by (rewrite lacks_app, NC; reflexivity).
  destruct (n ++ [SP]) eqn:E; [destruct n; discriminate|]. rewrite <- E. clear E.
  rewrite (strip_name n N1 N2).
  cbn [lstrip]. replace (is_space SP) with true by reflexivity. rewrite (lstrip_head_ok t T1).
  destruct d as [x|]; cbn [map join app].
  - rewrite (lstrip_blank_app TAB4) by reflexivity. rewrite (lstrip_head_ok x Hd). reflexivity.
  - reflexivity.
Qed.

(* with types omitted only the indented description is written: it is read as a NAME (the recorded "names missing" finding of the
   NumPy style without types, as a fact about the faithful model) *)
Example numpy_without_types_refuted :
  emit_numpy_param false true (s2l "size") (Some (s2l "int")) (Some (s2l "how big")) = [s2l "    how big"]
  /\ parse_numpy_unit [s2l "    how big"] = NEntry (s2l "how big") None None.
Proof. split; vm_compute; reflexivity. Qed.

Example numpy_example :
  parse_numpy_unit (emit_numpy_param true true (s2l "size") (Some (s2l "Optional[int]")) (Some (s2l "how big")))
  = NEntry (s2l "size") (Some (s2l "Optional[int]")) (Some (s2l "how big")).
Proof. vm_compute. reflexivity. Qed.

(* the whole section: typed entries whose type does not end in a colon *)
Definition nentry := (str * str * option str)%type.
Definition nentry_ok (e : nentry) : bool :=
  let '(n, t, d) := e in
  head_ok n && head_ok (rev n) && lacks GCOLON n && head_ok t
  && match last_opt t with Some c => negb (c =? GCOLON) | None => false end
  && match d with Some x => head_ok x | None => true end.
Definition emit_nentry (e : nentry) : list str := let '(n, t, d) := e in emit_numpy_param true true n (Some t) d.
Definition read_nentry (e : nentry) : (str * option str * option str) :=
  let '(n, t, d) := e in (n, Some t, Some (match d with Some x => x | None => [] end)).

Lemma last_opt_snoc {A} (r : list A) c : last_opt (r ++ [c]) = Some c.
Proof. induction r as [|y r IH]; [reflexivity|]. cbn [app last_opt]. destruct (r ++ [c]) eqn:K; [destruct r; discriminate | exact IH]. Qed.

Lemma typed_unit_not_afterward (n t : str) (d : option str) : match last_opt t with Some c => negb (c =? GCOLON) | None => false end = true ->
  unit_afterward (emit_numpy_param true true n (Some t) d) = false.
Proof.
  intro H. unfold emit_numpy_param, unit_afterward. cbn [app]. unfold is_afterward.
  destruct t as [|t0 tr]; [discriminate|]. destruct (exists_last (l := t0 :: tr)) as [r [c E]]; [discriminate|].
  rewrite E in *. rewrite last_opt_snoc in H. apply negb_true_iff in H.
  match goal with |- context [endswith _ ?X] =>
    replace X with ((n ++ SP :: GCOLON :: SP :: r) ++ [c]) by (rewrite <- app_assoc; reflexivity) end.
  rewrite endswith_last, N.eqb_sym, H. reflexivity.
Qed.

Theorem numpy_params_roundtrip es : forallb nentry_ok es = true -> numpy_params (map emit_nentry es) = map read_nentry es.
Proof.
  unfold numpy_params. induction es as [|[[n t] d] es IH]; cbn [map forallb take_until flat_map]; intro H; [reflexivity|].
  apply andb_prop in H. destruct H as [He Hr]. unfold nentry_ok in He.
  apply andb_prop in He. destruct He as [He Hd]. apply andb_prop in He. destruct He as [He Hl]. apply andb_prop in He. destruct He as [He T1].
  apply andb_prop in He. destruct He as [He NC]. apply andb_prop in He. destruct He as [N1 N2].
  change (emit_nentry (n, t, d)) with (emit_numpy_param true true n (Some t) d). rewrite (typed_unit_not_afterward n t d Hl). cbn [flat_map].
  rewrite (numpy_unit_roundtrip n t d N1 N2 NC T1) by (destruct d; [exact Hd | exact I]).
  cbn [app read_nentry]. f_equal. apply IH. exact Hr.
Qed.

Example numpy_params_example :
  numpy_params [[s2l "size : int"; s2l "    how big"]; [s2l "label : str"]; [s2l "Notes:"; s2l "    free text"]; [s2l "late : int"]]
  = [(s2l "size", Some (s2l "int"), Some (s2l "how big")); (s2l "label", Some (s2l "str"), Some [])].
Proof. vm_compute. reflexivity. Qed.
