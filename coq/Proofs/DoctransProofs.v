From Coq Require Import Lia ZArith.
From CDD Require Import PyStr DocSplit Doctrans.
Open Scope N_scope.

Lemma set_nth_length {A} i (v : A) l : length (set_nth i v l) = length l.
Proof. revert i; induction l as [|x r IH]; intros [|k]; cbn; auto. Qed.
Lemma set_nth_other {A} i j (v : A) l : i <> j -> nth_error (set_nth i v l) j = nth_error l j.
Proof.
  revert i j; induction l as [|x r IH]; intros [|i] [|j] H; cbn; auto; try congruence.
Qed.

(* nodes whose index is not touched keep their text, byte for byte, and the list keeps its length *)
Theorem apply_repl_untouched repl : forall nodes j,
  ~ In j (map fst repl) -> nth_error (apply_repl repl nodes) j = nth_error nodes j.
Proof.
  unfold apply_repl. induction repl as [|[i v] r IH]; intros nodes j H; cbn [fold_left]; [reflexivity|].
  rewrite IH; [|intro Hin; apply H; right; exact Hin].
  apply set_nth_other. intro E. apply H. left. cbn. exact E.
Qed.
Theorem apply_repl_length repl : forall nodes, length (apply_repl repl nodes) = length nodes.
Proof.
  unfold apply_repl. induction repl as [|[i v] r IH]; intro nodes; cbn [fold_left]; [reflexivity|].
  rewrite IH. apply set_nth_length.
Qed.

(* the re-print keeps everything up to the opening parenthesis and from the closing one on (decorators, name,
   return annotation, colon, trailing text) ... *)
Theorem reprint_keeps_prefix_and_suffix value new_args :
  exists pre suf mid, header_reprint value new_args = pre ++ mid ++ suf /\
                      mid = join (s2l ", ") (map render_arg new_args).
Proof. unfold header_reprint. do 3 eexists. split; reflexivity. Qed.

(* a raising package call can never leave a truncated file when the checker accepts the program order *)
Lemma atomic_sound_aux : forall items seen i,
  atomic seen items = true -> seen = false ->
  (exists c, nth_error items i = Some (ECall c)) -> truncated_when_raising_at items i = false.
Proof.
  induction items as [|e r IH]; intros seen i Ha Hs [c Hc]; [destruct i; discriminate|].
  subst seen. destruct i as [|i]; [reflexivity|]. cbn in Hc.
  unfold truncated_when_raising_at. cbn [firstn existsb].
  destruct e as [d|  |d]; cbn [atomic] in Ha.
  - cbn in Ha. cbn. apply (IH false i Ha eq_refl). exists c. exact Hc.
  - (* after an open-for-write no package call may follow: contradiction *)
    exfalso. clear IH. revert i Hc. induction r as [|e2 r2 IH2]; intros i Hc; [destruct i; discriminate|].
    destruct i as [|i]; cbn in Hc.
    + injection Hc as ->. cbn in Ha. discriminate.
    + destruct e2; cbn in Ha; try discriminate; eapply IH2; eauto.
  - cbn. apply (IH false i Ha eq_refl). exists c. exact Hc.
Qed.
Theorem atomic_sound items i c :
  atomic false items = true -> nth_error items i = Some (ECall c) -> truncated_when_raising_at items i = false.
Proof. intros Ha Hc. eapply atomic_sound_aux; eauto. Qed.

(* the written text around one replaced node: all bytes before and after it are the original ones *)
Theorem set_nth_concat {A} : forall i (v : list A) l, (i < length l)%nat ->
  concat (set_nth i v l) = concat (firstn i l) ++ v ++ concat (skipn (S i) l).
Proof.
  induction i as [|i IH]; intros v [|x r] H; cbn in H; try lia; cbn [set_nth firstn skipn concat].
  - reflexivity.
  - rewrite IH by lia. rewrite app_assoc. reflexivity.
Qed.

(* ---- return-type edits of a def header ---- *)
Lemma lstrip_suffix : forall y, exists t, y = t ++ lstrip y.
Proof.
  induction y as [|c r [t IH]]; [exists []; reflexivity|]. cbn [lstrip]. destruct (is_space c).
  - exists (c :: t). cbn. rewrite <- IH. reflexivity.
  - exists []. reflexivity.
Qed.
Lemma rstrip_prefix x : exists t, x = rstrip x ++ t.
Proof.
  unfold rstrip. destruct (lstrip_suffix (rev x)) as [t E]. exists (rev t).
  rewrite <- rev_app_distr, <- E, rev_involutive. reflexivity.
Qed.
Lemma slice_to_prefix s b : exists t, s = slice_to s b ++ t.
Proof.
  unfold slice_to, slice. replace (norm_idx (slen s) 0) with 0%Z by (unfold norm_idx, slen; change (0 <? 0)%Z with false; cbv iota; symmetry; apply Z.min_l; lia).
  cbn [Z.to_nat skipn]. eexists. symmetry. apply firstn_skipn.
Qed.

(* removing the return annotation keeps a prefix of the header, puts one colon after it and drops the rest *)
Theorem remove_return_typ_shape s : exists p t, remove_return_typ s = p ++ s2l ":" /\ s = p ++ t.
Proof.
  unfold remove_return_typ. destruct (slice_to_prefix s (rfind (s2l "->") s)) as [t1 E1].
  destruct (rstrip_prefix (slice_to s (rfind (s2l "->") s))) as [t2 E2].
  exists (rstrip (slice_to s (rfind (s2l "->") s))), (t2 ++ t1). split; [reflexivity|].
  rewrite app_assoc, <- E2. exact E1.
Qed.

Lemma rfind_last_colon h : rfind (s2l ":") (h ++ s2l ":") = slen h.
Proof.
  unfold rfind. rewrite rev_app_distr. cbn [s2l rev app find find_from startswith]. rewrite N.eqb_refl. cbn [andb].
  unfold slen. rewrite app_length. cbn [length]. lia.
Qed.

Lemma slice_from_len (pre rest : str) : slice_from (pre ++ rest) (Z.of_nat (length pre)) = rest.
Proof.
  unfold slice_from, norm_idx, slen. rewrite app_length.
  destruct (Z.ltb_spec (Z.of_nat (length pre)) 0); [lia|].
  rewrite Z.min_l by lia. rewrite Nat2Z.id, skipn_app, skipn_all, Nat.sub_diag. reflexivity.
Qed.
Lemma slice_to_len (pre rest : str) : slice_to (pre ++ rest) (Z.of_nat (length pre)) = pre.
Proof.
  unfold slice_to, slice, norm_idx, slen. rewrite app_length. change (0 <? 0)%Z with false. cbv iota.
  destruct (Z.ltb_spec (Z.of_nat (length pre)) 0); [lia|].
  rewrite !Z.min_l by lia. rewrite Z.sub_0_r, Nat2Z.id. cbn [Z.to_nat skipn].
  rewrite firstn_app, firstn_all, Nat.sub_diag. cbn. apply app_nil_r.
Qed.

Lemma slice_from_end (h : str) : slice_from (h ++ s2l ":") (Z.of_nat (length h) + 1) = [].
Proof.
  replace (Z.of_nat (length h) + 1)%Z with (Z.of_nat (length (h ++ s2l ":"))) by (rewrite app_length; cbn [length s2l]; lia).
  rewrite <- (app_nil_r (h ++ s2l ":")) at 1. apply slice_from_len.
Qed.
Lemma rpartition_last h : rpartition_colon (h ++ s2l ":") = (h, s2l ":", []).
Proof.
  unfold rpartition_colon. rewrite rfind_last_colon. unfold slen.
  destruct (Z.of_nat (length h)) eqn:E; try lia; rewrite <- E, (slice_to_len h (s2l ":")), slice_from_end; reflexivity.
Qed.

(* adding one: everything before the final colon, the arrow, the type, the colon *)
Theorem add_return_typ_spec h rt : add_return_typ (h ++ s2l ":") rt = h ++ s2l " -> " ++ rt ++ s2l ":".
Proof. unfold add_return_typ. rewrite rpartition_last, app_nil_r. reflexivity. Qed.

(* ---- find_cst_at_ast ---- *)
Lemma find_cst_from_spec : forall l i lineno kind name k,
  find_cst_from i l lineno kind name = Some k ->
  exists j c, k = (i + j)%nat /\ nth_error l j = Some c /\ cst_matches lineno kind name c = true
              /\ forall j' c', (j' < j)%nat -> nth_error l j' = Some c' -> cst_matches lineno kind name c' = false.
Proof.
  induction l as [|c r IH]; intros i lineno kind name k H; [discriminate|]. cbn [find_cst_from] in H.
  destruct (cst_matches lineno kind name c) eqn:E.
  - injection H as <-. exists O, c. repeat split; [lia | exact E |]. intros j' c' Hj. lia.
  - destruct (IH (S i) lineno kind name k H) as [j [c2 [Hk [Hn [Hm Hf]]]]].
    exists (S j), c2. repeat split; [lia | exact Hn | exact Hm |].
    intros [|j'] c' Hj Hn'; cbn in Hn'; [injection Hn' as <-; exact E | apply (Hf j' c'); [lia | exact Hn']].
Qed.

Theorem find_cst_first_match l lineno kind name k :
  find_cst l lineno kind name = Some k ->
  exists c, nth_error l k = Some c /\ cst_matches lineno kind name c = true
            /\ forall j' c', (j' < k)%nat -> nth_error l j' = Some c' -> cst_matches lineno kind name c' = false.
Proof. intro H. destruct (find_cst_from_spec l O lineno kind name k H) as [j [c [-> R]]]. exists c. exact R. Qed.

Theorem find_cst_none l lineno kind name :
  find_cst l lineno kind name = None -> forall c, In c l -> cst_matches lineno kind name c = false.
Proof.
  unfold find_cst. generalize O. induction l as [|c r IH]; intros i H x Hx; [destruct Hx|]. cbn [find_cst_from] in H.
  destruct (cst_matches lineno kind name c) eqn:E; [discriminate|]. destruct Hx as [<-|Hx]; [exact E | exact (IH (S i) H x Hx)].
Qed.

(* ---- the docstring edit: whatever is inserted, deleted or replaced, the header node and everything before it, and everything
   from the second node after it on, are written back unchanged ---- *)
Theorem apply_edit_outside e i (l : list str) :
  exists mid k, (S i <= k <= S (S i))%nat /\
    concat (apply_edit e i l) = concat (firstn (S i) l) ++ mid ++ concat (skipn k l).
Proof.
  destruct e as [|v| |v]; cbn [apply_edit].
  - exists [], (S i). split; [lia|]. cbn [app]. rewrite <- (firstn_skipn (S i) l) at 1. apply concat_app.
  - exists v, (S i). split; [lia|]. rewrite concat_app. reflexivity.
  - exists [], (S (S i)). split; [lia|]. rewrite concat_app. reflexivity.
  - exists v, (S (S i)). split; [lia|]. rewrite concat_app. reflexivity.
Qed.

(* the new docstring node is a triple-quoted string on its own lines, indented like the node it is put in front of *)
Theorem formatted_doc_str_shape after doc :
  exists space body, formatted_doc_str after doc = [NL] ++ space ++ TQ ++ body ++ [NL] ++ space ++ TQ
                     /\ forallb is_space space = true.
Proof.
  unfold formatted_doc_str. eexists. eexists. split; [reflexivity|].
  generalize (lstrip_chars [NL] after). intro s0. induction s0 as [|c r IH]; [reflexivity|].
  cbn [count_leading_space]. destruct (is_space c) eqn:E; [|reflexivity]. cbn [firstn forallb]. rewrite E. exact IH.
Qed.
