From Coq Require Import Lia.
From CDD Require Import PyStr Doctrans.
Open Scope N_scope.

Lemma set_nth_length {A} i (v : A) l : length (set_nth i v l) = length l.
Proof. revert i; induction l as [|x r IH]; intros [|k]; cbn; auto. Qed.
Lemma set_nth_other {A} i j (v : A) l : i <> j -> nth_error (set_nth i v l) j = nth_error l j.
Proof.
  revert i j; induction l as [|x r IH]; intros [|i] [|j] H; cbn; auto; try congruence.
Qed.

(* nodes whose index is not touched keep their text, byte for byte, and the list keeps its length *)
Theorem apply_repl_untouched repl : forall nodes j,
  ~ In j (map fst repl) -> nth_error (apply_repl repl nodes) j = nth_error nodes j.
Proof.
  unfold apply_repl. induction repl as [|[i v] r IH]; intros nodes j H; cbn [fold_left]; [reflexivity|].
  rewrite IH; [|intro Hin; apply H; right; exact Hin].
  apply set_nth_other. intro E. apply H. left. cbn. exact E.
Qed.
Theorem apply_repl_length repl : forall nodes, length (apply_repl repl nodes) = length nodes.
Proof.
  unfold apply_repl. induction repl as [|[i v] r IH]; intro nodes; cbn [fold_left]; [reflexivity|].
  rewrite IH. apply set_nth_length.
Qed.

(* the re-print keeps everything up to the opening parenthesis and from the closing one on (decorators, name,
   return annotation, colon, trailing text) ... *)
Theorem reprint_keeps_prefix_and_suffix value new_args :
  exists pre suf mid, header_reprint value new_args = pre ++ mid ++ suf /\
                      mid = join (s2l ", ") (map render_arg new_args).
Proof. unfold header_reprint. do 3 eexists. split; reflexivity. Qed.

(* a raising package call can never leave a truncated file when the checker accepts the program order *)
Lemma atomic_sound_aux : forall items seen i,
  atomic seen items = true -> seen = false ->
  (exists c, nth_error items i = Some (ECall c)) -> truncated_when_raising_at items i = false.
Proof.
  induction items as [|e r IH]; intros seen i Ha Hs [c Hc]; [destruct i; discriminate|].
  subst seen. destruct i as [|i]; [reflexivity|]. cbn in Hc.
  unfold truncated_when_raising_at. cbn [firstn existsb].
  destruct e as [d|  |d]; cbn [atomic] in Ha.
  - cbn in Ha. cbn. apply (IH false i Ha eq_refl). exists c. exact Hc.
  - (* after an open-for-write no package call may follow: contradiction *)
    exfalso. clear IH. revert i Hc. induction r as [|e2 r2 IH2]; intros i Hc; [destruct i; discriminate|].
    destruct i as [|i]; cbn in Hc.
    + injection Hc as ->. cbn in Ha. discriminate.
    + destruct e2; cbn in Ha; try discriminate; eapply IH2; eauto.
  - cbn. apply (IH false i Ha eq_refl). exists c. exact Hc.
Qed.
Theorem atomic_sound items i c :
  atomic false items = true -> nth_error items i = Some (ECall c) -> truncated_when_raising_at items i = false.
Proof. intros Ha Hc. eapply atomic_sound_aux; eauto. Qed.

(* the written text around one replaced node: all bytes before and after it are the original ones *)
Theorem set_nth_concat {A} : forall i (v : list A) l, (i < length l)%nat ->
  concat (set_nth i v l) = concat (firstn i l) ++ v ++ concat (skipn (S i) l).
Proof.
  induction i as [|i IH]; intros v [|x r] H; cbn in H; try lia; cbn [set_nth firstn skipn concat].
  - reflexivity.
  - rewrite IH by lia. rewrite app_assoc. reflexivity.
Qed.
