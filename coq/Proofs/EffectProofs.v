(* Soundness of the effect checker: if the closure check passes on a set S of contexts, every
   execution started in a member of S produces only harmless events -- for EVERY program of the
   skeleton language (proved once, by induction on the execution derivation). *)
From Coq Require Import List Bool Arith Lia.
Import ListNotations.
From CDD Require Import EffectSem.

Lemma ctx_eqb_eq a b : ctx_eqb a b = true -> a = b.
Proof.
  destruct a as [f d], b as [g e]; unfold ctx_eqb; cbn.
  intro H. apply andb_true_iff in H as [H1 H2].
  apply Nat.eqb_eq in H1. apply Bool.eqb_prop in H2. subst. reflexivity.
Qed.

Lemma mem_ctx_In c S : mem_ctx c S = true -> In c S.
Proof.
  unfold mem_ctx. intro H. apply existsb_exists in H as [x [Hin Heq]].
  apply ctx_eqb_eq in Heq. subst. exact Hin.
Qed.

Lemma harmless_app bad t1 t2 : harmless bad t1 -> harmless bad t2 -> harmless bad (t1 ++ t2).
Proof. unfold harmless. intros. apply Forall_app. split; assumption. Qed.

Section Sound.
  Variable bad : ekind -> nat -> bool.
  Variable p : prog.
  Variable S : list ctx.
  Hypothesis Hclosed : closed_ok bad p S = true.

  Lemma closed_member c : In c S -> local_ok bad S (snd c) (body_of p (fst c)) = true.
  Proof.
    intro Hin. unfold closed_ok in Hclosed. rewrite forallb_forall in Hclosed. apply Hclosed. exact Hin.
  Qed.

  Lemma member_body f d : mem_ctx (f, d) S = true -> local_ok bad S d (body_of p f) = true.
  Proof. intro H. apply mem_ctx_In in H. apply (closed_member (f, d)) in H. exact H. Qed.

  Lemma local_sound :
    (forall dry b tr, exec p dry b tr -> local_ok bad S dry b = true -> harmless bad tr) /\
    (forall dry s tr, exec_s p dry s tr -> forall r, local_ok bad S dry (BCons s r) = true -> harmless bad tr).
  Proof.
    apply exec_mut.
    - intros dry _. constructor.
    - intros dry s b t1 t2 Hs IHs Hb IHb Hok.
      apply harmless_app.
      + apply (IHs b Hok).
      + apply IHb. cbn [local_ok] in Hok. apply andb_true_iff in Hok as [_ Hr]. exact Hr.
    - intros dry k s r H. cbn [local_ok] in H. apply andb_true_iff in H as [H _].
      constructor; [|constructor]. cbn. apply negb_true_iff in H. exact H.
    - intros dry t e tr He IHe r H. cbn [local_ok] in H. apply andb_true_iff in H as [H _].
      rewrite Bool.eqb_reflx in H. auto.
    - intros dry t e tr He IHe r H. cbn [local_ok] in H. apply andb_true_iff in H as [H _].
      destruct dry; cbn in H; auto.
    - intros dry t e tr He IHe r H. cbn [local_ok] in H. apply andb_true_iff in H as [H _].
      rewrite Bool.eqb_reflx in H. apply andb_true_iff in H as [H _]. auto.
    - intros dry pol t e tr He IHe r H. cbn [local_ok] in H. apply andb_true_iff in H as [H _].
      apply andb_true_iff in H as [_ H]. auto.
    - intros dry t e tr He IHe r H. cbn [local_ok] in H. apply andb_true_iff in H as [H _].
      apply andb_true_iff in H as [H _]. auto.
    - intros dry t e tr He IHe r H. cbn [local_ok] in H. apply andb_true_iff in H as [H _].
      apply andb_true_iff in H as [_ H]. auto.
    - intros dry f tr He IHe r H. cbn [local_ok] in H. apply andb_true_iff in H as [H _].
      apply IHe. apply member_body. exact H.
    - intros dry f b tr He IHe r H. cbn [local_ok] in H. apply andb_true_iff in H as [H _].
      apply IHe. apply member_body. exact H.
    - intros dry f b tr He IHe r H. cbn [local_ok] in H. apply andb_true_iff in H as [H _].
      apply andb_true_iff in H as [Ht Hf].
      apply IHe. apply member_body. destruct b; assumption.
    - intros dry b r _. constructor.
    - intros dry b t1 t2 Hb IHb Hl IHl r H.
      apply harmless_app.
      + apply IHb. cbn [local_ok] in H. apply andb_true_iff in H as [H _]. exact H.
      + apply (IHl r H).
  Qed.

  Theorem closed_sound f d tr :
    In (f, d) S -> exec p d (body_of p f) tr -> harmless bad tr.
  Proof.
    intros Hin He. destruct local_sound as [Hb _].
    apply (Hb d (body_of p f) tr He). apply (closed_member (f, d)). exact Hin.
  Qed.
End Sound.

(* The decision procedure is sound: whatever set [reach] computed (enough fuel or not), acceptance
   means the closure check passed on it and the entry is a member. *)
Theorem safe_from_sound bad p f d :
  safe_from bad p (f, d) = true ->
  forall tr, exec p d (body_of p f) tr -> harmless bad tr.
Proof.
  unfold safe_from. intros H tr He.
  apply andb_true_iff in H as [Hm Hc].
  eapply closed_sound; eauto. apply mem_ctx_In. exact Hm.
Qed.

(* the same for a list of entry points, all entered with the same flag value *)
Theorem entries_sound bad p d entries :
  forallb (fun f => safe_from bad p (f, d)) entries = true ->
  forall f, In f entries -> forall tr, exec p d (body_of p f) tr -> harmless bad tr.
Proof.
  intros H f Hin. apply safe_from_sound.
  rewrite forallb_forall in H. apply (H f Hin).
Qed.

(* ---- non-vacuity on small programs -------------------------------------------------------- *)
Definition ex_prog : prog :=
  [ BCons (If (GDry true) BNil (BCons (Eff KFs 1) BNil))
     (BCons (If GOpaque (BCons (Call 1 DPass) BNil) BNil)
     (BCons (Loop (BCons (If (GImplies false) (BCons (Call 2 DPass) BNil) BNil) BNil)) BNil))
  ; BCons (If (GDry true) BNil (BCons (Eff KFs 2) BNil)) BNil
  ; BCons (Eff KFs 3) BNil ].
Example ex_safe : safe_from bad_fs ex_prog (0, true) = true.
Proof. vm_compute. reflexivity. Qed.
Example ex_not_safe_wet : safe_from bad_fs ex_prog (0, false) = false.
Proof. vm_compute. reflexivity. Qed.
(* a callee invoked with a literal dry_run=False from a dry context is a leak *)
Definition leak_prog : prog :=
  [ BCons (Call 1 (DConst false)) BNil ; BCons (If (GDry true) BNil (BCons (Eff KFs 9) BNil)) BNil ].
Example leak_unsafe : safe_from bad_fs leak_prog (0, true) = false.
Proof. vm_compute. reflexivity. Qed.
Example leak_exec : exec leak_prog true (body_of leak_prog 0) [(KFs, 9)].
Proof.
  change [(KFs, 9)] with ([(KFs, 9)] ++ []). constructor; [|constructor].
  apply ECallC. change [(KFs, 9)] with ([(KFs, 9)] ++ []). constructor; [|constructor].
  apply (EDryF leak_prog false). change [(KFs, 9)] with ([(KFs, 9)] ++ []). constructor; constructor.
Qed.
(* recursion does not need fuel: a self-recursive safe function is accepted *)
Definition rec_prog : prog := [ BCons (Loop (BCons (Call 0 DPass) BNil)) BNil ].
Example rec_safe : safe_from bad_fs rec_prog (0, true) = true.
Proof. vm_compute. reflexivity. Qed.
