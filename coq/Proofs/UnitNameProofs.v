(* The names the Google and NumPy unit readers return carry no blank at either end (they are str.strip()ped), whatever the line. *)
From CDD Require Import PyStr RestDocProofs GoogleLine GoogleScanProofs NumpyLine.
Open Scope N_scope.

Definition stripped (s : str) : Prop := lstrip s = s /\ rstrip s = s.

Lemma lstrip_stable_head s : lstrip s = s <-> match s with c :: _ => is_space c = false | [] => True end.
Proof.
  destruct s as [|c r]; [split; reflexivity|]. cbn [lstrip]. destruct (is_space c) eqn:E; split; intro H; try reflexivity; try discriminate.
  exfalso. assert (L : (length (lstrip r) <= length r)%nat).
  { clear. induction r as [|x r IH]; [apply le_n|]. cbn [lstrip]. destruct (is_space x); cbn [length]; [apply le_S, IH | apply le_n]. }
  rewrite H in L. cbn [length] in L. apply (PeanoNat.Nat.nle_succ_diag_l _ L).
Qed.

Lemma lstrip_is_stripped_left s : lstrip (lstrip s) = lstrip s.
Proof. apply lstrip_idem. Qed.

Lemma rstrip_idem s : rstrip (rstrip s) = rstrip s.
Proof. unfold rstrip. rewrite rev_involutive, lstrip_idem. reflexivity. Qed.

(* stripping the right end of a text whose first character is visible keeps that first character *)
Lemma lstrip_rstrip y : lstrip y = y -> lstrip (rstrip y) = rstrip y.
Proof.
  intro H. destruct y as [|c r]; [reflexivity|]. apply lstrip_stable_head in H.
  unfold rstrip. cbn [rev]. 
  assert (K : exists t, lstrip (rev r ++ [c]) = t ++ [c]).
  { generalize (rev r). intro l. induction l as [|x l IH]; cbn [app lstrip]; [rewrite H; exists []; reflexivity|].
    destruct (is_space x); [exact IH | exists (x :: l); reflexivity]. }
  destruct K as [t ->]. rewrite rev_app_distr. cbn [rev app]. cbn [lstrip]. rewrite H. reflexivity.
Qed.

Theorem strip_is_stripped s : stripped (strip s).
Proof.
  unfold stripped, strip. split.
  - apply lstrip_rstrip. apply lstrip_idem.
  - apply rstrip_idem.
Qed.

Theorem google_name_stripped l n t d : parse_google_unit l = UOk n t d -> stripped n.
Proof.
  unfold parse_google_unit. destruct (break_at GCOLON l) as [[pre post]|]; [|discriminate].
  destruct (break_at LP (lstrip pre)) as [[a b]|].
  - destruct (rstrip (LP :: b)).
    + intro H. injection H as <- _ _. apply strip_is_stripped.
    + destruct (startswith [LP] _ && endswith [RP] _); [|discriminate].
      destruct (Nat.ltb 3 _ && _ && _); [discriminate|]. intro H. injection H as <- _ _. apply strip_is_stripped.
  - cbn [rstrip rev lstrip]. intro H. injection H as <- _ _. apply strip_is_stripped.
Qed.

Theorem numpy_name_stripped u n t d : parse_numpy_unit u = NEntry n t d -> stripped n.
Proof.
  unfold parse_numpy_unit. destruct u as [|first rest]; [discriminate|].
  destruct (break_at GCOLON first) as [[a b]|].
  - destruct a; [discriminate|]. destruct b; intro H; injection H as <- _ _; apply strip_is_stripped.
  - destruct first; [discriminate|]. intro H. injection H as <- _ _. apply strip_is_stripped.
Qed.
