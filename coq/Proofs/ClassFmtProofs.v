From Coq Require Import Lia.
From CDD Require Import PyStr DocSplit RestDoc ClassFmt MergeProofs DefaultDocProofs RestDocProofs RestDocIndentProofs.

(* ================= 1. parsing a docstring made of :cvar lines ================= *)
Definition T_cvar : str := Eval vm_compute in s2l ":cvar".
Lemma not_in_sp_cvar : ~ In SP T_cvar. Proof. intro H. cbn in H. repeat (destruct H as [H|H]; [discriminate|]). exact H. Qed.
Lemma dead_cvar_sp : dead (T_cvar ++ [SP]) = true. Proof. vm_compute. reflexivity. Qed.

Lemma parse_cvar_line s n d sep : name_ok n = true -> clean d = true -> blank sep = true ->
  parse_token_line s (T_cvar ++ SP :: n ++ COLON :: SP :: d ++ sep)
  = {| st_doc := st_doc s; st_params := params_after s n; st_ret := st_ret s; st_cur := Some (n, set_doc (cur_entry s n) d) |}.
Proof.
  intros Hn Hd Hs. destruct (clean_parts d Hd) as [D1 [D2 _]].
  rewrite (parse_named_line T_cvar false s n (SP :: d ++ sep) not_in_sp_cvar); try exact Hn;
    try (intro X; vm_compute; reflexivity).
  change (SP :: d ++ sep) with ([SP] ++ d ++ sep). rewrite (strip_padded [SP] d sep) by (try reflexivity; assumption). reflexivity.
Qed.

Section CvarLines.
  Variables S2 SF HP HS : str.
  Hypothesis B2 : blank S2 = true. Hypothesis BF : blank SF = true. Hypothesis BP : blank HP = true. Hypothesis BS : blank HS = true.
  Hypothesis N2 : no_colon S2 = true. Hypothesis NF : no_colon SF = true. Hypothesis NP : no_colon HP = true. Hypothesis NS : no_colon HS = true.

  Fixpoint clines (ps : list (str * str)) : list (str * str) :=
    match ps with
    | [] => []
    | [(n, d)] => [(T_cvar, named_body n (d ++ SF))]
    | (n, d) :: r => (T_cvar, named_body n (d ++ S2)) :: clines r
    end.
  Definition crender (doc : str) (ps : list (str * str)) : str := (HP ++ doc ++ HS) ++ concat (map cat (clines ps)).

  Definition cdoc_ok (p : str * str) : bool := name_ok (fst p) && clean (snd p).

  Lemma cline_ok n d sep : name_ok n = true -> clean d = true -> no_colon sep = true -> line_ok (T_cvar, named_body n (d ++ sep)).
  Proof.
    intros Hn Hd Hs. split; cbn [fst snd]; [vm_compute; tauto|].
    apply named_body_ok; [exact dead_cvar_sp | apply name_ok_no_colon_b, Hn |].
    rewrite no_colon_app. apply andb_true_iff. split; [apply clean_parts, Hd | exact Hs].
  Qed.

  Lemma clines_ok : forall ps, forallb cdoc_ok ps = true -> Forall line_ok (clines ps).
  Proof.
    induction ps as [|[n d] r IH]; intro H; [constructor|]. cbn [forallb] in H. apply andb_true_iff in H as [Hp H].
    unfold cdoc_ok in Hp. cbn [fst snd] in Hp. apply andb_true_iff in Hp as [Hn Hd].
    destruct r as [|p2 r2]; [constructor; [apply cline_ok; assumption | constructor]|].
    change (clines ((n, d) :: p2 :: r2)) with ((T_cvar, named_body n (d ++ S2)) :: clines (p2 :: r2)).
    constructor; [apply cline_ok; assumption | apply IH, H].
  Qed.

  Definition doc_entry (d : str) : pentry := {| pe_doc := Some d; pe_typ := None |}.

  Lemma fold_cline s n d sep : name_ok n = true -> clean d = true -> blank sep = true ->
    (forall n0 e0, st_cur s = Some (n0, e0) -> n0 <> n) ->
    parse_seg s (seg_of (T_cvar, named_body n (d ++ sep)))
    = {| st_doc := st_doc s; st_params := flush s; st_ret := st_ret s; st_cur := Some (n, doc_entry d) |}.
  Proof.
    intros Hn Hd Hs Hf. destruct (cur_fresh s n Hf) as [C P].
    unfold seg_of, cat, named_body. cbn [fst snd]. rewrite parse_seg_token.
    rewrite (parse_cvar_line s n d sep Hn Hd Hs), C, P. reflexivity.
  Qed.

  Lemma fold_clines : forall ps s, forallb cdoc_ok ps = true -> NoDup (map fst ps) ->
    (forall n0 e0, st_cur s = Some (n0, e0) -> ~ In n0 (map fst ps)) ->
    (forall n, In n (map fst ps) -> ~ In n (map fst (flush s))) ->
    let s' := fold_left parse_seg (map seg_of (clines ps)) s in
    flush s' = flush s ++ map (fun p => (fst p, doc_entry (snd p))) ps /\ st_doc s' = st_doc s /\ st_ret s' = st_ret s.
  Proof.
    induction ps as [|[n d] r IH]; intros s Hok Hnd Hcur Hfl; cbn zeta.
    - cbn. rewrite app_nil_r. auto.
    - cbn [forallb] in Hok. apply andb_true_iff in Hok as [Hp Hok]. unfold cdoc_ok in Hp. cbn [fst snd] in Hp. apply andb_true_iff in Hp as [Hn Hd].
      cbn [map] in Hnd. inversion Hnd as [|? ? Hnr Hndr]; subst.
      assert (Hf : forall n0 e0, st_cur s = Some (n0, e0) -> n0 <> n).
      { intros n0 e0 E K. subst. apply (Hcur n e0 E). left. reflexivity. }
      set (s1 := {| st_doc := st_doc s; st_params := flush s; st_ret := st_ret s; st_cur := Some (n, doc_entry d) |}).
      assert (F1 : flush s1 = flush s ++ [(n, doc_entry d)]).
      { unfold flush at 1. cbn [s1 st_cur st_params]. rewrite (name_ok_not_star n Hn). apply set_assoc_fresh. apply Hfl. left. reflexivity. }
      destruct r as [|p2 r2].
      + cbn [clines map fold_left]. rewrite (fold_cline s n d SF Hn Hd BF Hf). fold s1. rewrite F1. auto.
      + change (clines ((n, d) :: p2 :: r2)) with ((T_cvar, named_body n (d ++ S2)) :: clines (p2 :: r2)).
        cbn [map fold_left]. rewrite (fold_cline s n d S2 Hn Hd B2 Hf). fold s1.
        destruct (IH s1 Hok Hndr) as [A [B C]].
        * intros n0 e0 E. cbn [s1 st_cur] in E. injection E as <- <-. exact Hnr.
        * intros m Hm. rewrite F1, map_app, in_app_iff. cbn [map fst In]. intros [K|[K|[]]].
          -- apply (Hfl m); [right; exact Hm | exact K].
          -- subst. contradiction.
        * rewrite A, F1, <- app_assoc. cbn [app map fst snd]. cbn [s1 st_doc st_ret] in B, C. auto.
  Qed.

  Theorem parse_crender doc ps :
    clean doc = true -> forallb cdoc_ok ps = true -> NoDup (map fst ps) -> ps <> [] ->
    parse_rest (crender doc ps) = {| p_doc := doc; p_params := map (fun p => (fst p, doc_entry (snd p))) ps; p_ret := None |}.
  Proof.
    intros Hd Hp Hnd Hne. destruct (clean_parts doc Hd) as [D1 [D2 D3]].
    pose proof (clines_ok ps Hp) as HL.
    unfold parse_rest, crender. destruct (clines ps) as [|tb L'] eqn:EL.
    { destruct ps as [|[n d] [|p2 r2]]; [contradiction | discriminate | discriminate]. }
    rewrite (scan_lines (HP ++ doc ++ HS) tb L') by (try exact HL; rewrite !no_colon_app, D3, NP, NS; reflexivity).
    rewrite <- EL. cbn [fold_left].
    set (s0 := {| st_doc := doc; st_params := []; st_ret := None; st_cur := None |}).
    match goal with |- context [parse_seg init_state ?x] => assert (S0 : parse_seg init_state x = s0) end.
    { cbn [parse_seg init_state st_doc st_params st_ret st_cur]. rewrite (strip_padded HP doc HS) by assumption. reflexivity. }
    rewrite S0. change (map (fun x => (true, cat x)) (clines ps)) with (map seg_of (clines ps)).
    destruct (fold_clines ps s0 Hp Hnd) as [A [B C]]; [intros ? ? E; discriminate E | intros n _ K; exact K |].
    rewrite A, B, C. reflexivity.
  Qed.
End CvarLines.

(* ================= 2. the class docstring the emitter writes ================= *)
Definition doc_of (p : str * cparam) : str := match cp_doc (snd p) with Some d => d | None => [] end.
Definition cparam_ok (p : str * cparam) : bool :=
  name_ok (fst p) && one_line (fst p)
  && (match cp_doc (snd p) with Some d => clean d && one_line d | None => false end)
  && (match cp_typ (snd p) with Some _ => true | None => false end).
Definition docs_of (ps : list (str * cparam)) : list (str * str) := map (fun p => (fst p, doc_of p)) ps.

Lemma cparam_ok_parts p : cparam_ok p = true ->
  name_ok (fst p) = true /\ one_line (fst p) = true /\ (exists d, cp_doc (snd p) = Some d /\ clean d = true /\ one_line d = true) /\ (exists t, cp_typ (snd p) = Some t).
Proof.
  unfold cparam_ok. intro H. apply andb_true_iff in H as [H Ht]. apply andb_true_iff in H as [H Hd]. apply andb_true_iff in H as [Hn H1].
  repeat split; try assumption.
  - destruct (cp_doc (snd p)) as [d|]; [|discriminate]. apply andb_true_iff in Hd as [A B]. exists d. auto.
  - destruct (cp_typ (snd p)) as [t|]; [|discriminate]. exists t. reflexivity.
Qed.

Lemma cvar_line_text p : cparam_ok p = true -> cvar_line p = T_cvar ++ named_body (fst p) (doc_of p).
Proof.
  intro H. destruct (cparam_ok_parts p H) as [_ [_ [[d [Ed [Hc _]]] _]]]. unfold cvar_line, doc_of. rewrite Ed.
  destruct (clean_nonempty d Hc) as [-> ->]. unfold named_body. rewrite <- app_assoc. reflexivity.
Qed.

Lemma one_line_app a b : one_line (a ++ b) = one_line a && one_line b.
Proof. apply forallb_app. Qed.

Lemma cvar_line_facts p : cparam_ok p = true ->
  head_ok (cvar_line p) = true /\ tail_ok (cvar_line p) = true /\ one_line (cvar_line p) = true.
Proof.
  intro H. rewrite (cvar_line_text p H). destruct (cparam_ok_parts p H) as [_ [N1 [[d [Ed [Hc H1]]] _]]].
  unfold doc_of. rewrite Ed. destruct (clean_parts d Hc) as [_ [T _]]. repeat split.
  - unfold named_body. repeat first [exact T | apply tail_ok_cons_r | apply tail_ok_app_r].
  - unfold named_body. rewrite one_line_app. cbn [one_line forallb]. fold (one_line (fst p ++ COLON :: SP :: d)).
    rewrite one_line_app, N1. cbn [one_line forallb]. fold (one_line d). rewrite H1. reflexivity.
Qed.

Lemma join_nl_facts : forall ps, forallb cparam_ok ps = true -> ps <> [] ->
  let P := join [NL] (map cvar_line ps) in head_ok P = true /\ tail_ok P = true.
Proof.
  induction ps as [|p r IH]; intros H Hne; [contradiction|]. cbn [forallb] in H. apply andb_true_iff in H as [Hp H].
  destruct (cvar_line_facts p Hp) as [A [B _]].
  destruct r as [|p2 r2]; [cbn [map join]; auto|].
  cbn [map]. change (join [NL] (cvar_line p :: cvar_line p2 :: map cvar_line r2)) with (cvar_line p ++ [NL] ++ join [NL] (map cvar_line (p2 :: r2))).
  destruct (IH H ltac:(discriminate)) as [I1 I2]. cbn zeta in *. split; [apply head_ok_app, A|].
  apply tail_ok_app_r, tail_ok_app_r, I2.
Qed.

Lemma rstrip_blank_suffix x b : tail_ok x = true -> blank b = true -> rstrip (x ++ b) = x.
Proof.
  intros T B. unfold rstrip. rewrite rev_app_distr, lstrip_blank_app by (rewrite blank_rev; exact B).
  rewrite lstrip_head_ok by exact T. apply rev_involutive.
Qed.

(* substituting the tab into the joined lines = joining with newline + tab *)
Lemma subst_join_lines tabs : forall ps, forallb cparam_ok ps = true ->
  subst tabs (join [NL] (map cvar_line ps)) = concat (map cat (clines (NL :: tabs) [] (docs_of ps))).
Proof.
  induction ps as [|p r IH]; intro H; [reflexivity|]. cbn [forallb] in H. apply andb_true_iff in H as [Hp H].
  destruct (cvar_line_facts p Hp) as [_ [_ O]].
  destruct r as [|p2 r2].
  - cbn [map join docs_of clines concat]. unfold cat. cbn [fst snd]. rewrite (subst_one_line tabs _ O), (cvar_line_text p Hp), !app_nil_r. reflexivity.
  - cbn [map]. change (join [NL] (cvar_line p :: cvar_line p2 :: map cvar_line r2)) with (cvar_line p ++ [NL] ++ join [NL] (map cvar_line (p2 :: r2))).
    rewrite !subst_app, (subst_one_line tabs _ O), subst_nl, (IH H).
    unfold docs_of. cbn [map]. fold (docs_of r2).
    change (clines (NL :: tabs) [] ((fst p, doc_of p) :: (fst p2, doc_of p2) :: docs_of r2))
      with ((T_cvar, named_body (fst p) (doc_of p ++ NL :: tabs)) :: clines (NL :: tabs) [] ((fst p2, doc_of p2) :: docs_of r2)).
    cbn [map concat]. unfold cat. cbn [fst snd]. rewrite (cvar_line_text p Hp), named_body_app, <- !app_assoc. reflexivity.
Qed.

Definition TABS1 : str := tabs_of 1.
Definition C_HP : str := NL :: TABS1.
Definition C_HS : str := NL :: TABS1 ++ NL :: TABS1.

Theorem class_docstring_is_crender doc ps :
  clean doc = true -> one_line doc = true -> forallb cparam_ok ps = true -> ps <> [] ->
  class_docstring doc ps = crender C_HP [] C_HP C_HS doc (docs_of ps).
Proof.
  intros Hd H1 Hp Hne. destruct (clean_parts doc Hd) as [D1 [D2 _]].
  destruct (join_nl_facts ps Hp Hne) as [P1 P2]. cbn zeta in P1, P2.
  set (P := join [NL] (map cvar_line ps)) in *.
  assert (Ppe : num_of_nls P true = O) by (apply nls_end_tail_ok, P2).
  assert (AR : class_args ps = P) by (unfold class_args; fold P; rewrite Ppe; cbn [Nat.ltb Nat.leb]; apply app_nil_r).
  unfold class_docstring. rewrite AR, (isspace_head_ok _ P1), (haf_clean doc P Hd P1) by (left; exact P2). rewrite P2.
  (* P = y ++ [c], c not a blank *)
  assert (EP : exists y c, P = y ++ [c] /\ is_space c = false).
  { unfold tail_ok in P2. destruct (rev P) as [|c r] eqn:RP; [discriminate|].
    exists (rev r), c. split; [rewrite <- (rev_involutive P), RP; reflexivity | apply (head_ok_not_space c r P2)]. }
  destruct EP as [y [c [EP Hc]]].
  set (T := doc ++ NL :: NL :: y ++ [c; NL]).
  assert (ET : doc ++ [NL; NL] ++ P ++ [NL] = T) by (unfold T; rewrite EP, <- !app_assoc; reflexivity).
  rewrite ET.
  assert (Hh : head_ok T = true) by (apply head_ok_app, D1).
  assert (Hn : Nat.eqb (count_char NL T) 0 = false).
  { unfold T. rewrite count_char_app. cbn [count_char]. rewrite N.eqb_refl. destruct (count_char NL doc); reflexivity. }
  assert (Hspec : indent_doc 1 T = NL :: TABS1 ++ subst TABS1 T) by (apply indent_doc_spec; [exact D1 | exact H1 | apply nonspace_not_nl, Hc]).
  assert (Hsub : subst TABS1 T = doc ++ C_HS ++ concat (map cat (clines C_HP [] (docs_of ps))) ++ C_HP).
  { rewrite <- ET. rewrite !subst_app, (subst_one_line _ doc H1), subst_nlnl, subst_nl. unfold P.
    rewrite (subst_join_lines TABS1 ps Hp). unfold C_HS, C_HP. rewrite <- ?app_assoc. cbn [app]. rewrite <- ?app_assoc. reflexivity. }
  destruct T as [|t0 tr] eqn:ETT; [discriminate|]. rewrite <- ETT in *.
  rewrite (isspace_head_ok _ Hh), Hn, Hspec, Hsub.
  (* strip the trailing newline + tab *)
  assert (TX : tail_ok (concat (map cat (clines C_HP [] (docs_of ps)))) = true).
  { unfold C_HP. rewrite <- (subst_join_lines TABS1 ps Hp). fold P. rewrite EP, subst_app. apply tail_ok_app_r.
    cbn [subst flat_map]. rewrite (nonspace_not_nl c Hc). unfold tail_ok. cbn. rewrite Hc. reflexivity. }
  unfold crender.
  replace (NL :: TABS1 ++ doc ++ C_HS ++ concat (map cat (clines C_HP [] (docs_of ps))) ++ C_HP)
    with (((C_HP ++ doc ++ C_HS) ++ concat (map cat (clines C_HP [] (docs_of ps)))) ++ C_HP)
    by (unfold C_HP; rewrite <- ?app_assoc; cbn [app]; rewrite <- ?app_assoc; reflexivity).
  apply rstrip_blank_suffix; [apply tail_ok_app_r, TX | apply (blank_S1 1)].
Qed.

(* ================= 3. the body updates every parsed entry in place ================= *)
Definition upd_of (b : body_item) : cparam -> cparam :=
  fun v => {| cp_typ := Some (b_typ b); cp_doc := cp_doc v; cp_default := match b_value b with Some x => Some x | None => cp_default v end |}.
Definition mk_of (b : body_item) : cparam := {| cp_typ := Some (b_typ b); cp_doc := None; cp_default := b_value b |}.
Definition body_step (acc : list (str * cparam)) (b : body_item) : list (str * cparam) := upsert (b_name b) (upd_of b) (mk_of b) acc.

Lemma upsert_skip n f mk v r : forall done, ~ In n (map fst done) -> upsert n f mk (done ++ (n, v) :: r) = done ++ (n, f v) :: r.
Proof.
  induction done as [|[k w] done IH]; intro H; cbn [app upsert].
  - rewrite str_eqb_refl. reflexivity.
  - rewrite str_eqb_neq by (intro E; apply H; left; exact E). rewrite IH by (intro K; apply H; right; exact K). reflexivity.
Qed.

Definition init_of (p : str * cparam) : str * cparam := (fst p, {| cp_typ := None; cp_doc := cp_doc (snd p); cp_default := None |}).
Definition body_of (p : str * cparam) : list body_item :=
  match cp_typ (snd p) with Some t => [{| b_name := fst p; b_typ := t; b_value := cp_default (snd p) |}] | None => [] end.

Lemma body_fold : forall todo done, forallb cparam_ok todo = true -> NoDup (map fst (done ++ todo)) ->
  fold_left body_step (flat_map body_of todo) (done ++ map init_of todo) = done ++ todo.
Proof.
  induction todo as [|p r IH]; intros done Hok Hnd; [reflexivity|].
  cbn [forallb] in Hok. apply andb_true_iff in Hok as [Hp Hr].
  destruct (cparam_ok_parts p Hp) as [_ [_ [_ [t Ht]]]].
  cbn [flat_map map]. unfold body_of at 1. rewrite Ht. cbn [app fold_left]. unfold body_step at 2. cbn [b_name].
  unfold init_of at 1.
  assert (Hn : ~ In (fst p) (map fst done)).
  { rewrite map_app in Hnd. cbn [map] in Hnd. apply NoDup_remove_2 in Hnd. intro K. apply Hnd. apply in_or_app. left. exact K. }
  rewrite (upsert_skip _ _ _ _ _ done Hn).
  unfold upd_of. cbn [b_typ b_value cp_doc cp_default].
  replace (fst p, {| cp_typ := Some t; cp_doc := cp_doc (snd p); cp_default := match cp_default (snd p) with Some x => Some x | None => None end |}) with p
    by (destruct p as [n [ty d df]]; cbn in *; subst ty; destruct df; reflexivity).
  change (done ++ p :: map init_of r) with (done ++ [p] ++ map init_of r). rewrite app_assoc.
  rewrite IH; [rewrite <- app_assoc; reflexivity | exact Hr | rewrite <- app_assoc; exact Hnd].
Qed.

Theorem class_roundtrip doc ps :
  clean doc = true -> one_line doc = true -> forallb cparam_ok ps = true -> NoDup (map fst ps) -> ps <> [] ->
  parse_class (emit_class doc ps) = (doc, ps).
Proof.
  intros Hd H1 Hp Hnd Hne. unfold parse_class, emit_class. cbn [k_doc k_body].
  rewrite (class_docstring_is_crender doc ps Hd H1 Hp Hne).
  assert (Hdocs : forallb cdoc_ok (docs_of ps) = true).
  { unfold docs_of. apply forallb_forall. intros q Hq. apply in_map_iff in Hq as [p [Eq Hin]]. subst q. rewrite forallb_forall in Hp.
    destruct (cparam_ok_parts p (Hp p Hin)) as [A [_ [[d [Ed [Cd _]]] _]]]. unfold cdoc_ok, doc_of. cbn [fst snd]. rewrite Ed, A, Cd. reflexivity. }
  assert (Hfst : map fst (docs_of ps) = map fst ps) by (unfold docs_of; rewrite map_map; reflexivity).
  assert (Hne' : docs_of ps <> []) by (destruct ps; [contradiction | discriminate]).
  pose proof (parse_crender C_HP [] C_HP C_HS) as PC.
  assert (BHP : blank C_HP = true) by apply (blank_S1 1).
  assert (BHS : blank C_HS = true) by (unfold C_HS; change (NL :: TABS1 ++ NL :: TABS1) with (C_HP ++ C_HP); unfold blank; rewrite forallb_app; fold (blank C_HP); rewrite BHP; reflexivity).
  assert (NHP : no_colon C_HP = true) by (vm_compute; reflexivity).
  assert (NHS : no_colon C_HS = true) by (vm_compute; reflexivity).
  specialize (PC BHP eq_refl BHP BHS NHP eq_refl NHP NHS doc (docs_of ps) Hd Hdocs).
  rewrite Hfst in PC. specialize (PC Hnd Hne').
  destruct (crender C_HP [] C_HP C_HS doc (docs_of ps)) as [|c0 r0] eqn:EC.
  { unfold crender in EC. discriminate EC. }
  rewrite PC. cbn [p_doc p_params]. f_equal.
  assert (E1 : map (fun ne => (fst ne, of_entry (snd ne))) (map (fun p => (fst p, doc_entry (snd p))) (docs_of ps)) = map init_of ps).
  { unfold docs_of. rewrite !map_map. apply map_ext_in. intros p Hin. rewrite forallb_forall in Hp.
    destruct (cparam_ok_parts p (Hp p Hin)) as [_ [_ [[d [Ed _]] _]]]. unfold init_of, of_entry, doc_entry, doc_of. cbn [fst snd pe_doc pe_typ]. rewrite Ed. reflexivity. }
  rewrite E1. apply (body_fold ps [] Hp Hnd).
Qed.
