(* The function docstring the emitter writes (emit_separating_tab off: Model/RestDoc.v:emit_rest_indented_nt) is the canonical text
   ftext of FuncFmtProofs -- by way of the LINES of the text: the text before indentation is the join of its lines, indentation
   prefixes every non-empty line, and the canonical text is the same join. *)
From Coq Require Import Lia.
From CDD Require Import PyStr DocSplit RestDoc MergeProofs DefaultDocProofs RestDocProofs RestDocIndentProofs FuncFmtProofs.

(* ---------- lines ---------- *)
Fixpoint fwb (blocks : list (list str)) : list str :=      (* the lines of blocks, one empty line between two blocks *)
  match blocks with
  | [] => []
  | [b] => b
  | b :: r => b ++ [[]] ++ fwb r
  end.

Lemma join_app_ne (sep : str) : forall a b, a <> [] -> b <> [] -> join sep (a ++ b) = join sep a ++ sep ++ join sep b.
Proof.
  induction a as [|x a IH]; intros b Ha Hb; [contradiction|]. destruct a as [|y a].
  - cbn [app]. rewrite join_cons_ne by exact Hb. reflexivity.
  - change ((x :: y :: a) ++ b) with (x :: (y :: a) ++ b). rewrite join_cons_ne by discriminate. rewrite IH by (try discriminate; exact Hb).
    rewrite (join_cons_ne sep x (y :: a)) by discriminate. rewrite <- !app_assoc. reflexivity.
Qed.

Lemma fwb_ne blocks : blocks <> [] -> Forall (fun b => b <> []) blocks -> fwb blocks <> [].
Proof.
  destruct blocks as [|b r]; [contradiction|]. intros _ H. inversion H as [|? ? Hb Hr]; subst. destruct r; cbn [fwb]; [exact Hb|].
  intro E. apply app_eq_nil in E as [E _]. contradiction.
Qed.

(* two-level join = join of the lines *)
Lemma join2_lines : forall blocks, blocks <> [] -> Forall (fun b => b <> []) blocks ->
  join [NL; NL] (map (join [NL]) blocks) = join [NL] (fwb blocks).
Proof.
  induction blocks as [|b r IH]; intros Hne H; [contradiction|]. inversion H as [|? ? Hb Hr]; subst.
  destruct r as [|b2 r2]; [reflexivity|].
  assert (F : fwb (b2 :: r2) <> []) by (apply fwb_ne; [discriminate | exact Hr]).
  change (fwb (b :: b2 :: r2)) with (b ++ [[]] ++ fwb (b2 :: r2)).
  rewrite (join_app_ne [NL] b ([[]] ++ fwb (b2 :: r2)) Hb) by discriminate.
  change ([[]] ++ fwb (b2 :: r2)) with ([] :: fwb (b2 :: r2)). rewrite join_cons_ne by exact F.
  rewrite <- IH by (try discriminate; exact Hr).
  change (map (join [NL]) (b :: b2 :: r2)) with (join [NL] b :: join [NL] b2 :: map (join [NL]) r2). rewrite join2_cons.
  cbn [app map]. reflexivity.
Qed.

(* splitting a join of one-line texts gives the texts back *)
Lemma split_char_aux_line : forall l cur, one_line l = true -> split_char_aux NL l cur = [rev cur ++ l].
Proof.
  induction l as [|c r IH]; intros cur H; cbn [split_char_aux]; [rewrite app_nil_r; reflexivity|].
  unfold one_line in H. cbn [forallb] in H. apply andb_true_iff in H as [H1 H2]. apply negb_true_iff in H1. rewrite H1.
  rewrite IH by exact H2. cbn [rev]. rewrite <- app_assoc. reflexivity.
Qed.
Lemma split_join : forall LL, LL <> [] -> Forall (fun l => one_line l = true) LL -> split_char NL (join [NL] LL) = LL.
Proof.
  induction LL as [|l r IH]; intros Hne H; [contradiction|]. inversion H as [|? ? Hl Hr]; subst.
  destruct r as [|l2 r2].
  - cbn [join]. unfold split_char. rewrite split_char_aux_line by exact Hl. reflexivity.
  - rewrite join_cons_ne by discriminate. cbn [app]. rewrite (split_char_prefix l (join [NL] (l2 :: r2)) Hl). rewrite IH by (try discriminate; exact Hr). reflexivity.
Qed.

(* ---------- indentation of the lines ---------- *)
Definition pref (tabs : str) (l : str) : str := match l with [] => [] | _ => tabs ++ l end.

Lemma pref_ne tabs l : l <> [] -> pref tabs l = tabs ++ l. Proof. destruct l; [contradiction | reflexivity]. Qed.

Lemma join_pref_block tabs : forall b, b <> [] -> Forall (fun l => l <> []) b ->
  join [NL] (map (pref tabs) b) = tabs ++ join (NL :: tabs) b.
Proof.
  induction b as [|l r IH]; intros Hne H; [contradiction|]. inversion H as [|? ? Hl Hr]; subst.
  destruct r as [|l2 r2]; [cbn [map join]; apply pref_ne, Hl|].
  change (map (pref tabs) (l :: l2 :: r2)) with (pref tabs l :: map (pref tabs) (l2 :: r2)).
  rewrite join_cons_ne by discriminate. rewrite IH by (try discriminate; exact Hr).
  rewrite (pref_ne tabs l Hl). 
  assert (E : join (NL :: tabs) (l :: l2 :: r2) = l ++ (NL :: tabs) ++ join (NL :: tabs) (l2 :: r2)) by (apply join_cons_ne; discriminate).
  rewrite E. cbn [app]. rewrite <- !app_assoc. reflexivity.
Qed.

Lemma map_ne {A B} (f : A -> B) l : l <> [] -> map f l <> []. Proof. destruct l; [contradiction | discriminate]. Qed.

Lemma join_pref_fwb tabs : forall blocks, blocks <> [] -> Forall (fun b => b <> [] /\ Forall (fun l => l <> []) b) blocks ->
  join [NL] (map (pref tabs) (fwb blocks)) = tabs ++ join (NL :: NL :: tabs) (map (join (NL :: tabs)) blocks).
Proof.
  induction blocks as [|b r IH]; intros Hne H; [contradiction|]. inversion H as [|? ? [Hb Hbl] Hr]; subst.
  destruct r as [|b2 r2]; [cbn [fwb map join]; apply join_pref_block; assumption|].
  change (fwb (b :: b2 :: r2)) with (b ++ [[]] ++ fwb (b2 :: r2)). rewrite !map_app.
  assert (F : fwb (b2 :: r2) <> []).
  { apply fwb_ne; [discriminate|]. clear -Hr. induction Hr as [|x l [Hx _] _ IHr]; constructor; assumption. }
  rewrite (join_app_ne [NL] (map (pref tabs) b)) by (try (apply map_ne; exact Hb); cbn [map app]; discriminate).
  change (map (pref tabs) [[]] ++ map (pref tabs) (fwb (b2 :: r2))) with ([] :: map (pref tabs) (fwb (b2 :: r2))).
  rewrite (join_cons_ne [NL] []) by (apply map_ne, F). rewrite IH by (try discriminate; exact Hr).
  rewrite (join_pref_block tabs b Hb Hbl).
  assert (E : join (NL :: NL :: tabs) (map (join (NL :: tabs)) (b :: b2 :: r2))
              = join (NL :: tabs) b ++ (NL :: NL :: tabs) ++ join (NL :: NL :: tabs) (map (join (NL :: tabs)) (b2 :: r2)))
    by (cbn [map]; apply join_cons_ne; discriminate).
  rewrite E. cbn [app]. rewrite <- !app_assoc. reflexivity.
Qed.

Lemma join_pref_last tabs c : forall X y, X <> [] -> join [NL] X = y ++ [c] -> (c =? NL) = false ->
  exists z, join [NL] (map (pref tabs) X) = z ++ [c].
Proof.
  induction X as [|l r IH]; intros y HX Ey Hc; [contradiction|]. destruct r as [|l2 r2].
  - cbn [join map] in *. subst l. rewrite pref_ne by (destruct y; discriminate). exists (tabs ++ y). rewrite app_assoc. reflexivity.
  - rewrite join_cons_ne in Ey by discriminate. 
    change (map (pref tabs) (l :: l2 :: r2)) with (pref tabs l :: map (pref tabs) (l2 :: r2)). rewrite join_cons_ne by discriminate.
    assert (E2 : exists y2, join [NL] (l2 :: r2) = y2 ++ [c]).
    { destruct (join [NL] (l2 :: r2)) as [|q qs] eqn:EQ.
      - exfalso. cbn [app] in Ey.
        assert (K : last_opt (l ++ [NL]) = last_opt (y ++ [c])) by (rewrite Ey; reflexivity).
        rewrite !last_opt_app_single in K. injection K as K. subst c. rewrite N.eqb_refl in Hc. discriminate.
      - assert (K : last_opt (l ++ [NL] ++ q :: qs) = Some c) by (rewrite Ey; apply last_opt_app_single).
        destruct (rev (q :: qs)) as [|z zs] eqn:RV; [apply (f_equal (@rev _)) in RV; rewrite rev_involutive in RV; discriminate|].
        assert (EQ2 : q :: qs = rev zs ++ [z]) by (rewrite <- (rev_involutive (q :: qs)), RV; reflexivity).
        rewrite EQ2 in K. rewrite !app_assoc, last_opt_app_single in K. injection K as ->. exists (rev zs). exact EQ2. }
    destruct E2 as [y2 E2]. destruct (IH y2 ltac:(discriminate) E2 Hc) as [z Hz]. rewrite Hz.
    exists (pref tabs l ++ [NL] ++ z). rewrite <- !app_assoc. reflexivity.
Qed.

(* ---------- the indentation step on a text given by its lines ---------- *)
Lemma one_line_join_false l r : join [NL] (l :: [] :: r) = l ++ NL :: join [NL] ([] :: r).
Proof. rewrite join_cons_ne by discriminate. reflexivity. Qed.

Theorem indent_doc_nt_lines k doc X :
  head_ok doc = true -> one_line doc = true -> X <> [] -> Forall (fun l => one_line l = true) X ->
  (exists y c, join [NL] X = y ++ [c] /\ (c =? NL) = false) ->
  let LL := doc :: [] :: X in
  indent_doc_nt (S k) (join [NL] LL ++ [NL]) = NL :: join [NL] (map (pref (tabs_of (S k))) LL) ++ NL :: tabs_of (S k).
Proof.
  intros Hh Ho HX H1 [y [c [Ey Hc]]] LL. set (tabs := tabs_of (S k)). set (T := join [NL] LL ++ [NL]).
  assert (EJ : join [NL] LL = doc ++ NL :: NL :: join [NL] X).
  { unfold LL. rewrite join_cons_ne by discriminate. rewrite join_cons_ne by exact HX. reflexivity. }
  assert (ET : T = doc ++ NL :: NL :: y ++ [c; NL]).
  { unfold T. rewrite EJ, Ey, <- !app_assoc. cbn [app]. rewrite <- app_assoc. reflexivity. }
  assert (Dne : doc <> []) by (destruct doc; [discriminate | discriminate]).
  assert (Efind : find [NL] T = slen doc).
  { unfold find. rewrite ET. rewrite find_from_skip by (apply one_line_not_in, Ho). unfold slen. lia. }
  unfold indent_doc_nt. fold (tabs_of (S k)). fold tabs. rewrite Efind.
  assert (Eskip : skip_blank_lines (S (length T)) T 0 (slen doc) = (doc, slen doc)).
  { cbn [skip_blank_lines]. destruct (Z.ltb_spec (slen doc) 0); [unfold slen in *; lia|].
    assert (Esl : slice T 0 (slen doc) = doc) by (rewrite ET; apply slice_to_len').
    rewrite Esl, (isspace_head_ok doc Hh). reflexivity. }
  rewrite Eskip.
  assert (En : (slen T =? slen doc)%Z = false).
  { apply Z.eqb_neq. rewrite ET, slen_app. unfold slen at 2. cbn [length]. lia. }
  rewrite En. cbn [orb].
  assert (Enth : nth_char T (slen doc + 1) = Some NL).
  { unfold nth_char, slen. rewrite ET. replace (Z.to_nat (Z.of_nat (length doc) + 1)) with (length doc + 1)%nat by lia.
    rewrite nth_error_app2 by lia. replace (length doc + 1 - length doc)%nat with 1%nat by lia. reflexivity. }
  rewrite Enth, N.eqb_refl. cbn [negb]. rewrite andb_false_r.
  assert (Erest : slice_from T (slen doc + 1) = join [NL] ([] :: X) ++ [NL]).
  { unfold T. rewrite EJ. rewrite join_cons_ne by exact HX. cbn [app].
    replace ((doc ++ NL :: NL :: join [NL] X) ++ [NL]) with ((doc ++ [NL]) ++ (NL :: join [NL] X) ++ [NL])
      by (rewrite <- !app_assoc; cbn [app]; reflexivity).
    replace (slen doc + 1)%Z with (slen (doc ++ [NL])) by (rewrite slen_app; reflexivity). apply slice_from_len'. }
  rewrite Erest, splitlines_snoc_nl.
  rewrite (split_join ([] :: X)); [| discriminate | constructor; [reflexivity | exact H1]].
  assert (Eline : (match doc with [] => [] | _ :: _ => [doc] end) = [doc]) by (destruct doc; [contradiction | reflexivity]).
  rewrite Eline. change ([doc] ++ [] :: X) with LL.
  assert (Elen : Nat.ltb 1 (length LL) = true) by reflexivity. rewrite Elen.
  assert (EP : join [NL] (map (pref tabs) LL) = tabs ++ doc ++ NL :: NL :: join [NL] (map (pref tabs) X)).
  { unfold LL. cbn [map]. rewrite join_cons_ne by discriminate. cbn [pref]. rewrite join_cons_ne by (apply map_ne, HX).
    rewrite (pref_ne tabs doc Dne), <- app_assoc. reflexivity. }
  assert (Est : startswith tabs (join [NL] (map (pref tabs) LL)) = true) by (rewrite EP; apply startswith_app).
  repeat match goal with |- context [map ?f LL] => lazymatch f with pref tabs => fail | _ => change f with (pref tabs) end end.
  change (@map (list char) (list char)) with (@map str str).
  rewrite Est.
  (* the last line is not empty, so the joined text does not end with a newline *)
  assert (Eend : ends_nl (join [NL] (map (pref tabs) LL)) = false).
  { rewrite EP.
    destruct (join_pref_last tabs c X y HX Ey Hc) as [z Hz].
    rewrite Hz. unfold ends_nl.
    replace (tabs ++ doc ++ NL :: NL :: z ++ [c]) with ((tabs ++ doc ++ NL :: NL :: z) ++ [c]) by (rewrite <- !app_assoc; cbn [app]; rewrite <- ?app_assoc; reflexivity).
    rewrite last_opt_app_single. exact Hc. }
  rewrite Eend. cbn [app]. rewrite <- ?app_assoc. reflexivity.
Qed.

(* ---------- the blocks of lines of the parameters ---------- *)
Definition block (p : str * pentry) : list str := lines_of (s2l "param " ++ fst p) (s2l "type " ++ fst p) true (snd p).
Definition blocks (es : list (str * pentry)) : list (list str) := map block es.

Lemma emit_param_block p : emit_param true p = join [NL] (block p). Proof. reflexivity. Qed.

(* one block in the generalised canonical text *)
Section G.
  Variables S1 S2 SF HP HS : str.
  Lemma gblock_text n e sep : entry_ok e = true ->
    concat (map cat (gparam_lines S1 n e sep)) = join S1 (block (n, e)) ++ sep.
  Proof.
    intro He. destruct e as [od ot]. unfold entry_ok, gparam_lines, block, lines_of in *. cbn [pe_doc pe_typ fst snd] in *.
    destruct od as [d|], ot as [t|]; try discriminate; try (apply andb_true_iff in He as [Hd Ht]);
      repeat match goal with
             | H : clean ?d = true |- _ => destruct (clean_nonempty d H) as [-> ->]; clear H
             | H : typ_ok ?t = true |- _ => rewrite (typ_ok_nonempty t H); clear H
             end;
      rewrite ?key_param, ?key_type; change (s2l "```") with FENCE.
    all: cbn [nonempty map concat join app]; unfold cat, fenced; cbn [fst snd]; rewrite ?app_nil_r, ?named_body_app.
    all: repeat (progress (cbn [app]; rewrite <- ?app_assoc)); reflexivity.
  Qed.

  Lemma gparams_text : forall es fs, forallb param_ok es = true -> es <> [] ->
    concat (map cat (glines_params S1 S2 es fs)) = join S2 (map (fun p => join S1 (block p)) es) ++ fs.
  Proof.
    induction es as [|[n e] r IH]; intros fs Hok Hne; [contradiction|].
    cbn [forallb] in Hok. apply andb_true_iff in Hok as [Hp Hok]. unfold param_ok in Hp. cbn [fst snd] in Hp. apply andb_true_iff in Hp as [_ He].
    destruct r as [|p2 r2]; [cbn [glines_params map join]; apply gblock_text, He|].
    change (glines_params S1 S2 ((n, e) :: p2 :: r2) fs) with (gparam_lines S1 n e S2 ++ glines_params S1 S2 (p2 :: r2) fs).
    rewrite map_app, concat_app, gblock_text by exact He. rewrite IH by (try exact Hok; discriminate).
    change (map (fun p => join S1 (block p)) ((n, e) :: p2 :: r2)) with (join S1 (block (n, e)) :: map (fun p => join S1 (block p)) (p2 :: r2)).
    rewrite (join_cons_ne S2 (join S1 (block (n, e)))) by discriminate. rewrite <- !app_assoc. reflexivity.
  Qed.
End G.

(* the lines of a block are non-empty one-line texts *)
Lemma one_line_app a b : one_line (a ++ b) = one_line a && one_line b. Proof. unfold one_line. apply forallb_app. Qed.

Lemma block_lines p : param_ok p = true -> param_1l p = true ->
  block p <> [] /\ Forall (fun l => l <> []) (block p) /\ Forall (fun l => one_line l = true) (block p).
Proof.
  destruct p as [n [od ot]]. unfold param_ok, param_1l, entry_ok, entry_1l, block, lines_of. cbn [fst snd pe_doc pe_typ].
  intros Hok H1. apply andb_true_iff in Hok as [_ He]. apply andb_true_iff in H1 as [Hn H1]. apply andb_true_iff in H1 as [Hd1 Ht1].
  destruct od as [d|], ot as [t|]; try discriminate; try (apply andb_true_iff in He as [Hd Ht]);
    repeat match goal with
           | H : clean ?d = true |- _ => destruct (clean_nonempty d H) as [-> ->]; clear H
           | H : typ_ok ?t = true |- _ => rewrite (typ_ok_nonempty t H); clear H
           end.
  all: cbn [nonempty app]; repeat split; try discriminate; repeat constructor; try discriminate.
  all: rewrite ?one_line_app; cbn [one_line forallb s2l]; rewrite ?one_line_app, ?Hn, ?Hd1, ?Ht1; reflexivity.
Qed.

Lemma blocks_facts es : forallb param_ok es = true -> forallb param_1l es = true -> es <> [] ->
  blocks es <> [] /\ Forall (fun b => b <> [] /\ Forall (fun l => l <> []) b) (blocks es) /\ Forall (fun l => one_line l = true) (fwb (blocks es)).
Proof.
  intros Hok H1 Hne. split; [unfold blocks; apply map_ne, Hne|].
  assert (A : Forall (fun p => block p <> [] /\ Forall (fun l => l <> []) (block p) /\ Forall (fun l => one_line l = true) (block p)) es).
  { apply Forall_forall. intros p Hin. rewrite forallb_forall in Hok, H1. apply block_lines; [apply Hok | apply H1]; exact Hin. }
  clear Hok H1 Hne. split.
  - unfold blocks. induction A as [|p r [B1 [B2 _]] _ IH]; cbn [map]; constructor; [split; assumption | exact IH].
  - unfold blocks. induction A as [|p r [B1 [B2 B3]] Ar IH]; [constructor|]. cbn [map]. destruct r as [|p2 r2]; [exact B3|].
    change (fwb (block p :: map block (p2 :: r2))) with (block p ++ [[]] ++ fwb (map block (p2 :: r2))).
    apply Forall_app. split; [exact B3|]. apply Forall_app. split; [repeat constructor | exact IH].
Qed.

(* ---------- the emitter writes the canonical text ---------- *)
Theorem emit_nt_is_ftext k doc es :
  clean doc = true -> one_line doc = true -> forallb param_ok es = true -> forallb param_1l es = true -> es <> [] ->
  emit_rest_indented_nt (S k) true doc es None = ftext (S k) doc es.
Proof.
  intros Hd H1 Hp Hp1 Hne. destruct (clean_parts doc Hd) as [D1 [D2 _]].
  destruct (blocks_facts es Hp Hp1 Hne) as [Bne [Bok B1l]].
  assert (Bne' : Forall (fun b => b <> []) (blocks es)) by (clear -Bok; induction Bok as [|b r [Hb _] _ IH]; constructor; assumption).
  unfold emit_rest_indented_nt. rewrite (cand_is_render doc es None Hd Hp Hne eq_refl).
  destruct (render_ends es None Hp Hne eq_refl) as [y [c [E Hc]]].
  (* the text as the join of its lines *)
  assert (EP : concat (map cat (all_lines es None)) = join [NL] (fwb (blocks es)) ++ [NL]).
  { unfold all_lines. rewrite (params_text es [NL] Hp Hne). unfold blocks.
    replace (map (emit_param true) es) with (map (join [NL]) (map block es)) by (rewrite map_map; reflexivity).
    rewrite (join2_lines (map block es) Bne Bne'). reflexivity. }
  assert (EX : join [NL] (fwb (blocks es)) = y ++ [c]).
  { rewrite EP in E. replace (y ++ [c; NL]) with ((y ++ [c]) ++ [NL]) in E by (rewrite <- app_assoc; reflexivity). apply app_inj_tail in E as [E _]. exact E. }
  assert (Xne : fwb (blocks es) <> []) by (apply fwb_ne; assumption).
  assert (ER : render doc es None = join [NL] (doc :: [] :: fwb (blocks es)) ++ [NL]).
  { unfold render. rewrite EP. rewrite (join_cons_ne [NL] doc) by discriminate. rewrite (join_cons_ne [NL] []) by exact Xne.
    rewrite <- ?app_assoc. reflexivity. }
  set (T := render doc es None) in *.
  assert (ET : T = doc ++ NL :: NL :: y ++ [c; NL]).
  { rewrite ER. rewrite (join_cons_ne [NL] doc) by discriminate. rewrite (join_cons_ne [NL] []) by exact Xne. rewrite EX. cbn [app]. rewrite <- ?app_assoc. cbn [app]. rewrite <- ?app_assoc. reflexivity. }
  assert (Hh : head_ok T = true) by (rewrite ET; apply head_ok_app, D1).
  assert (Hn : Nat.eqb (count_char NL T) 0 = false).
  { rewrite ET, count_char_app. cbn [count_char]. rewrite N.eqb_refl. destruct (count_char NL doc); reflexivity. }
  destruct T as [|t0 tr] eqn:ETT; [discriminate|]. rewrite <- ETT in *.
  rewrite (isspace_head_ok _ Hh), Hn, ER.
  rewrite (indent_doc_nt_lines k doc (fwb (blocks es)) D1 H1 Xne B1l (ex_intro _ y (ex_intro _ c (conj EX Hc)))).
  (* both sides as joins over the blocks *)
  set (tabs := tabs_of (S k)).
  assert (EL : join [NL] (map (pref tabs) (doc :: [] :: fwb (blocks es)))
               = tabs ++ doc ++ NL :: NL :: tabs ++ join (NL :: NL :: tabs) (map (join (NL :: tabs)) (blocks es))).
  { assert (Dne : doc <> []) by (destruct doc; discriminate).
    change (map (pref tabs) (doc :: [] :: fwb (blocks es))) with (pref tabs doc :: [] :: map (pref tabs) (fwb (blocks es))).
    rewrite (join_cons_ne [NL] (pref tabs doc)) by discriminate. rewrite (join_cons_ne [NL] []) by (apply map_ne, Xne).
    rewrite (join_pref_fwb tabs (blocks es) Bne Bok), (pref_ne tabs doc Dne), <- ?app_assoc. reflexivity. }
  rewrite EL. unfold ftext, grender, gall_lines. rewrite (gparams_text (S1_of (S k)) (S2nt (S k)) es (S1_of (S k)) Hp Hne).
  unfold S1_of, S2nt, blocks. fold tabs. rewrite map_map. rewrite <- ?app_assoc. cbn [app]. rewrite <- ?app_assoc. reflexivity.
Qed.

(* ---------- emitter and parser together ---------- *)
Lemma emit_nt_false k doc es : emit_rest_indented_nt k false doc es None = emit_rest_indented_nt k true doc (drop_typs es) None.
Proof. unfold emit_rest_indented_nt. rewrite (args_returns_false es None). reflexivity. Qed.

Definition fparam_1l (p : str * FuncFmt.fparam) : bool :=
  one_line (fst p) && (match FuncFmt.fp_doc (snd p) with Some d => one_line d | None => true end)
  && (match FuncFmt.fp_typ (snd p) with Some t => one_line t | None => true end).

Theorem function_roundtrip ta doc ps :
  clean doc = true -> one_line doc = true -> forallb fparam_ok ps = true -> forallb fparam_1l ps = true -> NoDup (map fst ps) -> ps <> [] ->
  FuncFmt.parse_function (FuncFmt.emit_function ta doc ps) = (doc, expected ps).
Proof.
  intros Hd H1 Hp Hp1 Hnd Hne.
  assert (ED : FuncFmt.f_doc (FuncFmt.emit_function ta doc ps) = ftext FuncFmt.INDENT doc (map (fun p => (fst p, FuncFmt.entry_of (negb ta) (snd p))) ps)).
  { unfold FuncFmt.emit_function. cbn [FuncFmt.f_doc]. unfold FuncFmt.INDENT.
    assert (Hes : forall b, forallb param_ok (map (fun p => (fst p, FuncFmt.entry_of b (snd p))) ps) = true
                            /\ forallb param_1l (map (fun p => (fst p, FuncFmt.entry_of b (snd p))) ps) = true).
    { intro b. split; apply forallb_forall; intros e He; apply in_map_iff in He as [p [<- Hin]]; rewrite forallb_forall in Hp, Hp1;
        specialize (Hp p Hin); specialize (Hp1 p Hin); unfold fparam_ok in Hp; unfold fparam_1l in Hp1;
        apply andb_true_iff in Hp as [Hp Ht]; apply andb_true_iff in Hp as [Hn Hdoc];
        apply andb_true_iff in Hp1 as [Hp1 Ht1]; apply andb_true_iff in Hp1 as [Hn1 Hd1];
        destruct (FuncFmt.fp_doc (snd p)) as [d|] eqn:EDc; try discriminate; destruct (FuncFmt.fp_typ (snd p)) as [t|] eqn:ETy; try discriminate.
      - unfold param_ok, entry_ok, FuncFmt.entry_of. cbn [fst snd pe_doc pe_typ]. rewrite Hn, EDc, ETy, Hdoc. destruct b; [rewrite Ht|]; reflexivity.
      - unfold param_1l, entry_1l, FuncFmt.entry_of. cbn [fst snd pe_doc pe_typ]. rewrite Hn1, EDc, ETy, Hd1. destruct b; [rewrite Ht1|]; reflexivity. }
    assert (Hne' : forall b, map (fun p => (fst p, FuncFmt.entry_of b (snd p))) ps <> []) by (intro b; apply map_ne, Hne).
    destruct ta; cbn [negb].
    - rewrite emit_nt_false.
      assert (EDr : drop_typs (map (fun p => (fst p, FuncFmt.entry_of true (snd p))) ps) = map (fun p => (fst p, FuncFmt.entry_of false (snd p))) ps)
        by (unfold drop_typs; rewrite map_map; reflexivity).
      rewrite EDr. destruct (Hes false) as [A B]. apply emit_nt_is_ftext; auto.
    - destruct (Hes true) as [A B]. apply emit_nt_is_ftext; auto. }
  pose proof (function_parse_canonical ta FuncFmt.INDENT doc ps Hd Hp Hnd Hne) as PC. rewrite <- ED in PC.
  exact PC.
Qed.
