(* One round of the Google / NumPy docstring formats at text level is a fixpoint: writing what was parsed back gives the same text. *)
From CDD Require Import PyStr DocSplit RestDoc RestDocProofs RestDocIndentProofs GoogleLine GoogleLineProofs GoogleHead GoogleScan GoogleScanProofs GoogleEmit
  GoogleEmitProofs NumpyLine NumpyLineProofs NumpyScan NumpyScanProofs NumpyEmit NumpyEmitProofs.
Open Scope N_scope.

(* what is parsed back, as an input of the emitter again: an empty description is no description *)
Definition reembed (p : str * option str * str) : str * option str * option str :=
  let '(n, t, d) := p in (n, t, match d with [] => None | _ => Some d end).

Lemma reembed_read e : entry_ok1 e = true -> documented e = true -> reembed (read_entry e) = e.
Proof.
  destruct e as [[n t] d]. unfold documented, read_entry, reembed, doc_text. cbn [snd]. destruct d as [x|]; [|discriminate]. intros H _.
  unfold entry_ok1 in H. apply andb_prop in H. destruct H as [H _]. apply andb_prop in H. destruct H as [H _]. apply andb_prop in H. destruct H as [H _].
  unfold entry_ok in H. apply andb_prop in H. destruct H as [_ H]. apply andb_prop in H. destruct H as [H _].
  unfold doc_ok in H. apply andb_prop in H. destruct H as [H _]. apply andb_prop in H. destruct H as [H _].
  destruct x; [discriminate | reflexivity].
Qed.

Theorem google_text_fixpoint doc es :
  clean doc = true -> es <> [] -> forallb entry_ok1 es = true -> forallb documented es = true ->
  match google_docstring (emit_google doc es) with
  | (doc', PList ps) => emit_google doc' (map reembed ps) = emit_google doc es
  | _ => False
  end.
Proof.
  intros Hd Hne H D. rewrite (google_emit_parse_roundtrip doc es Hd Hne H D). f_equal. rewrite map_map.
  rewrite <- (map_id es) at 2. apply map_ext_in. intros e He. apply reembed_read.
  - rewrite forallb_forall in H. exact (H e He).
  - rewrite forallb_forall in D. exact (D e He).
Qed.

Definition reembed_n (p : str * option str * option str) : str * option str * option str :=
  let '(n, t, d) := p in (n, t, match d with Some [] => None | x => x end).

Lemma reembed_read_n e : nentry_ok1 e = true -> reembed_n (read_nentry e) = as_entry e.
Proof.
  destruct e as [[n t] d]. unfold read_nentry, reembed_n, as_entry. destruct d as [x|]; [|reflexivity]. intro H.
  unfold nentry_ok1 in H. apply andb_prop in H. destruct H as [_ H]. apply andb_prop in H. destruct H as [_ H]. apply negb_true_iff in H.
  destruct x; [discriminate | reflexivity].
Qed.

Theorem numpy_text_fixpoint doc es :
  clean doc = true -> lacks DASH doc = true -> es <> [] -> forallb nentry_ok1 es = true -> forallb ends_visible es = true ->
  let r := numpy_docstring (emit_numpy doc (map as_entry es)) in
  emit_numpy (fst r) (map reembed_n (snd r)) = emit_numpy doc (map as_entry es).
Proof.
  intros Hd HD Hne H V. cbv zeta. rewrite (numpy_emit_parse_roundtrip doc es Hd HD Hne H V). cbn [fst snd]. f_equal. rewrite map_map.
  apply map_ext_in. intros e He. apply reembed_read_n. rewrite forallb_forall in H. exact (H e He).
Qed.
