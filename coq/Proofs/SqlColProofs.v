(* Model/SqlCol.v: one column through emit_col then parse_col. *)
From Coq Require Import Lia.
From CDD Require Import PyStr MergeProofs SqlCol.
Open Scope N_scope.

Definition plain_doc (d : str) : bool :=   (* no marker in front, no full stop at the end, not empty *)
  negb (startswith (s2l "[PK]") d) && negb (startswith (s2l "[FK") d)
  && match last_opt d with Some c => negb (c =? DOT) | None => false end.

Lemma last_opt_split {A} (l : list A) c : last_opt l = Some c -> exists r, l = r ++ [c].
Proof.
  induction l as [|x [|y t] IH]; intro H; [discriminate | injection H as ->; exists []; reflexivity|].
  destruct (IH H) as [r E]. exists (x :: r). cbn [app]. rewrite <- E. reflexivity.
Qed.

Lemma rstrip_dots_id d : match last_opt d with Some c => negb (c =? DOT) | None => false end = true -> rstrip_dots d = d.
Proof.
  intro H. destruct (last_opt d) as [c|] eqn:L; [|discriminate]. destruct (last_opt_split d c L) as [r ->].
  unfold rstrip_dots, rstrip_chars. rewrite rev_app_distr. cbn [rev app lstrip_chars existsb]. unfold ceq.
  apply negb_true_iff in H. rewrite H. cbn [orb]. change (c :: rev r) with ([c] ++ rev r). rewrite rev_app_distr, rev_involutive. reflexivity.
Qed.

Lemma plain_nonempty d : plain_doc d = true -> d <> [].
Proof. intros H ->. cbn in H. discriminate. Qed.

Definition keeps_typ (t : ityp) : bool := match t_base t with BDict => t_opt t | _ => true end.   (* JSON reads back as Optional[dict] *)

Lemma base_of_ctype t : keeps_typ t = true ->
  match (if t_opt t then Some true else None) with Some true => {| t_opt := true; t_base := t_base (base_of (ctype_of (t_base t))) |} | _ => base_of (ctype_of (t_base t)) end = t.
Proof. destruct t as [o b]. unfold keeps_typ. cbn [t_base t_opt]. destruct b, o; cbn; intro H; try reflexivity; discriminate. Qed.

(* ---- 1. a described column without default and without marker ---- *)
Theorem col_roundtrip_plain t d : keeps_typ t = true -> plain_doc d = true ->
  parse_col (emit_col {| p_typ := t; p_doc := Some d; p_default := None |}) = {| p_typ := t; p_doc := Some d; p_default := None |}.
Proof.
  intros Ht Hd. pose proof (plain_nonempty d Hd) as Ne. unfold plain_doc in Hd. apply andb_true_iff in Hd as [Hd L]. apply andb_true_iff in Hd as [P F].
  apply negb_true_iff in P, F. unfold emit_col. cbn [p_doc p_typ p_default]. rewrite P, F. cbn [orb negb andb].
  rewrite (rstrip_dots_id d L). destruct d as [|c r]; [contradiction|].
  unfold parse_col. cbn [c_type c_nullable c_comment c_pk c_fk c_default]. rewrite (base_of_ctype t Ht). reflexivity.
Qed.

(* ---- 2. the primary-key marker survives, with its description ---- *)
Definition head_ok (d : str) : bool := match d with c :: _ => negb (is_space c) | [] => false end.
Lemma lstrip_sp_head d : head_ok d = true -> lstrip (SP :: d) = d.
Proof. destruct d as [|c r]; [discriminate|]. cbn [head_ok lstrip]. intro H. apply negb_true_iff in H. cbn. rewrite H. reflexivity. Qed.

Lemma pk_prefix d : startswith (s2l "[PK]") (s2l "[PK] " ++ d) = true.
Proof. cbn. reflexivity. Qed.
Lemma pk_slice d : slice_from (s2l "[PK] " ++ d) 4 = SP :: d.
Proof.
  unfold slice_from, norm_idx, slen. rewrite app_length. cbn [length s2l String.length]. 
  change (4 <? 0)%Z with false. cbv iota. rewrite Z.min_l by (cbn [length]; lia). reflexivity.
Qed.

Theorem col_roundtrip_pk t d : keeps_typ t = true -> head_ok d = true -> match last_opt d with Some c => negb (c =? DOT) | None => false end = true ->
  let p := {| p_typ := t; p_doc := Some (s2l "[PK] " ++ d); p_default := None |} in
  c_pk (emit_col p) = true /\ c_comment (emit_col p) = Some d /\ parse_col (emit_col p) = p.
Proof.
  intros Ht Hh L. cbn zeta. unfold emit_col. cbn [p_doc p_typ p_default].
  rewrite (pk_prefix d). cbn [orb negb andb].
  rewrite (pk_slice d). rewrite (lstrip_sp_head d Hh), (rstrip_dots_id d L).
  destruct d as [|c r]; [discriminate|]. cbn [c_pk c_comment]. repeat split.
  unfold parse_col. cbn [c_type c_nullable c_comment c_pk c_fk c_default]. rewrite (base_of_ctype t Ht). reflexivity.
Qed.

(* ---- 3. a default that is not None on a non-Optional column: NOT NULL, the default kept, the description gets its full stop back ---- *)
Theorem col_roundtrip_default b d v : b <> BDict -> plain_doc d = true -> is_none_default (DVal v) = false ->
  let p := {| p_typ := {| t_opt := false; t_base := b |}; p_doc := Some d; p_default := Some (DVal v) |} in
  c_nullable (emit_col p) = Some false
  /\ parse_col (emit_col p) = {| p_typ := {| t_opt := false; t_base := b |}; p_doc := Some (d ++ [DOT]); p_default := Some (DVal v) |}.
Proof.
  intros Hb Hd Hv. pose proof (plain_nonempty d Hd) as Ne. unfold plain_doc in Hd. apply andb_true_iff in Hd as [Hd L]. apply andb_true_iff in Hd as [P F].
  apply negb_true_iff in P, F. cbn zeta. unfold emit_col. cbn [p_doc p_typ p_default t_opt t_base]. rewrite P, F, Hv. cbn [orb negb andb].
  rewrite (rstrip_dots_id d L). destruct d as [|c r]; [contradiction|]. cbn [c_nullable]. split; [reflexivity|].
  unfold parse_col. cbn [c_type c_nullable c_comment c_pk c_fk c_default]. destruct b; try reflexivity. contradiction.
Qed.

(* ---- 4. Optional[..] with the None default: stays Optional, the default stays None ---- *)
Theorem col_roundtrip_optional_none b d : plain_doc d = true ->
  let p := {| p_typ := {| t_opt := true; t_base := b |}; p_doc := Some d; p_default := Some DNoneStr |} in
  c_nullable (emit_col p) = Some true
  /\ parse_col (emit_col p) = {| p_typ := {| t_opt := true; t_base := b |}; p_doc := Some (d ++ [DOT]); p_default := Some DNoneStr |}.
Proof.
  intros Hd. pose proof (plain_nonempty d Hd) as Ne. unfold plain_doc in Hd. apply andb_true_iff in Hd as [Hd L]. apply andb_true_iff in Hd as [P F].
  apply negb_true_iff in P, F. cbn zeta. unfold emit_col. cbn [p_doc p_typ p_default t_opt t_base is_none_default]. rewrite P, F. cbn [orb negb andb].
  rewrite (rstrip_dots_id d L). destruct d as [|c r]; [contradiction|]. cbn [c_nullable]. split; [reflexivity|].
  unfold parse_col. cbn [c_type c_nullable c_comment c_pk c_fk c_default]. destruct b; reflexivity.
Qed.

(* ---- outside the domain: Optional with a non-None default loses Optional; trailing full stops are dropped; dict reads back Optional ---- *)
Example col_refuted :
  p_typ (parse_col (emit_col {| p_typ := {| t_opt := true; t_base := BInt |}; p_doc := Some (s2l "n"); p_default := Some (DVal (s2l "5")) |}))
    = {| t_opt := false; t_base := BInt |}
  /\ p_doc (parse_col (emit_col {| p_typ := {| t_opt := false; t_base := BInt |}; p_doc := Some (s2l "the a.."); p_default := None |})) = Some (s2l "the a")
  /\ p_typ (parse_col (emit_col {| p_typ := {| t_opt := false; t_base := BDict |}; p_doc := Some (s2l "d"); p_default := None |})) = {| t_opt := true; t_base := BDict |}.
Proof. repeat split; vm_compute; reflexivity. Qed.
