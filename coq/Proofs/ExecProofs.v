From CDD Require Import PyStr FuncSig FuncSigProofs Norm Exec.
Open Scope N_scope.

Theorem signature_exposes_description none_ ps :
  signature_of none_ ps = map (fun p => (fst p, Some (match snd p with Some d => d | None => none_ end))) ps.
Proof.
  unfold signature_of. rewrite <- (function_roundtrip str str none_ ps).
  unfold emit_sig. symmetry. apply defaults_alignment. rewrite !map_length. apply le_n.
Qed.

(* when every parameter is Optional, parsing no arguments yields exactly the described defaults *)
Theorem parse_args_defaults (ps : list (str * cparam)) :
  forallb (fun np => t_opt (fst (snd np))) ps = true ->
  parse_args_empty (map (fun np => (fst np, argparse_action (snd np))) ps)
  = Some (map (fun np => (fst np, described_default (snd (snd np)))) ps).
Proof.
  intro H. unfold parse_args_empty.
  assert (E : existsb (fun na => a_required (snd na)) (map (fun np => (fst np, argparse_action (snd np))) ps) = false).
  { induction ps as [|[n [t d]] r IH]; [reflexivity|]. cbn [map existsb snd fst] in *.
    apply andb_true_iff in H as [Ho Hr]. rewrite (IH Hr). unfold argparse_action. cbn [a_required]. cbn in Ho. rewrite Ho. reflexivity. }
  rewrite E. f_equal. rewrite map_map. apply map_ext. intros [n [t d]]. cbn. destruct d; reflexivity.
Qed.
