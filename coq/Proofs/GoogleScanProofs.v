(* Models GoogleHead / GoogleScan / GoogleLine composed: a whole Google-style docstring -- header prose, "Args:", one line per
   parameter -- is read back as that header and exactly those parameters. *)
From Coq Require Import Lia.
From CDD Require Import PyStr RestDocProofs RestDocIndentProofs FuncEmitProofs GoogleLine GoogleLineProofs GoogleHead GoogleHeadProofs GoogleScan.
Open Scope N_scope.

Lemma skipn_app_plus {A} (a b : list A) k : skipn (length a + k) (a ++ b) = skipn k b.
Proof. induction a as [|x a IH]; [reflexivity|]. cbn [length plus app skipn]. exact IH. Qed.

(* ---- the head, with blank text in front of the prose as well ---- *)
Theorem google_head_general (pre H sep rest : str) :
  blank pre = true -> head_ok H = true -> head_ok (rev H) = true -> lacks GCOLON H = true -> blank sep = true ->
  google_scan_head (pre ++ H ++ sep ++ ARGS ++ rest) = (H, Some (skipn 1 rest)) /\ google_ir_doc (pre ++ H ++ sep ++ ARGS ++ rest) = H.
Proof.
  intros BP H1 H2 HC B.
  assert (E : google_scan_head (pre ++ H ++ sep ++ ARGS ++ rest) = (H, Some (skipn 1 rest))).
  { unfold google_scan_head.
    replace (pre ++ H ++ sep ++ ARGS ++ rest) with ((pre ++ H ++ sep) ++ ARGS ++ rest) by (rewrite <- !app_assoc; reflexivity).
    rewrite index_of_after by (rewrite !lacks_app, HC, (blank_lacks_colon sep B), (blank_lacks_colon pre BP); reflexivity).
    rewrite firstn_app, firstn_all, Nat.sub_diag. cbn [firstn]. rewrite app_nil_r.
    unfold white_spacer.
    assert (NS : isspace (pre ++ H ++ sep) = false).
    { unfold isspace. destruct (pre ++ H ++ sep) eqn:K; [reflexivity|]. rewrite <- K. rewrite !forallb_app.
      destruct H as [|h H']; [discriminate|]. cbn [forallb]. cbn [head_ok] in H1. apply negb_true_iff in H1. rewrite H1.
      rewrite andb_false_r. reflexivity. }
    rewrite NS. rewrite (strip_padded pre H sep BP B H1 H2).
    f_equal. f_equal.
    replace (length (pre ++ H ++ sep) + length ARGS + 1)%nat with (length ((pre ++ H ++ sep) ++ ARGS) + 1)%nat by (rewrite (app_length (pre ++ H ++ sep) ARGS); reflexivity).
    rewrite (app_assoc (pre ++ H ++ sep) ARGS rest). apply skipn_app_plus. }
  split; [exact E|]. unfold google_ir_doc. rewrite E. cbn [fst].
  assert (NS : isspace H = false).
  { destruct H as [|h H']; [discriminate|]. cbn [isspace forallb]. cbn [head_ok] in H1. apply negb_true_iff in H1. rewrite H1. reflexivity. }
  rewrite NS. apply lstrip_head_ok. exact H1.
Qed.

(* ---- lines -> units ---- *)
Lemma form_units_flat fi : forall lines acc, Forall (fun l => indent_of l = fi) lines ->
  form_units fi lines acc = (acc ++ map (fun l => [l]) lines, []).
Proof.
  induction lines as [|l r IH]; intros acc H; cbn [form_units map]; [rewrite app_nil_r; reflexivity|].
  inversion H as [|? ? Hl Hr]; subst. rewrite Nat.eqb_refl. rewrite (IH _ Hr). rewrite <- app_assoc. reflexivity.
Qed.

Lemma indent_of_emit (n : str) (t d : option str) : head_ok n = true -> indent_of (emit_google_param n t d) = 2%nat.
Proof.
  intro H. unfold emit_google_param. cbn [app indent_of]. replace (is_space SP) with true by reflexivity.
  destruct n as [|c n']; [discriminate|]. cbn [app indent_of]. cbn [head_ok] in H. apply negb_true_iff in H. rewrite H. reflexivity.
Qed.

(* ---- a one-line unit is read like its line ---- *)
Lemma lstrip_idem : forall s, lstrip (lstrip s) = lstrip s.
Proof. induction s as [|c r IH]; [reflexivity|]. cbn [lstrip]. destruct (is_space c) eqn:E; [exact IH|]. cbn [lstrip]. rewrite E. reflexivity. Qed.

Lemma strip_lstrip s : strip (lstrip s) = strip s.
Proof. unfold strip. rewrite lstrip_idem. reflexivity. Qed.

Lemma unit_ok_doc l n t d : parse_google_unit l = UOk n t d -> exists pre post, break_at GCOLON l = Some (pre, post) /\ d = strip post.
Proof.
  unfold parse_google_unit. destruct (break_at GCOLON l) as [[pre post]|]; [|discriminate].
  intro H. exists pre, post. split; [reflexivity|].
  destruct (break_at LP (lstrip pre)) as [[a b]|].
  - destruct (rstrip (LP :: b)); [injection H; intros; subst; reflexivity|].
    destruct (startswith [LP] _ && endswith [RP] _); [|discriminate].
    destruct (Nat.ltb 3 _ && _ && _); [discriminate|]. injection H; intros; subst; reflexivity.
  - cbn [rstrip rev lstrip] in H. injection H; intros; subst; reflexivity.
Qed.

Lemma google_unit_single l : google_unit [l] = parse_google_unit l.
Proof.
  unfold google_unit. destruct (parse_google_unit l) as [n t d| | |] eqn:E; try (destruct (break_at GCOLON l) as [[? ?]|]; reflexivity).
  destruct (unit_ok_doc l n t d E) as [pre [post [B ->]]]. rewrite B. cbn [join]. rewrite strip_lstrip. reflexivity.
Qed.

Lemma units_single : forall L,
  map google_unit (take_until unit_is_afterward (map (fun l => [l]) L)) = map parse_google_unit (take_until is_afterward L).
Proof.
  induction L as [|l r IH]; [reflexivity|]. cbn [map take_until unit_is_afterward].
  destruct (is_afterward l); [reflexivity|]. cbn [map]. rewrite google_unit_single, IH. reflexivity.
Qed.

(* ---- text -> lines ---- *)
Definition entry_ok1 (e : entry) : bool :=
  let '(n, t, d) := e in
  entry_ok e && one_line n && match t with Some x => one_line x | None => true end && match d with Some x => one_line x | None => true end.

Lemma one_line_app a b : one_line (a ++ b) = one_line a && one_line b.
Proof. apply forallb_app. Qed.

Lemma emit_one_line e : entry_ok1 e = true -> one_line (emit_entry e) = true.
Proof.
  destruct e as [[n t] d]. unfold entry_ok1, emit_entry, emit_google_param. intro H.
  apply andb_prop in H. destruct H as [H Hd]. apply andb_prop in H. destruct H as [H Ht]. apply andb_prop in H. destruct H as [_ Hn].
  rewrite !one_line_app, Hn.
  destruct t as [t|]; destruct d as [d|]; rewrite ?one_line_app, ?Ht, ?Hd; reflexivity.
Qed.

Lemma emit_nonempty e : emit_entry e <> [].
Proof. destruct e as [[n t] d]. unfold emit_entry, emit_google_param. cbn [app]. discriminate. Qed.

Lemma last_opt_map_ne {A} (f : A -> str) : forall l, (forall x, f x <> []) -> last_opt (map f l) <> Some [].
Proof.
  induction l as [|x r IH]; intros H; [discriminate|].
  destruct r as [|y r']; [cbn; intro Q; injection Q; apply H|].
  change (last_opt (map f (x :: y :: r'))) with (last_opt (map f (y :: r'))). apply IH. exact H.
Qed.

Lemma splitlines_join es : es <> [] -> forallb entry_ok1 es = true -> splitlines (join [NL] (map emit_entry es)) = map emit_entry es.
Proof.
  intros Hne H. unfold splitlines. rewrite split_join.
  - destruct (last_opt (map emit_entry es)) as [[|c r]|] eqn:K; try reflexivity.
    exfalso. exact (last_opt_map_ne emit_entry es emit_nonempty K).
  - destruct es; [contradiction | discriminate].
  - apply Forall_forall. intros l Hl. apply in_map_iff in Hl. destruct Hl as [e [<- He]]. apply emit_one_line.
    rewrite forallb_forall in H. apply H. exact He.
Qed.

(* ---- the whole docstring ---- *)
Theorem google_docstring_roundtrip (pre H sep : str) (es : list entry) :
  blank pre = true -> head_ok H = true -> head_ok (rev H) = true -> lacks GCOLON H = true -> blank sep = true ->
  es <> [] -> forallb entry_ok1 es = true ->
  google_docstring (pre ++ H ++ sep ++ ARGS ++ [NL] ++ join [NL] (map emit_entry es)) = (H, PList (map read_entry es)).
Proof.
  intros BP H1 H2 HC B Hne Hes. unfold google_docstring.
  destruct (google_head_general pre H sep ([NL] ++ join [NL] (map emit_entry es)) BP H1 H2 HC B) as [E1 E2].
  rewrite E1, E2. cbn [app skipn]. f_equal.
  unfold section_units. rewrite (splitlines_join es Hne Hes).
  assert (OK : forallb entry_ok es = true).
  { rewrite forallb_forall in *. intros e He. specialize (Hes e He). destruct e as [[n t] d]. unfold entry_ok1 in Hes.
    apply andb_prop in Hes. destruct Hes as [Hes _]. apply andb_prop in Hes. destruct Hes as [Hes _]. apply andb_prop in Hes. tauto. }
  assert (IND : Forall (fun l => indent_of l = 2%nat) (map emit_entry es)).
  { apply Forall_forall. intros l Hl. apply in_map_iff in Hl. destruct Hl as [[[n t] d] [<- He]].
    rewrite forallb_forall in OK. specialize (OK _ He). unfold entry_ok in OK.
    apply andb_prop in OK. destruct OK as [OK _]. apply andb_prop in OK. destruct OK as [OK _]. unfold name_ok in OK.
    apply andb_prop in OK. destruct OK as [OK _]. apply andb_prop in OK. destruct OK as [OK _]. apply andb_prop in OK. destruct OK as [OK _].
    apply indent_of_emit. exact OK. }
  destruct (map emit_entry es) as [|l0 r0] eqn:K; [destruct es; [contradiction | discriminate]|].
  rewrite <- K in *.
  assert (FI : indent_of l0 = 2%nat) by (rewrite K in IND; inversion IND; assumption).
  rewrite FI. rewrite (form_units_flat 2 _ [] IND). cbn [fst app]. rewrite units_single.
  exact (google_params_roundtrip es OK).
Qed.

Example google_docstring_example :
  google_docstring ([NL] ++ s2l "Load the dataset." ++ [NL; NL] ++ s2l "Rows are kept in order." ++ [NL; NL] ++ s2l "Args:" ++ [NL]
                    ++ s2l "  name (str): dataset to load" ++ [NL] ++ s2l "  batch_size (int): " ++ [NL] ++ s2l "  shuffle: randomise the row order")
  = (s2l "Load the dataset." ++ [NL; NL] ++ s2l "Rows are kept in order.",
     PList [(s2l "name", Some (s2l "str"), s2l "dataset to load"); (s2l "batch_size", Some (s2l "int"), []); (s2l "shuffle", None, s2l "randomise the row order")]).
Proof. vm_compute. reflexivity. Qed.
