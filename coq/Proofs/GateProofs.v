From Coq Require Import List String Bool.
Import ListNotations.
From CDD Require Import PyStr Gate.

Lemma mem_not_nil m l : mem_str m l = true -> is_nil l = false.
Proof. destruct l; [discriminate | reflexivity]. Qed.

(* a formula that agrees with the specification on the (consistent part of the) 16-row truth table is correct on all lists *)
Theorem gate_correct_from_table g :
  (forall ib iw be we, (ib = true -> be = false) -> (iw = true -> we = false) -> eval4 ib iw be we g = Some (gate_spec ib iw be we)) ->
  forall bl wl m, proceeds g bl wl m = Some (negb (mem_str m bl) && (is_nil wl || mem_str m wl)).
Proof. intros H bl wl m. unfold proceeds. rewrite H; [reflexivity | apply mem_not_nil | apply mem_not_nil]. Qed.

Corollary blacklisted_never_proceeds g bl wl m :
  proceeds g bl wl m = Some (negb (mem_str m bl) && (is_nil wl || mem_str m wl)) -> mem_str m bl = true -> proceeds g bl wl m = Some false.
Proof. intros H Hb. rewrite H, Hb. reflexivity. Qed.

Corollary not_whitelisted_never_proceeds g bl wl m :
  proceeds g bl wl m = Some (negb (mem_str m bl) && (is_nil wl || mem_str m wl)) -> is_nil wl = false -> mem_str m wl = false ->
  proceeds g bl wl m = Some false.
Proof. intros H Hn Hw. rewrite H, Hn, Hw. apply f_equal, andb_false_r. Qed.
