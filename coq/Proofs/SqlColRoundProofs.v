(* Model/SqlCol.v: one round (emit a column, read it back) is idempotent for every parameter whose description carries no key marker --
   whatever the type, the default and the number of full stops at the end of the description. *)
From Coq Require Import Lia.
From CDD Require Import PyStr SqlCol SqlColProofs.
Open Scope N_scope.

Definition PKM : str := Eval vm_compute in s2l "[PK]".
Definition FKM : str := Eval vm_compute in s2l "[FK".
Definition doc_of (p : param) : str := match p_doc p with Some d => d | None => [] end.
Definition no_marker (d : str) : bool := negb (startswith PKM d) && negb (startswith FKM d).
Definition round (p : param) : param := parse_col (emit_col p).

Lemma lstrip_chars_suffix cs : forall s, exists u, s = u ++ lstrip_chars cs s.
Proof.
  induction s as [|c r IH]; cbn [lstrip_chars]; [exists []; reflexivity|].
  destruct (existsb (ceq c) cs); [|exists []; reflexivity].
  destruct IH as [u Hu]. exists (c :: u). cbn [app]. rewrite <- Hu. reflexivity.
Qed.

Lemma rstrip_chars_prefix cs s : exists t, s = rstrip_chars cs s ++ t.
Proof.
  unfold rstrip_chars. destruct (lstrip_chars_suffix cs (rev s)) as [u Hu]. exists (rev u).
  rewrite <- rev_app_distr, <- Hu, rev_involutive. reflexivity.
Qed.

Lemma lstrip_chars_idem cs : forall s, lstrip_chars cs (lstrip_chars cs s) = lstrip_chars cs s.
Proof.
  induction s as [|c r IH]; cbn [lstrip_chars]; [reflexivity|].
  destruct (existsb (ceq c) cs) eqn:E; [exact IH|]. cbn [lstrip_chars]. rewrite E. reflexivity.
Qed.

Lemma rstrip_chars_idem cs s : rstrip_chars cs (rstrip_chars cs s) = rstrip_chars cs s.
Proof. unfold rstrip_chars. rewrite rev_involutive, lstrip_chars_idem. reflexivity. Qed.

Lemma rstrip_dots_snoc s : rstrip_dots (s ++ [DOT]) = rstrip_dots s.
Proof. unfold rstrip_dots, rstrip_chars. rewrite rev_app_distr. reflexivity. Qed.

Lemma startswith_app p : forall a b, startswith p a = true -> startswith p (a ++ b) = true.
Proof.
  induction p as [|x p IH]; intros a b H; [reflexivity|].
  destruct a as [|y a]; cbn [startswith app] in *; [discriminate|].
  apply andb_prop in H. destruct H as [H1 H2]. rewrite H1, (IH _ _ H2). reflexivity.
Qed.

Lemma startswith_snoc x p : ~ In x p -> forall a, startswith p (a ++ [x]) = true -> startswith p a = true.
Proof.
  induction p as [|y p IH]; intros Hx a H; [reflexivity|].
  destruct a as [|z a]; cbn [startswith app] in *.
  - apply andb_prop in H. destruct H as [H1 _]. apply N.eqb_eq in H1. exfalso. apply Hx. left. exact H1.
  - apply andb_prop in H. destruct H as [H1 H2]. rewrite H1. cbn [andb]. apply IH; [|exact H2]. intro K. apply Hx. right. exact K.
Qed.

Lemma no_marker_prefix a b : no_marker (a ++ b) = true -> no_marker a = true.
Proof.
  unfold no_marker. intro H. apply andb_prop in H. destruct H as [H1 H2].
  destruct (startswith PKM a) eqn:E1; [rewrite (startswith_app _ _ b E1) in H1; discriminate|].
  destruct (startswith FKM a) eqn:E2; [rewrite (startswith_app _ _ b E2) in H2; discriminate|]. reflexivity.
Qed.

Lemma no_marker_snoc_dot a : no_marker a = true -> no_marker (a ++ [DOT]) = true.
Proof.
  unfold no_marker. intro H. apply andb_prop in H. destruct H as [H1 H2].
  destruct (startswith PKM (a ++ [DOT])) eqn:E1.
  { rewrite (startswith_snoc DOT PKM) in H1; [discriminate| |exact E1]. vm_compute. intuition discriminate. }
  destruct (startswith FKM (a ++ [DOT])) eqn:E2.
  { rewrite (startswith_snoc DOT FKM) in H2; [discriminate| |exact E2]. vm_compute. intuition discriminate. }
  reflexivity.
Qed.

Lemma emit_no_marker p : no_marker (doc_of p) = true ->
  emit_col p = {| c_type := ctype_of (t_base (p_typ p)); c_fk := None; c_pk := false;
                  c_comment := match rstrip_dots (doc_of p) with [] => None | c => Some c end; c_default := p_default p;
                  c_nullable := match p_default p with
                                | Some d => if is_none_default d then (if t_opt (p_typ p) then Some true else None) else Some false
                                | None => if t_opt (p_typ p) then Some true else None
                                end |}.
Proof.
  unfold no_marker, emit_col, doc_of. intro H. apply andb_prop in H. destruct H as [H1 H2].
  change (s2l "[PK]") with PKM. change (s2l "[FK") with FKM.
  destruct (startswith PKM _); [discriminate|]. destruct (startswith FKM _); [discriminate|]. reflexivity.
Qed.

Lemma base_round b : t_base (base_of (ctype_of b)) = b.
Proof. destruct b; reflexivity. Qed.

Theorem col_round_idempotent p : no_marker (doc_of p) = true -> round (round p) = round p.
Proof.
  intro H. unfold round at 2 3. rewrite (emit_no_marker p H).
  destruct (rstrip_chars_prefix [DOT] (doc_of p)) as [t Ht]. fold (rstrip_dots (doc_of p)) in Ht.
  assert (Hc : no_marker (rstrip_dots (doc_of p)) = true) by (apply (no_marker_prefix _ t); rewrite <- Ht; exact H).
  assert (Hi : rstrip_dots (rstrip_dots (doc_of p)) = rstrip_dots (doc_of p)) by apply rstrip_chars_idem.
  set (c := rstrip_dots (doc_of p)) in *. clearbody c. clear Ht t H.
  destruct p as [[o b] d df]. cbn [p_typ p_default t_opt t_base].
  unfold round.
  destruct c as [|c0 cr].
  - (* nothing left of the description *)
    unfold parse_col at 2. cbn [c_type c_nullable c_comment c_pk c_fk c_default].
    destruct df as [dv|]; [destruct (is_none_default dv) eqn:En|]; destruct o; destruct b;
      (rewrite emit_no_marker; [|reflexivity]); cbn [p_typ p_default t_opt t_base doc_of p_doc base_of ctype_of];
      rewrite ?En; reflexivity.
  - set (cc := c0 :: cr) in *.
    destruct df as [dv|].
    + unfold parse_col at 2. cbn [c_type c_nullable c_comment c_pk c_fk c_default].
      assert (Hm : no_marker (cc ++ [DOT]) = true) by (apply no_marker_snoc_dot; exact Hc).
      assert (Hr : rstrip_dots (cc ++ [DOT]) = cc) by (rewrite rstrip_dots_snoc; exact Hi).
      destruct (is_none_default dv) eqn:En; destruct o; destruct b;
        (rewrite emit_no_marker; [|exact Hm]); cbn [p_typ p_default t_opt t_base doc_of p_doc base_of ctype_of]; rewrite ?En, Hr;
        unfold cc; reflexivity.
    + unfold parse_col at 2. cbn [c_type c_nullable c_comment c_pk c_fk c_default].
      destruct o; destruct b; (rewrite emit_no_marker; [|exact Hc]); cbn [p_typ p_default t_opt t_base doc_of p_doc base_of ctype_of];
        rewrite Hi; unfold cc; reflexivity.
Qed.

(* outside: with a marker in front the round is still idempotent on the witness, but a description that is only dots disappears *)
Example col_round_example :
  round (round {| p_typ := {| t_opt := false; t_base := BStr |}; p_doc := Some (s2l "the unit, in m/s etc..."); p_default := None |})
  = round {| p_typ := {| t_opt := false; t_base := BStr |}; p_doc := Some (s2l "the unit, in m/s etc..."); p_default := None |}
  /\ p_doc (round {| p_typ := {| t_opt := false; t_base := BStr |}; p_doc := Some (s2l "the unit, in m/s etc..."); p_default := None |})
     = Some (s2l "the unit, in m/s etc").
Proof. split; vm_compute; reflexivity. Qed.
