(* set_value keeps every text that is at most two characters long or does not wear a matching pair of quotes; it differs from
   pure_utils.unquote exactly on the two-character texts '' and "". *)
From Coq Require Import Lia.
From CDD Require Import PyStr DefaultDoc Quote SetValue.
Open Scope N_scope.

Theorem set_value_keeps s : (length s <= 2)%nat \/ wears_quotes s = false -> set_value_text s = s.
Proof.
  intros [H|H]; unfold set_value_text.
  - replace (Nat.ltb 2 (length s)) with false by (symmetry; apply Nat.ltb_ge; lia). reflexivity.
  - rewrite H, andb_false_r. reflexivity.
Qed.

Theorem set_value_strips s : (2 < length s)%nat -> wears_quotes s = true -> set_value_text s = removelast (tl s).
Proof.
  intros H W. unfold set_value_text. rewrite W. replace (Nat.ltb 2 (length s)) with true by (symmetry; apply Nat.ltb_lt; lia). reflexivity.
Qed.

(* the relation to unquote: the same function except on texts of exactly two characters *)
Theorem set_value_vs_unquote s : length s <> 2%nat -> set_value_text s = unquote s.
Proof.
  intro H. unfold set_value_text, unquote, wears_quotes.
  destruct (Nat.ltb 2 (length s)) eqn:E2.
  - apply Nat.ltb_lt in E2. replace (Nat.ltb 1 (length s)) with true by (symmetry; apply Nat.ltb_lt; lia). reflexivity.
  - apply Nat.ltb_ge in E2. replace (Nat.ltb 1 (length s)) with false by (symmetry; apply Nat.ltb_ge; lia). reflexivity.
Qed.

Example set_value_examples :
  set_value_text (s2l "''") = s2l "''" /\ set_value_text [DQ; DQ] = [DQ; DQ] /\ set_value_text (s2l "'") = s2l "'"
  /\ set_value_text (s2l "NULL") = s2l "NULL" /\ unquote (s2l "''") = [].
Proof. repeat split; vm_compute; reflexivity. Qed.

(* outside: a member that is itself written in quotes loses them *)
Example set_value_refuted : set_value_text (s2l "'ab'") = s2l "ab" /\ wears_quotes (s2l "'ab'") = true.
Proof. split; vm_compute; reflexivity. Qed.
