From Coq Require Import Lia ZifyBool ZifyNat.
From CDD Require Import PyStr DocSplit.
Open Scope N_scope.

(* ---- the three slices always concatenate to the docstring ------------------------------------- *)
Lemma skipn_skipn' {A} (l : list A) : forall a b, skipn a (skipn b l) = skipn (b + a) l.
Proof.
  induction l as [|x l IH]; intros a b; [rewrite !skipn_nil; reflexivity|].
  destruct b; cbn; [reflexivity|apply IH].
Qed.
Lemma firstn_skipn_split {A} (l : list A) (a b : nat) : (a <= b)%nat ->
  firstn a l ++ firstn (b - a) (skipn a l) ++ skipn b l = l.
Proof.
  intro H. rewrite <- (firstn_skipn a l) at 4. f_equal.
  rewrite <- (firstn_skipn (b - a) (skipn a l)) at 2. f_equal.
  rewrite skipn_skipn'. f_equal. lia.
Qed.

Lemma slen_nonneg s : (0 <= slen s)%Z. Proof. unfold slen. lia. Qed.

Theorem split3_concat doc s l :
  (-1 <= s)%Z -> (-1 <= l)%Z -> (s = -1 \/ l = -1 \/ s <= l)%Z ->
  concat3 (split3 doc s l) = doc.
Proof.
  intros Hs Hl Hord. unfold concat3, split3, slice_to, slice_from, slice, norm_idx.
  pose proof (slen_nonneg doc) as Hn. set (n := slen doc) in *.
  assert (Hlen : Z.of_nat (length doc) = n) by reflexivity.
  assert (Hm0 : Z.min 0 n = 0%Z) by lia.
  destruct (-1 <? s)%Z eqn:Es; destruct (-1 <? l)%Z eqn:El; destruct (l =? -1)%Z eqn:El1; try lia.
  - (* both present *)
    replace (s <? 0)%Z with false by lia. replace (l <? 0)%Z with false by lia. replace (0 <? 0)%Z with false by lia.
    rewrite Hm0, Z.sub_0_r. change (Z.to_nat 0) with O. rewrite skipn_O.
    replace (Z.to_nat (Z.min l n - Z.min s n)) with (Z.to_nat (Z.min l n) - Z.to_nat (Z.min s n))%nat by lia.
    apply firstn_skipn_split. lia.
  - (* start present, last = -1 : footer None, args = doc[s:] *)
    replace (s <? 0)%Z with false by lia. replace (n <? 0)%Z with false by lia. replace (0 <? 0)%Z with false by lia.
    rewrite Hm0, Z.sub_0_r, Z.min_id, app_nil_r. change (Z.to_nat 0) with O. rewrite skipn_O.
    rewrite <- (firstn_skipn (Z.to_nat (Z.min s n)) doc) at 3. f_equal.
    apply firstn_all2. rewrite skipn_length. lia.
  - (* start = -1, last present *)
    replace (l <? 0)%Z with false by lia. replace (0 <? 0)%Z with false by lia.
    rewrite Hm0, Z.sub_0_r. change (Z.to_nat 0) with O. rewrite skipn_O. cbn [app].
    apply firstn_skipn.
  - (* neither *)
    replace (n <? 0)%Z with false by lia. replace (0 <? 0)%Z with false by lia.
    rewrite Hm0, Z.sub_0_r, Z.min_id, app_nil_r. change (Z.to_nat 0) with O. rewrite skipn_O. cbn [app].
    apply firstn_all2. lia.
Qed.

(* ---- the start index is the start of a line ---------------------------------------------------- *)
Definition line_start (doc : str) (p : nat) : Prop :=
  p = O \/ nth_error doc (p - 1) = Some NL.

Lemma scan_line_start doc : forall rest pre0 stack_rev z,
  doc = pre0 ++ rev stack_rev ++ rest ->
  (pre0 = [] \/ exists q, pre0 = q ++ [NL]) ->
  scan doc rest (length pre0 + length stack_rev) stack_rev = z ->
  z = (-1)%Z \/ (z = Z.of_nat (length pre0) /\ (length pre0 <= length doc)%nat /\ line_start doc (length pre0))
            \/ (exists p, z = Z.of_nat p /\ (p <= length doc)%nat /\ line_start doc p).
Proof.
  induction rest as [|c r IH]; intros pre0 st z Hdoc Hpre Hz; cbn [scan] in Hz.
  - left. congruence.
  - destruct (c =? NL) eqn:Ec.
    + destruct (triggers doc _ (rev st)).
      * right. left. split; [lia|]. split.
        { subst doc. rewrite !app_length. lia. }
        destruct Hpre as [->|[q ->]]; [left; reflexivity|].
        right. subst doc. rewrite app_length. cbn [length].
        replace (length q + 1 - 1)%nat with (length q) by lia.
        rewrite <- app_assoc. rewrite nth_error_app2 by lia. rewrite Nat.sub_diag. reflexivity.
      * apply N.eqb_eq in Ec. subst c.
        specialize (IH (pre0 ++ rev st ++ [NL]) [] z).
        destruct IH as [H|[H|H]].
        { subst doc. cbn [rev app]. rewrite <- !app_assoc. reflexivity. }
        { right. exists (pre0 ++ rev st). rewrite app_assoc. reflexivity. }
        { rewrite <- Hz. f_equal. rewrite !app_length, rev_length. cbn [length]. lia. }
        { left. exact H. }
        { right. right. destruct H as [-> [H1 H2]]. eexists. split; [reflexivity|]. split; assumption. }
        { right. right. exact H. }
    + specialize (IH pre0 (c :: st) z).
      destruct IH as [H|[H|H]].
      { subst doc. cbn [rev]. rewrite <- !app_assoc. reflexivity. }
      { exact Hpre. }
      { rewrite <- Hz. f_equal. cbn [length]. lia. }
      { left. exact H. }
      { right. left. exact H. }
      { right. right. exact H. }
Qed.

Theorem start_idx_line_start doc :
  get_token_start_idx doc = (-1)%Z \/
  exists p, get_token_start_idx doc = Z.of_nat p /\ (p <= length doc)%nat /\ line_start doc p.
Proof.
  unfold get_token_start_idx.
  destruct (scan_line_start doc doc [] [] _ eq_refl (or_introl eq_refl) eq_refl) as [H|[H|H]].
  - left. exact H.
  - right. exists O. destruct H as [H1 [H2 H3]]. repeat split; [exact H1 | lia | left; reflexivity].
  - right. exact H.
Qed.

(* ---- re-assembly keeps the header as a prefix and the footer as a suffix ----------------------- *)
Theorem header_is_prefix header args_returns footer :
  exists rest, header_args_footer_to_str header args_returns footer = header ++ rest.
Proof. unfold header_args_footer_to_str. eexists. reflexivity. Qed.

Theorem footer_is_suffix header args_returns footer :
  exists pre, header_args_footer_to_str header args_returns footer = pre ++ footer.
Proof. unfold header_args_footer_to_str. eexists. rewrite !app_assoc. reflexivity. Qed.
