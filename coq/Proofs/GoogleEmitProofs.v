(* The Google round trip as text: what the docstring emitter writes for a description and its documented parameters is read back as
   that description and exactly those parameters. *)
From Coq Require Import Lia.
From CDD Require Import PyStr DocSplit RestDoc RestDocProofs RestDocIndentProofs FuncEmitProofs GoogleLine GoogleLineProofs GoogleHead GoogleHeadProofs
  GoogleScan GoogleScanProofs GoogleEmit NumpyLineProofs.
Open Scope N_scope.

(* every entry carries a description (the last line then ends in a visible character) *)
Definition documented (e : entry) : bool := match snd e with Some _ => true | None => false end.

Lemma join_snoc_empty : forall L : list str, L <> [] -> join [NL] (L ++ [[]]) = join [NL] L ++ [NL].
Proof.
  induction L as [|l r IH]; intro H; [contradiction|]. destruct r as [|l2 r2]; [cbn; rewrite ?app_nil_r; reflexivity|].
  change ((l :: l2 :: r2) ++ [[]]) with (l :: ((l2 :: r2) ++ [[]])).
  assert (E : forall x y (t : list str), join [NL] (x :: y :: t) = x ++ [NL] ++ join [NL] (y :: t)) by reflexivity.
  cbn [app]. rewrite E. change (l2 :: r2 ++ [[]]) with ((l2 :: r2) ++ [[]]). rewrite IH by discriminate. rewrite E. rewrite <- !app_assoc. reflexivity.
Qed.

Lemma splitlines_join_nl es : es <> [] -> forallb entry_ok1 es = true ->
  splitlines (join [NL] (map emit_entry es) ++ [NL]) = map emit_entry es.
Proof.
  intros Hne H. assert (M : map emit_entry es <> []) by (destruct es; [contradiction | discriminate]).
  rewrite <- (join_snoc_empty _ M). unfold splitlines. rewrite split_join.
  - match goal with |- context [last_opt ?X] => replace (last_opt X) with (Some (@nil char)) by (symmetry; apply last_opt_snoc) end. apply removelast_last.
  - destruct (map emit_entry es); discriminate.
  - apply Forall_app. split; [|constructor; [reflexivity | constructor]].
    apply Forall_forall. intros l Hl. apply in_map_iff in Hl. destruct Hl as [e [<- He]]. apply emit_one_line.
    rewrite forallb_forall in H. apply H. exact He.
Qed.

(* the parse side with a line break after the last parameter *)
Theorem google_docstring_roundtrip_nl (pre H sep : str) (es : list entry) :
  blank pre = true -> head_ok H = true -> head_ok (rev H) = true -> lacks GCOLON H = true -> blank sep = true ->
  es <> [] -> forallb entry_ok1 es = true ->
  google_docstring (pre ++ H ++ sep ++ ARGS ++ [NL] ++ join [NL] (map emit_entry es) ++ [NL]) = (H, PList (map read_entry es)).
Proof.
  intros BP H1 H2 HC B Hne Hes. unfold google_docstring.
  destruct (google_head_general pre H sep ([NL] ++ join [NL] (map emit_entry es) ++ [NL]) BP H1 H2 HC B) as [E1 E2].
  rewrite E1, E2. cbn [app skipn]. f_equal.
  unfold section_units. rewrite (splitlines_join_nl es Hne Hes).
  assert (OK : forallb entry_ok es = true).
  { rewrite forallb_forall in *. intros e He. specialize (Hes e He). destruct e as [[n t] d]. unfold entry_ok1 in Hes.
    apply andb_prop in Hes. destruct Hes as [Hes _]. apply andb_prop in Hes. destruct Hes as [Hes _]. apply andb_prop in Hes. tauto. }
  assert (IND : Forall (fun l => indent_of l = 2%nat) (map emit_entry es)).
  { apply Forall_forall. intros l Hl. apply in_map_iff in Hl. destruct Hl as [[[n t] d] [<- He]].
    rewrite forallb_forall in OK. specialize (OK _ He). unfold entry_ok in OK.
    apply andb_prop in OK. destruct OK as [OK _]. apply andb_prop in OK. destruct OK as [OK _]. unfold name_ok in OK.
    apply andb_prop in OK. destruct OK as [OK _]. apply andb_prop in OK. destruct OK as [OK _]. apply andb_prop in OK. destruct OK as [OK _].
    apply indent_of_emit. exact OK. }
  destruct (map emit_entry es) as [|l0 r0] eqn:K; [destruct es; [contradiction | discriminate]|].
  rewrite <- K in *.
  assert (FI : indent_of l0 = 2%nat) by (rewrite K in IND; inversion IND; assumption).
  rewrite FI. rewrite (form_units_flat 2 _ [] IND). cbn [fst app]. rewrite units_single.
  exact (google_params_roundtrip es OK).
Qed.

Lemma count_char_in c : forall l, In c l -> count_char c l <> O.
Proof.
  induction l as [|x l IH]; intros H; [contradiction|]. cbn [count_char]. destruct (N.eqb_spec x c) as [E|E]; [discriminate|].
  destruct H as [H|H]; [contradiction | exact (IH H)].
Qed.

(* the emitter's text, in closed form *)
Lemma emit_entry_eq es : map (fun e : str * option str * option str => emit_google_param (fst (fst e)) (snd (fst e)) (snd e)) es = map emit_entry es.
Proof. apply map_ext. intros [[n t] d]. reflexivity. Qed.

Lemma last_line_tail_ok : forall es, es <> [] -> forallb entry_ok1 es = true -> forallb documented es = true ->
  tail_ok (join [NL] (map emit_entry es)) = true.
Proof.
  induction es as [|e r IH]; intros Hne H D; [contradiction|].
  cbn [forallb] in H, D. apply andb_prop in H. destruct H as [He Hr]. apply andb_prop in D. destruct D as [De Dr].
  destruct r as [|e2 r2].
  - cbn [map join]. destruct e as [[n t] d]. unfold documented in De. cbn [snd] in De. destruct d as [x|]; [|discriminate].
    unfold emit_entry, emit_google_param.
    unfold entry_ok1 in He. apply andb_prop in He. destruct He as [He _]. apply andb_prop in He. destruct He as [He _]. apply andb_prop in He. destruct He as [He _].
    unfold entry_ok in He. apply andb_prop in He. destruct He as [_ Hd]. apply andb_prop in Hd. destruct Hd as [Hd _].
    unfold doc_ok in Hd. apply andb_prop in Hd. destruct Hd as [Hd _]. apply andb_prop in Hd. destruct Hd as [_ T].
    rewrite !app_assoc. apply tail_ok_app_r. exact T.
  - change (map emit_entry (e :: e2 :: r2)) with (emit_entry e :: map emit_entry (e2 :: r2)).
    assert (E : forall x y (t : list str), join [NL] (x :: y :: t) = x ++ [NL] ++ join [NL] (y :: t)) by reflexivity.
    change (map emit_entry (e2 :: r2)) with (emit_entry e2 :: map emit_entry r2). rewrite E.
    rewrite !app_assoc. apply tail_ok_app_r. apply IH; [discriminate | exact Hr | exact Dr].
Qed.

Theorem emit_google_text doc es : clean doc = true -> es <> [] -> forallb entry_ok1 es = true -> forallb documented es = true ->
  emit_google doc es = doc ++ [NL; NL] ++ ARGS ++ [NL] ++ join [NL] (map emit_entry es) ++ [NL].
Proof.
  intros Hd Hne H D. unfold emit_google, google_args. destruct es as [|e0 es0] eqn:Ees; [contradiction|]. rewrite <- Ees in *.
  rewrite emit_entry_eq.
  assert (M : map emit_entry es <> []) by (rewrite Ees; discriminate).
  assert (J : join [NL] (ARGS :: map emit_entry es) = ARGS ++ [NL] ++ join [NL] (map emit_entry es)).
  { destruct (map emit_entry es) as [|l0 r0]; [contradiction | reflexivity]. }
  rewrite J.
  assert (T : tail_ok (ARGS ++ [NL] ++ join [NL] (map emit_entry es)) = true).
  { rewrite !app_assoc. apply tail_ok_app_r. apply last_line_tail_ok; assumption. }
  rewrite (nls_end_tail_ok _ T). cbn [Nat.ltb Nat.leb]. rewrite app_nil_r.
  assert (NS : isspace (ARGS ++ [NL] ++ join [NL] (map emit_entry es)) = false) by reflexivity.
  rewrite NS.
  rewrite (haf_clean doc _ Hd) by (try reflexivity; left; exact T).
  rewrite T.
  destruct (clean_parts doc Hd) as [D1 _]. destruct doc as [|d0 dr]; [discriminate|].
  cbn [app]. 
  assert (NSP : is_space d0 = false) by (apply (head_ok_not_space d0 dr D1)).
  cbn [isspace forallb]. rewrite NSP. cbn [andb].
  match goal with |- context [Nat.eqb (count_char NL ?X) 0] =>
    replace (Nat.eqb (count_char NL X) 0) with false
      by (symmetry; apply Nat.eqb_neq; apply count_char_in; right; apply in_or_app; right; left; reflexivity) end.
  rewrite <- !app_assoc. reflexivity.
Qed.

Theorem google_emit_parse_roundtrip doc es :
  clean doc = true -> es <> [] -> forallb entry_ok1 es = true -> forallb documented es = true ->
  google_docstring (emit_google doc es) = (doc, PList (map read_entry es)).
Proof.
  intros Hd Hne H D. rewrite (emit_google_text doc es Hd Hne H D).
  destruct (clean_parts doc Hd) as [D1 [D2 D3]].
  assert (LC : lacks GCOLON doc = true).
  { unfold lacks. unfold no_colon in D3. exact D3. }
  exact (google_docstring_roundtrip_nl [] doc [NL; NL] es eq_refl D1 D2 LC eq_refl Hne H).
Qed.

Example google_emit_example :
  emit_google (s2l "Load the dataset.") [(s2l "name", Some (s2l "str"), Some (s2l "dataset to load")); (s2l "shuffle", None, Some (s2l "randomise the row order"))]
  = s2l "Load the dataset." ++ [NL; NL] ++ s2l "Args:" ++ [NL] ++ s2l "  name (str): dataset to load" ++ [NL] ++ s2l "  shuffle: randomise the row order" ++ [NL].
Proof. vm_compute. reflexivity. Qed.
