(* quote / unquote: what is written in quotes is read back without them -- unless the text looked quoted already. *)
From Coq Require Import Lia.
From CDD Require Import PyStr MergeProofs DefaultDoc DefaultDocProofs Quote.
Open Scope N_scope.

(* a text that quote() wraps: not empty, and not already wearing a matching pair of quotes *)
Definition bare (s : str) : bool :=
  match s with
  | [] => false
  | c :: _ => negb (Nat.ltb 1 (length s) && (match last_opt s with Some l => c =? l | None => false end) && ((c =? SQ) || (c =? DQ)))
  end.

Lemma endswith_snoc c s : endswith [c] (s ++ [c]) = true.
Proof. unfold endswith. rewrite rev_app_distr. cbn [rev app startswith]. rewrite N.eqb_refl. reflexivity. Qed.

Theorem unquote_quote s : bare s = true -> unquote (quote s) = s.
Proof.
  destruct s as [|c r]; [discriminate|]. unfold bare, quote. intro H. apply negb_true_iff in H. rewrite H.
  unfold unquote. cbn [app length].
  match goal with |- context [Nat.ltb 1 ?n] => replace (Nat.ltb 1 n) with true by (symmetry; apply Nat.ltb_lt; lia) end.
  cbn [andb startswith]. rewrite N.eqb_refl. cbn [andb].
  assert (E : endswith [DQ] (DQ :: c :: r ++ [DQ]) = true) by (change (DQ :: c :: r ++ [DQ]) with ((DQ :: c :: r) ++ [DQ]); apply endswith_snoc).
  rewrite E. cbn [orb tl]. change (c :: r ++ [DQ]) with ((c :: r) ++ [DQ]). apply removelast_last.
Qed.

(* otherwise: a text that already wears quotes is left alone by quote and stripped by unquote -- its own quotes are lost *)
Example quoted_text_loses_its_quotes :
  quote (s2l "'q'") = s2l "'q'" /\ unquote (quote (s2l "'q'")) = s2l "q" /\ bare (s2l "'q'") = false.
Proof. repeat split; vm_compute; reflexivity. Qed.

Lemma unquote_short s : (length s <= 1)%nat -> unquote s = s.
Proof. intro H. unfold unquote. replace (Nat.ltb 1 (length s)) with false by (symmetry; apply Nat.ltb_ge; lia). reflexivity. Qed.
