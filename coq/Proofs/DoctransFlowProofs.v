From Coq Require Import Lia.
From CDD Require Import PyStr DocSplit Doctrans DoctransProofs DoctransFlow MergeProofs.

Lemma others_app a b : others (a ++ b) = others a ++ others b.
Proof. unfold others. rewrite filter_app, map_app. reflexivity. Qed.

Lemma others_cons_not_other c l : other c = false -> others (c :: l) = others l.
Proof. unfold others. cbn [filter]. intros ->. reflexivity. Qed.

Lemma doc_node_not_other after v : other (doc_node after v) = false.
Proof. unfold other, is_docnode, doc_node. cbn [k_kind k_docstr]. replace (str_eqb K_TRIPLE K_TRIPLE) with true by reflexivity. cbn. try apply andb_false_r; reflexivity. Qed.

Lemma doc_edit_false new v : doc_edit new v false = ENop \/ exists t, doc_edit new v false = EInsertAfter t.
Proof. unfold doc_edit. destruct new; [left; reflexivity | right; eexists; reflexivity]. Qed.

Lemma split_at {A} (l : list A) (n : nat) (d : A) : (n < length l)%nat -> l = firstn n l ++ nth n l d :: skipn (S n) l.
Proof.
  revert n. induction l as [|x l IH]; intros n H; [cbn in H; lia|]. destruct n as [|n]; [reflexivity|].
  cbn [firstn nth skipn app]. f_equal. apply IH. cbn in H. lia.
Qed.

Lemma nth_no_node_not_doc (l : list knode) n : (length l <= n)%nat -> is_docnode (nth n l no_node) = false.
Proof. intro H. rewrite nth_overflow by exact H. reflexivity. Qed.

(* the docstring edit touches only docstring nodes *)
Lemma edit_nodes_others i new_doc l : others (edit_nodes i new_doc l) = others l.
Proof.
  unfold edit_nodes. set (after := nth (S i) l no_node).
  destruct (is_docnode after) eqn:D.
  - (* a docstring node follows the header *)
    assert (HL : (S i < length l)%nat).
    { destruct (le_lt_dec (length l) (S i)) as [H|H]; [|exact H]. unfold after in D. rewrite nth_no_node_not_doc in D by exact H. discriminate. }
    assert (NO : other after = false) by (unfold other; rewrite D, andb_false_r; reflexivity).
    pose proof (split_at l (S i) no_node HL) as E. fold after in E.
    destruct (doc_edit new_doc (k_text after) true) as [|v| |v].
    + reflexivity.
    + rewrite others_app, (others_cons_not_other _ _ (doc_node_not_other after v)), <- others_app, firstn_skipn. reflexivity.
    + rewrite E at 3. rewrite !others_app, (others_cons_not_other _ _ NO). reflexivity.
    + rewrite E at 3. rewrite !others_app, (others_cons_not_other _ _ NO), (others_cons_not_other _ _ (doc_node_not_other after v)). reflexivity.
  - destruct (doc_edit_false new_doc (k_text after)) as [-> | [t ->]]; [reflexivity|].
    rewrite others_app, (others_cons_not_other _ _ (doc_node_not_other after t)), <- others_app, firstn_skipn. reflexivity.
Qed.

Lemma nth_error_firstn' {A} : forall (l : list A) n i, (i < n)%nat -> nth_error (firstn n l) i = nth_error l i.
Proof.
  induction l as [|x l IH]; intros n i H; [destruct n, i; reflexivity|]. destruct n as [|n]; [lia|]. destruct i as [|i]; [reflexivity|].
  cbn. apply IH. lia.
Qed.

Lemma edit_nodes_keeps_header i new_doc l : (i < length l)%nat -> nth_error (edit_nodes i new_doc l) i = nth_error l i.
Proof.
  intro H. unfold edit_nodes. destruct (doc_edit new_doc _ _); try reflexivity;
    (rewrite nth_error_app1 by (rewrite firstn_length; lia); apply nth_error_firstn'; lia).
Qed.

Lemma set_text_other c t : other (set_text c t) = other c.
Proof. reflexivity. Qed.

(* rewriting the text of a header node changes no other node *)
Lemma rewrite_header_others i h l c : nth_error l i = Some c -> is_header c = true -> others (rewrite_header i h l) = others l.
Proof.
  intros Hn Hh. unfold rewrite_header. rewrite Hn.
  assert (NO : other c = false) by (unfold other; rewrite Hh; reflexivity).
  assert (Hl : (i < length l)%nat) by (apply nth_error_Some; rewrite Hn; discriminate).
  rewrite (split_at l i c Hl) at 3. rewrite (nth_error_nth l i c Hn).
  rewrite !others_app, (others_cons_not_other _ _ NO).
  rewrite others_cons_not_other by (rewrite set_text_other; exact NO). reflexivity.
Qed.

Definition header_kind (k : str) : bool := str_eqb k K_FUNC || str_eqb k K_CLASS.

Lemma find_cst_header l d i : header_kind (d_kind d) = true ->
  find_cst (map as_cnode l) (d_lineno d) (d_kind d) (d_name d) = Some i ->
  exists c, nth_error l i = Some c /\ is_header c = true.
Proof.
  intros Hk H. destruct (find_cst_first_match _ _ _ _ _ H) as [cn [Hn [Hm _]]].
  rewrite nth_error_map in Hn. destruct (nth_error l i) as [c|] eqn:E; [|discriminate]. injection Hn as <-.
  exists c. split; [reflexivity|]. unfold cst_matches in Hm. cbn [as_cnode c_kind] in Hm.
  apply andb_true_iff in Hm as [Hm _]. apply andb_true_iff in Hm as [_ Hm]. apply str_eqb_eq in Hm.
  unfold is_header. rewrite Hm. exact Hk.
Qed.

(* one definition: whatever its docstring and however its header is rewritten, every node that is neither a header nor a
   docstring keeps its text and its place *)
Theorem step_others l d : header_kind (d_kind d) = true -> others (step l d) = others l.
Proof.
  intro Hk. unfold step. destruct (find_cst _ _ _ _) as [i|] eqn:F; [|reflexivity].
  destruct (find_cst_header l d i Hk F) as [c [Hn Hh]].
  assert (Hl : (i < length l)%nat) by (apply nth_error_Some; rewrite Hn; discriminate).
  rewrite (rewrite_header_others i (d_header d) (edit_nodes i (d_doc d) l) c); [apply edit_nodes_others | | exact Hh].
  rewrite edit_nodes_keeps_header by exact Hl. exact Hn.
Qed.

Theorem doctransify_others : forall defs l, forallb (fun d => header_kind (d_kind d)) defs = true -> others (doctransify l defs) = others l.
Proof.
  induction defs as [|d r IH]; intros l H; [reflexivity|]. cbn [forallb] in H. apply andb_true_iff in H as [H1 H2].
  unfold doctransify. cbn [fold_left]. fold (doctransify (step l d) r). rewrite IH by exact H2. apply step_others, H1.
Qed.
