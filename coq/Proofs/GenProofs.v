From Coq Require Import Lia Permutation.
From CDD Require Import PyStr Gen.
Open Scope N_scope.

Lemma fmt_injective pre suf a b : fmt pre suf a = fmt pre suf b -> a = b.
Proof. unfold fmt. intro H. apply app_inv_head in H. apply app_inv_tail in H. exact H. Qed.

Lemma all_names_length pre suf names : length (all_names pre suf names) = length names.
Proof. apply map_length. Qed.

Lemma all_names_nodup pre suf names : NoDup names -> NoDup (all_names pre suf names).
Proof. intro H. apply FinFun.Injective_map_NoDup; [|exact H]. intros a b. apply fmt_injective. Qed.

Lemma filter_id {A} (f : A -> bool) l : forallb f l = true -> filter f l = l.
Proof.
  induction l as [|x l IH]; cbn; [reflexivity|]. intro H. apply andb_true_iff in H as [Hx Hl].
  rewrite Hx, IH; auto.
Qed.

Lemma evi_plain s : plain_identifier s = true -> ensure_valid_identifier s = s.
Proof.
  destruct s as [|c r]; [discriminate|]. unfold plain_identifier, ensure_valid_identifier.
  intro H. apply andb_true_iff in H as [H Hk]. apply andb_true_iff in H as [Hd Hv].
  apply negb_true_iff in Hk. rewrite Hk. apply negb_true_iff in Hd. rewrite Hd.
  rewrite (filter_id _ _ Hv). reflexivity.
Qed.

Lemma symbols_eq_all pre suf names :
  forallb (fun n => plain_identifier (fmt pre suf n)) names = true ->
  symbol_names pre suf names = all_names pre suf names.
Proof.
  unfold symbol_names, all_names. induction names as [|n r IH]; cbn; [reflexivity|].
  intro H. apply andb_true_iff in H as [Hn Hr]. rewrite (evi_plain _ Hn), IH; auto.
Qed.

(* ---- body re-ordering loses and duplicates nothing -------------------------------------------- *)
Lemma filter_partition3 (l : list node) :
  Permutation (filter is_future l ++ filter is_plain_import l ++ filter (fun n => negb (is_import n)) l) l.
Proof.
  induction l as [|x l IH]; [constructor|].
  destruct x as [[|] i|i]; cbn.
  - constructor. exact IH.
  - etransitivity; [apply Permutation_sym, Permutation_middle|]. constructor. exact IH.
  - etransitivity; [|constructor; exact IH].
    rewrite app_assoc. etransitivity; [apply Permutation_sym, Permutation_middle|].
    rewrite <- app_assoc. reflexivity.
Qed.

Theorem reorder_permutation has_doc body :
  (has_doc = true -> exists i r, body = NOther i :: r) ->
  Permutation (reorder has_doc body) body.
Proof.
  intro Hd. unfold reorder. destruct has_doc.
  - destruct (Hd eq_refl) as [i [r ->]]. cbn. constructor. apply filter_partition3.
  - cbn. apply filter_partition3.
Qed.

(* non-import nodes keep their relative order; imports come before them; __future__ imports first *)
Theorem reorder_others_in_order has_doc body :
  (has_doc = true -> exists i r, body = NOther i :: r) ->
  filter (fun n => negb (is_import n)) (reorder has_doc body) = filter (fun n => negb (is_import n)) body.
Proof.
  intro Hd. unfold reorder.
  assert (F1 : forall l, filter (fun n => negb (is_import n)) (filter is_future l) = []).
  { induction l as [|[[|] i|i] l IH]; cbn; auto. }
  assert (F2 : forall l, filter (fun n => negb (is_import n)) (filter is_plain_import l) = []).
  { induction l as [|[[|] i|i] l IH]; cbn; auto. }
  assert (F3 : forall l, filter (fun n => negb (is_import n)) (filter (fun n => negb (is_import n)) l)
                         = filter (fun n => negb (is_import n)) l).
  { induction l as [|[[|] i|i] l IH]; cbn; auto. f_equal. exact IH. }
  destruct has_doc.
  - destruct (Hd eq_refl) as [i [r ->]]. cbn. rewrite !filter_app, F1, F2, F3. reflexivity.
  - cbn. rewrite !filter_app, F1, F2, F3. reflexivity.
Qed.

Lemma str_eqb_true a : forall b, str_eqb a b = true -> a = b.
Proof. induction a as [|x a IH]; intros [|y b]; cbn; try discriminate; [reflexivity|]. intro H. apply andb_true_iff in H as [H1 H2]. apply N.eqb_eq in H1. apply IH in H2. subst. reflexivity. Qed.

(* ensure_valid_identifier, for EVERY string: the result is not empty and consists of identifier characters only *)
Lemma filter_valid_all s : forallb valid_ident_char (filter valid_ident_char s) = true.
Proof. induction s as [|c r IH]; cbn [filter]; [reflexivity|]. destruct (valid_ident_char c) eqn:E; cbn [forallb]; [rewrite E; exact IH | exact IH]. Qed.

Lemma kwlist_valid : forallb (fun k => forallb valid_ident_char k) kwlist = true.
Proof. vm_compute. reflexivity. Qed.

Theorem ensure_valid_identifier_chars s :
  ensure_valid_identifier s <> [] /\ forallb valid_ident_char (ensure_valid_identifier s) = true.
Proof.
  unfold ensure_valid_identifier. destruct s as [|c r]; [split; [discriminate | reflexivity]|].
  destruct (iskeyword (c :: r)) eqn:K.
  - split; [destruct r; discriminate|]. rewrite forallb_app. cbn [forallb]. rewrite andb_true_r.
    unfold iskeyword, mem_str in K. apply existsb_exists in K as [k [Hin Hk]]. apply str_eqb_true in Hk. subst k.
    pose proof kwlist_valid as V. rewrite forallb_forall in V. exact (V _ Hin).
  - match goal with |- context [match ?X with [] => _ | _ => _ end] => destruct X as [|x t] eqn:F end; cbv iota.
    + split; [intro H; discriminate H | reflexivity].
    + split; [intro H; discriminate H|]. rewrite <- F. apply filter_valid_all.
Qed.
