(* ReST round trip of a default carried in the prose: emitter (set_default_doc + ReST emitter), ReST scanner and parser, then the
   parser's extract_default -- composed from RestDocProofs.rest_roundtrip and ExtractDefaultProofs.default_text_roundtrip. *)
From Coq Require Import Lia.
From CDD Require Import PyStr DocSplit RestDoc RestDocProofs.
From CDD Require ExtractDefault ExtractDefaultProofs DefaultDoc MergeProofs.
Module E := ExtractDefault. Module EP := ExtractDefaultProofs.

Definition announce (d t : str) : str := DefaultDoc.set_default_doc (fun x => x) d (Some t) true.

(* a description and a default text that make a line the ReST theorem accepts *)
Definition dt_ok (d t : str) : bool :=
  head_ok d && no_colon d && no_colon t && head_ok (rev t) && negb (EP.has_kw d) && negb (EP.has_kw t) && str_eqb (E.scan_default t false) t.

Lemma head_ok_app_l a b : head_ok a = true -> head_ok (a ++ b) = true.
Proof. destruct a; [discriminate|]. intro H. exact H. Qed.

Lemma announce_eq d t : EP.has_kw d = false -> announce d t = EP.dotted d ++ EP.ANN ++ t.
Proof. intro F. unfold announce, DefaultDoc.set_default_doc. rewrite (EP.no_kw_no_defaults d F). reflexivity. Qed.

Lemma announce_clean d t : dt_ok d t = true -> clean (announce d t) = true.
Proof.
  unfold dt_ok. intro H. repeat (apply andb_true_iff in H as [H ?]).
  match goal with K : negb (EP.has_kw d) = true |- _ => apply negb_true_iff in K; rewrite (announce_eq d t K) end.
  unfold clean. apply andb_true_iff. split; [apply andb_true_iff; split|].
  - apply head_ok_app_l. unfold EP.dotted. destruct (DefaultDoc.ends_with_stop d); [assumption | apply head_ok_app_l; assumption].
  - rewrite !rev_app_distr. do 2 apply head_ok_app_l. assumption.
  - rewrite !no_colon_app. apply andb_true_iff. split; [|apply andb_true_iff; split; [reflexivity | assumption]].
    unfold EP.dotted. destruct (DefaultDoc.ends_with_stop d); [assumption|]. rewrite no_colon_app. apply andb_true_iff. split; [assumption | reflexivity].
Qed.

Definition item := (str * (str * str))%type.      (* name, (description, default text) *)
Definition item_ok (it : item) : bool := name_ok (fst it) && dt_ok (fst (snd it)) (snd (snd it)).
Definition item_param (it : item) : str * pentry := (fst it, {| pe_doc := Some (announce (fst (snd it)) (snd (snd it))); pe_typ := None |}).
Definition read_back (ne : str * pentry) : str * (str * option str) :=
  (fst ne, match pe_doc (snd ne) with Some l => E.extract_default_text l false | None => ([], None) end).

Theorem rest_default_roundtrip doc (items : list item) :
  clean doc = true -> forallb item_ok items = true -> NoDup (map fst items) -> items <> [] ->
  let back := parse_rest (emit_rest true doc (map item_param items) None) in
  p_doc back = doc /\ p_ret back = None
  /\ map read_back (p_params back) = map (fun it => (fst it, (EP.dotted (fst (snd it)), Some (EP.strip3 (snd (snd it)))))) items.
Proof.
  intros Hd Hi Hn Hne. cbn zeta.
  assert (Hp : forallb param_ok (map item_param items) = true).
  { apply forallb_forall. intros p Hin. apply in_map_iff in Hin as [it [<- Hit]]. rewrite forallb_forall in Hi. specialize (Hi it Hit).
    unfold item_ok in Hi. apply andb_true_iff in Hi as [A B]. unfold param_ok, item_param, entry_ok. cbn [fst snd pe_doc pe_typ].
    rewrite A, (announce_clean _ _ B). reflexivity. }
  assert (Hn' : NoDup (map fst (map item_param items))) by (rewrite map_map; exact Hn).
  assert (Hne' : map item_param items <> []) by (destruct items; [contradiction | discriminate]).
  rewrite (rest_roundtrip doc (map item_param items) None Hd Hp Hn' Hne' eq_refl). cbn [p_doc p_ret p_params].
  split; [reflexivity | split; [reflexivity|]]. rewrite map_map. apply map_ext_in. intros it Hit.
  rewrite forallb_forall in Hi. specialize (Hi it Hit). unfold item_ok, dt_ok in Hi.
  apply andb_true_iff in Hi as [_ Hi]. apply andb_true_iff in Hi as [Hi KS]. apply andb_true_iff in Hi as [Hi Kt]. apply andb_true_iff in Hi as [Hi Kd].
  apply negb_true_iff in Kt, Kd. apply MergeProofs.str_eqb_eq in KS.
  unfold read_back, item_param. cbn [fst snd pe_doc]. f_equal.
  unfold announce. apply (EP.default_text_roundtrip (fun x => x)); assumption.
Qed.
