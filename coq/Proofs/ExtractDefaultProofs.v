(* Proofs about Model/ExtractDefault.v: a description that never says "default" is returned unchanged; the announcement written by
   set_default_doc (Model/DefaultDoc.v) is found again, the default text recovered exactly and the description restored up to the
   full stop the emitter adds. *)
From Coq Require Import Lia.
From CDD Require Import PyStr MergeProofs DefaultDoc ExtractDefault.
Open Scope N_scope.

(* ---------- occurrences ---------- *)
Definition starts (n h : str) : bool := str_eqb (fold (firstn (length n) h)) (fold n).

Lemma find_ci_unfold n h : find_ci n h = if starts n h then Some O else match h with [] => None | _ :: r => match find_ci n r with Some i => Some (S i) | None => None end end.
Proof. destruct h; reflexivity. Qed.

Lemma find_ci_none n : forall h, (forall j, starts n (skipn j h) = false) -> find_ci n h = None.
Proof.
  induction h as [|c r IH]; intro H; rewrite find_ci_unfold.
  - pose proof (H O) as H0. cbn [skipn] in H0. rewrite H0. reflexivity.
  - pose proof (H O) as H0. cbn [skipn] in H0. rewrite H0. rewrite IH; [reflexivity|]. intro j. apply (H (S j)).
Qed.

Lemma find_ci_some n : forall h i, find_ci n h = Some i -> starts n (skipn i h) = true.
Proof.
  induction h as [|c r IH]; intros i H; rewrite find_ci_unfold in H.
  - destruct (starts n []) eqn:E; [injection H as <-; exact E | discriminate].
  - destruct (starts n (c :: r)) eqn:E; [injection H as <-; exact E|].
    destruct (find_ci n r) as [k|] eqn:F; [|discriminate]. injection H as <-. cbn [skipn]. apply IH. reflexivity.
Qed.

Lemma find_ci_first n : forall h p, starts n (skipn p h) = true -> (forall j, (j < p)%nat -> starts n (skipn j h) = false) -> find_ci n h = Some p.
Proof.
  induction h as [|c r IH]; intros p Hp Hlt; rewrite find_ci_unfold.
  - destruct p; [cbn [skipn] in Hp; rewrite Hp; reflexivity|]. cbn [skipn] in Hp. pose proof (Hlt O ltac:(lia)) as H0. cbn [skipn] in H0. rewrite H0 in Hp. discriminate.
  - destruct p as [|p]; [cbn [skipn] in Hp; rewrite Hp; reflexivity|].
    pose proof (Hlt O ltac:(lia)) as H0. cbn [skipn] in H0. rewrite H0.
    rewrite (IH p); [reflexivity | exact Hp | intros j Hj; apply (Hlt (S j)); lia].
Qed.

Lemma fold_length s : length (fold s) = length s. Proof. apply map_length. Qed.
Lemma fold_app a b : fold (a ++ b) = fold a ++ fold b. Proof. apply map_app. Qed.

(* an occurrence of the needle needs room *)
Lemma starts_room n h : starts n h = true -> (length n <= length h)%nat.
Proof.
  unfold starts. intro H. apply str_eqb_eq in H. apply (f_equal (@length _)) in H. rewrite !fold_length, firstn_length in H. lia.
Qed.

Lemma app_inj_len {A} (a1 b1 a2 b2 : list A) : a1 ++ b1 = a2 ++ b2 -> length a1 = length a2 -> a1 = a2 /\ b1 = b2.
Proof.
  revert a2; induction a1 as [|x a1 IH]; intros [|y a2] H L; cbn in *; try discriminate; [auto|].
  injection H as -> H. destruct (IH a2 H ltac:(lia)) as [-> ->]. auto.
Qed.

(* the middle part of an occurrence of a ++ b ++ c is an occurrence of b *)
Lemma starts_middle a b c h : starts (a ++ b ++ c) h = true -> starts b (skipn (length a) h) = true.
Proof.
  intro H. pose proof (starts_room _ _ H) as R. unfold starts in *. apply str_eqb_eq in H. apply str_eqb_eq.
  rewrite !app_length in H, R. rewrite !fold_app in H.
  set (h1 := firstn (length a) h) in *. set (h2 := skipn (length a) h) in *.
  assert (L1 : length h1 = length a) by (unfold h1; rewrite firstn_length; lia).
  rewrite <- (firstn_skipn (length a) h) in H. fold h1 h2 in H. rewrite <- L1 in H at 1.
  rewrite firstn_app_2, fold_app in H.
  apply app_inj_len in H as [_ H]; [|rewrite !fold_length; exact L1].
  apply (f_equal (firstn (length b))) in H.
  unfold fold in H at 1. rewrite firstn_map, firstn_firstn, Nat.min_l in H by lia.
  rewrite <- (fold_length b) in H at 2. rewrite firstn_app, Nat.sub_diag, firstn_O, app_nil_r, firstn_all in H. exact H.
Qed.

Lemma starts_fold_eq n1 n2 h : fold n1 = fold n2 -> starts n1 h = starts n2 h.
Proof. intro E. unfold starts. rewrite E. replace (length n1) with (length n2); [reflexivity|]. rewrite <- (fold_length n1), <- (fold_length n2), E. reflexivity. Qed.

(* a window of an occurrence is an occurrence of that window of the needle *)
Lemma starts_sub v h k m : starts v h = true -> (k + m <= length v)%nat -> starts (firstn m (skipn k v)) (skipn k h) = true.
Proof.
  intros H L.
  assert (E : v = firstn k v ++ firstn m (skipn k v) ++ skipn m (skipn k v)) by (rewrite firstn_skipn, firstn_skipn; reflexivity).
  rewrite E in H. apply starts_middle in H. rewrite firstn_length, Nat.min_l in H by lia. exact H.
Qed.

(* ---------- the word every announcer contains ---------- *)
Definition KW : str := Eval vm_compute in s2l "default".
Fixpoint has_kw (h : str) : bool := starts KW h || match h with [] => false | _ :: r => has_kw r end.

Lemma has_kw_false h : has_kw h = false -> forall j, starts KW (skipn j h) = false.
Proof.
  induction h as [|c r IH]; intros H j.
  - cbn [has_kw] in H. rewrite orb_false_r in H. destruct j; exact H.
  - cbn [has_kw] in H. apply orb_false_iff in H as [H1 H2]. destruct j as [|j]; [exact H1 | apply IH, H2].
Qed.
Lemma has_kw_true h j : starts KW (skipn j h) = true -> has_kw h = true.
Proof. intro H. destruct (has_kw h) eqn:E; [reflexivity|]. rewrite (has_kw_false h E j) in H. discriminate. Qed.

Lemma variants_contain_kw : forallb (fun v => str_eqb (fold (firstn 7 v)) KW && Nat.leb 7 (length v)) VARIANTS = true.
Proof. vm_compute. reflexivity. Qed.

Lemma variant_kw v h : In v VARIANTS -> starts v h = true -> starts KW h = true.
Proof.
  intros Hin H. pose proof variants_contain_kw as V. rewrite forallb_forall in V. specialize (V v Hin). apply andb_true_iff in V as [V1 V2].
  apply str_eqb_eq in V1. apply Nat.leb_le in V2.
  pose proof (starts_sub v h 0 7 H ltac:(cbn; lia)) as S. cbn [skipn] in S.
  rewrite (starts_fold_eq _ KW) in S; [exact S | rewrite V1; reflexivity].
Qed.
Lemma paren_variant_kw v h : In v VARIANTS -> starts (LP :: v) h = true -> starts KW (skipn 1 h) = true.
Proof.
  intros Hin H. pose proof variants_contain_kw as V. rewrite forallb_forall in V. specialize (V v Hin). apply andb_true_iff in V as [V1 V2].
  apply str_eqb_eq in V1. apply Nat.leb_le in V2.
  pose proof (starts_sub (LP :: v) h 1 7 H ltac:(cbn [length]; lia)) as S. cbn [skipn] in S.
  rewrite (starts_fold_eq _ KW) in S; [exact S | rewrite V1; reflexivity].
Qed.

Lemma skipn_skipn_add {A} (l : list A) : forall a b, skipn a (skipn b l) = skipn (b + a) l.
Proof. induction l as [|x l IH]; intros a [|b]; cbn [skipn Nat.add]; try reflexivity; [destruct a; reflexivity | apply IH]. Qed.

Lemma loc_within_none_plain line : has_kw line = false -> forall vs, incl vs VARIANTS -> loc_within vs line = None.
Proof.
  intros F. induction vs as [|v r IH]; intro I; cbn [loc_within]; [reflexivity|].
  rewrite find_ci_none; [apply IH; intros x Hx; apply I; right; exact Hx|].
  intro j. destruct (starts v (skipn j line)) eqn:E; [|reflexivity].
  apply variant_kw in E; [|apply I; left; reflexivity]. rewrite (has_kw_false line F j) in E. discriminate.
Qed.
Lemma loc_within_none_paren line : (forall j, starts KW (skipn (S j) line) = true -> nth_error line j <> Some LP) -> forall vs, incl vs VARIANTS -> loc_within (map (fun v => LP :: v) vs) line = None.
Proof.
  intros F. induction vs as [|v r IH]; intro I; cbn [loc_within map]; [reflexivity|].
  rewrite find_ci_none; [apply IH; intros x Hx; apply I; right; exact Hx|].
  intro j. destruct (starts (LP :: v) (skipn j line)) eqn:E; [|reflexivity]. exfalso.
  pose proof (paren_variant_kw v _ (I v (or_introl eq_refl)) E) as K. rewrite skipn_skipn_add in K. replace (j + 1)%nat with (S j) in K by lia.
  apply (F j K).
  (* the first character of the window is "(" *)
  unfold starts in E. apply str_eqb_eq in E. cbn [length] in E.
  destruct (skipn j line) as [|c0 r0] eqn:ES; [cbn in E; discriminate|].
  cbn [firstn fold map] in E. injection E as E0 _.
  assert (c0 = LP).
  { unfold fold_char in E0. unfold LP in *. destruct (is_ascii_upper c0) eqn:U.
    - unfold is_ascii_upper in U. apply andb_true_iff in U as [U1 U2]. apply N.leb_le in U1, U2. cbn in E0. lia.
    - destruct (c0 =? 383) eqn:A; [cbn in E0; discriminate|]. destruct (c0 =? 8490) eqn:B; [cbn in E0; discriminate|]. cbn in E0. exact E0. }
  subst c0. rewrite <- (firstn_skipn j line) at 1. 
  assert (Lj : (j <= length line)%nat).
  { destruct (Nat.le_gt_cases j (length line)) as [L|L]; [exact L|]. rewrite skipn_all2 in ES by lia. discriminate. }
  rewrite nth_error_app2; rewrite firstn_length, Nat.min_l by lia; [|lia]. rewrite Nat.sub_diag, ES. reflexivity.
Qed.

(* ---------- 1. no "default" in the description: nothing is extracted, the text is returned as it is ---------- *)
Theorem no_default_identity line edd : has_kw line = false -> extract_default_text line edd = (line, None).
Proof.
  intro F. unfold extract_default_text.
  rewrite (loc_within_none_paren line); [| intros j K; rewrite (has_kw_false line F (S j)) in K; discriminate | apply incl_refl].
  rewrite (loc_within_none_plain line F VARIANTS (incl_refl _)). reflexivity.
Qed.

(* ---------- occurrences of the word around a separator that is not one of its letters ---------- *)
Lemma starts_kw_window h : starts KW h = true -> fold (firstn 7 h) = KW.
Proof. unfold starts. intro H. apply str_eqb_eq in H. exact H. Qed.

Lemma kw_separator X c Y j : ~ In (fold_char c) KW -> starts KW (skipn j (X ++ c :: Y)) = true ->
  (starts KW (skipn j X) = true /\ (j + 7 <= length X)%nat) \/ ((length X < j)%nat /\ starts KW (skipn (j - length X - 1) Y) = true).
Proof.
  intros Hc H. pose proof (starts_room _ _ H) as R. rewrite skipn_length, app_length in R. cbn [length] in R.
  destruct (Nat.le_gt_cases (j + 7) (length X)) as [A|A].
  - left. split; [|exact A]. unfold starts in *. rewrite skipn_app in H. replace (j - length X)%nat with O in H by lia. cbn [skipn] in H.
    rewrite firstn_app in H. change (length KW) with 7%nat in *. rewrite skipn_length in H. replace (7 - (length X - j))%nat with O in H by lia.
    rewrite firstn_O, app_nil_r in H. exact H.
  - destruct (Nat.le_gt_cases j (length X)) as [B|B].
    + exfalso. apply Hc. apply starts_kw_window in H. rewrite <- H.
      rewrite skipn_app. replace (j - length X)%nat with O by lia. cbn [skipn].
      rewrite firstn_app, skipn_length. destruct (7 - (length X - j))%nat as [|k] eqn:K; [lia|].
      cbn [firstn]. rewrite fold_app. apply in_or_app. right. left. reflexivity.
    + right. split; [exact B|]. rewrite skipn_app in H. rewrite (skipn_all2 X) in H by lia. cbn [app] in H.
      replace (j - length X)%nat with (S (j - length X - 1)) in H by lia. exact H.
Qed.

Definition dotted (d : str) : str := if ends_with_stop d then d else d ++ [DOT].
Definition ANN : str := Eval vm_compute in s2l " Defaults to ".
Definition ANN1 : str := Eval vm_compute in s2l "Defaults to ".

Lemma not_in_kw_sp : ~ In (fold_char SP) KW. Proof. vm_compute. intuition discriminate. Qed.
Lemma not_in_kw_dot : ~ In (fold_char DOT) KW. Proof. vm_compute. intuition discriminate. Qed.

Lemma dotted_free d : has_kw d = false -> has_kw (dotted d) = false.
Proof.
  intro F. unfold dotted. destruct (ends_with_stop d); [exact F|].
  destruct (has_kw (d ++ [DOT])) eqn:E; [|reflexivity]. exfalso.
  assert (exists j, starts KW (skipn j (d ++ [DOT])) = true) as [j Hj].
  { clear F. induction (d ++ [DOT]) as [|c r IH]; cbn [has_kw] in E.
    - rewrite orb_false_r in E. exists O. exact E.
    - apply orb_true_iff in E as [E|E]; [exists O; exact E | destruct (IH E) as [j Hj]; exists (S j); exact Hj]. }
  apply (kw_separator d DOT [] j not_in_kw_dot) in Hj as [[H _]|[_ H]].
  - rewrite (has_kw_false d F j) in H. discriminate.
  - apply starts_room in H. rewrite skipn_length in H. cbn in H. lia.
Qed.

Lemma has_kw_witness h : has_kw h = true -> exists j, starts KW (skipn j h) = true.
Proof.
  induction h as [|c r IH]; cbn [has_kw]; intro E.
  - rewrite orb_false_r in E. exists O. exact E.
  - apply orb_true_iff in E as [E|E]; [exists O; exact E | destruct (IH E) as [j Hj]; exists (S j); exact Hj].
Qed.

(* the only place the word occurs in "<description>. Defaults to <text>" is the announcer *)
Lemma only_occurrence dd t j : has_kw dd = false -> has_kw t = false ->
  starts KW (skipn j (dd ++ ANN ++ t)) = true -> j = S (length dd).
Proof.
  intros Fd Ft H.
  change (dd ++ ANN ++ t) with (dd ++ SP :: (s2l "Defaults" ++ SP :: (s2l "to" ++ SP :: t))) in H.
  apply (kw_separator dd SP _ j not_in_kw_sp) in H as [[H _]|[L H]]; [rewrite (has_kw_false dd Fd j) in H; discriminate|].
  apply (kw_separator (s2l "Defaults") SP _ _ not_in_kw_sp) in H as [[H R]|[L2 H]].
  - cbn [length s2l] in R. assert (C : (j - length dd - 1 = 0 \/ j - length dd - 1 = 1)%nat) by (cbn in R; lia).
    destruct C as [C|C]; [lia|]. rewrite C in H. vm_compute in H. discriminate.
  - apply (kw_separator (s2l "to") SP _ _ not_in_kw_sp) in H as [[_ R]|[_ H]]; [cbn in R; lia|].
    rewrite (has_kw_false t Ft _) in H. discriminate.
Qed.

(* ---------- slices at positions given as lengths ---------- *)
Lemma slice_from_len (pre rest : str) : slice_from (pre ++ rest) (Z.of_nat (length pre)) = rest.
Proof.
  unfold slice_from, norm_idx, slen. rewrite app_length.
  destruct (Z.ltb_spec (Z.of_nat (length pre)) 0); [lia|].
  rewrite Z.min_l by lia. rewrite Nat2Z.id, skipn_app, skipn_all, Nat.sub_diag. reflexivity.
Qed.
Lemma slice_to_len (pre rest : str) : slice_to (pre ++ rest) (Z.of_nat (length pre)) = pre.
Proof.
  unfold slice_to, slice, norm_idx, slen. rewrite app_length. change (0 <? 0)%Z with false. cbv iota.
  destruct (Z.ltb_spec (Z.of_nat (length pre)) 0); [lia|].
  rewrite !Z.min_l by lia. rewrite Z.sub_0_r, Nat2Z.id. cbn [Z.to_nat skipn].
  rewrite firstn_app, firstn_all, Nat.sub_diag. cbn. apply app_nil_r.
Qed.

Lemma dotted_last d : exists c, last_opt (dotted d) = Some c /\ is_gap c = false.
Proof.
  unfold dotted, ends_with_stop. destruct (last_opt d) as [c|] eqn:L.
  - destruct ((c =? 46) || (c =? 44)) eqn:E.
    + exists c. split; [exact L|]. apply orb_true_iff in E as [E|E]; apply N.eqb_eq in E; subst c; reflexivity.
    + exists DOT. split; [|reflexivity]. clear. induction d as [|x [|y r] IH]; [reflexivity | reflexivity | exact IH].
  - exists DOT. split; [|reflexivity]. clear. induction d as [|x [|y r] IH]; [reflexivity | reflexivity | exact IH].
Qed.

Definition strip3 (t : str) : str := strip_chars [SP; TABC; BTK] t.

(* ---------- 2. what set_default_doc writes, extract_default reads back ---------- *)
Theorem announced_default_recovered d t edd :
  has_kw d = false -> has_kw t = false -> scan_default t false = t ->
  extract_default_text (dotted d ++ ANN ++ t) edd
  = (if edd then dotted d ++ ANN ++ t else dotted d, Some (strip3 t)).
Proof.
  intros Fd Ft K. set (dd := dotted d). assert (Fdd : has_kw dd = false) by apply dotted_free, Fd.
  set (line := dd ++ ANN ++ t). set (p := S (length dd)).
  assert (Only : forall j, starts KW (skipn j line) = true -> j = p) by (intros j H; apply (only_occurrence dd t j Fdd Ft H)).
  unfold extract_default_text. fold dd line.
  (* no parenthesised announcer *)
  rewrite (loc_within_none_paren line); [| | apply incl_refl].
  2:{ intros j H. apply Only in H. injection H as ->. unfold line. rewrite nth_error_app2 by lia. rewrite Nat.sub_diag. cbn. discriminate. }
  (* the first announcer, at p *)
  assert (Sk : skipn p line = ANN1 ++ t).
  { unfold line, p. change ANN with (SP :: ANN1). rewrite skipn_app, skipn_all2 by lia. replace (S (length dd) - length dd)%nat with 1%nat by lia. reflexivity. }
  assert (F1 : find_ci (s2l "defaults to ") line = Some p).
  { apply find_ci_first.
    - rewrite Sk. unfold starts. change (length (s2l "defaults to ")) with (length ANN1). rewrite firstn_app, Nat.sub_diag, firstn_O, app_nil_r, firstn_all. vm_compute. reflexivity.
    - intros j Hj. destruct (starts (s2l "defaults to ") (skipn j line)) eqn:E; [|reflexivity].
      apply variant_kw in E; [|left; reflexivity]. apply Only in E. lia. }
  change VARIANTS with (s2l "defaults to " :: tl VARIANTS). cbn [loc_within]. rewrite F1.
  change (length (s2l "defaults to ")) with 12%nat.
  (* finish *)
  assert (EL : line = (dd ++ ANN) ++ t) by (unfold line; rewrite app_assoc; reflexivity).
  assert (Lp : (p + 12)%nat = length (dd ++ ANN)) by (unfold p; rewrite app_length; cbn [length ANN]; lia).
  unfold finish. rewrite Lp.
  assert (Sub : slice_from line (Z.of_nat (length (dd ++ ANN))) = t) by (rewrite EL; apply slice_from_len).
  rewrite Sub, K. fold (strip3 t). destruct edd; [reflexivity|].
  assert (E1 : (Z.of_nat p - 1)%Z = Z.of_nat (length dd)) by (unfold p; lia).
  rewrite E1. assert (ST : slice_to line (Z.of_nat (length dd)) = dd) by (unfold line; apply slice_to_len).
  rewrite ST. destruct (dotted_last d) as [c [Lc Gc]]. fold dd in Lc. rewrite Lc, Gc. rewrite Z.sub_0_r, ST.
  assert (End : (Z.of_nat (length (dd ++ ANN)) + slen t)%Z = Z.of_nat (length line)) by (rewrite EL, (app_length (dd ++ ANN)); unfold slen; lia).
  rewrite End.
  assert (SE : slice_from line (Z.of_nat (length line)) = []) by (rewrite <- (app_nil_r line) at 1; apply slice_from_len).
  rewrite SE. cbn [count_while Z.of_nat]. rewrite Z.add_0_r, SE. change (0 <? 0)%Z with false. cbv iota. rewrite app_nil_r. reflexivity.
Qed.

(* ---------- 3. composition with the emitter's side (Model/DefaultDoc.v:set_default_doc) ---------- *)
Lemma startswith_split p : forall h, startswith p h = true -> exists r, h = p ++ r.
Proof.
  induction p as [|c p IH]; intros h H; [exists h; reflexivity|].
  destruct h as [|x h]; cbn [startswith] in H; [discriminate|]. apply andb_true_iff in H as [H1 H2].
  apply N.eqb_eq in H1. subst x. destruct (IH h H2) as [r ->]. exists r. reflexivity.
Qed.

Lemma contains_kw w : starts KW w = true -> forall h, contains w h = true -> has_kw h = true.
Proof.
  intros W. induction h as [|c r IH]; cbn [contains]; intro H.
  - rewrite orb_false_r in H. apply startswith_split in H as [x Hx]. destruct w; [vm_compute in W; discriminate | discriminate].
  - apply orb_true_iff in H as [H|H].
    + apply startswith_split in H as [x Hx]. rewrite Hx. apply (has_kw_true _ O). cbn [skipn].
      pose proof (starts_room _ _ W) as R. unfold starts in *. change (length KW) with 7%nat in *.
      rewrite firstn_app. replace (7 - length w)%nat with O by lia. rewrite firstn_O, app_nil_r. exact W.
    + cbn [has_kw]. rewrite (IH H). apply orb_true_r.
Qed.

Lemma no_kw_no_defaults d : has_kw d = false -> has_defaults d = false.
Proof.
  intro F. unfold has_defaults. apply orb_false_iff. split.
  - destruct (contains (s2l "Defaults") d) eqn:E; [|reflexivity]. rewrite (contains_kw (s2l "Defaults") eq_refl d E) in F. discriminate.
  - destruct (contains (s2l "defaults") d) eqn:E; [|reflexivity]. rewrite (contains_kw (s2l "defaults") eq_refl d E) in F. discriminate.
Qed.

Theorem default_text_roundtrip strip d t :
  has_kw d = false -> has_kw t = false -> scan_default t false = t ->
  extract_default_text (set_default_doc strip d (Some t) true) false = (dotted d, Some (strip3 t))
  /\ extract_default_text (set_default_doc strip d (Some t) true) true = (set_default_doc strip d (Some t) true, Some (strip3 t)).
Proof.
  intros Fd Ft K. unfold set_default_doc. rewrite (no_kw_no_defaults d Fd). cbn [andb negb].
  change ((if ends_with_stop d then d else d ++ [46]) ++ s2l " Defaults to " ++ t) with (dotted d ++ ANN ++ t).
  split; [apply (announced_default_recovered d t false Fd Ft K) | apply (announced_default_recovered d t true Fd Ft K)].
Qed.

(* the description that comes back is a fixpoint of the emitter's "add a full stop" step: the next round writes the same line *)
Lemma dotted_idem d : dotted (dotted d) = dotted d.
Proof.
  unfold dotted at 1. destruct (ends_with_stop (dotted d)) eqn:E; [reflexivity|]. exfalso.
  unfold dotted, ends_with_stop in E. destruct (dotted_last d) as [c [Lc _]].
  unfold dotted, ends_with_stop in *. destruct (last_opt d) as [x|] eqn:L.
  - destruct ((x =? 46) || (x =? 44)) eqn:X; [rewrite L, X in E; discriminate|].
    assert (LL : last_opt (d ++ [DOT]) = Some DOT) by (clear; induction d as [|y [|z r] IH]; [reflexivity | reflexivity | exact IH]).
    rewrite LL in E. discriminate.
  - assert (LL : last_opt (d ++ [DOT]) = Some DOT) by (clear; induction d as [|y [|z r] IH]; [reflexivity | reflexivity | exact IH]).
    rewrite LL in E. discriminate.
Qed.

Theorem announced_line_fixpoint strip d t :
  has_kw d = false -> has_kw t = false -> scan_default t false = t -> strip3 t = t ->
  let line1 := set_default_doc strip d (Some t) true in
  let '(d1, t1) := extract_default_text line1 false in
  set_default_doc strip d1 t1 true = line1.
Proof.
  intros Fd Ft K S. cbn zeta. destruct (default_text_roundtrip strip d t Fd Ft K) as [E _]. rewrite E, S.
  unfold set_default_doc. rewrite (no_kw_no_defaults d Fd), (no_kw_no_defaults _ (dotted_free d Fd)). cbn [andb negb].
  assert (X : forall x, (if ends_with_stop x then x else x ++ [46]) = dotted x) by reflexivity.
  rewrite !X, dotted_idem. reflexivity.
Qed.

(* texts without a sentence-ending "." are kept whole by the scan *)
Lemma scan_no_dot t : forallb (fun c => negb (c =? DOT)) t = true -> forall b, scan_default t b = t.
Proof.
  induction t as [|c r IH]; intros H b; [reflexivity|]. cbn [forallb] in H. apply andb_true_iff in H as [H1 H2].
  cbn [scan_default]. apply negb_true_iff in H1. rewrite H1. cbn [andb]. rewrite IH by exact H2. reflexivity.
Qed.
