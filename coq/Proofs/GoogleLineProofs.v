(* Model/GoogleLine.v: what the Google emitter writes for a parameter is read back by the Google unit reader, for every name, type
   and description of the stated domain, and a written parameter line never starts the free text "afterwards". *)
From Coq Require Import Lia.
From CDD Require Import PyStr RestDocProofs GoogleLine.
Open Scope N_scope.

Definition lacks (c : char) (s : str) : bool := forallb (fun x => negb (x =? c)) s.

Lemma break_at_app c a b : lacks c a = true -> break_at c (a ++ c :: b) = Some (a, b).
Proof.
  induction a as [|x a IH]; cbn [app break_at lacks forallb]; intro H.
  - rewrite N.eqb_refl. reflexivity.
  - apply andb_prop in H. destruct H as [H1 H2]. apply negb_true_iff in H1. rewrite H1, (IH H2). reflexivity.
Qed.

Lemma break_at_none c s : lacks c s = true -> break_at c s = None.
Proof.
  induction s as [|x s IH]; cbn [break_at lacks forallb]; intro H; [reflexivity|].
  apply andb_prop in H. destruct H as [H1 H2]. apply negb_true_iff in H1. rewrite H1, (IH H2). reflexivity.
Qed.

Lemma lacks_app c a b : lacks c (a ++ b) = lacks c a && lacks c b.
Proof. apply forallb_app. Qed.

(* the domain: names and types as identifiers / type expressions are -- not blank at either end, no colon; a name without "(" ;
   a type without the word " or " ; a description that is not blank at either end and is not the "{a, b}" choice syntax *)
Definition name_ok (n : str) : bool := head_ok n && head_ok (rev n) && lacks GCOLON n && lacks LP n.
Definition typ_ok (t : str) : bool := head_ok t && lacks GCOLON t && negb (contains OR_ t).
Definition doc_ok (d : str) : bool :=
  head_ok d && head_ok (rev d) && negb (Nat.ltb 3 (length d) && startswith [LBRACE] d && endswith [RBRACE] d).

Lemma head_ok_nonempty d : head_ok d = true -> d <> [].
Proof. destruct d; [discriminate|]. intros _ K. discriminate. Qed.

Lemma strip_name n : head_ok n = true -> head_ok (rev n) = true -> strip (n ++ [SP]) = n.
Proof. intros H1 H2. apply (strip_padded [] n [SP]); try reflexivity; assumption. Qed.

Lemma strip_self n : head_ok n = true -> head_ok (rev n) = true -> strip n = n.
Proof. intros H1 H2. rewrite <- (app_nil_r n) at 1. apply (strip_padded [] n []); try reflexivity; assumption. Qed.

Lemma rstrip_rp x : rstrip (x ++ [RP]) = x ++ [RP].
Proof. unfold rstrip. rewrite rev_app_distr. cbn [rev app lstrip]. replace (is_space RP) with false by reflexivity. cbn [rev]. rewrite rev_involutive. reflexivity. Qed.

Lemma endswith_rp x : endswith [RP] (x ++ [RP]) = true.
Proof. unfold endswith. rewrite rev_app_distr. cbn. reflexivity. Qed.

Definition doc_text (d : option str) : str := match d with Some x => x | None => [] end.

Lemma strip_sp_doc d : match d with Some x => doc_ok x = true | None => True end -> strip (SP :: doc_text d) = doc_text d.
Proof.
  destruct d as [x|]; cbn [doc_text]; intro H; [|reflexivity].
  unfold doc_ok in H. apply andb_prop in H. destruct H as [H _]. apply andb_prop in H. destruct H as [H1 H2].
  change (SP :: x) with ([SP] ++ x). rewrite <- (app_nil_r x) at 1. apply (strip_padded [SP] x []); try reflexivity; assumption.
Qed.

Lemma lstrip_sp_doc d : match d with Some x => doc_ok x = true | None => True end -> lstrip (SP :: doc_text d) = doc_text d.
Proof.
  destruct d as [x|]; cbn [doc_text]; intro H; [|reflexivity].
  unfold doc_ok in H. apply andb_prop in H. destruct H as [H _]. apply andb_prop in H. destruct H as [H1 _].
  cbn [lstrip]. replace (is_space SP) with true by reflexivity. apply lstrip_head_ok. exact H1.
Qed.

Lemma not_braced d : match d with Some x => doc_ok x = true | None => True end ->
  Nat.ltb 3 (length (doc_text d)) && startswith [LBRACE] (doc_text d) && endswith [RBRACE] (doc_text d) = false.
Proof.
  destruct d as [x|]; cbn [doc_text]; intro H; [|reflexivity].
  unfold doc_ok in H. apply andb_prop in H. destruct H as [_ H]. apply negb_true_iff in H. exact H.
Qed.

Theorem google_unit_roundtrip_typed (n t : str) (d : option str) :
  name_ok n = true -> typ_ok t = true -> match d with Some x => doc_ok x = true | None => True end ->
  parse_google_unit (emit_google_param n (Some t) d) = UOk n (Some t) (doc_text d).
Proof.
  intros Hn Ht Hd. unfold name_ok in Hn. apply andb_prop in Hn. destruct Hn as [Hn NL_]. apply andb_prop in Hn. destruct Hn as [Hn NC].
  apply andb_prop in Hn. destruct Hn as [N1 N2].
  unfold typ_ok in Ht. apply andb_prop in Ht. destruct Ht as [Ht TO]. apply andb_prop in Ht. destruct Ht as [T1 TC].
  apply negb_true_iff in TO.
  unfold parse_google_unit, emit_google_param. change (match d with Some d0 => d0 | None => [] end) with (doc_text d).
  match goal with |- context [break_at GCOLON ?X] =>
    replace X with (([SP; SP] ++ n ++ [SP; LP] ++ t ++ [RP]) ++ GCOLON :: (SP :: doc_text d))
      by (cbn [app]; rewrite <- !app_assoc; cbn [app]; rewrite <- !app_assoc; reflexivity) end.
  rewrite break_at_app.
  2:{ rewrite !lacks_app, NC, TC. reflexivity. }
  rewrite (lstrip_blank_app [SP; SP]) by reflexivity.
  rewrite (lstrip_head_ok (n ++ _)) by (destruct n; [discriminate | exact N1]).
  replace (n ++ [SP; LP] ++ t ++ [RP]) with ((n ++ [SP]) ++ LP :: (t ++ [RP])) by (rewrite <- !app_assoc; reflexivity).
  rewrite break_at_app by (rewrite lacks_app, NL_; reflexivity).
  rewrite (strip_name n N1 N2).
  change (LP :: t ++ [RP]) with ((LP :: t) ++ [RP]). rewrite rstrip_rp.
  cbn [app]. cbn [startswith]. rewrite N.eqb_refl. cbn [andb].
  change (LP :: t ++ [RP]) with ((LP :: t) ++ [RP]). rewrite endswith_rp.
  cbn [app tl]. rewrite removelast_last, TO.
  rewrite (lstrip_sp_doc d Hd). assert (B := not_braced d Hd). cbn [startswith] in B. rewrite B, (strip_sp_doc d Hd). reflexivity.
Qed.

Theorem google_unit_roundtrip_untyped (n : str) (d : option str) :
  name_ok n = true -> match d with Some x => doc_ok x = true | None => True end ->
  parse_google_unit (emit_google_param n None d) = UOk n None (doc_text d).
Proof.
  intros Hn Hd. unfold name_ok in Hn. apply andb_prop in Hn. destruct Hn as [Hn NL_]. apply andb_prop in Hn. destruct Hn as [Hn NC].
  apply andb_prop in Hn. destruct Hn as [N1 N2].
  unfold parse_google_unit, emit_google_param. change (match d with Some d0 => d0 | None => [] end) with (doc_text d).
  match goal with |- context [break_at GCOLON ?X] =>
    replace X with (([SP; SP] ++ n) ++ GCOLON :: (SP :: doc_text d)) by (cbn [app]; rewrite <- ?app_assoc; reflexivity) end.
  rewrite break_at_app by (rewrite lacks_app, NC; reflexivity).
  rewrite (lstrip_blank_app [SP; SP]) by reflexivity. rewrite (lstrip_head_ok n N1).
  rewrite (break_at_none LP n NL_). rewrite (strip_self n N1 N2). cbn [rstrip rev lstrip].
  rewrite (strip_sp_doc d Hd). reflexivity.
Qed.

(* a written parameter line is never taken for the start of the free text: it ends in a blank, or in the last character of its
   description *)
Lemma endswith_last c s x : endswith [c] (s ++ [x]) = (c =? x).
Proof. unfold endswith. rewrite rev_app_distr. cbn. rewrite andb_true_r. reflexivity. Qed.

Theorem google_line_not_afterward (n : str) (t d : option str) :
  match d with Some x => x <> [] /\ match last_opt x with Some c => negb (c =? GCOLON) | None => true end = true | None => True end ->
  is_afterward (emit_google_param n t d) = false.
Proof.
  intro H. unfold is_afterward, emit_google_param.
  destruct d as [x|].
  - destruct H as [Hx Hl]. destruct (exists_last Hx) as [r [c ->]].
    assert (E : last_opt (r ++ [c]) = Some c) by (clear; induction r as [|y r IH]; [reflexivity|]; cbn [app last_opt]; destruct (r ++ [c]) eqn:K; [destruct r; discriminate | exact IH]).
    rewrite E in Hl. apply negb_true_iff in Hl.
    rewrite !app_assoc. rewrite endswith_last, N.eqb_sym, Hl. reflexivity.
  - rewrite app_nil_r. destruct t as [t|].
    + match goal with |- context [endswith _ ?X] =>
        replace X with (([SP; SP] ++ n ++ [SP; LP] ++ t ++ [RP; GCOLON]) ++ [SP])
          by (cbn [app]; rewrite <- ?app_assoc; cbn [app]; rewrite <- ?app_assoc; reflexivity) end.
      rewrite endswith_last. reflexivity.
    + match goal with |- context [endswith _ ?X] =>
        replace X with (([SP; SP] ++ n ++ [GCOLON]) ++ [SP]) by (cbn [app]; rewrite <- ?app_assoc; reflexivity) end.
      rewrite endswith_last. reflexivity.
Qed.

(* the whole parameter section *)
Definition entry := (str * option str * option str)%type.
Definition entry_ok (e : entry) : bool :=
  let '(n, t, d) := e in
  name_ok n && match t with Some x => typ_ok x | None => true end
  && match d with Some x => doc_ok x && match last_opt x with Some c => negb (c =? GCOLON) | None => true end | None => true end.
Definition emit_entry (e : entry) : str := let '(n, t, d) := e in emit_google_param n t d.
Definition read_entry (e : entry) : (str * option str * str) := let '(n, t, d) := e in (n, t, doc_text d).

Theorem google_params_roundtrip es : forallb entry_ok es = true -> google_params (map emit_entry es) = PList (map read_entry es).
Proof.
  unfold google_params. induction es as [|[[n t] d] es IH]; cbn [map forallb take_until]; intro H; [reflexivity|].
  apply andb_prop in H. destruct H as [He Hr]. unfold entry_ok in He.
  apply andb_prop in He. destruct He as [He Hd]. apply andb_prop in He. destruct He as [Hn Ht].
  assert (Hd1 : match d with Some x => doc_ok x = true | None => True end).
  { destruct d as [x|]; [|exact I]. apply andb_prop in Hd. tauto. }
  assert (Hd2 : match d with Some x => x <> [] /\ match last_opt x with Some c => negb (c =? GCOLON) | None => true end = true | None => True end).
  { destruct d as [x|]; [|exact I]. apply andb_prop in Hd. destruct Hd as [D1 D2]. split; [|exact D2].
    unfold doc_ok in D1. apply andb_prop in D1. destruct D1 as [D1 _]. apply andb_prop in D1. destruct D1 as [D1 _]. apply head_ok_nonempty. exact D1. }
  cbn [emit_entry]. rewrite (google_line_not_afterward n t d Hd2). cbn [map collect_units].
  destruct t as [t|].
  - rewrite (google_unit_roundtrip_typed n t d Hn Ht Hd1). cbn [collect_units]. rewrite (IH Hr). reflexivity.
  - rewrite (google_unit_roundtrip_untyped n d Hn Hd1). cbn [collect_units]. rewrite (IH Hr). reflexivity.
Qed.

(* the hypotheses are satisfiable, and what lies outside: a line whose description is missing AND whose trailing blank was trimmed ends
   the parameter list -- it and everything after it become free text *)
Example google_examples :
  google_params [s2l "  a (int): the value"; s2l "  b: other"; s2l "  c (List[str]): "]
  = PList [(s2l "a", Some (s2l "int"), s2l "the value"); (s2l "b", None, s2l "other"); (s2l "c", Some (s2l "List[str]"), [])]
  /\ forallb entry_ok [(s2l "a", Some (s2l "int"), Some (s2l "the value")); (s2l "b", None, Some (s2l "other")); (s2l "c", Some (s2l "List[str]"), None)] = true
  /\ google_params [s2l "  a (int): v"; s2l "  b (int):"; s2l "  c (int): w"] = PList [(s2l "a", Some (s2l "int"), s2l "v")]
  /\ google_params [s2l "  a (int or str): v"] = PList [(s2l "a", Some (s2l "Union[int, str]"), s2l "v")]
  /\ google_params [s2l "  a (int)x: v"] = PRaises
  /\ google_params [s2l "  a (int): v"; s2l "  b"; s2l "  c: w"] = PList [(s2l "a", Some (s2l "int"), s2l "v")].
Proof. repeat split; vm_compute; reflexivity. Qed.
