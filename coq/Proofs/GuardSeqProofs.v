From Coq Require Import List String Bool.
Import ListNotations.
From CDD Require Import GuardSeq.
Local Open Scope string_scope.

(* once an approved guard has fired with the link intact and the target existing, nothing runs;
   before it, the checker forbids calls *)
Lemma guarded_sound_aux items : forall other,
  guarded false items = true -> run true other true items = [].
Proof.
  induction items as [|it r IH]; intros other H; [reflexivity|].
  destruct it as [c|f a|t|x|x]; cbn [guarded run] in *.
  - destruct (String.eqb c approved_cond) eqn:E; cbn in *.
    + reflexivity.
    + destruct other; [reflexivity|]. apply IH. exact H.
  - discriminate.
  - apply andb_true_iff in H as [Hr H]. rewrite Hr. cbn. apply IH. exact H.
  - apply IH. exact H.
  - discriminate.
Qed.

Theorem guarded_sound items other :
  guarded false items = true -> ~ In "gen" (run true other true items).
Proof. intro H. rewrite (guarded_sound_aux items other H). intros []. Qed.

(* and when the target does not exist the call does happen (the guard is not a blanket refusal) *)
Example run_calls_gen :
  run false false true [IGuardRaise approved_cond; ICall "gen" "**args_dict"] = ["gen"].
Proof. reflexivity. Qed.
(* a re-binding before the guard breaks the link: the model does call gen on an existing target *)
Example rebinding_breaks :
  In "gen" (run true false true [IAssign "args_dict['output_filename']"; IGuardRaise approved_cond; ICall "gen" "**args_dict"]).
Proof. cbn. left. reflexivity. Qed.
