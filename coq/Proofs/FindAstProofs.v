(* What find_in_ast (Model/FindAst.v) returns: the three uses (top-level name, class attribute, function parameter) under the
   conditions where the shared loop state is not disturbed, and witnesses of what happens otherwise. *)
From Coq Require Import Lia.
From CDD Require Import PyStr MergeProofs Rewrite FindAst.

(* a sibling that leaves query / current_search / cursor as they are (child_node aside): not the node searched for, not an annotated
   assignment or class called like the query, and -- functions -- only when nothing is left to pop and no positional parameter is
   called like the query *)
Definition inert (search : list str) (parent : list str) (q : str) (cs : list str) (x : node) : bool :=
  negb (loc_is (node_loc parent x) search) &&
  match x with
  | NFunc _ args _ _ _ => (match cs with [] => true | _ => false end) && (match find_arg q args O with None => true | Some _ => false end)
  | NAnn t _ _ => negb (str_eqb t q)
  | NClass n _ => negb (str_eqb n q)
  | _ => true
  end.

Lemma scan_inert search prefix parent q cs cur : forall pre i rest ch,
  forallb (inert search parent q cs) pre = true ->
  exists ch', scan search prefix parent i (pre ++ rest) (q, cs, cur, ch) = scan search prefix parent (i + length pre) rest (q, cs, cur, ch').
Proof.
  induction pre as [|x pre IH]; intros i rest ch H.
  - exists ch. cbn [app length]. rewrite Nat.add_0_r. reflexivity.
  - cbn [forallb] in H. apply andb_true_iff in H as [Hx Hp]. unfold inert in Hx. apply andb_true_iff in Hx as [L K]. apply negb_true_iff in L.
    cbn [app scan length]. rewrite L. replace (i + S (length pre))%nat with (S i + length pre)%nat by lia.
    destruct x as [n body|n args kw dfl bid|t a v|t v|k].
    + apply negb_true_iff in K. rewrite K. apply IH, Hp.
    + apply andb_true_iff in K as [K1 K2]. destruct cs as [|c cs']; [|discriminate]. destruct (find_arg q args 0); [discriminate|]. apply IH, Hp.
    + apply negb_true_iff in K. rewrite K. apply IH, Hp.
    + apply IH, Hp.
    + apply IH, Hp.
Qed.

Lemma strs_eqb_refl l : strs_eqb l l = true.
Proof. induction l as [|x l IH]; cbn; [reflexivity|]. rewrite str_eqb_refl, IH. reflexivity. Qed.

Lemma outer_S f search q t cur ch :
  outer (S f) search (q :: t) cur ch =
  if (match t with [] => true | _ => false end) && (match fst ch with Some n => str_eqb n q | None => false end)
  then FNode (snd ch)
  else match cur with
       | CArg => FErr
       | CList prefix parent l =>
           match scan search prefix parent O l (q, t, cur, ch) with
           | inl r => r
           | inr (_, cs', cur', ch') => outer f search cs' cur' ch'
           end
       end.
Proof. reflexivity. Qed.

(* ---- 1. a top-level name (what sync / conformance ask for) ---- *)
Theorem find_top n pre x post :
  forallb (inert [n] [] n []) pre = true -> node_loc [] x = Some [n] ->
  find_in_ast [n] (pre ++ x :: post) = FNode [length pre].
Proof.
  intros Hp Hx. unfold find_in_ast. cbn [length]. rewrite outer_S. cbn [fst andb].
  destruct (scan_inert [n] [] [] n [] (CList [] [] (pre ++ x :: post)) pre O (x :: post) (None, []) Hp) as [ch' E].
  rewrite E. cbn [scan Nat.add]. rewrite Hx. cbn [loc_is]. rewrite strs_eqb_refl. reflexivity.
Qed.

(* ---- 2. a class attribute C.a ---- *)
Theorem find_attr C a pre body post bpre y bpost :
  forallb (inert [C; a] [] C [a]) pre = true -> str_eqb C a = false ->
  body = bpre ++ y :: bpost -> forallb (inert [C; a] [C] a []) bpre = true -> node_loc [C] y = Some [C; a] ->
  find_in_ast [C; a] (pre ++ NClass C body :: post) = FNode [length pre; length bpre].
Proof.
  intros Hp Hne Hb Hbp Hy. unfold find_in_ast. cbn [length]. rewrite outer_S. cbn [andb].
  destruct (scan_inert [C; a] [] [] C [a] (CList [] [] (pre ++ NClass C body :: post)) pre O (NClass C body :: post) (None, []) Hp) as [ch' E].
  rewrite E. cbn [scan Nat.add node_loc app loc_is strs_eqb]. rewrite !str_eqb_refl. cbn [andb].
  rewrite outer_S. cbn [fst snd andb]. rewrite Hne. cbn [andb]. subst body.
  destruct (scan_inert [C; a] [length pre] [C] a [] (CList [length pre] [C] (bpre ++ y :: bpost)) bpre O (y :: bpost) (Some C, [length pre]) Hbp) as [ch2 E2].
  rewrite E2. cbn [scan Nat.add]. rewrite Hy. cbn [loc_is]. rewrite strs_eqb_refl. reflexivity.
Qed.

(* ---- 3. a positional parameter f.p of a top-level function ---- *)
Theorem find_param f p pre args kw dfl bid post k :
  forallb (inert [f; p] [] f [p]) pre = true -> find_arg p args O = Some k ->
  find_in_ast [f; p] (pre ++ NFunc f args kw dfl bid :: post) = FArg [length pre] k.
Proof.
  intros Hp Hk. unfold find_in_ast. cbn [length]. rewrite outer_S. cbn [andb].
  destruct (scan_inert [f; p] [] [] f [p] (CList [] [] (pre ++ NFunc f args kw dfl bid :: post)) pre O (NFunc f args kw dfl bid :: post) (None, []) Hp) as [ch' E].
  rewrite E. cbn [scan Nat.add node_loc app loc_is strs_eqb]. rewrite !str_eqb_refl. cbn [andb]. rewrite Hk. reflexivity.
Qed.

(* ---- what the conditions exclude: witnesses ---- *)
Definition A (n : string) : argd := mkArg (s2l n) None.
(* f.p asked for, an earlier function g also has a parameter p: g's parameter is returned (the function name is not compared) *)
Example earlier_function_wins :
  find_in_ast [s2l "f"; s2l "p"] [NFunc (s2l "g") [A "p"] [] [] 1; NFunc (s2l "f") [A "x"; A "p"] [] [] 2] = FArg [0%nat] 0.
Proof. vm_compute. reflexivity. Qed.
(* C.a asked for, a function precedes the class: the function consumes "a" from the search, the class is never entered: None *)
Example function_before_class :
  find_in_ast [s2l "C"; s2l "a"] [NFunc (s2l "g") [A "x"] [] [] 1; NClass (s2l "C") [NAnn (s2l "a") (s2l "int") None]] = FNone.
Proof. vm_compute. reflexivity. Qed.
(* a top-level name asked for, an earlier function has a parameter of that name: the parameter is returned *)
Example parameter_shadows_name :
  find_in_ast [s2l "n"] [NFunc (s2l "g") [A "n"] [] [] 1; NClass (s2l "n") []] = FArg [0%nat] 0.
Proof. vm_compute. reflexivity. Qed.
(* keyword-only parameters are never found *)
Example kwonly_not_found :
  find_in_ast [s2l "f"; s2l "k"] [NFunc (s2l "f") [A "x"] [A "k"] [] 1] = FNone.
Proof. vm_compute. reflexivity. Qed.
(* a path of three names through a function parameter: the for loop is entered with an ast.arg as cursor (TypeError) *)
Example path_through_parameter_raises :
  find_in_ast [s2l "f"; s2l "x"; s2l "y"] [NFunc (s2l "f") [A "x"] [] [] 1] = FErr.
Proof. vm_compute. reflexivity. Qed.
(* and the hypotheses of the three theorems are met by ordinary modules *)
Example find_examples :
  let m := [NOther 1; NAssign (s2l "K") (s2l "1"); NClass (s2l "C") [NOther 2; NAnn (s2l "a") (s2l "int") (Some (s2l "5")); NFunc (s2l "run") [A "self"; A "b"] [] [] 3];
            NFunc (s2l "f") [A "x"; A "p"] [] [s2l "1"] 4] in
  find_in_ast [s2l "C"] m = FNode [2%nat] /\ find_in_ast [s2l "C"; s2l "a"] m = FNode [2%nat; 1%nat] /\ find_in_ast [s2l "f"; s2l "p"] m = FArg [3%nat] 1
  /\ forallb (inert [s2l "C"; s2l "a"] [] (s2l "C") [s2l "a"]) (firstn 2 m) = true.
Proof. vm_compute. repeat split; reflexivity. Qed.
