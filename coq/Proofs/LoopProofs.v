From Coq Require Import Lia ZifyBool ZifyNat.
From CDD Require Import PyStr DocSplit Loops.
Open Scope Z_scope.

(* a loop whose step strictly decreases a natural measure whenever its guard holds terminates within
   [mu s] iterations *)
Section Loop.
  Variable S : Type.
  Variable guard : S -> bool.
  Variable step : S -> S.
  Variable mu : S -> nat.
  Hypothesis dec : forall s, guard s = true -> (mu (step s) < mu s)%nat.

  Lemma run_terminates_aux : forall fuel s n, (mu s < fuel)%nat ->
    exists s' k, run S guard step fuel s n = Some (s', (n + k)%nat) /\ guard s' = false /\ (k <= mu s)%nat.
  Proof.
    induction fuel as [|f IH]; intros s n H; [lia|]. cbn [run].
    destruct (guard s) eqn:G.
    - pose proof (dec s G) as Hd.
      destruct (IH (step s) (Datatypes.S n)) as [s' [k [Hr [Hg Hk]]]]; [lia|].
      exists s', (Datatypes.S k). repeat split; [rewrite Hr; f_equal; f_equal; lia | exact Hg | lia].
    - exists s, O. repeat split; [f_equal; f_equal; lia | exact G | lia].
  Qed.

  Theorem run_terminates s :
    exists s' k, run S guard step (Datatypes.S (mu s)) s O = Some (s', k) /\ guard s' = false /\ (k <= mu s)%nat.
  Proof. destruct (run_terminates_aux (Datatypes.S (mu s)) s O) as [s' [k H]]; [lia|]. exists s', k. exact H. Qed.
End Loop.

Lemma slen_nonneg s : 0 <= slen s. Proof. unfold slen. lia. Qed.

Lemma find_from_range p : forall s i, find_from p s i = -1 \/ (i <= find_from p s i <= i + slen s).
Proof.
  induction s as [|c r IH]; intros i; cbn [find_from].
  - destruct (startswith p []); [right; unfold slen; cbn; lia | left; reflexivity].
  - destruct (startswith p (c :: r)).
    + right. pose proof (slen_nonneg (c :: r)). lia.
    + destruct (IH (i + 1)) as [H|H]; [left; exact H|right].
      unfold slen in *. cbn [length]. lia.
Qed.

Lemma find_at_range p s i : find_at p s i = -1 \/ (Z.of_nat i <= find_at p s i <= slen s).
Proof.
  unfold find_at. destruct (Nat.ltb (length s) i) eqn:E; [left; reflexivity|].
  apply Nat.ltb_ge in E.
  unfold find. destruct (find_from_range p (skipn i s) 0) as [H|H].
  - rewrite H. left. reflexivity.
  - destruct (find_from p (skipn i s) 0) eqn:F; [| |clear F; lia].
    + right. unfold slen in *. rewrite skipn_length in H. clear F. lia.
    + right. unfold slen in *. rewrite skipn_length in H. clear F. lia.
Qed.

(* L1 *)
Lemma l1_dec cds s : l1_guard cds s = true -> (l1_mu cds (l1_step cds s) < l1_mu cds s)%nat.
Proof.
  destruct s as [prev next]. unfold l1_guard, l1_step, l1_mu. cbn [fst snd].
  intro H. apply andb_true_iff in H as [H _].
  pose proof (slen_nonneg cds).
  destruct (find_at_range [NL] cds (Z.to_nat (next + 1))) as [F|F].
  - rewrite F. change (-1 <? 0) with true. cbv iota. destruct (next <? 0) eqn:E; lia.
  - destruct (find_at [NL] cds (Z.to_nat (next + 1)) <? 0) eqn:E1; destruct (next <? 0) eqn:E2; lia.
Qed.

(* L2 *)
Lemma index_in_range s i : in_range s i = true -> (- slen s <= i < slen s).
Proof.
  unfold in_range, char_at, index. fold (slen s).
  destruct (i <? 0) eqn:E.
  - destruct ((slen s + i <? 0) || (slen s <=? slen s + i)) eqn:E2; [discriminate|]. lia.
  - destruct ((i <? 0) || (slen s <=? i)) eqn:E2; [discriminate|]. lia.
Qed.
Lemma l2_dec doc idx : l2_guard doc idx = true -> (l2_mu doc (l2_step idx) < l2_mu doc idx)%nat.
Proof.
  unfold l2_guard, l2_step, l2_mu. intro H.
  apply andb_true_iff in H as [H _]. apply andb_true_iff in H as [H0 Hr].
  apply index_in_range in Hr.
  destruct (0 <=? idx) eqn:E1; destruct (0 <=? idx - 1) eqn:E2; lia.
Qed.

(* L3 *)
Lemma l3_dec doc i : l3_guard doc i = true -> (l3_mu doc (l3_step i) < l3_mu doc i)%nat.
Proof. unfold l3_guard, l3_step, l3_mu. intro H. apply andb_true_iff in H as [H _]. lia. Qed.

(* L4 *)
Lemma l4_dec doc s : l4_guard doc s = true -> (l4_mu doc (l4_step doc s) < l4_mu doc s)%nat.
Proof. destruct s as [a b]. unfold l4_guard, l4_step, l4_mu. cbn [fst snd]. intro H. lia. Qed.

(* L5 *)
Lemma count_leading_space_pos s c r : s = c :: r -> is_space c = true -> (1 <= count_leading_space s)%nat.
Proof. intros -> H. cbn. rewrite H. lia. Qed.

Lemma slice_from_head s i c : index s i = Some c -> 0 <= i -> exists r, slice_from s i = c :: r.
Proof.
  unfold index, slice_from, norm_idx. fold (slen s). intros H Hi.
  replace (i <? 0) with false in * by lia.
  destruct ((i <? 0) || (slen s <=? i)) eqn:E; [discriminate|].
  replace (Z.min i (slen s)) with i by lia.
  clear E. revert H. generalize (Z.to_nat i) as n. intro n. revert s. induction n as [|n IH]; intros s H.
  - destruct s; cbn in *; [discriminate|]. injection H as <-. eexists. reflexivity.
  - destruct s; cbn in *; [discriminate|]. apply (IH s). exact H.
Qed.

Lemma l5_dec sen s : 0 <= fst s -> l5_guard sen s = true -> (l5_mu sen (l5_step sen s) < l5_mu sen s)%nat.
Proof.
  destruct s as [i [q1 q2]]. unfold l5_guard, l5_step, l5_mu. cbn [fst snd]. intros Hi H.
  destruct (char_at sen i) as [c|] eqn:Ec; [|cbn [fst]; lia].
  destruct (is_space c) eqn:Es.
  - destruct (slice_from_head sen i c Ec Hi) as [r Hr].
    pose proof (count_leading_space_pos _ c r Hr Es). cbn [fst]. lia.
  - destruct (N.eqb c 39 || N.eqb c 34); [|cbn [fst]; lia].
    cbn [fst]. match goal with |- context [if ?b then i + 1 else i] => destruct b end; lia.
Qed.
Lemma l5_step_nonneg sen s : 0 <= fst s -> 0 <= fst (l5_step sen s).
Proof.
  destruct s as [i [q1 q2]]. unfold l5_step. cbn [fst snd]. intro Hi.
  destruct (char_at sen i) as [c|] eqn:Ec; [|cbn [fst]; lia].
  destruct (is_space c) eqn:Es.
  - destruct (slice_from_head sen i c Ec Hi) as [r Hr].
    pose proof (count_leading_space_pos _ c r Hr Es). cbn [fst]. lia.
  - destruct (N.eqb c 39 || N.eqb c 34); [|cbn [fst]; lia].
    cbn [fst]. match goal with |- context [if ?b then i + 1 else i] => destruct b end; lia.
Qed.

(* L6 *)
Lemma l6_dec {A} pop (s : list A) : l6_guard s = true -> (length (l6_step pop s) < length s)%nat.
Proof.
  unfold l6_guard, l6_step. destruct s as [|x r]; [discriminate|]. intros _. cbn [tl length].
  destruct (pop r); [destruct r; cbn; lia | lia].
Qed.

(* ---- termination statements ------------------------------------------------------------------- *)
Theorem l1_terminates cds s : exists s' k,
  run _ (l1_guard cds) (l1_step cds) (S (l1_mu cds s)) s O = Some (s', k) /\ l1_guard cds s' = false /\ (k <= l1_mu cds s)%nat.
Proof. apply run_terminates. apply l1_dec. Qed.
Theorem l2_terminates doc idx : exists s' k,
  run _ (l2_guard doc) l2_step (S (l2_mu doc idx)) idx O = Some (s', k) /\ l2_guard doc s' = false /\ (k <= l2_mu doc idx)%nat.
Proof. apply run_terminates. apply l2_dec. Qed.
Theorem l3_terminates doc i : exists s' k,
  run _ (l3_guard doc) l3_step (S (l3_mu doc i)) i O = Some (s', k) /\ l3_guard doc s' = false /\ (k <= l3_mu doc i)%nat.
Proof. apply run_terminates. apply l3_dec. Qed.
Theorem l4_terminates doc s : exists s' k,
  run _ (l4_guard doc) (l4_step doc) (S (l4_mu doc s)) s O = Some (s', k) /\ l4_guard doc s' = false /\ (k <= l4_mu doc s)%nat.
Proof. apply run_terminates. apply l4_dec. Qed.

(* L5 needs the invariant 0 <= i, which the step preserves: package the state with it *)
Definition l5_guard' sen (s : l5_state) : bool := (0 <=? fst s) && l5_guard sen s.
Lemma l5_dec' sen s : l5_guard' sen s = true -> (l5_mu sen (l5_step sen s) < l5_mu sen s)%nat.
Proof. unfold l5_guard'. intro H. apply andb_true_iff in H as [H0 H]. apply l5_dec; [lia | exact H]. Qed.
Theorem l5_terminates sen : exists s' k,
  run _ (l5_guard sen) (l5_step sen) (S (Z.to_nat (slen sen))) (0, (0, 0)) O = Some (s', k)
  /\ l5_guard sen s' = false /\ (k <= Z.to_nat (slen sen))%nat.
Proof.
  (* run with guard' and transfer: along the run 0 <= i holds, so guard' = guard *)
  assert (G : forall fuel s n, 0 <= fst s ->
            run _ (l5_guard sen) (l5_step sen) fuel s n = run _ (l5_guard' sen) (l5_step sen) fuel s n).
  { induction fuel as [|f IH]; intros s n Hs; [reflexivity|]. cbn [run]. unfold l5_guard' at 1.
    replace (0 <=? fst s) with true by lia. cbn [andb].
    destruct (l5_guard sen s); [|reflexivity]. apply IH. apply l5_step_nonneg. exact Hs. }
  rewrite G by (cbn; lia).
  destruct (run_terminates _ (l5_guard' sen) (l5_step sen) (l5_mu sen) (l5_dec' sen) (0, (0, 0))) as [s' [k [Hr [Hg Hk]]]].
  unfold l5_mu in Hr, Hk. cbn [fst] in Hr, Hk. rewrite Z.sub_0_r in Hr, Hk.
  exists s', k. split; [exact Hr|]. split; [|exact Hk].
  (* at the final state 0 <= i still holds, so guard' false means guard false *)
  assert (Inv : forall fuel s n s2 k2, 0 <= fst s ->
            run _ (l5_guard' sen) (l5_step sen) fuel s n = Some (s2, k2) -> 0 <= fst s2).
  { induction fuel as [|f IH]; intros s n s2 k2 Hs H; [discriminate|]. cbn [run] in H.
    destruct (l5_guard' sen s).
    - eapply IH; [|exact H]. apply l5_step_nonneg. exact Hs.
    - injection H as <- _. exact Hs. }
  assert (H0 : 0 <= fst s') by (eapply Inv; [|exact Hr]; cbn; lia).
  unfold l5_guard' in Hg. replace (0 <=? fst s') with true in Hg by lia. exact Hg.
Qed.

Theorem l6_terminates {A} pop (s : list A) : exists s' k,
  run _ l6_guard (l6_step pop) (S (length s)) s O = Some (s', k) /\ l6_guard s' = false /\ (k <= length s)%nat.
Proof. apply (run_terminates _ l6_guard (l6_step pop) (@length A)). apply l6_dec. Qed.

Lemma l1_linear cds : (l1_mu cds (l1_init cds) <= S (S (length cds)))%nat.
Proof.
  unfold l1_mu, l1_init, find. cbn [snd].
  pose proof (find_from_range [NL] cds 0) as F. unfold slen in *.
  set (f := find_from [NL] cds 0) in *. clearbody f.
  destruct (f <? 0) eqn:E; lia.
Qed.
