From Coq Require Import Lia.
From CDD Require Import PyStr JsonSchema MergeProofs.
Open Scope N_scope.

(* ---- required <-> not Optional ------------------------------------------------------------------ *)
Lemma emit_required p : snd (emit_prop p) = negb (is_optional (p_typ p)).
Proof.
  unfold emit_prop. destruct (p_typ p) as [b|ms|t'] eqn:E; cbn [is_optional negb].
  - destruct (emit_inner (TBase b)). reflexivity.
  - destruct (emit_inner (TLit ms)). reflexivity.
  - destruct (emit_inner t'). reflexivity.
Qed.

Theorem required_iff ps n :
  In n (required_names ps) <-> exists p, In (n, p) ps /\ is_optional (p_typ p) = false.
Proof.
  unfold required_names. rewrite in_map_iff. split.
  - intros [[n' p] [Hn Hin]]. cbn in Hn. subst n'. apply filter_In in Hin as [Hin Hr]. cbn in Hr.
    rewrite emit_required in Hr. exists p. split; [exact Hin|]. destruct (is_optional (p_typ p)); [discriminate|reflexivity].
  - intros [p [Hin Ho]]. exists (n, p). split; [reflexivity|]. apply filter_In. split; [exact Hin|].
    cbn. rewrite emit_required, Ho. reflexivity.
Qed.

(* ---- sorting keeps exactly the members --------------------------------------------------------- *)
Lemma in_insert_sorted x y l : In y (insert_sorted x l) <-> y = x \/ In y l.
Proof.
  induction l as [|z r IH]; cbn; [intuition congruence|].
  destruct (str_leb x z); cbn; [intuition congruence|]. rewrite IH. intuition.
Qed.
Lemma in_sort_strs y l : In y (sort_strs l) <-> In y l.
Proof.
  induction l as [|z r IH]; cbn; [reflexivity|]. rewrite in_insert_sorted, IH. intuition congruence.
Qed.
Lemma sort_strs_nonempty l : l <> [] -> sort_strs l <> [].
Proof.
  destruct l as [|z r]; [congruence|]. intros _ H.
  assert (In z (sort_strs (z :: r))) by (apply in_sort_strs; left; reflexivity). rewrite H in H0. exact H0.
Qed.

(* ---- split("|") inverts "|".join on members without "|" ------------------------------------------ *)
Definition no_pipe (m : str) : Prop := ~ In 124 m.

Lemma split_char_aux_app m : forall cur rest, no_pipe m ->
  split_char_aux 124 (m ++ rest) cur = split_char_aux 124 rest (rev m ++ cur).
Proof.
  induction m as [|c m IH]; intros cur rest Hn; [reflexivity|].
  cbn [app split_char_aux]. destruct (c =? 124) eqn:E.
  - apply N.eqb_eq in E. exfalso. apply Hn. left. exact E.
  - rewrite IH; [|intro H; apply Hn; right; exact H]. cbn [rev]. rewrite <- app_assoc. reflexivity.
Qed.

Lemma split_join ms : ms <> [] -> Forall no_pipe ms -> split_char 124 (join PIPE ms) = ms.
Proof.
  unfold split_char. induction ms as [|m r IH]; [congruence|]. intros _ Hf.
  inversion Hf as [|? ? Hm Hr]; subst.
  destruct r as [|m2 r2].
  - cbn [join]. rewrite <- (app_nil_r m) at 1. rewrite split_char_aux_app by exact Hm.
    cbn. rewrite app_nil_r, rev_involutive. reflexivity.
  - change (join PIPE (m :: m2 :: r2)) with (m ++ PIPE ++ join PIPE (m2 :: r2)).
    rewrite split_char_aux_app by exact Hm. unfold PIPE at 1. cbn [app split_char_aux]. rewrite N.eqb_refl.
    rewrite app_nil_r, rev_involutive. f_equal. apply IH; [congruence | exact Hr].
Qed.

Lemma member_ok_no_pipe m : member_ok m = true -> no_pipe m.
Proof.
  unfold member_ok, no_pipe. intro H. apply andb_true_iff in H as [_ H]. rewrite forallb_forall in H.
  intro Hin. specialize (H _ Hin). vm_compute in H. discriminate.
Qed.

(* ---- the text "Optional[" cannot occur in a rendered inner type of the domain --------------------- *)
Lemma startswith_in p s c : startswith p s = true -> In c p -> In c s.
Proof.
  revert s; induction p as [|x p IH]; intros s H Hc; [contradiction|].
  destruct s as [|y s]; [discriminate|]. cbn in H. apply andb_true_iff in H as [H1 H2]. apply N.eqb_eq in H1. subst y.
  destruct Hc as [<-|Hc]; [left; reflexivity | right; eapply IH; eauto].
Qed.
Lemma contains_in p s c : contains p s = true -> In c p -> In c s.
Proof.
  induction s as [|y s IH]; cbn [contains]; intros H Hc.
  - apply orb_true_iff in H as [H|H]; [|discriminate]. eapply startswith_in; eauto.
  - apply orb_true_iff in H as [H|H]; [eapply startswith_in; eauto | right; apply IH; assumption].
Qed.

Definition no_bracket (s : str) : Prop := ~ In 91 s.   (* the character [ *)
Lemma no_bracket_not_optional s : no_bracket s -> contains (s2l "Optional[") s = false.
Proof.
  intro H. destruct (contains (s2l "Optional[") s) eqn:E; [|reflexivity].
  exfalso. apply H. eapply contains_in; [exact E|]. vm_compute. tauto.
Qed.
Lemma literal_not_optional body : no_bracket body ->
  contains (s2l "Optional[") (s2l "Literal[" ++ body ++ s2l "]") = false.
Proof.
  intro H.
  change (s2l "Literal[" ++ body ++ s2l "]") with (76 :: 105 :: 116 :: 101 :: 114 :: 97 :: 108 :: 91 :: (body ++ [93])).
  assert (R : contains (s2l "Optional[") (body ++ [93]) = false).
  { apply no_bracket_not_optional. intro Hin. apply in_app_or in Hin as [Hin|[Hin|[]]]; [exact (H Hin) | discriminate]. }
  cbn [contains]. rewrite R. vm_compute. reflexivity.
Qed.

(* ---- emit -> parse round trip on the domain ------------------------------------------------------ *)
Lemma mem_str_In x l : mem_str x l = true <-> In x l.
Proof.
  unfold mem_str. rewrite existsb_exists. split.
  - intros [y [Hin He]]. apply str_eqb_eq in He. subst. exact Hin.
  - intro H. exists x. split; [exact H | apply str_eqb_refl].
Qed.

Lemma NoDup_keys_unique {V} (ps : list (str * V)) n p p' :
  NoDup (map fst ps) -> In (n, p) ps -> In (n, p') ps -> p = p'.
Proof.
  induction ps as [|[k v] r IH]; cbn; intros Hnd H1 H2; [contradiction|].
  inversion Hnd as [|? ? Hnotin Hnd']; subst.
  destruct H1 as [H1|H1], H2 as [H2|H2].
  - congruence.
  - injection H1 as -> ->. exfalso. apply Hnotin. apply in_map_iff. exists (n, p'). split; [reflexivity|exact H2].
  - injection H2 as -> ->. exfalso. apply Hnotin. apply in_map_iff. exists (n, p). split; [reflexivity|exact H1].
  - eapply IH; eauto.
Qed.

Lemma required_mem ps n p : NoDup (map fst ps) -> In (n, p) ps ->
  mem_str n (required_names ps) = negb (is_optional (p_typ p)).
Proof.
  intros Hnd Hin. apply eq_true_iff_eq. rewrite mem_str_In, required_iff. split.
  - intros [p' [Hin' Ho]]. rewrite (NoDup_keys_unique ps n p p' Hnd Hin Hin'), Ho. reflexivity.
  - intro H. exists p. split; [exact Hin|]. destruct (is_optional (p_typ p)); [discriminate|reflexivity].
Qed.

Lemma json_type2typ_base b : json_type2typ (json_name b) = Some (base_name b).
Proof. destruct b; vm_compute; reflexivity. Qed.
Lemma base_not_optional b : contains (s2l "Optional[") (base_name b) = false.
Proof. destruct b; vm_compute; reflexivity. Qed.

Lemma member_no_bracket m : member_ok m = true -> no_bracket m /\ no_pipe m /\ m <> [].
Proof.
  unfold member_ok. intro H. apply andb_true_iff in H as [Hl H]. rewrite forallb_forall in H. repeat split.
  - intro Hin. specialize (H _ Hin). vm_compute in H. discriminate.
  - intro Hin. specialize (H _ Hin). vm_compute in H. discriminate.
  - intro E. subst. discriminate.
Qed.

Lemma no_bracket_quote1 m : no_bracket m -> no_bracket (quote1 m).
Proof.
  unfold quote1, no_bracket. intros Hm Hin. cbn in Hin. destruct Hin as [Hin|Hin]; [discriminate|].
  apply in_app_or in Hin as [Hin|[Hin|[]]]; [exact (Hm Hin)|discriminate].
Qed.
Lemma no_bracket_join_quoted ms : Forall (fun m => no_bracket m) ms ->
  no_bracket (join (s2l ", ") (map quote1 ms)).
Proof.
  induction 1 as [|m r Hm _ IH]; [intros []|].
  destruct r as [|m2 r2].
  - cbn [map join]. apply no_bracket_quote1. exact Hm.
  - change (join (s2l ", ") (map quote1 (m :: m2 :: r2))) with (quote1 m ++ s2l ", " ++ join (s2l ", ") (map quote1 (m2 :: r2))).
    intro Hin. apply in_app_or in Hin as [Hin|Hin]; [exact (no_bracket_quote1 m Hm Hin)|].
    apply in_app_or in Hin as [Hin|Hin]; [cbn in Hin; intuition discriminate | exact (IH Hin)].
Qed.

Lemma join_nonempty sep (ms : list str) : ms <> [] -> Forall (fun m => m <> []) ms -> join sep ms <> [].
Proof.
  destruct ms as [|m r]; [congruence|]. intros _ Hf. inversion Hf as [|? ? Hm _]; subst.
  destruct r; cbn; [exact Hm|]. destruct m; [congruence|]. discriminate.
Qed.

Definition expected (p : param) : rparam :=
  mkRP (Some (render_typ (norm_typ (p_typ p)))) (j_description (fst (emit_prop p))) (j_default (fst (emit_prop p))) None.

Lemma forall_sorted (P : str -> Prop) ms : Forall P ms -> Forall P (sort_strs ms).
Proof. rewrite !Forall_forall. intros H x Hx. apply H. apply in_sort_strs. exact Hx. Qed.

Lemma lit_facts ms : negb (Nat.eqb (length ms) 0) && forallb member_ok ms = true ->
  sort_strs ms <> [] /\ Forall no_pipe (sort_strs ms) /\ Forall (fun m => no_bracket m) (sort_strs ms)
  /\ Forall (fun m => m <> []) (sort_strs ms).
Proof.
  intro H. apply andb_true_iff in H as [Hl Hm]. rewrite forallb_forall in Hm.
  assert (ms <> []) by (intro; subst; discriminate).
  split; [apply sort_strs_nonempty; assumption|].
  repeat split; apply forall_sorted; apply Forall_forall; intros m Hin; destruct (member_no_bracket m (Hm m Hin)) as [A [B C]]; assumption.
Qed.

Theorem roundtrip ps n p :
  NoDup (map fst ps) -> In (n, p) ps -> typ_ok (p_typ p) = true ->
  parse_prop n (fst (emit_prop p)) (required_names ps) = Some (expected p).
Proof.
  intros Hnd Hin Hok. pose proof (required_mem ps n p Hnd Hin) as Hreq.
  unfold expected. unfold parse_prop, emit_prop in *.
  destruct (p_typ p) as [b|ms|t'] eqn:Et; cbn [is_optional negb] in Hreq; cbn [typ_ok inner_ok] in Hok.
  - (* base, required *)
    cbn [emit_inner fst j_type j_pattern j_description j_default norm_typ render_typ].
    destruct (json_name b) eqn:Ej; [destruct b; discriminate|]. rewrite <- Ej.
    rewrite json_type2typ_base. rewrite Hreq. cbn [negb andb].
    destruct (base_name b) eqn:Eb; [destruct b; discriminate|]. reflexivity.
  - (* literal, required *)
    destruct (lit_facts ms Hok) as [Hne [Hnp [Hnb Hnn]]].
    cbn [emit_inner fst j_type j_pattern j_description j_default norm_typ render_typ].
    change (json_type2typ (json_name BStr)) with (Some (s2l "str")).
    pose proof (join_nonempty PIPE (sort_strs ms) Hne Hnn) as Hj.
    destruct (join PIPE (sort_strs ms)) as [|c0 pat0] eqn:Ep; [congruence|]. rewrite <- Ep.
    rewrite (split_join (sort_strs ms) Hne Hnp). rewrite Hreq. cbn [negb andb].
    cbn [json_name]. reflexivity.
  - (* Optional *)
    destruct t' as [b|ms|t'']; cbn [inner_ok] in Hok; [| |discriminate].
    + cbn [emit_inner fst j_type j_pattern j_description j_default norm_typ render_typ].
      destruct (json_name b) eqn:Ej; [destruct b; discriminate|]. rewrite <- Ej.
      rewrite json_type2typ_base. rewrite Hreq. cbn [negb andb].
      destruct (base_name b) eqn:Eb; [destruct b; discriminate|]. rewrite <- Eb.
      rewrite base_not_optional. cbn [negb]. reflexivity.
    + destruct (lit_facts ms Hok) as [Hne [Hnp [Hnb Hnn]]].
      cbn [emit_inner fst j_type j_pattern j_description j_default norm_typ render_typ].
      change (json_type2typ (json_name BStr)) with (Some (s2l "str")).
      pose proof (join_nonempty PIPE (sort_strs ms) Hne Hnn) as Hj.
      destruct (join PIPE (sort_strs ms)) as [|c0 pat0] eqn:Ep; [congruence|]. rewrite <- Ep.
      rewrite (split_join (sort_strs ms) Hne Hnp). rewrite Hreq. cbn [negb andb].
      rewrite (literal_not_optional _ (no_bracket_join_quoted _ Hnb)). cbn [negb json_name].
      reflexivity.
Qed.

(* ---- a well-typed default validates against its own property schema ------------------------------- *)
Lemma contains_self s : contains s s = true.
Proof.
  assert (H : forall p, startswith p p = true) by (induction p; cbn; [reflexivity | rewrite N.eqb_refl; assumption]).
  destruct s; cbn; [reflexivity|]. rewrite N.eqb_refl, H. reflexivity.
Qed.

Definition strip_opt (t : typ) : typ := match t with TOpt x => x | x => x end.
Lemma emit_prop_fields p :
  j_type (fst (emit_prop p)) = fst (emit_inner (strip_opt (p_typ p))) /\
  j_pattern (fst (emit_prop p)) = snd (emit_inner (strip_opt (p_typ p))).
Proof.
  unfold emit_prop. destruct (p_typ p) as [b|ms|t']; cbn [strip_opt].
  - destruct (emit_inner (TBase b)); split; reflexivity.
  - destruct (emit_inner (TLit ms)); split; reflexivity.
  - destruct (emit_inner t'); split; reflexivity.
Qed.

Theorem default_validates_ok p d :
  typ_ok (p_typ p) = true -> d <> DNone -> default_well_typed (p_typ p) d = true ->
  default_validates (fst (emit_prop p)) d = true.
Proof.
  intros Hok Hnn Hw. unfold default_validates. destruct (emit_prop_fields p) as [-> ->].
  assert (Hin : inner_ok (strip_opt (p_typ p)) = true).
  { destruct (p_typ p) as [b|ms|t']; cbn [typ_ok strip_opt] in *; assumption. }
  assert (Hw' : default_well_typed (strip_opt (p_typ p)) d = true).
  { destruct (p_typ p) as [b|ms|t']; cbn [strip_opt]; try exact Hw.
    destruct t' as [b|ms|t'']; [exact Hw | exact Hw | cbn in Hok; discriminate]. }
  destruct (strip_opt (p_typ p)) as [b|ms|t']; cbn [inner_ok] in Hin; [| |discriminate].
  - cbn [emit_inner fst snd]. destruct b, d; cbn in Hw'; try discriminate; try congruence; reflexivity.
  - cbn [emit_inner fst snd]. destruct d; cbn in Hw'; try discriminate; try congruence.
    cbn [json_name]. rewrite str_eqb_refl. cbn [andb].
    destruct (lit_facts ms Hin) as [Hne [Hnp _]].
    unfold pattern_accepts. rewrite (split_join _ Hne Hnp). apply existsb_exists. exists s. split.
    + apply in_sort_strs. apply mem_str_In. exact Hw'.
    + apply contains_self.
Qed.

(* every member is accepted by the pattern ... *)
Theorem pattern_accepts_members ms m :
  negb (Nat.eqb (length ms) 0) && forallb member_ok ms = true -> In m ms ->
  pattern_accepts (join PIPE (sort_strs ms)) m = true.
Proof.
  intros Hok Hin. destruct (lit_facts ms Hok) as [Hne [Hnp _]].
  unfold pattern_accepts. rewrite (split_join _ Hne Hnp). apply existsb_exists. exists m.
  split; [apply in_sort_strs; exact Hin | apply contains_self].
Qed.
