(* Model/RestDoc.v, one token line at a time: the value of a ":return:" / ":param name:" line is EVERYTHING after the colon that closes
   the key -- further colons in the prose included. *)
From CDD Require Import PyStr DocSplit RestDoc RestDocProofs.
Open Scope N_scope.

Theorem return_line_value s body :
  st_ret (parse_token_line s (s2l ":return:" ++ body))
  = Some (set_doc (match st_ret s with Some e => e | None => empty_entry end) (strip body)).
Proof.
  change (s2l ":return:" ++ body) with ((COLON :: s2l "return") ++ COLON :: body).
  rewrite (parse_return_line (s2l "return") false s body); [reflexivity | reflexivity | intro X; reflexivity | intro X; reflexivity].
Qed.

Theorem rtype_line_value s body :
  st_ret (parse_token_line s (s2l ":rtype:" ++ body))
  = Some (set_typ (match st_ret s with Some e => e | None => empty_entry end) (typ_value (strip body))).
Proof.
  change (s2l ":rtype:" ++ body) with ((COLON :: s2l "rtype") ++ COLON :: body).
  rewrite (parse_return_line (s2l "rtype") true s body); [reflexivity | reflexivity | intro X; reflexivity | intro X; reflexivity].
Qed.

Theorem param_line_value s n body : name_ok n = true ->
  st_cur (parse_token_line s (s2l ":param " ++ n ++ COLON :: body)) = Some (n, set_doc (cur_entry s n) (strip body)).
Proof.
  intro Hn. change (s2l ":param " ++ n ++ COLON :: body) with (s2l ":param" ++ SP :: n ++ COLON :: body).
  rewrite (parse_named_line (s2l ":param") false s n body); [reflexivity | | intro X; reflexivity | intro X; reflexivity | exact Hn].
  intro H. cbn in H. repeat (destruct H as [H|H]; [discriminate|]). exact H.
Qed.

Example return_line_with_colons :
  st_ret (parse_token_line init_state (s2l ":return: exit status: 0 on success"))
  = Some {| pe_doc := Some (s2l "exit status: 0 on success"); pe_typ := None |}.
Proof. vm_compute. reflexivity. Qed.
