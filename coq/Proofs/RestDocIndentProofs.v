(* The parse theorem of RestDocProofs generalised over the blank text between lines (a docstring indented inside a function or a
   class has "\n" + tabs there), and the indented emitter. *)
From Coq Require Import Lia.
From CDD Require Import PyStr DocSplit RestDoc MergeProofs DefaultDocProofs RestDocProofs.

Section Gen.
  Variables S1 S2 SF HP HS : str.     (* inside a block, between blocks, after the last line, before / after the header *)
  Hypothesis B1 : blank S1 = true. Hypothesis B2 : blank S2 = true. Hypothesis BF : blank SF = true.
  Hypothesis BP : blank HP = true. Hypothesis BS : blank HS = true.
  Hypothesis N1 : no_colon S1 = true. Hypothesis N2 : no_colon S2 = true. Hypothesis NF : no_colon SF = true.
  Hypothesis NP : no_colon HP = true. Hypothesis NS : no_colon HS = true.

  Definition gparam_lines (n : str) (e : pentry) (sep : str) : list (str * str) :=
    match pe_doc e, pe_typ e with
    | Some d, Some t => [(T_param, named_body n (d ++ S1)); (T_type, named_body n (fenced t ++ sep))]
    | Some d, None => [(T_param, named_body n (d ++ sep))]
    | None, Some t => [(T_type, named_body n (fenced t ++ sep))]
    | None, None => []
    end.
  Definition gret_lines (e : pentry) (sep : str) : list (str * str) :=
    match pe_doc e, pe_typ e with
    | Some d, Some t => [(T_return, COLON :: SP :: d ++ S1); (T_rtype, COLON :: SP :: fenced t ++ sep)]
    | Some d, None => [(T_return, COLON :: SP :: d ++ sep)]
    | None, Some t => [(T_rtype, COLON :: SP :: fenced t ++ sep)]
    | None, None => []
    end.
  Fixpoint glines_params (ps : list (str * pentry)) (final_sep : str) : list (str * str) :=
    match ps with
    | [] => []
    | [(n, e)] => gparam_lines n e final_sep
    | (n, e) :: r => gparam_lines n e S2 ++ glines_params r final_sep
    end.
  Definition gall_lines (ps : list (str * pentry)) (ret : option pentry) : list (str * str) :=
    match ret with
    | None => glines_params ps SF
    | Some r => glines_params ps S2 ++ gret_lines r SF
    end.
  Definition grender (doc : str) (ps : list (str * pentry)) (ret : option pentry) : str :=
    (HP ++ doc ++ HS) ++ concat (map cat (gall_lines ps ret)).

  Lemma gparam_lines_ok n e sep : name_ok n = true -> entry_ok e = true -> no_colon sep = true -> Forall line_ok (gparam_lines n e sep).
  Proof.
    intros Hn He Hs. pose proof (name_ok_no_colon_b n Hn) as Nn. unfold gparam_lines, entry_ok in *.
    destruct (pe_doc e) as [d|], (pe_typ e) as [t|]; try discriminate;
      repeat match goal with H : _ && _ = true |- _ => apply andb_true_iff in H as [? ?] end;
      repeat (apply Forall_cons; [split; cbn [fst snd]|]); try apply Forall_nil;
      try (vm_compute; tauto);
      try (apply named_body_ok; [first [exact dead_param_sp | exact dead_type_sp] | exact Nn |
            rewrite no_colon_app; apply andb_true_iff; split;
            [first [apply no_colon_fenced, typ_ok_no_colon; assumption | apply clean_parts; assumption] | first [exact Hs | exact N1]]]).
  Qed.

  Lemma gret_lines_ok e sep : entry_ok e = true -> no_colon sep = true -> Forall line_ok (gret_lines e sep).
  Proof.
    intros He Hs. unfold gret_lines, entry_ok in *.
    destruct (pe_doc e) as [d|], (pe_typ e) as [t|]; try discriminate;
      repeat match goal with H : _ && _ = true |- _ => apply andb_true_iff in H as [? ?] end;
      repeat (apply Forall_cons; [split; cbn [fst snd]|]); try apply Forall_nil;
      try (vm_compute; tauto);
      try (apply keys_after_colon_sp; rewrite no_colon_app; apply andb_true_iff; split;
            [first [apply no_colon_fenced, typ_ok_no_colon; assumption | apply clean_parts; assumption] | first [exact Hs | exact N1]]).
  Qed.

  Lemma gfold_param_block s n e sep : name_ok n = true -> entry_ok e = true -> blank sep = true ->
    (forall n0 e0, st_cur s = Some (n0, e0) -> n0 <> n) ->
    fold_left parse_seg (map seg_of (gparam_lines n e sep)) s
    = {| st_doc := st_doc s; st_params := flush s; st_ret := st_ret s; st_cur := Some (n, e) |}.
  Proof.
    intros Hn He Hs Hf. destruct (cur_fresh s n Hf) as [C P]. destruct e as [od ot]. unfold gparam_lines, entry_ok in *. cbn [pe_doc pe_typ] in *.
    destruct od as [d|], ot as [t|]; try discriminate; try (apply andb_true_iff in He as [Hd Ht]);
      cbn [map fold_left]; unfold seg_of, cat, named_body; cbn [fst snd]; rewrite ?parse_seg_token.
    - rewrite (parse_doc_line s n d S1 Hn Hd B1), C, P.
      change (T_type ++ SP :: n ++ COLON :: SP :: fenced t ++ sep) with (T_type ++ SP :: n ++ COLON :: SP :: (FENCE ++ t ++ FENCE) ++ sep).
      rewrite (parse_typ_line _ n t sep Hn Ht Hs). unfold cur_entry, params_after. cbn [st_cur st_params st_doc st_ret].
      rewrite str_eqb_refl. reflexivity.
    - rewrite (parse_doc_line s n d sep Hn Hd Hs), C, P. reflexivity.
    - change (T_type ++ SP :: n ++ COLON :: SP :: fenced t ++ sep) with (T_type ++ SP :: n ++ COLON :: SP :: (FENCE ++ t ++ FENCE) ++ sep).
      rewrite (parse_typ_line s n t sep Hn Ht Hs), C, P. reflexivity.
  Qed.

  Lemma gfold_ret_lines s e sep : entry_ok e = true -> blank sep = true -> st_ret s = None ->
    fold_left parse_seg (map seg_of (gret_lines e sep)) s
    = {| st_doc := st_doc s; st_params := st_params s; st_ret := Some e; st_cur := st_cur s |}.
  Proof.
    intros He Hs Hr. destruct e as [od ot]. unfold gret_lines, entry_ok in *. cbn [pe_doc pe_typ] in *.
    destruct od as [d|], ot as [t|]; try discriminate; try (apply andb_true_iff in He as [Hd Ht]);
      cbn [map fold_left]; unfold seg_of, cat; cbn [fst snd]; rewrite ?parse_seg_token.
    - rewrite (parse_rdoc_line s d S1 Hd B1).
      change (T_rtype ++ COLON :: SP :: fenced t ++ sep) with (T_rtype ++ COLON :: SP :: (FENCE ++ t ++ FENCE) ++ sep).
      rewrite (parse_rtyp_line _ t sep Ht Hs). cbn [st_cur st_params st_doc st_ret]. rewrite Hr. reflexivity.
    - rewrite (parse_rdoc_line s d sep Hd Hs), Hr. reflexivity.
    - change (T_rtype ++ COLON :: SP :: fenced t ++ sep) with (T_rtype ++ COLON :: SP :: (FENCE ++ t ++ FENCE) ++ sep).
      rewrite (parse_rtyp_line s t sep Ht Hs), Hr. reflexivity.
  Qed.

  Lemma gfold_params : forall ps s fs, blank fs = true -> forallb param_ok ps = true -> NoDup (map fst ps) ->
    (forall n0 e0, st_cur s = Some (n0, e0) -> ~ In n0 (map fst ps)) ->
    (forall n, In n (map fst ps) -> ~ In n (map fst (flush s))) ->
    let s' := fold_left parse_seg (map seg_of (glines_params ps fs)) s in
    flush s' = flush s ++ ps /\ st_doc s' = st_doc s /\ st_ret s' = st_ret s.
  Proof.
    induction ps as [|[n e] r IH]; intros s fs Hfs Hok Hnd Hcur Hfl; cbn zeta.
    - cbn. rewrite app_nil_r. auto.
    - cbn [forallb] in Hok. apply andb_true_iff in Hok as [Hp Hok]. unfold param_ok in Hp. cbn [fst snd] in Hp. apply andb_true_iff in Hp as [Hn He].
      cbn [map] in Hnd. inversion Hnd as [|? ? Hnr Hndr]; subst.
      assert (Hf : forall n0 e0, st_cur s = Some (n0, e0) -> n0 <> n).
      { intros n0 e0 E K. subst. apply (Hcur n e0 E). left. reflexivity. }
      set (s1 := {| st_doc := st_doc s; st_params := flush s; st_ret := st_ret s; st_cur := Some (n, e) |}).
      assert (F1 : flush s1 = flush s ++ [(n, e)]).
      { unfold flush at 1. cbn [s1 st_cur st_params]. rewrite (name_ok_not_star n Hn). apply set_assoc_fresh. apply Hfl. left. reflexivity. }
      destruct r as [|p2 r2].
      + cbn [glines_params]. rewrite (gfold_param_block s n e fs Hn He Hfs Hf). fold s1. rewrite F1. auto.
      + change (glines_params ((n, e) :: p2 :: r2) fs) with (gparam_lines n e S2 ++ glines_params (p2 :: r2) fs).
        rewrite map_app, fold_left_app, (gfold_param_block s n e S2 Hn He B2 Hf). fold s1.
        destruct (IH s1 fs Hfs Hok Hndr) as [A [B C]].
        * intros n0 e0 E. cbn [s1 st_cur] in E. injection E as <- <-. exact Hnr.
        * intros m Hm. rewrite F1, map_app, in_app_iff. cbn [map fst In]. intros [K|[K|[]]].
          -- apply (Hfl m); [right; exact Hm | exact K].
          -- subst. contradiction.
        * rewrite A, F1, <- app_assoc. cbn [app]. cbn [s1 st_doc st_ret] in B, C. auto.
  Qed.

  Lemma glines_params_ok : forall ps fs, forallb param_ok ps = true -> no_colon fs = true -> Forall line_ok (glines_params ps fs).
  Proof.
    induction ps as [|[n e] r IH]; intros fs Hok Hfs; [constructor|].
    cbn [forallb] in Hok. apply andb_true_iff in Hok as [Hp Hok]. unfold param_ok in Hp. cbn [fst snd] in Hp. apply andb_true_iff in Hp as [Hn He].
    destruct r as [|p2 r2]; [exact (gparam_lines_ok n e fs Hn He Hfs)|].
    change (glines_params ((n, e) :: p2 :: r2) fs) with (gparam_lines n e S2 ++ glines_params (p2 :: r2) fs).
    apply Forall_app. split; [apply gparam_lines_ok; auto | apply IH; auto].
  Qed.

  Lemma gall_lines_ok ps ret : forallb param_ok ps = true -> ret_ok ret = true -> Forall line_ok (gall_lines ps ret).
  Proof.
    intros Hp Hr. unfold gall_lines. destruct ret as [r|]; [|apply glines_params_ok; auto].
    apply Forall_app. split; [apply glines_params_ok; auto | apply gret_lines_ok; auto].
  Qed.

  Lemma gparam_lines_nonempty n e sep : entry_ok e = true -> gparam_lines n e sep <> [].
  Proof. unfold entry_ok, gparam_lines. destruct (pe_doc e), (pe_typ e); intro H; try discriminate. Qed.
  Lemma gret_lines_nonempty e sep : entry_ok e = true -> gret_lines e sep <> [].
  Proof. unfold entry_ok, gret_lines. destruct (pe_doc e), (pe_typ e); intro H; try discriminate. Qed.

  Lemma gall_lines_nonempty ps ret : forallb param_ok ps = true -> ret_ok ret = true -> (ps <> [] \/ ret <> None) -> gall_lines ps ret <> [].
  Proof.
    intros Hp Hr Hne. unfold gall_lines. destruct ret as [r|].
    - intro E. apply app_eq_nil in E as [_ E]. exact (gret_lines_nonempty r SF Hr E).
    - destruct Hne as [Hne|Hne]; [|contradiction]. destruct ps as [|[n e] rest]; [contradiction|].
      cbn [forallb] in Hp. apply andb_true_iff in Hp as [Hp _]. unfold param_ok in Hp. apply andb_true_iff in Hp as [_ He]. cbn [snd] in He.
      destruct rest as [|p2 r2]; [exact (gparam_lines_nonempty n e SF He)|].
      change (glines_params ((n, e) :: p2 :: r2) SF) with (gparam_lines n e S2 ++ glines_params (p2 :: r2) SF).
      intro E. apply app_eq_nil in E as [E _]. exact (gparam_lines_nonempty n e _ He E).
  Qed.

  Theorem parse_grender doc ps ret :
    clean doc = true -> forallb param_ok ps = true -> NoDup (map fst ps) -> ret_ok ret = true -> (ps <> [] \/ ret <> None) ->
    parse_rest (grender doc ps ret) = {| p_doc := doc; p_params := ps; p_ret := ret |}.
  Proof.
    intros Hd Hp Hnd Hr Hne. destruct (clean_parts doc Hd) as [D1 [D2 D3]].
    pose proof (gall_lines_ok ps ret Hp Hr) as HL. pose proof (gall_lines_nonempty ps ret Hp Hr Hne) as HN.
    unfold parse_rest, grender. destruct (gall_lines ps ret) as [|tb L'] eqn:EL; [contradiction|].
    rewrite (scan_lines (HP ++ doc ++ HS) tb L') by (try exact HL; rewrite !no_colon_app, D3, NP, NS; reflexivity).
    rewrite <- EL. cbn [fold_left].
    set (s0 := {| st_doc := doc; st_params := []; st_ret := None; st_cur := None |}).
    match goal with |- context [parse_seg init_state ?x] => assert (S0 : parse_seg init_state x = s0) end.
    { cbn [parse_seg init_state st_doc st_params st_ret st_cur].
      rewrite (strip_padded HP doc HS) by assumption. reflexivity. }
    rewrite S0.
    change (map (fun x => (true, cat x)) (gall_lines ps ret)) with (map seg_of (gall_lines ps ret)).
    unfold gall_lines. destruct ret as [r|].
    - rewrite map_app, fold_left_app.
      destruct (gfold_params ps s0 S2 B2 Hp Hnd) as [A [B C]]; [intros ? ? E; discriminate E | intros n _ K; exact K |].
      set (s1 := fold_left parse_seg (map seg_of (glines_params ps S2)) s0) in *.
      rewrite (gfold_ret_lines s1 r SF Hr BF C). cbn [st_doc st_ret]. unfold flush at 1. cbn [st_cur st_params].
      fold (flush s1). rewrite A, B. reflexivity.
    - destruct (gfold_params ps s0 SF BF Hp Hnd) as [A [B C]]; [intros ? ? E; discriminate E | intros n _ K; exact K |].
      rewrite A, B, C. reflexivity.
  Qed.
End Gen.

(* ================= the indented emitter ================= *)
Definition subst (tabs : str) (s : str) : str := flat_map (fun c => if c =? NL then NL :: tabs else [c]) s.
Definition one_line (s : str) : bool := forallb (fun c => negb (c =? NL)) s.

Lemma subst_app tabs a b : subst tabs (a ++ b) = subst tabs a ++ subst tabs b.
Proof. apply flat_map_app. Qed.
Lemma subst_one_line tabs s : one_line s = true -> subst tabs s = s.
Proof.
  induction s as [|c r IH]; [reflexivity|]. unfold one_line. cbn [forallb]. intro H. apply andb_true_iff in H as [H1 H2].
  apply negb_true_iff in H1. cbn [subst flat_map]. rewrite H1. cbn [app]. f_equal. apply IH, H2.
Qed.

Lemma join_cons_ne (sep x : str) (l : list str) : l <> [] -> join sep (x :: l) = x ++ sep ++ join sep l.
Proof. destruct l; [contradiction | reflexivity]. Qed.
Lemma split_char_aux_ne sep : forall s cur, split_char_aux sep s cur <> [].
Proof. induction s as [|c r IH]; intro cur; cbn; [discriminate|]. destruct (c =? sep); [discriminate | apply IH]. Qed.

(* joining the tab-prefixed lines of a text = the text with a tab after every newline, behind one more tab *)
Lemma join_split_aux tabs : forall s cur,
  join [NL] (map (fun l => tabs ++ l) (split_char_aux NL s cur)) = tabs ++ rev cur ++ subst tabs s.
Proof.
  induction s as [|c r IH]; intro cur; cbn [split_char_aux].
  - cbn. rewrite app_nil_r. reflexivity.
  - destruct (N.eqb_spec c NL) as [->|Hne].
    + cbn [map]. rewrite join_cons_ne by (intro E; apply map_eq_nil in E; exact (split_char_aux_ne NL r [] E)).
      rewrite IH. cbn [rev app subst flat_map]. rewrite N.eqb_refl. rewrite <- !app_assoc. reflexivity.
    + rewrite IH. cbn [rev subst flat_map]. apply N.eqb_neq in Hne. rewrite Hne. rewrite <- !app_assoc. reflexivity.
Qed.
Lemma join_split tabs s : join [NL] (map (fun l => tabs ++ l) (split_char NL s)) = tabs ++ subst tabs s.
Proof. unfold split_char. rewrite join_split_aux. reflexivity. Qed.

Lemma split_char_aux_snoc_nl : forall s cur, split_char_aux NL (s ++ [NL]) cur = split_char_aux NL s cur ++ [[]].
Proof.
  induction s as [|c r IH]; intro cur; cbn [app split_char_aux].
  - rewrite N.eqb_refl. reflexivity.
  - destruct (c =? NL); [rewrite IH; reflexivity | apply IH].
Qed.
Lemma splitlines_snoc_nl y : splitlines_nl (y ++ [NL]) = split_char NL y.
Proof.
  unfold splitlines_nl. destruct (y ++ [NL]) as [|c r] eqn:E; [destruct y; discriminate|]. rewrite <- E.
  unfold ends_nl. rewrite last_opt_app_single, N.eqb_refl. unfold split_char. rewrite split_char_aux_snoc_nl. apply removelast_last.
Qed.

Lemma one_line_not_in d : one_line d = true -> ~ In NL d.
Proof. unfold one_line. rewrite forallb_forall. intros H K. specialize (H _ K). rewrite N.eqb_refl in H. discriminate. Qed.

Lemma split_char_aux_prefix : forall d z cur, one_line d = true ->
  split_char_aux NL (d ++ NL :: z) cur = (rev cur ++ d) :: split_char_aux NL z [].
Proof.
  induction d as [|c r IH]; intros z cur H; cbn [app split_char_aux].
  - rewrite N.eqb_refl, app_nil_r. reflexivity.
  - unfold one_line in H. cbn [forallb] in H. apply andb_true_iff in H as [H1 H2]. apply negb_true_iff in H1. rewrite H1.
    rewrite IH by exact H2. cbn [rev]. rewrite <- app_assoc. reflexivity.
Qed.
Lemma split_char_prefix d z : one_line d = true -> split_char NL (d ++ NL :: z) = d :: split_char NL z.
Proof. intro H. unfold split_char. rewrite split_char_aux_prefix by exact H. reflexivity. Qed.

Lemma slen_app (a b : str) : slen (a ++ b) = (slen a + slen b)%Z.
Proof. unfold slen. rewrite app_length. lia. Qed.

Lemma slice_from_len' (pre rest : str) : slice_from (pre ++ rest) (slen pre) = rest.
Proof.
  unfold slice_from, norm_idx, slen. rewrite app_length.
  destruct (Z.ltb_spec (Z.of_nat (length pre)) 0); [lia|].
  rewrite Z.min_l by lia. rewrite Nat2Z.id, skipn_app, skipn_all, Nat.sub_diag. reflexivity.
Qed.
Lemma slice_to_len' (pre rest : str) : slice (pre ++ rest) 0 (slen pre) = pre.
Proof.
  unfold slice, norm_idx, slen. rewrite app_length. change (0 <? 0)%Z with false. cbv iota.
  destruct (Z.ltb_spec (Z.of_nat (length pre)) 0); [lia|].
  rewrite !Z.min_l by lia. rewrite Z.sub_0_r, Nat2Z.id. cbn [Z.to_nat skipn].
  rewrite firstn_app, firstn_all, Nat.sub_diag. cbn. apply app_nil_r.
Qed.

Definition tabs_of (k : nat) : str := concat (repeat TAB k).

Theorem indent_doc_spec k doc y c :
  head_ok doc = true -> one_line doc = true -> (c =? NL) = false ->
  let T := doc ++ NL :: NL :: y ++ [c; NL] in
  indent_doc (S k) T = NL :: tabs_of (S k) ++ subst (tabs_of (S k)) T.
Proof.
  intros Hh Ho Hc T. set (tabs := tabs_of (S k)).
  assert (Dne : doc <> []) by (destruct doc; [discriminate | discriminate]).
  assert (Efind : find [NL] T = slen doc).
  { unfold find, T. rewrite find_from_skip by (apply one_line_not_in, Ho). unfold slen. lia. }
  assert (Hpos : (0 <= slen doc)%Z) by (unfold slen; lia).
  unfold indent_doc. fold (tabs_of (S k)). fold tabs. rewrite Efind.
  (* the skip loop stops at the first line *)
  assert (Eskip : skip_blank_lines (S (length T)) T 0 (slen doc) = (doc, slen doc)).
  { cbn [skip_blank_lines]. destruct (Z.ltb_spec (slen doc) 0); [lia|].
    assert (Esl : slice T 0 (slen doc) = doc) by (unfold T; apply slice_to_len').
    rewrite Esl, (isspace_head_ok doc Hh). reflexivity. }
  rewrite Eskip.
  assert (En : (slen T =? slen doc)%Z = false).
  { apply Z.eqb_neq. unfold T. rewrite slen_app. unfold slen at 2. cbn [length]. lia. }
  rewrite En. cbn [orb].
  assert (Enth : nth_char T (slen doc + 1) = Some NL).
  { unfold nth_char, T, slen. replace (Z.to_nat (Z.of_nat (length doc) + 1)) with (length doc + 1)%nat by lia.
    rewrite nth_error_app2 by lia. replace (length doc + 1 - length doc)%nat with 1%nat by lia. reflexivity. }
  rewrite Enth, N.eqb_refl. cbn [negb]. rewrite andb_false_r.
  (* the rest of the text, its lines *)
  assert (Erest : slice_from T (slen doc + 1) = (NL :: y ++ [c]) ++ [NL]).
  { unfold T. replace (doc ++ NL :: NL :: y ++ [c; NL]) with ((doc ++ [NL]) ++ (NL :: y ++ [c]) ++ [NL])
      by (rewrite <- !app_assoc; cbn [app]; rewrite <- app_assoc; reflexivity).
    replace (slen doc + 1)%Z with (slen (doc ++ [NL])) by (rewrite slen_app; reflexivity). apply slice_from_len'. }
  rewrite Erest, splitlines_snoc_nl.
  assert (Eline : (match doc with [] => [] | _ :: _ => [doc] end) = [doc]) by (destruct doc; [contradiction | reflexivity]).
  rewrite Eline. change ([doc] ++ split_char NL (NL :: y ++ [c])) with (doc :: split_char NL (NL :: y ++ [c])).
  rewrite <- (split_char_prefix doc (NL :: y ++ [c]) Ho).
  set (Y := doc ++ NL :: NL :: y ++ [c]).
  assert (ET : T = Y ++ [NL]) by (unfold T, Y; rewrite <- !app_assoc; cbn [app]; rewrite <- app_assoc; reflexivity).
  rewrite join_split.
  assert (Elen : Nat.ltb 1 (length (split_char NL Y)) = true).
  { unfold Y. rewrite (split_char_prefix doc (NL :: y ++ [c]) Ho). cbn [length].
    pose proof (split_char_aux_ne NL (NL :: y ++ [c]) []) as H. unfold split_char. destruct (split_char_aux NL (NL :: y ++ [c]) []); [contradiction | reflexivity]. }
  rewrite Elen.
  assert (Est : startswith tabs (tabs ++ subst tabs Y) = true) by apply startswith_app.
  rewrite Est.
  assert (EY : subst tabs Y = subst tabs (doc ++ NL :: NL :: y) ++ [c]).
  { unfold Y. replace (doc ++ NL :: NL :: y ++ [c]) with ((doc ++ NL :: NL :: y) ++ [c]) by (rewrite <- app_assoc; reflexivity).
    rewrite subst_app. cbn [subst flat_map]. rewrite Hc. reflexivity. }
  assert (Eend : ends_nl (tabs ++ subst tabs Y) = false).
  { unfold ends_nl. rewrite EY, app_assoc, last_opt_app_single. exact Hc. }
  rewrite Eend, ET, subst_app. cbn [subst flat_map]. rewrite N.eqb_refl. cbn [app]. rewrite app_nil_r, <- !app_assoc. reflexivity.
Qed.

(* the text before the final wrapper of the emitter *)
Lemma cand_is_render doc ps ret :
  clean doc = true -> forallb param_ok ps = true -> ps <> [] -> ret_ok ret = true ->
  header_args_footer_to_str doc (if isspace (args_returns true ps ret) then [] else args_returns true ps ret) [] = render doc ps ret.
Proof.
  intros Hd Hp Hne Hr. destruct (clean_parts doc Hd) as [D1 [D2 _]].
  destruct (params_block_ok ps Hp Hne) as [P1 P2]. cbn zeta in P1, P2.
  set (P := join [NL; NL] (map (emit_param true) ps)) in *.
  assert (Pne : Nat.eqb (length P) 0 = false) by (destruct P; [discriminate | reflexivity]).
  assert (Ppe : num_of_nls P true = O) by (apply nls_end_tail_ok, P2).
  unfold render, all_lines. destruct ret as [r|].
  - cbn [ret_ok] in Hr. destruct (lines_block_ok (s2l "return") (s2l "rtype") r Hr) as [R1 R2]. cbn zeta in R1, R2.
    fold (emit_return true r) in R1, R2. set (R := emit_return true r) in *.
    assert (Rne : R <> []) by (apply head_ok_ne, R1).
    assert (AR : args_returns true ps (Some r) = (P ++ [NL; NL] ++ R) ++ [NL]).
    { unfold args_returns. fold P. fold R. destruct R as [|r0 rr] eqn:ER; [contradiction|]. rewrite <- ER in *.
      rewrite Pne, (tail_ok_not_ends_nl P P2). cbn [orb]. rewrite Ppe.
      assert (L1 : Nat.eqb (length ([NL] ++ R)) 0 = false) by reflexivity. rewrite L1.
      assert (RE : num_of_nls ([NL] ++ R) true = O) by (apply nls_end_tail_ok, tail_ok_app_r, R2). rewrite RE.
      cbn [Nat.ltb Nat.leb negb andb orb Nat.eqb]. rewrite <- !app_assoc. reflexivity. }
    rewrite AR.
    assert (X2 : tail_ok (P ++ [NL; NL] ++ R) = true) by (do 2 apply tail_ok_app_r; exact R2).
    assert (X1 : head_ok ((P ++ [NL; NL] ++ R) ++ [NL]) = true) by (rewrite <- app_assoc; apply head_ok_app, P1).
    rewrite (isspace_head_ok _ X1).
    rewrite (haf_clean doc ((P ++ [NL; NL] ++ R) ++ [NL]) Hd X1)
      by (right; exists (P ++ [NL; NL] ++ R); split; [reflexivity | split; [exact X2 | intro K; apply app_eq_nil in K as [K _]; rewrite K in Pne; discriminate]]).
    rewrite tail_ok_app by discriminate. replace (tail_ok [NL]) with false by reflexivity. rewrite app_nil_r.
    rewrite map_app, concat_app, (params_text ps [NL; NL] Hp Hne), (ret_text r [NL] Hr). fold P. fold R.
    rewrite <- !app_assoc. reflexivity.
  - assert (AR : args_returns true ps None = P).
    { unfold args_returns. fold P. rewrite Ppe. cbn [length Nat.eqb negb andb Nat.ltb Nat.leb orb]. rewrite !app_nil_r. reflexivity. }
    rewrite AR, (isspace_head_ok _ P1), (haf_clean doc P Hd P1) by (left; exact P2). rewrite P2.
    rewrite (params_text ps [NL] Hp Hne). fold P. rewrite <- !app_assoc. reflexivity.
Qed.

(* the canonical text ends with a non-blank character and one newline *)
Lemma render_ends (ps : list (str * pentry)) (ret : option pentry) :
  forallb param_ok ps = true -> ps <> [] -> ret_ok ret = true ->
  exists y c, concat (map cat (all_lines ps ret)) = y ++ [c; NL] /\ (c =? NL) = false.
Proof.
  intros Hp Hne Hr.
  destruct (params_block_ok ps Hp Hne) as [P1 P2]. cbn zeta in P1, P2.
  assert (E : exists X, concat (map cat (all_lines ps ret)) = X ++ [NL] /\ tail_ok X = true).
  { unfold all_lines. destruct ret as [r|].
    - cbn [ret_ok] in Hr. destruct (lines_block_ok (s2l "return") (s2l "rtype") r Hr) as [R1 R2]. cbn zeta in R1, R2.
      fold (emit_return true r) in R1, R2.
      rewrite map_app, concat_app, (params_text ps [NL; NL] Hp Hne), (ret_text r [NL] Hr).
      exists ((join [NL; NL] (map (emit_param true) ps) ++ [NL; NL]) ++ emit_return true r). split; [rewrite <- !app_assoc; reflexivity|].
      apply tail_ok_app_r, R2.
    - rewrite (params_text ps [NL] Hp Hne). eexists. split; [reflexivity | exact P2]. }
  destruct E as [X [E T]]. unfold tail_ok in T. destruct (rev X) as [|c r] eqn:RX; [discriminate|].
  assert (X = rev r ++ [c]) by (rewrite <- (rev_involutive X), RX; reflexivity). subst X.
  exists (rev r), c. split; [rewrite E, <- app_assoc; reflexivity|].
  apply head_ok_not_space in T. apply nonspace_not_nl, T.
Qed.

(* ---- the tab-substituted canonical text is the canonical text with the tabbed separators ---- *)
Definition entry_1l (e : pentry) : bool :=
  (match pe_doc e with Some d => one_line d | None => true end) && (match pe_typ e with Some t => one_line t | None => true end).
Definition param_1l (p : str * pentry) : bool := one_line (fst p) && entry_1l (snd p).

Section Tabs.
  Variable tabs : str.
  Let S1 := NL :: tabs.
  Let S2 := NL :: tabs ++ NL :: tabs.

  Lemma subst_nl : subst tabs [NL] = S1. Proof. cbn. rewrite app_nil_r. reflexivity. Qed.
  Lemma subst_nlnl : subst tabs [NL; NL] = S2. Proof. cbn. rewrite app_nil_r. reflexivity. Qed.

  Lemma subst_named_body n rest : one_line n = true -> subst tabs (named_body n rest) = named_body n (subst tabs rest).
  Proof.
    intro H. unfold named_body. change (SP :: n ++ COLON :: SP :: rest) with ([SP] ++ n ++ [COLON; SP] ++ rest).
    rewrite !subst_app, (subst_one_line tabs n H). reflexivity.
  Qed.
  Lemma subst_fenced t : one_line t = true -> subst tabs (fenced t) = fenced t.
  Proof. intro H. unfold fenced. rewrite !subst_app, (subst_one_line tabs t H). reflexivity. Qed.

  Lemma subst_param_lines n e sep : one_line n = true -> entry_1l e = true ->
    subst tabs (concat (map cat (param_lines n e sep))) = concat (map cat (gparam_lines S1 n e (subst tabs sep))).
  Proof.
    intros Hn He. unfold entry_1l in He. apply andb_true_iff in He as [Hd Ht]. unfold param_lines, gparam_lines.
    destruct (pe_doc e) as [d|], (pe_typ e) as [t|]; cbn [map concat]; unfold cat; cbn [fst snd]; rewrite ?app_nil_r, ?subst_app;
      rewrite ?(subst_one_line tabs T_param eq_refl), ?(subst_one_line tabs T_type eq_refl);
      rewrite ?(subst_named_body n _ Hn), ?subst_app, ?(subst_fenced t Ht), ?(subst_one_line tabs d Hd), ?subst_nl; reflexivity.
  Qed.
  Lemma subst_ret_lines e sep : entry_1l e = true ->
    subst tabs (concat (map cat (ret_lines e sep))) = concat (map cat (gret_lines S1 e (subst tabs sep))).
  Proof.
    intro He. unfold entry_1l in He. apply andb_true_iff in He as [Hd Ht]. unfold ret_lines, gret_lines.
    destruct (pe_doc e) as [d|], (pe_typ e) as [t|]; cbn [map concat]; unfold cat; cbn [fst snd]; rewrite ?app_nil_r, ?subst_app;
      rewrite ?(subst_one_line tabs T_return eq_refl), ?(subst_one_line tabs T_rtype eq_refl);
      repeat match goal with |- context [subst tabs (COLON :: SP :: ?x)] => change (COLON :: SP :: x) with ([COLON; SP] ++ x) end;
      rewrite ?subst_app, ?(subst_fenced t Ht), ?(subst_one_line tabs d Hd), ?subst_nl; reflexivity.
  Qed.

  Lemma subst_lines_params : forall ps fs, forallb param_1l ps = true ->
    subst tabs (concat (map cat (lines_params ps fs))) = concat (map cat (glines_params S1 S2 ps (subst tabs fs))).
  Proof.
    induction ps as [|[n e] r IH]; intros fs H; [reflexivity|].
    cbn [forallb] in H. apply andb_true_iff in H as [Hp H]. unfold param_1l in Hp. cbn [fst snd] in Hp. apply andb_true_iff in Hp as [Hn He].
    destruct r as [|p2 r2]; [cbn [lines_params glines_params]; apply subst_param_lines; assumption|].
    change (lines_params ((n, e) :: p2 :: r2) fs) with (param_lines n e [NL; NL] ++ lines_params (p2 :: r2) fs).
    change (glines_params S1 S2 ((n, e) :: p2 :: r2) (subst tabs fs)) with (gparam_lines S1 n e S2 ++ glines_params S1 S2 (p2 :: r2) (subst tabs fs)).
    rewrite !map_app, !concat_app, subst_app, (subst_param_lines n e [NL; NL] Hn He), subst_nlnl, (IH fs H). reflexivity.
  Qed.

  Definition ret_1l (ret : option pentry) : bool := match ret with Some r => entry_1l r | None => true end.

  Lemma subst_all_lines ps ret : forallb param_1l ps = true -> ret_1l ret = true ->
    subst tabs (concat (map cat (all_lines ps ret))) = concat (map cat (gall_lines S1 S2 S1 ps ret)).
  Proof.
    intros Hp Hr. unfold all_lines, gall_lines. destruct ret as [r|].
    - rewrite !map_app, !concat_app, subst_app, (subst_lines_params ps [NL; NL] Hp), subst_nlnl, (subst_ret_lines r [NL] Hr), subst_nl. reflexivity.
    - rewrite (subst_lines_params ps [NL] Hp), subst_nl. reflexivity.
  Qed.
End Tabs.

(* ================= the emitter at indent_level k+1 and its round trip ================= *)
Definition S1_of (k : nat) : str := NL :: tabs_of k.
Definition S2_of (k : nat) : str := NL :: tabs_of k ++ NL :: tabs_of k.

Lemma blank_tabs k : blank (tabs_of k) = true.
Proof. unfold tabs_of. induction k as [|k IH]; [reflexivity|]. cbn [repeat concat]. unfold blank in *. rewrite forallb_app, IH. reflexivity. Qed.
Lemma no_colon_tabs k : no_colon (tabs_of k) = true.
Proof. unfold tabs_of. induction k as [|k IH]; [reflexivity|]. cbn [repeat concat]. rewrite no_colon_app, IH. reflexivity. Qed.

Lemma blank_S1 k : blank (S1_of k) = true. Proof. unfold S1_of, blank. cbn [forallb]. apply (blank_tabs k). Qed.
Lemma blank_S2 k : blank (S2_of k) = true.
Proof. unfold S2_of, blank. cbn [forallb]. rewrite forallb_app. cbn [forallb]. fold (blank (tabs_of k)). rewrite blank_tabs. reflexivity. Qed.
Lemma no_colon_S1 k : no_colon (S1_of k) = true. Proof. unfold S1_of, no_colon. cbn [forallb]. apply (no_colon_tabs k). Qed.
Lemma no_colon_S2 k : no_colon (S2_of k) = true.
Proof. unfold S2_of, no_colon. cbn [forallb]. rewrite forallb_app. cbn [forallb]. fold (no_colon (tabs_of k)). rewrite no_colon_tabs. reflexivity. Qed.

Theorem emit_indented_is_grender k doc ps ret :
  clean doc = true -> one_line doc = true -> forallb param_ok ps = true -> forallb param_1l ps = true -> ps <> [] ->
  ret_ok ret = true -> ret_1l ret = true ->
  emit_rest_indented (S k) true doc ps ret
  = grender (S1_of (S k)) (S2_of (S k)) (S1_of (S k)) (S1_of (S k)) (S2_of (S k)) doc ps ret.
Proof.
  intros Hd H1 Hp Hp1 Hne Hr Hr1. destruct (clean_parts doc Hd) as [D1 [D2 _]].
  unfold emit_rest_indented. rewrite (cand_is_render doc ps ret Hd Hp Hne Hr).
  destruct (render_ends ps ret Hp Hne Hr) as [y [c [E Hc]]].
  assert (ER : render doc ps ret = doc ++ NL :: NL :: y ++ [c; NL]).
  { unfold render. rewrite E, <- app_assoc. reflexivity. }
  set (T := doc ++ NL :: NL :: y ++ [c; NL]) in *.
  assert (Hh : head_ok T = true) by (apply head_ok_app, D1).
  assert (Hn : Nat.eqb (count_char NL T) 0 = false).
  { unfold T. rewrite count_char_app. cbn [count_char]. rewrite N.eqb_refl. destruct (count_char NL doc); reflexivity. }
  assert (Hspec : indent_doc (S k) T = NL :: tabs_of (S k) ++ subst (tabs_of (S k)) T) by (apply indent_doc_spec; assumption).
  assert (Hsub : subst (tabs_of (S k)) T = doc ++ S2_of (S k) ++ concat (map cat (gall_lines (S1_of (S k)) (S2_of (S k)) (S1_of (S k)) ps ret))).
  { rewrite <- ER. unfold render. rewrite subst_app, subst_app, (subst_one_line _ doc H1), subst_nlnl.
    rewrite (subst_all_lines (tabs_of (S k)) ps ret Hp1 Hr1). unfold S1_of, S2_of. rewrite <- !app_assoc. reflexivity. }
  rewrite ER. fold T.
  destruct T as [|t0 tr] eqn:ET; [discriminate|]. rewrite <- ET in *.
  rewrite (isspace_head_ok _ Hh), Hn, Hspec, Hsub.
  unfold grender, S1_of. rewrite <- !app_assoc. reflexivity.
Qed.

Theorem rest_roundtrip_indented k doc ps ret :
  clean doc = true -> one_line doc = true -> forallb param_ok ps = true -> forallb param_1l ps = true -> NoDup (map fst ps) -> ps <> [] ->
  ret_ok ret = true -> ret_1l ret = true ->
  parse_rest (emit_rest_indented (S k) true doc ps ret) = {| p_doc := doc; p_params := ps; p_ret := ret |}.
Proof.
  intros Hd H1 Hp Hp1 Hnd Hne Hr Hr1. rewrite emit_indented_is_grender by assumption.
  apply parse_grender; auto using blank_S1, blank_S2, no_colon_S1, no_colon_S2.
Qed.
