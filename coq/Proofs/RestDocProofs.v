From Coq Require Import Lia.
From CDD Require Import PyStr DocSplit RestDoc MergeProofs.

(* ================= 1. the scanner loses nothing, for every token list and every string ================= *)
Definition flat (st : list seg * str) : str := concat (map snd (fst st)) ++ snd st.

Lemma tok_loop_flat : forall toks snap sc stack, flat (tok_loop toks snap sc stack) = flat (sc, stack).
Proof.
  induction toks as [|t r IH]; intros snap sc stack; cbn [tok_loop]; [reflexivity|].
  destruct (ends_with snap t); [|apply IH].
  rewrite IH. unfold flat. cbn [fst snd]. rewrite map_app, concat_app. cbn [map concat]. rewrite app_nil_r, <- app_assoc. f_equal.
  set (n := (length stack - length t)%nat).
  rewrite firstn_length, (Nat.min_l n) by (unfold n; lia).
  rewrite (firstn_all2 (n := length t)) by (rewrite skipn_length; unfold n; lia).
  apply firstn_skipn.
Qed.

Lemma step_flat tokens st c : flat (step tokens st c) = flat st ++ [c].
Proof. destruct st as [sc stack]. unfold step. rewrite tok_loop_flat. unfold flat. cbn. rewrite app_assoc. reflexivity. Qed.

Lemma scan_chars_flat tokens : forall s st, flat (scan_chars tokens s st) = flat st ++ s.
Proof.
  induction s as [|c s IH]; intro st; cbn [scan_chars fold_left]; [rewrite app_nil_r; reflexivity|].
  fold (scan_chars tokens s (step tokens st c)). rewrite IH, step_flat, <- app_assoc. reflexivity.
Qed.

Lemma finish_flat tokens st : concat (map snd (finish_scan tokens st)) = flat st.
Proof.
  destruct st as [sc stack]. unfold finish_scan, flat. cbn [fst snd]. destruct stack as [|c r]; [rewrite app_nil_r; reflexivity|].
  rewrite map_app, concat_app. cbn. rewrite app_nil_r. reflexivity.
Qed.

Theorem scan_rest_lossless (doc : str) : concat (map snd (scan_rest doc)) = doc.
Proof. unfold scan_rest. rewrite finish_flat, scan_chars_flat. reflexivity. Qed.

(* ================= 2. which stacks end with a token: the text from the last colon on ================= *)
Definition no_colon (s : str) : bool := forallb (fun c => negb (c =? COLON)) s.

Fixpoint tail_key (s : str) : option str :=
  match s with
  | [] => None
  | c :: r => match tail_key r with
              | Some x => Some x
              | None => if c =? COLON then Some (c :: r) else None
              end
  end.

Lemma tail_key_nocolon s : no_colon s = true -> tail_key s = None.
Proof.
  induction s as [|c r IH]; cbn; [reflexivity|]. intro H. apply andb_true_iff in H as [H1 H2].
  rewrite IH by exact H2. apply negb_true_iff in H1. rewrite H1. reflexivity.
Qed.

Lemma tail_key_app a b : tail_key (a ++ b) = match tail_key b with Some x => Some x | None => option_map (fun x => x ++ b) (tail_key a) end.
Proof.
  induction a as [|c r IH]; cbn [app tail_key].
  - destruct (tail_key b); reflexivity.
  - rewrite IH. destruct (tail_key b) as [x|]; [reflexivity|].
    destruct (tail_key r) as [y|]; cbn; [reflexivity|]. destruct (c =? COLON); reflexivity.
Qed.

Lemma tail_key_snoc s c : tail_key (s ++ [c]) = if c =? COLON then Some [c] else option_map (fun x => x ++ [c]) (tail_key s).
Proof. rewrite tail_key_app. cbn. destruct (c =? COLON); reflexivity. Qed.

Lemma tail_key_colon_led a l : no_colon l = true -> tail_key (a ++ COLON :: l) = Some (COLON :: l).
Proof. intro H. rewrite tail_key_app. cbn. rewrite (tail_key_nocolon l H). reflexivity. Qed.

Lemma ends_with_suffix s tok : ends_with s tok = true -> exists p, s = p ++ tok.
Proof.
  unfold ends_with. intro H. apply str_eqb_eq in H.
  exists (rev (skipn (length tok) (rev s))).
  rewrite <- (rev_involutive tok) at 2. rewrite <- H, <- rev_app_distr, firstn_skipn, rev_involutive. reflexivity.
Qed.
Lemma ends_with_app s tok : ends_with (s ++ tok) tok = true.
Proof.
  unfold ends_with. rewrite rev_app_distr, firstn_app, rev_length, Nat.sub_diag.
  rewrite <- (rev_length tok) at 1. rewrite firstn_all. cbn. rewrite app_nil_r. apply str_eqb_refl.
Qed.

(* every token is a colon followed by lower-case letters *)
Definition is_lower (c : char) : bool := (97 <=? c) && (c <=? 122).
Definition tok_ok (t : str) : bool := match t with c :: l => (c =? COLON) && forallb is_lower l | [] => false end.
Lemma tokens_ok : forallb tok_ok all_tokens = true. Proof. vm_compute. reflexivity. Qed.

Lemma lower_no_colon l : forallb is_lower l = true -> no_colon l = true.
Proof.
  unfold no_colon. induction l as [|c r IH]; cbn [forallb]; [reflexivity|]. intro H. apply andb_true_iff in H as [H1 H2].
  rewrite (IH H2), andb_true_r. unfold is_lower in H1. destruct (N.eqb_spec c COLON) as [->|]; [vm_compute in H1; discriminate | reflexivity].
Qed.

Lemma token_shape t : In t all_tokens -> exists l, t = COLON :: l /\ no_colon l = true.
Proof.
  intro H. pose proof tokens_ok as T. rewrite forallb_forall in T. specialize (T t H).
  destruct t as [|c l]; [discriminate|]. cbn in T. apply andb_true_iff in T as [T1 T2]. apply N.eqb_eq in T1. subst c.
  exists l. split; [reflexivity | apply lower_no_colon, T2].
Qed.

Lemma ends_with_key s t : In t all_tokens -> ends_with s t = true -> tail_key s = Some t.
Proof.
  intros Ht H. destruct (token_shape t Ht) as [l [-> Hl]]. destruct (ends_with_suffix _ _ H) as [p ->]. apply tail_key_colon_led, Hl.
Qed.

Definition quiet_key (o : option str) : bool := match o with Some x => negb (mem_str x all_tokens) | None => true end.
Definition quiet (s : str) : bool := forallb (fun t => negb (ends_with s t)) all_tokens.

Lemma mem_str_In x l : mem_str x l = true <-> In x l.
Proof.
  unfold mem_str. rewrite existsb_exists. split.
  - intros [y [Hy E]]. apply str_eqb_eq in E. subst. exact Hy.
  - intro H. exists x. split; [exact H | apply str_eqb_refl].
Qed.

Lemma quiet_of_key s : quiet_key (tail_key s) = true -> quiet s = true.
Proof.
  intro H. unfold quiet. apply forallb_forall. intros t Ht. apply negb_true_iff.
  destruct (ends_with s t) eqn:E; [|reflexivity]. rewrite (ends_with_key s t Ht E) in H. unfold quiet_key in H.
  apply negb_true_iff in H. assert (mem_str t all_tokens = true) by (apply mem_str_In, Ht). congruence.
Qed.

(* ================= 3. scanning text made of tokens and inert bodies ================= *)
Notation "<< a , b >>" := (@pair (list seg) str a b).
Lemma tok_loop_quiet toks snap sc st :
  forallb (fun t => negb (ends_with snap t)) toks = true -> tok_loop toks snap sc st = <<sc, st>>.
Proof.
  induction toks as [|t r IH]; cbn; [reflexivity|]. intro H. apply andb_true_iff in H as [H1 H2].
  apply negb_true_iff in H1. rewrite H1. auto.
Qed.

Lemma step_quiet sc st c : quiet (st ++ [c]) = true -> step all_tokens <<sc, st>> c = <<sc, st ++ [c]>>.
Proof. intro H. unfold step. apply tok_loop_quiet, H. Qed.

Definition advance1 (key : option str) (c : char) : option str :=
  if c =? COLON then Some [c] else option_map (fun x => x ++ [c]) key.
Fixpoint keys_ok (key : option str) (w : str) : bool :=
  match w with [] => true | c :: r => quiet_key (advance1 key c) && keys_ok (advance1 key c) r end.
Definition advance (key : option str) (w : str) : option str := fold_left advance1 w key.

Lemma tail_key_advance : forall w st, tail_key (st ++ w) = advance (tail_key st) w.
Proof.
  induction w as [|c w IH]; intro st; cbn [advance fold_left]; [rewrite app_nil_r; reflexivity|].
  change (st ++ c :: w) with (st ++ [c] ++ w). rewrite app_assoc, IH, tail_key_snoc. reflexivity.
Qed.

Lemma scan_keys : forall w sc st, keys_ok (tail_key st) w = true -> scan_chars all_tokens w <<sc, st>> = <<sc, st ++ w>>.
Proof.
  induction w as [|c w IH]; intros sc st H; cbn [scan_chars fold_left]; [rewrite app_nil_r; reflexivity|].
  cbn [keys_ok] in H. apply andb_true_iff in H as [H1 H2]. unfold advance1 in H1, H2. rewrite <- tail_key_snoc in H1, H2.
  rewrite step_quiet by (apply quiet_of_key, H1).
  fold (scan_chars all_tokens w <<sc, st ++ [c]>>). rewrite IH by exact H2. rewrite <- app_assoc. reflexivity.
Qed.

Lemma keys_ok_app key a b : keys_ok key (a ++ b) = keys_ok key a && keys_ok (advance key a) b.
Proof.
  revert key. induction a as [|c a IH]; intro key; cbn [app keys_ok advance fold_left]; [reflexivity|].
  rewrite IH, andb_assoc. reflexivity.
Qed.
Lemma advance_app key a b : advance key (a ++ b) = advance (advance key a) b.
Proof. unfold advance. apply fold_left_app. Qed.

(* a key that is no prefix of any token can never become one *)
Definition dead (x : str) : bool := negb (existsb (fun t => startswith x t) all_tokens).

Lemma startswith_snoc x c t : startswith (x ++ [c]) t = true -> startswith x t = true.
Proof.
  revert t. induction x as [|a x IH]; intros t H; [reflexivity|]. destruct t as [|b t]; [discriminate|].
  cbn in *. apply andb_true_iff in H as [H1 H2]. rewrite H1. cbn. apply IH, H2.
Qed.
Lemma startswith_refl x : startswith x x = true.
Proof. induction x as [|a x IH]; cbn; [reflexivity|]. rewrite N.eqb_refl. exact IH. Qed.

Lemma dead_snoc x c : dead x = true -> dead (x ++ [c]) = true.
Proof.
  unfold dead. intro H. apply negb_true_iff in H. apply negb_true_iff.
  destruct (existsb (fun t => startswith (x ++ [c]) t) all_tokens) eqn:E; [|reflexivity].
  apply existsb_exists in E as [t [Ht E]]. apply startswith_snoc in E.
  assert (existsb (fun t => startswith x t) all_tokens = true) by (apply existsb_exists; exists t; auto). congruence.
Qed.
Lemma dead_not_token x : dead x = true -> quiet_key (Some x) = true.
Proof.
  unfold dead, quiet_key. intro H. apply negb_true_iff in H. apply negb_true_iff.
  destruct (mem_str x all_tokens) eqn:E; [|reflexivity]. apply mem_str_In in E.
  assert (existsb (fun t => startswith x t) all_tokens = true) by (apply existsb_exists; exists x; split; [exact E | apply startswith_refl]).
  congruence.
Qed.

Lemma keys_ok_dead : forall w x, dead x = true -> no_colon w = true -> keys_ok (Some x) w = true /\ advance (Some x) w = Some (x ++ w).
Proof.
  induction w as [|c w IH]; intros x Hd Hn; cbn [keys_ok advance fold_left]; [rewrite app_nil_r; auto|].
  unfold no_colon in Hn. cbn [forallb] in Hn. apply andb_true_iff in Hn as [Hc Hn]. apply negb_true_iff in Hc.
  unfold advance1. rewrite Hc. cbn [option_map].
  destruct (IH (x ++ [c]) (dead_snoc x c Hd) Hn) as [K A].
  split; [apply andb_true_iff; split; [apply dead_not_token, dead_snoc, Hd | exact K]|].
  unfold advance, advance1 in A. etransitivity; [exact A|]. rewrite <- app_assoc. reflexivity.
Qed.

(* a header without colon is inert *)
Lemma keys_ok_none : forall w, no_colon w = true -> keys_ok None w = true /\ advance None w = None.
Proof.
  induction w as [|c w IH]; intro Hn; cbn [keys_ok advance fold_left]; [auto|].
  unfold no_colon in Hn. cbn [forallb] in Hn. apply andb_true_iff in Hn as [Hc Hn]. apply negb_true_iff in Hc.
  unfold advance1. rewrite Hc. cbn [option_map quiet_key]. destruct (IH Hn) as [K A]. split; [exact K | exact A].
Qed.

(* exactly one token fires *)
Lemma str_dec (a b : str) : {a = b} + {a <> b}. Proof. apply list_eq_dec, N.eq_dec. Qed.

Lemma tok_loop_fire_once : forall toks snap sc stack t,
  NoDup toks -> In t toks -> (forall x, In x toks -> ends_with snap x = true -> x = t) -> ends_with snap t = true ->
  tok_loop toks snap sc stack =
    <<sc ++ [(negb (Nat.eqb (length sc) 0), firstn (length stack - length t) stack)],
      firstn (length t) (skipn (length (firstn (length stack - length t) stack)) stack)>>.
Proof.
  induction toks as [|x r IH]; intros snap sc stack t Hnd Hin Huniq Hfire; [destruct Hin|].
  cbn [tok_loop]. inversion Hnd as [|? ? Hx Hr]; subst.
  destruct (str_dec x t) as [->|Hne].
  - rewrite Hfire. apply tok_loop_quiet. apply forallb_forall. intros y Hy. apply negb_true_iff.
    destruct (ends_with snap y) eqn:E; [|reflexivity]. assert (y = t) by (apply Huniq; [right; exact Hy | exact E]). subst. contradiction.
  - destruct (ends_with snap x) eqn:E.
    + exfalso. apply Hne, Huniq; [left; reflexivity | exact E].
    + destruct Hin as [->|Hin]; [contradiction|]. apply IH; auto. intros y Hy. apply Huniq. right. exact Hy.
Qed.

Lemma tokens_nodup : NoDup all_tokens.
Proof. vm_compute. repeat (constructor; [cbn; intuition discriminate|]). constructor. Qed.

Lemma fire_token t sc st : In t all_tokens ->
  tok_loop all_tokens (st ++ t) sc (st ++ t) = <<sc ++ [(negb (Nat.eqb (length sc) 0), st)], t>>.
Proof.
  intro Ht. rewrite (tok_loop_fire_once all_tokens (st ++ t) sc (st ++ t) t tokens_nodup Ht).
  - rewrite app_length, Nat.add_sub, firstn_app, Nat.sub_diag, firstn_all. cbn [firstn]. rewrite app_nil_r.
    rewrite skipn_app, Nat.sub_diag, skipn_all. cbn [skipn app]. rewrite firstn_all. reflexivity.
  - intros x Hx E. pose proof (ends_with_key _ _ Hx E) as K1. pose proof (ends_with_key _ _ Ht (ends_with_app st t)) as K2. congruence.
  - apply ends_with_app.
Qed.

Lemma keys_ok_reset key r : keys_ok key (COLON :: r) = keys_ok None (COLON :: r).
Proof. reflexivity. Qed.
Lemma token_prefixes_quiet : forallb (fun t => keys_ok None (removelast t)) all_tokens = true.
Proof. vm_compute. reflexivity. Qed.

(* scanning a token from any state closes the current segment and leaves the token on the stack *)
Lemma scan_token t sc st : In t all_tokens ->
  scan_chars all_tokens t <<sc, st>> = <<sc ++ [(negb (Nat.eqb (length sc) 0), st)], t>>.
Proof.
  intro Ht. destruct (token_shape t Ht) as [l [E Hl]].
  assert (Hne : t <> []) by (subst; discriminate).
  rewrite (app_removelast_last COLON Hne) at 1. unfold scan_chars. rewrite fold_left_app.
  fold (scan_chars all_tokens (removelast t) <<sc, st>>). rewrite scan_keys.
  - cbn [fold_left step]. rewrite <- app_assoc, <- (app_removelast_last COLON Hne). apply fire_token, Ht.
  - pose proof token_prefixes_quiet as Q. rewrite forallb_forall in Q. specialize (Q t Ht).
    destruct l as [|c l]; [subst t; reflexivity|]. subst t. cbn [removelast] in *. rewrite keys_ok_reset. exact Q.
Qed.

Lemma scan_chars_app tk a b st : scan_chars tk (a ++ b) st = scan_chars tk b (scan_chars tk a st).
Proof. unfold scan_chars. apply fold_left_app. Qed.

Lemma last_cons {A} : forall (L : list A) x d, last (x :: L) d = last L x.
Proof. induction L as [|y L IH]; intros x d; [reflexivity|]. change (last (x :: y :: L) d) with (last (y :: L) d). rewrite !IH. reflexivity. Qed.

Lemma last_In {A} : forall (L : list A) d, L <> [] -> In (last L d) L.
Proof.
  induction L as [|y L IH]; intros d H; [contradiction|]. destruct L as [|z L]; [left; reflexivity|].
  right. apply IH. discriminate.
Qed.

(* lines: (token, body) *)
Definition cat (tb : str * str) : str := fst tb ++ snd tb.
Definition line_ok (tb : str * str) : Prop := In (fst tb) all_tokens /\ keys_ok (Some (fst tb)) (snd tb) = true.

Lemma tail_key_token t : In t all_tokens -> tail_key t = Some t.
Proof. intro Ht. destruct (token_shape t Ht) as [l [-> Hl]]. apply (tail_key_colon_led [] l Hl). Qed.

Lemma scan_lines_aux : forall L t b sc, sc <> [] -> line_ok (t, b) -> Forall line_ok L ->
  scan_chars all_tokens (b ++ concat (map cat L)) <<sc, t>>
  = <<sc ++ map (fun tb => (true, cat tb)) (removelast ((t, b) :: L)), cat (last L (t, b))>>.
Proof.
  induction L as [|[t' b'] L IH]; intros t b sc Hsc [Ht Hb] HL; cbn [fst snd] in *.
  - cbn [map concat removelast last]. rewrite !app_nil_r. apply scan_keys. rewrite (tail_key_token t Ht). exact Hb.
  - inversion HL as [|? ? [Ht' Hb'] HL']; subst. cbn [fst snd] in *.
    cbn [map concat]. unfold cat at 1. cbn [fst snd]. rewrite <- app_assoc.
    rewrite scan_chars_app, scan_keys by (rewrite (tail_key_token t Ht); exact Hb).
    rewrite scan_chars_app, (scan_token t' sc (t ++ b) Ht').
    rewrite IH; [| destruct sc; discriminate | split; assumption | exact HL'].
    destruct sc as [|s0 sc]; [contradiction|]. cbn [length Nat.eqb negb].
    change (removelast ((t, b) :: (t', b') :: L)) with ((t, b) :: removelast ((t', b') :: L)).
    cbn [map]. rewrite <- app_assoc. cbn [app]. f_equal.
    f_equal. symmetry. apply last_cons.
Qed.

Lemma finish_token_line sc t2 b2 : In t2 all_tokens -> finish_scan all_tokens <<sc, t2 ++ b2>> = sc ++ [(true, t2 ++ b2)].
Proof.
  intro Ht2. unfold finish_scan.
  assert (F : existsb (fun t0 => startswith t0 (t2 ++ b2)) all_tokens = true).
  { apply existsb_exists. exists t2. split; [exact Ht2|].
    clear. induction t2 as [|a p IH]; cbn; [reflexivity|]. rewrite N.eqb_refl. exact IH. }
  destruct (token_shape t2 Ht2) as [l2 [E2 _]].
  destruct (t2 ++ b2) as [|c0 r0] eqn:E3; [subst t2; discriminate|]. rewrite F, orb_true_r. reflexivity.
Qed.

Theorem scan_lines (h : str) (tb : str * str) (L : list (str * str)) :
  no_colon h = true -> Forall line_ok (tb :: L) ->
  scan_rest (h ++ concat (map cat (tb :: L))) = (false, h) :: map (fun x => (true, cat x)) (tb :: L).
Proof.
  intros Hh HL. inversion HL as [|? ? Htb HL']; subst. destruct tb as [t b]. destruct Htb as [Ht Hb]. cbn [fst snd] in *.
  unfold scan_rest. cbn [map concat]. unfold cat at 1. cbn [fst snd]. rewrite <- app_assoc.
  rewrite scan_chars_app, scan_keys by (cbn [tail_key]; apply keys_ok_none, Hh). cbn [app].
  rewrite scan_chars_app, (scan_token t [] h Ht). cbn [app length Nat.eqb negb].
  rewrite scan_lines_aux; [| discriminate | split; assumption | exact HL'].
  assert (Hlast : exists t2 b2, last L (t, b) = (t2, b2) /\ In t2 all_tokens).
  { destruct (last L (t, b)) as [t2 b2] eqn:E. exists t2, b2. split; [reflexivity|].
    destruct L as [|x L0]; [cbn in E; injection E as <- <-; exact Ht|].
    assert (In (t2, b2) (x :: L0)) by (rewrite <- E; apply last_In; discriminate).
    rewrite Forall_forall in HL'. apply (HL' _ H). }
  destruct Hlast as [t2 [b2 [E Ht2]]]. rewrite E. change (cat (t2, b2)) with (t2 ++ b2).
  rewrite (finish_token_line _ t2 b2 Ht2). cbn [app]. f_equal.
  change ((true, cat (t, b)) :: map (fun x : str * str => (true, cat x)) L) with (map (fun x : str * str => (true, cat x)) ((t, b) :: L)).
  rewrite (app_removelast_last (t, b) (l := (t, b) :: L)) at 2 by discriminate.
  rewrite map_app, last_cons, E. reflexivity.
Qed.
