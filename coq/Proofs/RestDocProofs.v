From Coq Require Import Lia.
From CDD Require Import PyStr DocSplit RestDoc MergeProofs DefaultDocProofs.

(* ================= 1. the scanner loses nothing, for every token list and every string ================= *)
Definition flat (st : list seg * str) : str := concat (map snd (fst st)) ++ snd st.

Lemma tok_loop_flat : forall toks snap sc stack, flat (tok_loop toks snap sc stack) = flat (sc, stack).
Proof.
  induction toks as [|t r IH]; intros snap sc stack; cbn [tok_loop]; [reflexivity|].
  destruct (ends_with snap t); [|apply IH].
  rewrite IH. unfold flat. cbn [fst snd]. rewrite map_app, concat_app. cbn [map concat]. rewrite app_nil_r, <- app_assoc. f_equal.
  set (n := (length stack - length t)%nat).
  rewrite firstn_length, (Nat.min_l n) by (unfold n; lia).
  rewrite (firstn_all2 (n := length t)) by (rewrite skipn_length; unfold n; lia).
  apply firstn_skipn.
Qed.

Lemma step_flat tokens st c : flat (step tokens st c) = flat st ++ [c].
Proof. destruct st as [sc stack]. unfold step. rewrite tok_loop_flat. unfold flat. cbn. rewrite app_assoc. reflexivity. Qed.

Lemma scan_chars_flat tokens : forall s st, flat (scan_chars tokens s st) = flat st ++ s.
Proof.
  induction s as [|c s IH]; intro st; cbn [scan_chars fold_left]; [rewrite app_nil_r; reflexivity|].
  fold (scan_chars tokens s (step tokens st c)). rewrite IH, step_flat, <- app_assoc. reflexivity.
Qed.

Lemma finish_flat tokens st : concat (map snd (finish_scan tokens st)) = flat st.
Proof.
  destruct st as [sc stack]. unfold finish_scan, flat. cbn [fst snd]. destruct stack as [|c r]; [rewrite app_nil_r; reflexivity|].
  rewrite map_app, concat_app. cbn. rewrite app_nil_r. reflexivity.
Qed.

Theorem scan_rest_lossless (doc : str) : concat (map snd (scan_rest doc)) = doc.
Proof. unfold scan_rest. rewrite finish_flat, scan_chars_flat. reflexivity. Qed.

(* ================= 2. which stacks end with a token: the text from the last colon on ================= *)
Definition no_colon (s : str) : bool := forallb (fun c => negb (c =? COLON)) s.

Fixpoint tail_key (s : str) : option str :=
  match s with
  | [] => None
  | c :: r => match tail_key r with
              | Some x => Some x
              | None => if c =? COLON then Some (c :: r) else None
              end
  end.

Lemma tail_key_nocolon s : no_colon s = true -> tail_key s = None.
Proof.
  induction s as [|c r IH]; cbn; [reflexivity|]. intro H. apply andb_true_iff in H as [H1 H2].
  rewrite IH by exact H2. apply negb_true_iff in H1. rewrite H1. reflexivity.
Qed.

Lemma tail_key_app a b : tail_key (a ++ b) = match tail_key b with Some x => Some x | None => option_map (fun x => x ++ b) (tail_key a) end.
Proof.
  induction a as [|c r IH]; cbn [app tail_key].
  - destruct (tail_key b); reflexivity.
  - rewrite IH. destruct (tail_key b) as [x|]; [reflexivity|].
    destruct (tail_key r) as [y|]; cbn; [reflexivity|]. destruct (c =? COLON); reflexivity.
Qed.

Lemma tail_key_snoc s c : tail_key (s ++ [c]) = if c =? COLON then Some [c] else option_map (fun x => x ++ [c]) (tail_key s).
Proof. rewrite tail_key_app. cbn. destruct (c =? COLON); reflexivity. Qed.

Lemma tail_key_colon_led a l : no_colon l = true -> tail_key (a ++ COLON :: l) = Some (COLON :: l).
Proof. intro H. rewrite tail_key_app. cbn. rewrite (tail_key_nocolon l H). reflexivity. Qed.

Lemma ends_with_suffix s tok : ends_with s tok = true -> exists p, s = p ++ tok.
Proof.
  unfold ends_with. intro H. apply str_eqb_eq in H.
  exists (rev (skipn (length tok) (rev s))).
  rewrite <- (rev_involutive tok) at 2. rewrite <- H, <- rev_app_distr, firstn_skipn, rev_involutive. reflexivity.
Qed.
Lemma ends_with_app s tok : ends_with (s ++ tok) tok = true.
Proof.
  unfold ends_with. rewrite rev_app_distr, firstn_app, rev_length, Nat.sub_diag.
  rewrite <- (rev_length tok) at 1. rewrite firstn_all. cbn. rewrite app_nil_r. apply str_eqb_refl.
Qed.

(* every token is a colon followed by lower-case letters *)
Definition is_lower (c : char) : bool := (97 <=? c) && (c <=? 122).
Definition tok_ok (t : str) : bool := match t with c :: l => (c =? COLON) && forallb is_lower l | [] => false end.
Lemma tokens_ok : forallb tok_ok all_tokens = true. Proof. vm_compute. reflexivity. Qed.

Lemma lower_no_colon l : forallb is_lower l = true -> no_colon l = true.
Proof.
  unfold no_colon. induction l as [|c r IH]; cbn [forallb]; [reflexivity|]. intro H. apply andb_true_iff in H as [H1 H2].
  rewrite (IH H2), andb_true_r. unfold is_lower in H1. destruct (N.eqb_spec c COLON) as [->|]; [vm_compute in H1; discriminate | reflexivity].
Qed.

Lemma token_shape t : In t all_tokens -> exists l, t = COLON :: l /\ no_colon l = true.
Proof.
  intro H. pose proof tokens_ok as T. rewrite forallb_forall in T. specialize (T t H).
  destruct t as [|c l]; [discriminate|]. cbn in T. apply andb_true_iff in T as [T1 T2]. apply N.eqb_eq in T1. subst c.
  exists l. split; [reflexivity | apply lower_no_colon, T2].
Qed.

Lemma ends_with_key s t : In t all_tokens -> ends_with s t = true -> tail_key s = Some t.
Proof.
  intros Ht H. destruct (token_shape t Ht) as [l [-> Hl]]. destruct (ends_with_suffix _ _ H) as [p ->]. apply tail_key_colon_led, Hl.
Qed.

Definition quiet_key (o : option str) : bool := match o with Some x => negb (mem_str x all_tokens) | None => true end.
Definition quiet (s : str) : bool := forallb (fun t => negb (ends_with s t)) all_tokens.

Lemma mem_str_In x l : mem_str x l = true <-> In x l.
Proof.
  unfold mem_str. rewrite existsb_exists. split.
  - intros [y [Hy E]]. apply str_eqb_eq in E. subst. exact Hy.
  - intro H. exists x. split; [exact H | apply str_eqb_refl].
Qed.

Lemma quiet_of_key s : quiet_key (tail_key s) = true -> quiet s = true.
Proof.
  intro H. unfold quiet. apply forallb_forall. intros t Ht. apply negb_true_iff.
  destruct (ends_with s t) eqn:E; [|reflexivity]. rewrite (ends_with_key s t Ht E) in H. unfold quiet_key in H.
  apply negb_true_iff in H. assert (mem_str t all_tokens = true) by (apply mem_str_In, Ht). congruence.
Qed.

(* ================= 3. scanning text made of tokens and inert bodies ================= *)
Notation "<< a , b >>" := (@pair (list seg) str a b).
Lemma tok_loop_quiet toks snap sc st :
  forallb (fun t => negb (ends_with snap t)) toks = true -> tok_loop toks snap sc st = <<sc, st>>.
Proof.
  induction toks as [|t r IH]; cbn; [reflexivity|]. intro H. apply andb_true_iff in H as [H1 H2].
  apply negb_true_iff in H1. rewrite H1. auto.
Qed.

Lemma step_quiet sc st c : quiet (st ++ [c]) = true -> step all_tokens <<sc, st>> c = <<sc, st ++ [c]>>.
Proof. intro H. unfold step. apply tok_loop_quiet, H. Qed.

Definition advance1 (key : option str) (c : char) : option str :=
  if c =? COLON then Some [c] else option_map (fun x => x ++ [c]) key.
Fixpoint keys_ok (key : option str) (w : str) : bool :=
  match w with [] => true | c :: r => quiet_key (advance1 key c) && keys_ok (advance1 key c) r end.
Definition advance (key : option str) (w : str) : option str := fold_left advance1 w key.

Lemma tail_key_advance : forall w st, tail_key (st ++ w) = advance (tail_key st) w.
Proof.
  induction w as [|c w IH]; intro st; cbn [advance fold_left]; [rewrite app_nil_r; reflexivity|].
  change (st ++ c :: w) with (st ++ [c] ++ w). rewrite app_assoc, IH, tail_key_snoc. reflexivity.
Qed.

Lemma scan_keys : forall w sc st, keys_ok (tail_key st) w = true -> scan_chars all_tokens w <<sc, st>> = <<sc, st ++ w>>.
Proof.
  induction w as [|c w IH]; intros sc st H; cbn [scan_chars fold_left]; [rewrite app_nil_r; reflexivity|].
  cbn [keys_ok] in H. apply andb_true_iff in H as [H1 H2]. unfold advance1 in H1, H2. rewrite <- tail_key_snoc in H1, H2.
  rewrite step_quiet by (apply quiet_of_key, H1).
  fold (scan_chars all_tokens w <<sc, st ++ [c]>>). rewrite IH by exact H2. rewrite <- app_assoc. reflexivity.
Qed.

Lemma keys_ok_app key a b : keys_ok key (a ++ b) = keys_ok key a && keys_ok (advance key a) b.
Proof.
  revert key. induction a as [|c a IH]; intro key; cbn [app keys_ok advance fold_left]; [reflexivity|].
  rewrite IH, andb_assoc. reflexivity.
Qed.
Lemma advance_app key a b : advance key (a ++ b) = advance (advance key a) b.
Proof. unfold advance. apply fold_left_app. Qed.

(* a key that is no prefix of any token can never become one *)
Definition dead (x : str) : bool := negb (existsb (fun t => startswith x t) all_tokens).

Lemma startswith_snoc x c t : startswith (x ++ [c]) t = true -> startswith x t = true.
Proof.
  revert t. induction x as [|a x IH]; intros t H; [reflexivity|]. destruct t as [|b t]; [discriminate|].
  cbn in *. apply andb_true_iff in H as [H1 H2]. rewrite H1. cbn. apply IH, H2.
Qed.
Lemma startswith_refl x : startswith x x = true.
Proof. induction x as [|a x IH]; cbn; [reflexivity|]. rewrite N.eqb_refl. exact IH. Qed.

Lemma dead_snoc x c : dead x = true -> dead (x ++ [c]) = true.
Proof.
  unfold dead. intro H. apply negb_true_iff in H. apply negb_true_iff.
  destruct (existsb (fun t => startswith (x ++ [c]) t) all_tokens) eqn:E; [|reflexivity].
  apply existsb_exists in E as [t [Ht E]]. apply startswith_snoc in E.
  assert (existsb (fun t => startswith x t) all_tokens = true) by (apply existsb_exists; exists t; auto). congruence.
Qed.
Lemma dead_not_token x : dead x = true -> quiet_key (Some x) = true.
Proof.
  unfold dead, quiet_key. intro H. apply negb_true_iff in H. apply negb_true_iff.
  destruct (mem_str x all_tokens) eqn:E; [|reflexivity]. apply mem_str_In in E.
  assert (existsb (fun t => startswith x t) all_tokens = true) by (apply existsb_exists; exists x; split; [exact E | apply startswith_refl]).
  congruence.
Qed.

Lemma keys_ok_dead : forall w x, dead x = true -> no_colon w = true -> keys_ok (Some x) w = true /\ advance (Some x) w = Some (x ++ w).
Proof.
  induction w as [|c w IH]; intros x Hd Hn; cbn [keys_ok advance fold_left]; [rewrite app_nil_r; auto|].
  unfold no_colon in Hn. cbn [forallb] in Hn. apply andb_true_iff in Hn as [Hc Hn]. apply negb_true_iff in Hc.
  unfold advance1. rewrite Hc. cbn [option_map].
  destruct (IH (x ++ [c]) (dead_snoc x c Hd) Hn) as [K A].
  split; [apply andb_true_iff; split; [apply dead_not_token, dead_snoc, Hd | exact K]|].
  unfold advance, advance1 in A. etransitivity; [exact A|]. rewrite <- app_assoc. reflexivity.
Qed.

(* a header without colon is inert *)
Lemma keys_ok_none : forall w, no_colon w = true -> keys_ok None w = true /\ advance None w = None.
Proof.
  induction w as [|c w IH]; intro Hn; cbn [keys_ok advance fold_left]; [auto|].
  unfold no_colon in Hn. cbn [forallb] in Hn. apply andb_true_iff in Hn as [Hc Hn]. apply negb_true_iff in Hc.
  unfold advance1. rewrite Hc. cbn [option_map quiet_key]. destruct (IH Hn) as [K A]. split; [exact K | exact A].
Qed.

(* exactly one token fires *)
Lemma str_dec (a b : str) : {a = b} + {a <> b}. Proof. apply list_eq_dec, N.eq_dec. Qed.

Lemma tok_loop_fire_once : forall toks snap sc stack t,
  NoDup toks -> In t toks -> (forall x, In x toks -> ends_with snap x = true -> x = t) -> ends_with snap t = true ->
  tok_loop toks snap sc stack =
    <<sc ++ [(negb (Nat.eqb (length sc) 0), firstn (length stack - length t) stack)],
      firstn (length t) (skipn (length (firstn (length stack - length t) stack)) stack)>>.
Proof.
  induction toks as [|x r IH]; intros snap sc stack t Hnd Hin Huniq Hfire; [destruct Hin|].
  cbn [tok_loop]. inversion Hnd as [|? ? Hx Hr]; subst.
  destruct (str_dec x t) as [->|Hne].
  - rewrite Hfire. apply tok_loop_quiet. apply forallb_forall. intros y Hy. apply negb_true_iff.
    destruct (ends_with snap y) eqn:E; [|reflexivity]. assert (y = t) by (apply Huniq; [right; exact Hy | exact E]). subst. contradiction.
  - destruct (ends_with snap x) eqn:E.
    + exfalso. apply Hne, Huniq; [left; reflexivity | exact E].
    + destruct Hin as [->|Hin]; [contradiction|]. apply IH; auto. intros y Hy. apply Huniq. right. exact Hy.
Qed.

Lemma tokens_nodup : NoDup all_tokens.
Proof. vm_compute. repeat (constructor; [cbn; intuition discriminate|]). constructor. Qed.

Lemma fire_token t sc st : In t all_tokens ->
  tok_loop all_tokens (st ++ t) sc (st ++ t) = <<sc ++ [(negb (Nat.eqb (length sc) 0), st)], t>>.
Proof.
  intro Ht. rewrite (tok_loop_fire_once all_tokens (st ++ t) sc (st ++ t) t tokens_nodup Ht).
  - rewrite app_length, Nat.add_sub, firstn_app, Nat.sub_diag, firstn_all. cbn [firstn]. rewrite app_nil_r.
    rewrite skipn_app, Nat.sub_diag, skipn_all. cbn [skipn app]. rewrite firstn_all. reflexivity.
  - intros x Hx E. pose proof (ends_with_key _ _ Hx E) as K1. pose proof (ends_with_key _ _ Ht (ends_with_app st t)) as K2. congruence.
  - apply ends_with_app.
Qed.

Lemma keys_ok_reset key r : keys_ok key (COLON :: r) = keys_ok None (COLON :: r).
Proof. reflexivity. Qed.
Lemma token_prefixes_quiet : forallb (fun t => keys_ok None (removelast t)) all_tokens = true.
Proof. vm_compute. reflexivity. Qed.

(* scanning a token from any state closes the current segment and leaves the token on the stack *)
Lemma scan_token t sc st : In t all_tokens ->
  scan_chars all_tokens t <<sc, st>> = <<sc ++ [(negb (Nat.eqb (length sc) 0), st)], t>>.
Proof.
  intro Ht. destruct (token_shape t Ht) as [l [E Hl]].
  assert (Hne : t <> []) by (subst; discriminate).
  rewrite (app_removelast_last COLON Hne) at 1. unfold scan_chars. rewrite fold_left_app.
  fold (scan_chars all_tokens (removelast t) <<sc, st>>). rewrite scan_keys.
  - cbn [fold_left step]. rewrite <- app_assoc, <- (app_removelast_last COLON Hne). apply fire_token, Ht.
  - pose proof token_prefixes_quiet as Q. rewrite forallb_forall in Q. specialize (Q t Ht).
    destruct l as [|c l]; [subst t; reflexivity|]. subst t. cbn [removelast] in *. rewrite keys_ok_reset. exact Q.
Qed.

Lemma scan_chars_app tk a b st : scan_chars tk (a ++ b) st = scan_chars tk b (scan_chars tk a st).
Proof. unfold scan_chars. apply fold_left_app. Qed.

Lemma last_cons {A} : forall (L : list A) x d, last (x :: L) d = last L x.
Proof. induction L as [|y L IH]; intros x d; [reflexivity|]. change (last (x :: y :: L) d) with (last (y :: L) d). rewrite !IH. reflexivity. Qed.

Lemma last_In {A} : forall (L : list A) d, L <> [] -> In (last L d) L.
Proof.
  induction L as [|y L IH]; intros d H; [contradiction|]. destruct L as [|z L]; [left; reflexivity|].
  right. apply IH. discriminate.
Qed.

(* lines: (token, body) *)
Definition cat (tb : str * str) : str := fst tb ++ snd tb.
Definition line_ok (tb : str * str) : Prop := In (fst tb) all_tokens /\ keys_ok (Some (fst tb)) (snd tb) = true.

Lemma tail_key_token t : In t all_tokens -> tail_key t = Some t.
Proof. intro Ht. destruct (token_shape t Ht) as [l [-> Hl]]. apply (tail_key_colon_led [] l Hl). Qed.

Lemma scan_lines_aux : forall L t b sc, sc <> [] -> line_ok (t, b) -> Forall line_ok L ->
  scan_chars all_tokens (b ++ concat (map cat L)) <<sc, t>>
  = <<sc ++ map (fun tb => (true, cat tb)) (removelast ((t, b) :: L)), cat (last L (t, b))>>.
Proof.
  induction L as [|[t' b'] L IH]; intros t b sc Hsc [Ht Hb] HL; cbn [fst snd] in *.
  - cbn [map concat removelast last]. rewrite !app_nil_r. apply scan_keys. rewrite (tail_key_token t Ht). exact Hb.
  - inversion HL as [|? ? [Ht' Hb'] HL']; subst. cbn [fst snd] in *.
    cbn [map concat]. unfold cat at 1. cbn [fst snd]. rewrite <- app_assoc.
    rewrite scan_chars_app, scan_keys by (rewrite (tail_key_token t Ht); exact Hb).
    rewrite scan_chars_app, (scan_token t' sc (t ++ b) Ht').
    rewrite IH; [| destruct sc; discriminate | split; assumption | exact HL'].
    destruct sc as [|s0 sc]; [contradiction|]. cbn [length Nat.eqb negb].
    change (removelast ((t, b) :: (t', b') :: L)) with ((t, b) :: removelast ((t', b') :: L)).
    cbn [map]. rewrite <- app_assoc. cbn [app]. f_equal.
    f_equal. symmetry. apply last_cons.
Qed.

Lemma finish_token_line sc t2 b2 : In t2 all_tokens -> finish_scan all_tokens <<sc, t2 ++ b2>> = sc ++ [(true, t2 ++ b2)].
Proof.
  intro Ht2. unfold finish_scan.
  assert (F : existsb (fun t0 => startswith t0 (t2 ++ b2)) all_tokens = true).
  { apply existsb_exists. exists t2. split; [exact Ht2|].
    clear. induction t2 as [|a p IH]; cbn; [reflexivity|]. rewrite N.eqb_refl. exact IH. }
  destruct (token_shape t2 Ht2) as [l2 [E2 _]].
  destruct (t2 ++ b2) as [|c0 r0] eqn:E3; [subst t2; discriminate|]. rewrite F, orb_true_r. reflexivity.
Qed.

Theorem scan_lines (h : str) (tb : str * str) (L : list (str * str)) :
  no_colon h = true -> Forall line_ok (tb :: L) ->
  scan_rest (h ++ concat (map cat (tb :: L))) = (false, h) :: map (fun x => (true, cat x)) (tb :: L).
Proof.
  intros Hh HL. inversion HL as [|? ? Htb HL']; subst. destruct tb as [t b]. destruct Htb as [Ht Hb]. cbn [fst snd] in *.
  unfold scan_rest. cbn [map concat]. unfold cat at 1. cbn [fst snd]. rewrite <- app_assoc.
  rewrite scan_chars_app, scan_keys by (cbn [tail_key]; apply keys_ok_none, Hh). cbn [app].
  rewrite scan_chars_app, (scan_token t [] h Ht). cbn [app length Nat.eqb negb].
  rewrite scan_lines_aux; [| discriminate | split; assumption | exact HL'].
  assert (Hlast : exists t2 b2, last L (t, b) = (t2, b2) /\ In t2 all_tokens).
  { destruct (last L (t, b)) as [t2 b2] eqn:E. exists t2, b2. split; [reflexivity|].
    destruct L as [|x L0]; [cbn in E; injection E as <- <-; exact Ht|].
    assert (In (t2, b2) (x :: L0)) by (rewrite <- E; apply last_In; discriminate).
    rewrite Forall_forall in HL'. apply (HL' _ H). }
  destruct Hlast as [t2 [b2 [E Ht2]]]. rewrite E. change (cat (t2, b2)) with (t2 ++ b2).
  rewrite (finish_token_line _ t2 b2 Ht2). cbn [app]. f_equal.
  change ((true, cat (t, b)) :: map (fun x : str * str => (true, cat x)) L) with (map (fun x : str * str => (true, cat x)) ((t, b) :: L)).
  rewrite (app_removelast_last (t, b) (l := (t, b) :: L)) at 2 by discriminate.
  rewrite map_app, last_cons, E. reflexivity.
Qed.

(* ================= 4. string facts used by the line parser ================= *)
Lemma find_from_skip c : forall pre rest i, ~ In c pre -> find_from [c] (pre ++ c :: rest) i = (i + Z.of_nat (length pre))%Z.
Proof.
  induction pre as [|a pre IH]; intros rest i H; cbn [app find_from startswith length].
  - rewrite N.eqb_refl. cbn. lia.
  - destruct (N.eqb_spec c a) as [->|Hne]; [exfalso; apply H; left; reflexivity|]. cbn [andb].
    rewrite IH by (intro K; apply H; right; exact K). lia.
Qed.

Lemma slice_from_app pre rest : slice_from (pre ++ rest) (Z.of_nat (length pre)) = rest.
Proof.
  unfold slice_from, norm_idx, slen. rewrite app_length.
  destruct (Z.ltb_spec (Z.of_nat (length pre)) 0); [lia|].
  rewrite Z.min_l by lia. rewrite Nat2Z.id, skipn_app, skipn_all, Nat.sub_diag. reflexivity.
Qed.

Lemma find_start_app c pre mid rest k :
  Z.of_nat (length pre) = k -> ~ In c mid ->
  find_start [c] (pre ++ mid ++ c :: rest) k = (k + Z.of_nat (length mid))%Z.
Proof.
  intros <- Hm. unfold find_start.
  assert (N : norm_idx (slen (pre ++ mid ++ c :: rest)) (Z.of_nat (length pre)) = Z.of_nat (length pre)).
  { unfold norm_idx, slen. rewrite app_length. destruct (Z.ltb_spec (Z.of_nat (length pre)) 0); lia. }
  rewrite N, slice_from_app. unfold find. rewrite find_from_skip by exact Hm.
  destruct (0 + Z.of_nat (length mid))%Z eqn:E; lia.
Qed.

Lemma slice_mid (a b c : str) : slice (a ++ b ++ c) (Z.of_nat (length a)) (Z.of_nat (length a) + Z.of_nat (length b)) = b.
Proof.
  unfold slice, norm_idx, slen. rewrite !app_length.
  destruct (Z.ltb_spec (Z.of_nat (length a)) 0); [lia|].
  destruct (Z.ltb_spec (Z.of_nat (length a) + Z.of_nat (length b)) 0); [lia|].
  rewrite !Z.min_l by lia. replace (Z.of_nat (length a) + Z.of_nat (length b) - Z.of_nat (length a))%Z with (Z.of_nat (length b)) by lia.
  rewrite !Nat2Z.id, skipn_app, skipn_all, Nat.sub_diag. cbn [skipn app].
  rewrite firstn_app, firstn_all, Nat.sub_diag. cbn. apply app_nil_r.
Qed.

(* clean text: starts and ends with a non-blank character and contains no colon *)
Definition head_ok (d : str) : bool := match d with c :: _ => negb (is_space c) | [] => false end.
Definition clean (d : str) : bool := head_ok d && head_ok (rev d) && no_colon d.
Definition blank (s : str) : bool := forallb is_space s.

Lemma lstrip_blank_app s d : blank s = true -> lstrip (s ++ d) = lstrip d.
Proof. induction s as [|c s IH]; cbn; [reflexivity|]. intro H. apply andb_true_iff in H as [H1 H2]. rewrite H1. auto. Qed.
Lemma lstrip_head_ok d : head_ok d = true -> lstrip d = d.
Proof. destruct d as [|c r]; cbn; [discriminate|]. intro H. apply negb_true_iff in H. rewrite H. reflexivity. Qed.
Lemma blank_rev s : blank (rev s) = blank s.
Proof. unfold blank. induction s as [|c s IH]; cbn; [reflexivity|]. rewrite forallb_app, IH. cbn. rewrite andb_true_r. apply andb_comm. Qed.

Lemma strip_padded s1 d s2 : blank s1 = true -> blank s2 = true -> head_ok d = true -> head_ok (rev d) = true -> strip (s1 ++ d ++ s2) = d.
Proof.
  intros B1 B2 H1 H2. unfold strip, rstrip. rewrite lstrip_blank_app by exact B1.
  rewrite (lstrip_head_ok (d ++ s2)) by (destruct d; [discriminate | exact H1]).
  rewrite rev_app_distr, lstrip_blank_app by (rewrite blank_rev; exact B2).
  rewrite lstrip_head_ok by exact H2. apply rev_involutive.
Qed.

Lemma no_colon_app a b : no_colon (a ++ b) = no_colon a && no_colon b.
Proof. apply forallb_app. Qed.
Lemma no_colon_not_in d : no_colon d = true -> ~ In COLON d.
Proof.
  unfold no_colon. rewrite forallb_forall. intros H K. specialize (H _ K). rewrite N.eqb_refl in H. discriminate.
Qed.

(* a type without backtick is what is left after removing the fence *)
Definition no_bt (t : str) : bool := forallb (fun c => negb (c =? BT)) t.
Lemma split_no_bt : forall fuel t cur, no_bt t = true -> (length t < fuel)%nat -> split_str_aux fuel [BT; BT; BT] t cur = [rev cur ++ t].
Proof.
  induction fuel as [|f IH]; intros t cur H Hl; [lia|]. cbn [split_str_aux]. destruct t as [|c r]; [rewrite app_nil_r; reflexivity|].
  unfold no_bt in H. cbn [forallb] in H. apply andb_true_iff in H as [Hc Hr]. apply negb_true_iff in Hc.
  cbn [startswith]. rewrite N.eqb_sym, Hc. cbn [andb].
  rewrite IH by (try exact Hr; cbn in Hl; lia). cbn [rev]. rewrite <- app_assoc. reflexivity.
Qed.
Lemma replace_no_bt t : no_bt t = true -> replace [BT; BT; BT] [] t = t.
Proof. intro H. unfold replace, split_str. rewrite split_no_bt by (try exact H; lia). reflexivity. Qed.

(* ================= 5. what the line parser reads off a token line ================= *)
Definition T_param : str := Eval vm_compute in s2l ":param".
Definition T_type : str := Eval vm_compute in s2l ":type".
Definition T_return : str := Eval vm_compute in s2l ":return".
Definition T_rtype : str := Eval vm_compute in s2l ":rtype".
Definition FENCE : str := [BT; BT; BT].

Definition name_ok0 (n : str) : bool :=
  negb (Nat.eqb (length n) 0) && forallb (fun c => negb (c =? SP) && negb (c =? COLON)) n && negb (startswith [STAR] n).
(* "...kwargs" is re-typed by _set_name_and_type: outside the domain *)
Definition name_ok (n : str) : bool := name_ok0 n && negb (endswith (s2l "kwargs") n).
Lemma name_ok_0 n : name_ok n = true -> name_ok0 n = true.
Proof. unfold name_ok. intro H. apply andb_true_iff in H as [H _]. exact H. Qed.

Lemma name_ok_no_sp n : name_ok n = true -> ~ In SP n.
Proof.
  intros H K. apply name_ok_0 in H. unfold name_ok0 in H. apply andb_true_iff in H as [H _]. apply andb_true_iff in H as [_ H].
  rewrite forallb_forall in H. specialize (H _ K). rewrite N.eqb_refl in H. discriminate.
Qed.
Lemma name_ok_no_colon n : name_ok n = true -> ~ In COLON n.
Proof.
  intros H K. apply name_ok_0 in H. unfold name_ok0 in H. apply andb_true_iff in H as [H _]. apply andb_true_iff in H as [_ H].
  rewrite forallb_forall in H. specialize (H _ K). rewrite N.eqb_refl, andb_false_r in H. discriminate.
Qed.
Lemma name_ok_no_colon_b n : name_ok n = true -> no_colon n = true.
Proof.
  intro H. apply name_ok_0 in H. unfold name_ok0, no_colon in *. apply andb_true_iff in H as [H _]. apply andb_true_iff in H as [_ H].
  rewrite forallb_forall in *. intros c Hc. specialize (H c Hc). apply andb_true_iff in H as [_ H]. exact H.
Qed.

Lemma norm_name_ok n : name_ok n = true -> norm_name n = n.
Proof.
  intro H. unfold norm_name. unfold name_ok in H. apply andb_true_iff in H as [H0 K]. apply negb_true_iff in K. rewrite K.
  unfold name_ok0 in H0. apply andb_true_iff in H0 as [_ S]. apply negb_true_iff in S.
  destruct n as [|c r]; [reflexivity|]. cbn [startswith] in *. rewrite andb_true_r in S. rewrite S. reflexivity.
Qed.

(* the current entry after seeing a line for parameter [n] *)
Definition cur_entry (s : pstate) (n : str) : pentry :=
  match st_cur s with Some (n0, e0) => if str_eqb n0 n then e0 else empty_entry | None => empty_entry end.
Definition params_after (s : pstate) (n : str) : list (str * pentry) :=
  match st_cur s with Some (n0, e0) => if str_eqb n0 n then st_params s else flush s | None => st_params s end.

Lemma parse_named_line (tok : str) (is_typ : bool) s n body :
  ~ In SP tok ->
  (forall X, existsb (fun t => startswith t (tok ++ X)) return_tokens = false) ->
  (forall X, startswith (s2l ":type") (tok ++ X) = is_typ) ->
  name_ok n = true ->
  parse_token_line s (tok ++ SP :: n ++ COLON :: body)
  = {| st_doc := st_doc s; st_params := params_after s n; st_ret := st_ret s;
       st_cur := Some (n, if is_typ then set_typ (cur_entry s n) (typ_value (strip body)) else set_doc (cur_entry s n) (strip body)) |}.
Proof.
  intros Hsp Hret Htyp Hn. unfold parse_token_line. rewrite Hret, Htyp.
  assert (F1 : find [SP] (tok ++ SP :: n ++ COLON :: body) = Z.of_nat (length tok)).
  { unfold find. rewrite find_from_skip by exact Hsp. lia. }
  rewrite F1.
  assert (F2 : find_start [COLON] (tok ++ SP :: n ++ COLON :: body) (Z.of_nat (length tok)) = (Z.of_nat (length tok) + Z.of_nat (length (SP :: n)))%Z).
  { change (tok ++ SP :: n ++ COLON :: body) with (tok ++ (SP :: n) ++ COLON :: body).
    apply find_start_app; [reflexivity|]. intros [K|K]; [discriminate | exact (name_ok_no_colon n Hn K)]. }
  rewrite F2.
  assert (N : slice (tok ++ SP :: n ++ COLON :: body) (Z.of_nat (length tok) + 1) (Z.of_nat (length tok) + Z.of_nat (length (SP :: n))) = n).
  { replace (tok ++ SP :: n ++ COLON :: body) with ((tok ++ [SP]) ++ n ++ COLON :: body) by (rewrite <- app_assoc; reflexivity).
    replace (Z.of_nat (length tok) + 1)%Z with (Z.of_nat (length (tok ++ [SP]))) by (rewrite app_length; cbn; lia).
    replace (Z.of_nat (length tok) + Z.of_nat (length (SP :: n)))%Z with (Z.of_nat (length (tok ++ [SP])) + Z.of_nat (length n))%Z
      by (rewrite app_length; cbn [length]; lia).
    apply slice_mid. }
  rewrite N.
  assert (V : slice_from (tok ++ SP :: n ++ COLON :: body) (Z.of_nat (length tok) + Z.of_nat (length (SP :: n)) + 1) = body).
  { replace (tok ++ SP :: n ++ COLON :: body) with ((tok ++ SP :: n ++ [COLON]) ++ body) by (rewrite <- !app_assoc; cbn; rewrite <- app_assoc; reflexivity).
    replace (Z.of_nat (length tok) + Z.of_nat (length (SP :: n)) + 1)%Z with (Z.of_nat (length (tok ++ SP :: n ++ [COLON])))
      by (rewrite !app_length; cbn [length]; rewrite app_length; cbn [length]; lia).
    apply slice_from_app. }
  rewrite V, (norm_name_ok n Hn). unfold params_after, cur_entry.
  destruct (st_cur s) as [[n0 e0]|]; [destruct (str_eqb n0 n)|]; destruct is_typ; reflexivity.
Qed.

Lemma parse_return_line (l : str) (is_rtype : bool) s body :
  no_colon l = true ->
  (forall X, existsb (fun t => startswith t ((COLON :: l) ++ X)) return_tokens = true) ->
  (forall X, startswith (s2l ":rtype") ((COLON :: l) ++ X) = is_rtype) ->
  parse_token_line s ((COLON :: l) ++ COLON :: body)
  = {| st_doc := st_doc s; st_params := st_params s;
       st_ret := Some (let e := match st_ret s with Some e => e | None => empty_entry end in
                       if is_rtype then set_typ e (typ_value (strip body)) else set_doc e (strip body));
       st_cur := st_cur s |}.
Proof.
  intros Hl Hret Hrt. unfold parse_token_line. rewrite Hret, Hrt.
  assert (F : find_start [COLON] ((COLON :: l) ++ COLON :: body) 1 = (1 + Z.of_nat (length l))%Z).
  { change ((COLON :: l) ++ COLON :: body) with ([COLON] ++ l ++ COLON :: body). apply find_start_app; [reflexivity | apply no_colon_not_in, Hl]. }
  rewrite F.
  assert (V : slice_from ((COLON :: l) ++ COLON :: body) (1 + Z.of_nat (length l) + 1) = body).
  { replace ((COLON :: l) ++ COLON :: body) with (((COLON :: l) ++ [COLON]) ++ body) by (rewrite <- app_assoc; reflexivity).
    replace (1 + Z.of_nat (length l) + 1)%Z with (Z.of_nat (length ((COLON :: l) ++ [COLON]))) by (rewrite app_length; cbn [length]; lia).
    apply slice_from_app. }
  rewrite V. destruct is_rtype; reflexivity.
Qed.

Definition typ_ok (t : str) : bool := negb (Nat.eqb (length t) 0) && no_bt t && negb (startswith [STAR; STAR] t) && no_colon t.

Lemma split_fenced_tail : forall fuel t cur, no_bt t = true -> (length t + 4 <= fuel)%nat ->
  split_str_aux fuel FENCE (t ++ FENCE) cur = [rev cur ++ t; []].
Proof.
  induction fuel as [|f IH]; intros t cur H Hl; [lia|]. destruct t as [|c r].
  - destruct f as [|f']; [cbn in Hl; lia|]. cbn. rewrite app_nil_r. reflexivity.
  - unfold no_bt in H. cbn [forallb] in H. apply andb_true_iff in H as [Hc Hr]. apply negb_true_iff in Hc.
    unfold FENCE at 1 2. cbn [app split_str_aux startswith]. rewrite N.eqb_sym, Hc. cbn [andb].
    change [BT; BT; BT] with FENCE. rewrite IH by (try exact Hr; cbn in Hl; lia). cbn [rev]. rewrite <- app_assoc. reflexivity.
Qed.

Lemma typ_value_fenced t : typ_ok t = true -> typ_value (FENCE ++ t ++ FENCE) = t.
Proof.
  unfold typ_ok. intro H. apply andb_true_iff in H as [H _]. apply andb_true_iff in H as [H Hs]. apply andb_true_iff in H as [_ Hb].
  unfold typ_value. change (s2l "```") with FENCE.
  assert (R : replace FENCE [] (FENCE ++ t ++ FENCE) = t).
  { unfold replace, split_str.
    assert (E : forall fuel, split_str_aux (S fuel) FENCE (FENCE ++ t ++ FENCE) [] = [] :: split_str_aux fuel FENCE (t ++ FENCE) []).
    { intro fuel. unfold FENCE at 1 2. cbn [app split_str_aux startswith]. rewrite !N.eqb_refl. reflexivity. }
    rewrite E, split_fenced_tail by (try exact Hb; rewrite !app_length; cbn; lia).
    cbn. rewrite app_nil_r. reflexivity. }
  rewrite R. apply negb_true_iff in Hs. rewrite Hs. reflexivity.
Qed.

Lemma strip_fenced t sep : blank sep = true -> strip (SP :: (FENCE ++ t ++ FENCE) ++ sep) = FENCE ++ t ++ FENCE.
Proof.
  intro B. apply (strip_padded [SP] (FENCE ++ t ++ FENCE) sep); [reflexivity | exact B | reflexivity |].
  rewrite !rev_app_distr. reflexivity.
Qed.

Lemma clean_parts d : clean d = true -> head_ok d = true /\ head_ok (rev d) = true /\ no_colon d = true.
Proof. unfold clean. intro H. apply andb_true_iff in H as [H H3]. apply andb_true_iff in H as [H1 H2]. auto. Qed.

Lemma not_in_sp_param : ~ In SP T_param. Proof. intro H. cbn in H. repeat (destruct H as [H|H]; [discriminate|]). exact H. Qed.
Lemma not_in_sp_type : ~ In SP T_type. Proof. intro H. cbn in H. repeat (destruct H as [H|H]; [discriminate|]). exact H. Qed.

Lemma parse_doc_line s n d sep : name_ok n = true -> clean d = true -> blank sep = true ->
  parse_token_line s (T_param ++ SP :: n ++ COLON :: SP :: d ++ sep)
  = {| st_doc := st_doc s; st_params := params_after s n; st_ret := st_ret s; st_cur := Some (n, set_doc (cur_entry s n) d) |}.
Proof.
  intros Hn Hd Hs. destruct (clean_parts d Hd) as [D1 [D2 _]].
  rewrite (parse_named_line T_param false s n (SP :: d ++ sep) not_in_sp_param); try exact Hn;
    try (intro X; vm_compute; reflexivity).
  change (SP :: d ++ sep) with ([SP] ++ d ++ sep). rewrite (strip_padded [SP] d sep) by (try reflexivity; assumption). reflexivity.
Qed.

Lemma parse_typ_line s n t sep : name_ok n = true -> typ_ok t = true -> blank sep = true ->
  parse_token_line s (T_type ++ SP :: n ++ COLON :: SP :: (FENCE ++ t ++ FENCE) ++ sep)
  = {| st_doc := st_doc s; st_params := params_after s n; st_ret := st_ret s; st_cur := Some (n, set_typ (cur_entry s n) t) |}.
Proof.
  intros Hn Ht Hs.
  rewrite (parse_named_line T_type true s n (SP :: (FENCE ++ t ++ FENCE) ++ sep) not_in_sp_type); try exact Hn;
    try (intro X; vm_compute; reflexivity).
  rewrite strip_fenced by exact Hs. rewrite typ_value_fenced by exact Ht. reflexivity.
Qed.

Lemma parse_rdoc_line s d sep : clean d = true -> blank sep = true ->
  parse_token_line s (T_return ++ COLON :: SP :: d ++ sep)
  = {| st_doc := st_doc s; st_params := st_params s;
       st_ret := Some (set_doc (match st_ret s with Some e => e | None => empty_entry end) d); st_cur := st_cur s |}.
Proof.
  intros Hd Hs. destruct (clean_parts d Hd) as [D1 [D2 _]].
  change T_return with (COLON :: tl T_return).
  rewrite (parse_return_line (tl T_return) false s (SP :: d ++ sep)); try reflexivity; try (intro X; vm_compute; reflexivity).
  change (SP :: d ++ sep) with ([SP] ++ d ++ sep). rewrite (strip_padded [SP] d sep) by (try reflexivity; assumption). reflexivity.
Qed.

Lemma parse_rtyp_line s t sep : typ_ok t = true -> blank sep = true ->
  parse_token_line s (T_rtype ++ COLON :: SP :: (FENCE ++ t ++ FENCE) ++ sep)
  = {| st_doc := st_doc s; st_params := st_params s;
       st_ret := Some (set_typ (match st_ret s with Some e => e | None => empty_entry end) t); st_cur := st_cur s |}.
Proof.
  intros Ht Hs. change T_rtype with (COLON :: tl T_rtype).
  rewrite (parse_return_line (tl T_rtype) true s (SP :: (FENCE ++ t ++ FENCE) ++ sep)); try reflexivity; try (intro X; vm_compute; reflexivity).
  rewrite strip_fenced by exact Hs. rewrite typ_value_fenced by exact Ht. reflexivity.
Qed.

(* ================= 6. the lines of a parameter list, scanned and folded ================= *)
Definition entry_ok (e : pentry) : bool :=
  match pe_doc e, pe_typ e with
  | None, None => false
  | od, ot => (match od with Some d => clean d | None => true end) && (match ot with Some t => typ_ok t | None => true end)
  end.

Definition named_body (n rest : str) : str := SP :: n ++ COLON :: SP :: rest.
Definition fenced (t : str) : str := FENCE ++ t ++ FENCE.

Definition param_lines (n : str) (e : pentry) (sep : str) : list (str * str) :=
  match pe_doc e, pe_typ e with
  | Some d, Some t => [(T_param, named_body n (d ++ [NL])); (T_type, named_body n (fenced t ++ sep))]
  | Some d, None => [(T_param, named_body n (d ++ sep))]
  | None, Some t => [(T_type, named_body n (fenced t ++ sep))]
  | None, None => []
  end.
Definition ret_lines (e : pentry) (sep : str) : list (str * str) :=
  match pe_doc e, pe_typ e with
  | Some d, Some t => [(T_return, COLON :: SP :: d ++ [NL]); (T_rtype, COLON :: SP :: fenced t ++ sep)]
  | Some d, None => [(T_return, COLON :: SP :: d ++ sep)]
  | None, Some t => [(T_rtype, COLON :: SP :: fenced t ++ sep)]
  | None, None => []
  end.
Fixpoint lines_params (ps : list (str * pentry)) (final_sep : str) : list (str * str) :=
  match ps with
  | [] => []
  | [(n, e)] => param_lines n e final_sep
  | (n, e) :: r => param_lines n e [NL; NL] ++ lines_params r final_sep
  end.
Definition seg_of (tb : str * str) : seg := (true, cat tb).

(* -- the bodies are inert for the scanner -- *)
Lemma dead_param_sp : dead (T_param ++ [SP]) = true. Proof. vm_compute. reflexivity. Qed.
Lemma dead_type_sp : dead (T_type ++ [SP]) = true. Proof. vm_compute. reflexivity. Qed.
Lemma dead_colon_sp : dead [COLON; SP] = true. Proof. vm_compute. reflexivity. Qed.

Lemma keys_after_colon_sp key rest : no_colon rest = true -> keys_ok key (COLON :: SP :: rest) = true.
Proof.
  intro H. rewrite keys_ok_reset. change (COLON :: SP :: rest) with ([COLON; SP] ++ rest). rewrite keys_ok_app.
  replace (keys_ok None [COLON; SP]) with true by (vm_compute; reflexivity).
  replace (advance None [COLON; SP]) with (Some [COLON; SP]) by (vm_compute; reflexivity).
  cbn [andb]. apply (keys_ok_dead rest [COLON; SP] dead_colon_sp H).
Qed.

Lemma named_body_ok t n rest : dead (t ++ [SP]) = true -> no_colon n = true -> no_colon rest = true ->
  keys_ok (Some t) (named_body n rest) = true.
Proof.
  intros Hd Hn Hr. unfold named_body. change (SP :: n ++ COLON :: SP :: rest) with ([SP] ++ n ++ COLON :: SP :: rest).
  rewrite !keys_ok_app.
  assert (A1 : advance (Some t) [SP] = Some (t ++ [SP])) by reflexivity.
  assert (K1 : keys_ok (Some t) [SP] = true).
  { cbn [keys_ok]. change (advance1 (Some t) SP) with (Some (t ++ [SP])). apply andb_true_iff. split; [apply dead_not_token, Hd | reflexivity]. }
  destruct (keys_ok_dead n (t ++ [SP]) Hd Hn) as [K A].
  apply andb_true_iff; split; [exact K1|]. apply andb_true_iff; split; [exact K | apply keys_after_colon_sp, Hr].
Qed.

Lemma no_colon_blank_nl : no_colon [NL] = true /\ no_colon [NL; NL] = true. Proof. split; reflexivity. Qed.
Lemma no_colon_fenced t : no_colon t = true -> no_colon (fenced t) = true.
Proof. intro H. unfold fenced. rewrite !no_colon_app, H. reflexivity. Qed.
Lemma typ_ok_no_colon t : typ_ok t = true -> no_colon t = true.
Proof. unfold typ_ok. intro H. apply andb_true_iff in H as [_ H]. exact H. Qed.

Lemma param_lines_ok n e sep : name_ok n = true -> entry_ok e = true -> no_colon sep = true -> Forall line_ok (param_lines n e sep).
Proof.
  intros Hn He Hs. pose proof (name_ok_no_colon_b n Hn) as Nn. unfold param_lines, entry_ok in *.
  destruct (pe_doc e) as [d|], (pe_typ e) as [t|]; try discriminate;
    repeat match goal with H : _ && _ = true |- _ => apply andb_true_iff in H as [? ?] end;
    repeat (apply Forall_cons; [split; cbn [fst snd]|]); try apply Forall_nil;
    try (vm_compute; tauto);
    try (apply named_body_ok; [first [exact dead_param_sp | exact dead_type_sp] | exact Nn |
          rewrite no_colon_app; apply andb_true_iff; split;
          [first [apply no_colon_fenced, typ_ok_no_colon; assumption | apply clean_parts; assumption] | first [exact Hs | reflexivity]]]).
Qed.

Lemma ret_lines_ok e sep : entry_ok e = true -> no_colon sep = true -> Forall line_ok (ret_lines e sep).
Proof.
  intros He Hs. unfold ret_lines, entry_ok in *.
  destruct (pe_doc e) as [d|], (pe_typ e) as [t|]; try discriminate;
    repeat match goal with H : _ && _ = true |- _ => apply andb_true_iff in H as [? ?] end;
    repeat (apply Forall_cons; [split; cbn [fst snd]|]); try apply Forall_nil;
    try (vm_compute; tauto);
    try (apply keys_after_colon_sp; rewrite no_colon_app; apply andb_true_iff; split;
          [first [apply no_colon_fenced, typ_ok_no_colon; assumption | apply clean_parts; assumption] | first [exact Hs | reflexivity]]).
Qed.

(* -- folding the line parser over the lines of one parameter, of all parameters, of the return entry -- *)
Lemma str_eqb_neq a b : a <> b -> str_eqb a b = false.
Proof. intro H. destruct (str_eqb a b) eqn:E; [|reflexivity]. apply str_eqb_eq in E. contradiction. Qed.

Lemma set_assoc_fresh k v : forall l, ~ In k (map fst l) -> set_assoc k v l = l ++ [(k, v)].
Proof.
  induction l as [|[k' v'] l IH]; intro H; cbn [set_assoc app]; [reflexivity|].
  rewrite str_eqb_neq by (intro E; apply H; left; symmetry; exact E). rewrite IH by (intro K; apply H; right; exact K). reflexivity.
Qed.

Lemma cur_fresh s n : (forall n0 e0, st_cur s = Some (n0, e0) -> n0 <> n) -> cur_entry s n = empty_entry /\ params_after s n = flush s.
Proof.
  intro H. unfold cur_entry, params_after, flush. destruct (st_cur s) as [[n0 e0]|]; [|auto].
  rewrite (str_eqb_neq n0 n) by (apply (H n0 e0); reflexivity). auto.
Qed.

Lemma blank_nl : blank [NL] = true /\ blank [NL; NL] = true. Proof. split; reflexivity. Qed.

Lemma parse_seg_token s line : parse_seg s (true, line) = parse_token_line s line. Proof. reflexivity. Qed.

Lemma fold_param_block s n e sep : name_ok n = true -> entry_ok e = true -> blank sep = true ->
  (forall n0 e0, st_cur s = Some (n0, e0) -> n0 <> n) ->
  fold_left parse_seg (map seg_of (param_lines n e sep)) s
  = {| st_doc := st_doc s; st_params := flush s; st_ret := st_ret s; st_cur := Some (n, e) |}.
Proof.
  intros Hn He Hs Hf. destruct (cur_fresh s n Hf) as [C P]. destruct e as [od ot]. unfold param_lines, entry_ok in *. cbn [pe_doc pe_typ] in *.
  destruct od as [d|], ot as [t|]; try discriminate; try (apply andb_true_iff in He as [Hd Ht]);
    cbn [map fold_left]; unfold seg_of, cat, named_body; cbn [fst snd]; rewrite ?parse_seg_token.
  - rewrite (parse_doc_line s n d [NL] Hn Hd eq_refl), C, P.
    change (T_type ++ SP :: n ++ COLON :: SP :: fenced t ++ sep) with (T_type ++ SP :: n ++ COLON :: SP :: (FENCE ++ t ++ FENCE) ++ sep).
    rewrite (parse_typ_line _ n t sep Hn Ht Hs). unfold cur_entry, params_after. cbn [st_cur st_params st_doc st_ret].
    rewrite str_eqb_refl. reflexivity.
  - rewrite (parse_doc_line s n d sep Hn Hd Hs), C, P. reflexivity.
  - change (T_type ++ SP :: n ++ COLON :: SP :: fenced t ++ sep) with (T_type ++ SP :: n ++ COLON :: SP :: (FENCE ++ t ++ FENCE) ++ sep).
    rewrite (parse_typ_line s n t sep Hn Ht Hs), C, P. reflexivity.
Qed.

Lemma fold_ret_lines s e sep : entry_ok e = true -> blank sep = true -> st_ret s = None ->
  fold_left parse_seg (map seg_of (ret_lines e sep)) s
  = {| st_doc := st_doc s; st_params := st_params s; st_ret := Some e; st_cur := st_cur s |}.
Proof.
  intros He Hs Hr. destruct e as [od ot]. unfold ret_lines, entry_ok in *. cbn [pe_doc pe_typ] in *.
  destruct od as [d|], ot as [t|]; try discriminate; try (apply andb_true_iff in He as [Hd Ht]);
    cbn [map fold_left]; unfold seg_of, cat; cbn [fst snd]; rewrite ?parse_seg_token.
  - rewrite (parse_rdoc_line s d [NL] Hd eq_refl).
    change (T_rtype ++ COLON :: SP :: fenced t ++ sep) with (T_rtype ++ COLON :: SP :: (FENCE ++ t ++ FENCE) ++ sep).
    rewrite (parse_rtyp_line _ t sep Ht Hs). cbn [st_cur st_params st_doc st_ret]. rewrite Hr. reflexivity.
  - rewrite (parse_rdoc_line s d sep Hd Hs), Hr. reflexivity.
  - change (T_rtype ++ COLON :: SP :: fenced t ++ sep) with (T_rtype ++ COLON :: SP :: (FENCE ++ t ++ FENCE) ++ sep).
    rewrite (parse_rtyp_line s t sep Ht Hs), Hr. reflexivity.
Qed.

Definition param_ok (p : str * pentry) : bool := name_ok (fst p) && entry_ok (snd p).

Lemma name_ok_not_star n : name_ok n = true -> startswith [STAR] n = false.
Proof. intro H. apply name_ok_0 in H. unfold name_ok0 in H. apply andb_true_iff in H as [_ H]. apply negb_true_iff in H. exact H. Qed.

Lemma fold_params : forall ps s fs, blank fs = true -> forallb param_ok ps = true -> NoDup (map fst ps) ->
  (forall n0 e0, st_cur s = Some (n0, e0) -> ~ In n0 (map fst ps)) ->
  (forall n, In n (map fst ps) -> ~ In n (map fst (flush s))) ->
  let s' := fold_left parse_seg (map seg_of (lines_params ps fs)) s in
  flush s' = flush s ++ ps /\ st_doc s' = st_doc s /\ st_ret s' = st_ret s.
Proof.
  induction ps as [|[n e] r IH]; intros s fs Hfs Hok Hnd Hcur Hfl; cbn zeta.
  - cbn. rewrite app_nil_r. auto.
  - cbn [forallb] in Hok. apply andb_true_iff in Hok as [Hp Hok]. unfold param_ok in Hp. cbn [fst snd] in Hp. apply andb_true_iff in Hp as [Hn He].
    cbn [map] in Hnd. inversion Hnd as [|? ? Hnr Hndr]; subst.
    assert (Hf : forall n0 e0, st_cur s = Some (n0, e0) -> n0 <> n).
    { intros n0 e0 E K. subst. apply (Hcur n e0 E). left. reflexivity. }
    set (s1 := {| st_doc := st_doc s; st_params := flush s; st_ret := st_ret s; st_cur := Some (n, e) |}).
    assert (F1 : flush s1 = flush s ++ [(n, e)]).
    { unfold flush at 1. cbn [s1 st_cur st_params]. rewrite (name_ok_not_star n Hn). apply set_assoc_fresh. apply Hfl. left. reflexivity. }
    destruct r as [|p2 r2].
    + cbn [lines_params]. rewrite (fold_param_block s n e fs Hn He Hfs Hf). fold s1. rewrite F1. auto.
    + change (lines_params ((n, e) :: p2 :: r2) fs) with (param_lines n e [NL; NL] ++ lines_params (p2 :: r2) fs).
      rewrite map_app, fold_left_app, (fold_param_block s n e [NL; NL] Hn He eq_refl Hf). fold s1.
      destruct (IH s1 fs Hfs Hok Hndr) as [A [B C]].
      * intros n0 e0 E. cbn [s1 st_cur] in E. injection E as <- <-. exact Hnr.
      * intros m Hm. rewrite F1, map_app, in_app_iff. cbn [map fst In]. intros [K|[K|[]]].
        -- apply (Hfl m); [right; exact Hm | exact K].
        -- subst. contradiction.
      * rewrite A, F1, <- app_assoc. cbn [app]. cbn [s1 st_doc st_ret] in B, C. auto.
Qed.

(* ================= 7. parsing the canonical ReST text gives back the description ================= *)
Definition all_lines (ps : list (str * pentry)) (ret : option pentry) : list (str * str) :=
  match ret with
  | None => lines_params ps [NL]
  | Some r => lines_params ps [NL; NL] ++ ret_lines r [NL]
  end.
Definition render (doc : str) (ps : list (str * pentry)) (ret : option pentry) : str :=
  (doc ++ [NL; NL]) ++ concat (map cat (all_lines ps ret)).

Definition ret_ok (ret : option pentry) : bool := match ret with Some r => entry_ok r | None => true end.

Lemma lines_params_ok : forall ps fs, forallb param_ok ps = true -> no_colon fs = true -> Forall line_ok (lines_params ps fs).
Proof.
  induction ps as [|[n e] r IH]; intros fs Hok Hfs; [constructor|].
  cbn [forallb] in Hok. apply andb_true_iff in Hok as [Hp Hok]. unfold param_ok in Hp. cbn [fst snd] in Hp. apply andb_true_iff in Hp as [Hn He].
  destruct r as [|p2 r2]; [exact (param_lines_ok n e fs Hn He Hfs)|].
  change (lines_params ((n, e) :: p2 :: r2) fs) with (param_lines n e [NL; NL] ++ lines_params (p2 :: r2) fs).
  apply Forall_app. split; [apply param_lines_ok; auto | apply IH; auto].
Qed.

Lemma all_lines_ok ps ret : forallb param_ok ps = true -> ret_ok ret = true -> Forall line_ok (all_lines ps ret).
Proof.
  intros Hp Hr. unfold all_lines. destruct ret as [r|]; [|apply lines_params_ok; auto].
  apply Forall_app. split; [apply lines_params_ok; auto | apply ret_lines_ok; auto].
Qed.

Lemma param_lines_nonempty n e sep : entry_ok e = true -> param_lines n e sep <> [].
Proof. unfold entry_ok, param_lines. destruct (pe_doc e), (pe_typ e); intro H; try discriminate. Qed.
Lemma ret_lines_nonempty e sep : entry_ok e = true -> ret_lines e sep <> [].
Proof. unfold entry_ok, ret_lines. destruct (pe_doc e), (pe_typ e); intro H; try discriminate. Qed.

Lemma all_lines_nonempty ps ret : forallb param_ok ps = true -> ret_ok ret = true -> (ps <> [] \/ ret <> None) -> all_lines ps ret <> [].
Proof.
  intros Hp Hr Hne. unfold all_lines. destruct ret as [r|].
  - intro E. apply app_eq_nil in E as [_ E]. exact (ret_lines_nonempty r [NL] Hr E).
  - destruct Hne as [Hne|Hne]; [|contradiction]. destruct ps as [|[n e] rest]; [contradiction|].
    cbn [forallb] in Hp. apply andb_true_iff in Hp as [Hp _]. unfold param_ok in Hp. apply andb_true_iff in Hp as [_ He]. cbn [snd] in He.
    destruct rest as [|p2 r2]; [exact (param_lines_nonempty n e [NL] He)|].
    change (lines_params ((n, e) :: p2 :: r2) [NL]) with (param_lines n e [NL; NL] ++ lines_params (p2 :: r2) [NL]).
    intro E. apply app_eq_nil in E as [E _]. exact (param_lines_nonempty n e _ He E).
Qed.

Theorem parse_render doc ps ret :
  clean doc = true -> forallb param_ok ps = true -> NoDup (map fst ps) -> ret_ok ret = true -> (ps <> [] \/ ret <> None) ->
  parse_rest (render doc ps ret) = {| p_doc := doc; p_params := ps; p_ret := ret |}.
Proof.
  intros Hd Hp Hnd Hr Hne. destruct (clean_parts doc Hd) as [D1 [D2 D3]].
  pose proof (all_lines_ok ps ret Hp Hr) as HL. pose proof (all_lines_nonempty ps ret Hp Hr Hne) as HN.
  unfold parse_rest, render. destruct (all_lines ps ret) as [|tb L'] eqn:EL; [contradiction|].
  rewrite (scan_lines (doc ++ [NL; NL]) tb L') by (try exact HL; rewrite no_colon_app, D3; reflexivity).
  rewrite <- EL. cbn [fold_left].
  set (s0 := {| st_doc := doc; st_params := []; st_ret := None; st_cur := None |}).
  match goal with |- context [parse_seg init_state ?x] => assert (S0 : parse_seg init_state x = s0) end.
  { cbn [parse_seg init_state st_doc st_params st_ret st_cur]. change (doc ++ [NL; NL]) with ([] ++ doc ++ [NL; NL]).
    rewrite (strip_padded [] doc [NL; NL]) by (try reflexivity; assumption). reflexivity. }
  rewrite S0.
  change (map (fun x => (true, cat x)) (all_lines ps ret)) with (map seg_of (all_lines ps ret)).
  unfold all_lines. destruct ret as [r|].
  - rewrite map_app, fold_left_app.
    destruct (fold_params ps s0 [NL; NL] eq_refl Hp Hnd) as [A [B C]]; [intros ? ? E; discriminate E | intros n _ K; exact K |].
    set (s1 := fold_left parse_seg (map seg_of (lines_params ps [NL; NL])) s0) in *.
    rewrite (fold_ret_lines s1 r [NL] Hr eq_refl C). cbn [st_doc st_ret]. unfold flush at 1. cbn [st_cur st_params].
    fold (flush s1). rewrite A, B. reflexivity.
  - destruct (fold_params ps s0 [NL] eq_refl Hp Hnd) as [A [B C]]; [intros ? ? E; discriminate E | intros n _ K; exact K |].
    rewrite A, B, C. reflexivity.
Qed.

(* ================= 8. the emitter writes the canonical text ================= *)
Definition tail_ok (s : str) : bool := head_ok (rev s).

Lemma tail_ok_app a b : b <> [] -> tail_ok (a ++ b) = tail_ok b.
Proof.
  intro H. unfold tail_ok. rewrite rev_app_distr. destruct (rev b) as [|c r] eqn:E; [|reflexivity].
  exfalso. apply H. rewrite <- (rev_involutive b), E. reflexivity.
Qed.

Lemma head_ok_not_space c r : head_ok (c :: r) = true -> is_space c = false.
Proof. cbn. intro H. apply negb_true_iff in H. exact H. Qed.
Lemma nonspace_not_nl c : is_space c = false -> (c =? NL) = false.
Proof. intro H. destruct (N.eqb_spec c NL) as [->|]; [vm_compute in H; discriminate | reflexivity]. Qed.

Lemma count_nls_head_ok s : head_ok s = true -> count_nls_prefix s = O.
Proof. destruct s as [|c r]; [discriminate|]. intro H. apply head_ok_not_space in H. cbn. rewrite (nonspace_not_nl c H), H. reflexivity. Qed.

Lemma rev_tl_head s : (2 <= length s)%nat -> exists r, rev (tl s) = (last s NL) :: r.
Proof.
  intro H. destruct s as [|a s]; [cbn in H; lia|]. cbn [tl]. destruct (rev s) as [|c r] eqn:E.
  - assert (s = []) by (rewrite <- (rev_involutive s), E; reflexivity). subst. cbn in H. lia.
  - exists r. f_equal. assert (s = rev r ++ [c]) by (rewrite <- (rev_involutive s), E; reflexivity). subst s.
    change (a :: rev r ++ [c]) with ((a :: rev r) ++ [c]). rewrite last_last. reflexivity.
Qed.

Lemma tail_ok_last s : tail_ok s = true -> is_space (last s NL) = false.
Proof.
  unfold tail_ok. destruct (rev s) as [|c r] eqn:E; [discriminate|]. intro H. apply head_ok_not_space in H.
  assert (s = rev r ++ [c]) by (rewrite <- (rev_involutive s), E; reflexivity). subst s. rewrite last_last. exact H.
Qed.

Lemma nls_end_tail_ok s : tail_ok s = true -> num_of_nls s true = O.
Proof.
  intro H. unfold num_of_nls. destruct (le_lt_dec 2 (length s)) as [L|L].
  - destruct (rev_tl_head s L) as [r E]. rewrite E. pose proof (tail_ok_last s H) as K. cbn. rewrite (nonspace_not_nl _ K), K. reflexivity.
  - destruct s as [|a [|b s]]; [reflexivity | reflexivity | cbn in L; lia].
Qed.

Lemma nls_end_one s : tail_ok s = true -> s <> [] -> num_of_nls (s ++ [NL]) true = 1%nat.
Proof.
  intros H Hne. unfold num_of_nls. destruct s as [|a s]; [contradiction|]. cbn [app tl]. rewrite rev_app_distr. cbn [rev app].
  cbn [count_nls_prefix]. rewrite N.eqb_refl. f_equal.
  change (count_nls_prefix (rev s)) with (count_nls_prefix (rev (tl (a :: s)))). apply (nls_end_tail_ok (a :: s) H).
Qed.

Lemma indent_nil : forall s b, indent_aux [] s b = s.
Proof. induction s as [|c r IH]; intro b; cbn; [reflexivity|]. destruct b; cbn; rewrite IH; reflexivity. Qed.

Lemma last_opt_app_nl (s : str) : last_opt (s ++ [NL]) = Some NL.
Proof. apply last_opt_app_single. Qed.

(* the re-assembly of a clean header and an argument section that starts with [k] newlines (k = 0, 1) then a non-blank
   character, and ends with a non-blank character or exactly one newline *)
Lemma haf_clean doc ar :
  clean doc = true -> head_ok ar = true -> (tail_ok ar = true \/ exists x, ar = x ++ [NL] /\ tail_ok x = true /\ x <> []) ->
  header_args_footer_to_str doc ar [] = doc ++ [NL; NL] ++ ar ++ (if tail_ok ar then [NL] else []).
Proof.
  intros Hd Ha He. destruct (clean_parts doc Hd) as [D1 [D2 _]].
  assert (Hen : num_of_nls doc true = O) by (apply nls_end_tail_ok; exact D2).
  assert (S0 : num_of_nls ar false = O) by (apply count_nls_head_ok, Ha).
  assert (EN : (tail_ok ar = true /\ num_of_nls ar true = O) \/ (tail_ok ar = false /\ num_of_nls ar true = 1%nat)).
  { destruct He as [T|[x [-> [T Hx]]]]; [left; split; [exact T | apply nls_end_tail_ok, T]|].
    right. split; [rewrite tail_ok_app by discriminate; reflexivity | apply nls_end_one; assumption]. }
  assert (LO : forall tl0, tl0 = (if Nat.eqb (num_of_nls ar true) 0 then [NL] else []) -> last_opt ([NL; NL] ++ ar ++ tl0) = Some NL).
  { intros tl0 ->. destruct EN as [[T E]|[T E]]; rewrite E; cbn [Nat.eqb].
    - rewrite !app_assoc. apply last_opt_app_nl.
    - rewrite app_nil_r. destruct He as [T'|[x [Ex _]]]; [congruence|]. rewrite Ex, app_assoc. apply last_opt_app_nl. }
  assert (T1 : (if Nat.eqb (num_of_nls ar true) 0 then [NL] else []) = if tail_ok ar then [NL] else []).
  { destruct EN as [[T E]|[T E]]; rewrite T, E; reflexivity. }
  assert (CL : count_leading_space doc = O).
  { destruct doc as [|d0 dr]; [discriminate|]. cbn. rewrite (head_ok_not_space d0 dr D1). reflexivity. }
  destruct doc as [|d0 dr]; [discriminate|]. destruct ar as [|a0 arr]; [discriminate|].
  unfold header_args_footer_to_str. cbv iota beta zeta.
  rewrite S0, Hen. cbn [length Nat.eqb Nat.ltb Nat.leb negb andb nls repeat].
  set (tailnl := if Nat.eqb (num_of_nls (a0 :: arr) true) 0 then [NL] else []) in *.
  assert (A1s : num_of_nls ([NL; NL] ++ (a0 :: arr) ++ tailnl) false = 2%nat).
  { unfold num_of_nls. cbn [app count_nls_prefix]. rewrite N.eqb_refl. do 2 f_equal.
    apply head_ok_not_space in Ha. rewrite (nonspace_not_nl a0 Ha), Ha. reflexivity. }
  change ([NL; NL] ++ (a0 :: arr) ++ tailnl) with (NL :: NL :: a0 :: arr ++ tailnl) in *. cbv iota beta.
  rewrite A1s, CL. cbn [firstn count_char Nat.sub count_leading_space].
  replace (is_space NL) with true by reflexivity. cbn [Nat.eqb spaces repeat]. unfold indent. rewrite indent_nil, app_nil_r.
  change (NL :: NL :: a0 :: arr ++ tailnl) with ([NL; NL] ++ (a0 :: arr) ++ tailnl).
  rewrite (LO tailnl eq_refl), N.eqb_refl. cbn [app length Nat.ltb Nat.leb andb Nat.add Nat.eqb orb nls repeat].
  cbn [negb andb]. rewrite !app_nil_r. subst tailnl. rewrite T1. reflexivity.
Qed.

Lemma key_param n rest : [COLON] ++ (s2l "param " ++ n) ++ s2l ": " ++ rest = T_param ++ named_body n rest.
Proof. unfold named_body. rewrite <- app_assoc. reflexivity. Qed.
Lemma key_type n rest : [COLON] ++ (s2l "type " ++ n) ++ s2l ": ```" ++ rest = T_type ++ named_body n (FENCE ++ rest).
Proof. unfold named_body. rewrite <- app_assoc. reflexivity. Qed.
Lemma key_return rest : [COLON] ++ s2l "return" ++ s2l ": " ++ rest = T_return ++ COLON :: SP :: rest.
Proof. reflexivity. Qed.
Lemma key_rtype rest : [COLON] ++ s2l "rtype" ++ s2l ": ```" ++ rest = T_rtype ++ COLON :: SP :: FENCE ++ rest.
Proof. reflexivity. Qed.

Lemma clean_nonempty d : clean d = true -> nonempty (Some d) = Some d /\ lstrip d = d.
Proof.
  intro H. destruct (clean_parts d H) as [D1 _]. split; [destruct d; [discriminate | reflexivity] | apply lstrip_head_ok, D1].
Qed.
Lemma typ_ok_nonempty t : typ_ok t = true -> nonempty (Some t) = Some t.
Proof. unfold typ_ok. intro H. destruct t; [discriminate | reflexivity]. Qed.

Lemma named_body_app n a b : named_body n (a ++ b) = named_body n a ++ b.
Proof. unfold named_body. cbn [app]. f_equal. rewrite <- app_assoc. reflexivity. Qed.

Lemma block_text n e sep : entry_ok e = true -> concat (map cat (param_lines n e sep)) = emit_param true (n, e) ++ sep.
Proof.
  intro He. destruct e as [od ot]. unfold entry_ok, param_lines, emit_param, lines_of in *. cbn [pe_doc pe_typ fst snd] in *.
  destruct od as [d|], ot as [t|]; try discriminate; try (apply andb_true_iff in He as [Hd Ht]);
    repeat match goal with
           | H : clean ?d = true |- _ => destruct (clean_nonempty d H) as [-> ->]; clear H
           | H : typ_ok ?t = true |- _ => rewrite (typ_ok_nonempty t H); clear H
           end;
    rewrite ?key_param, ?key_type; change (s2l "```") with FENCE.
  all: cbn [nonempty map concat join app]; unfold cat, fenced; cbn [fst snd]; rewrite ?app_nil_r, ?named_body_app.
  all: repeat (progress (cbn [app]; rewrite <- ?app_assoc)); reflexivity.
Qed.

Lemma ret_text e sep : entry_ok e = true -> concat (map cat (ret_lines e sep)) = emit_return true e ++ sep.
Proof.
  intro He. destruct e as [od ot]. unfold entry_ok, ret_lines, emit_return, lines_of in *. cbn [pe_doc pe_typ fst snd] in *.
  destruct od as [d|], ot as [t|]; try discriminate; try (apply andb_true_iff in He as [Hd Ht]);
    repeat match goal with
           | H : clean ?d = true |- _ => destruct (clean_nonempty d H) as [-> ->]; clear H
           | H : typ_ok ?t = true |- _ => rewrite (typ_ok_nonempty t H); clear H
           end;
    rewrite ?key_return, ?key_rtype; change (s2l "```") with FENCE.
  all: cbn [nonempty map concat join app]; unfold cat, fenced; cbn [fst snd]; rewrite ?app_nil_r.
  all: repeat (progress (cbn [app]; rewrite <- ?app_assoc)); reflexivity.
Qed.

Lemma join2_cons (x y : str) r : join [NL; NL] (x :: y :: r) = x ++ [NL; NL] ++ join [NL; NL] (y :: r).
Proof. reflexivity. Qed.

Lemma params_text : forall ps fs, forallb param_ok ps = true -> ps <> [] ->
  concat (map cat (lines_params ps fs)) = join [NL; NL] (map (emit_param true) ps) ++ fs.
Proof.
  induction ps as [|[n e] r IH]; intros fs Hok Hne; [contradiction|].
  cbn [forallb] in Hok. apply andb_true_iff in Hok as [Hp Hok]. unfold param_ok in Hp. cbn [fst snd] in Hp. apply andb_true_iff in Hp as [_ He].
  destruct r as [|p2 r2]; [cbn [lines_params map join]; apply block_text, He|].
  change (lines_params ((n, e) :: p2 :: r2) fs) with (param_lines n e [NL; NL] ++ lines_params (p2 :: r2) fs).
  rewrite map_app, concat_app, block_text by exact He. rewrite IH by (try exact Hok; discriminate).
  cbn [map]. rewrite join2_cons, <- !app_assoc. reflexivity.
Qed.

Lemma last_opt_rev (s : str) : last_opt s = match rev s with c :: _ => Some c | [] => None end.
Proof.
  destruct (rev s) as [|c r] eqn:E.
  - assert (s = []) by (rewrite <- (rev_involutive s), E; reflexivity). subst. reflexivity.
  - assert (s = rev r ++ [c]) by (rewrite <- (rev_involutive s), E; reflexivity). subst. apply last_opt_app_single.
Qed.
Lemma tail_ok_not_ends_nl s : tail_ok s = true -> ends_nl s = false.
Proof.
  unfold tail_ok, ends_nl. rewrite last_opt_rev. destruct (rev s) as [|c r]; [discriminate|]. intro H.
  apply head_ok_not_space in H. apply nonspace_not_nl, H.
Qed.

Lemma tail_ok_app_r a b : tail_ok b = true -> tail_ok (a ++ b) = true.
Proof. intro H. rewrite tail_ok_app; [exact H|]. intro E. subst. discriminate. Qed.
Lemma tail_ok_cons_r c s : tail_ok s = true -> tail_ok (c :: s) = true.
Proof. apply (tail_ok_app_r [c] s). Qed.

(* a block of lines starts with a colon and ends with the last character of a description or a back-tick *)
Lemma lines_block_ok key key_typ e : entry_ok e = true ->
  let b := join [NL] (lines_of key key_typ true e) in head_ok b = true /\ tail_ok b = true.
Proof.
  intro He. destruct e as [od ot]. unfold entry_ok, lines_of in *. cbn [pe_doc pe_typ] in *.
  destruct od as [d|], ot as [t|]; try discriminate; try (apply andb_true_iff in He as [Hd Ht]);
    repeat match goal with
           | H : clean ?d = true |- _ => destruct (clean_nonempty d H) as [-> ->]; pose proof (proj1 (proj2 (clean_parts d H))) as T; clear H
           | H : typ_ok ?t = true |- _ => rewrite (typ_ok_nonempty t H); clear H
           end;
    cbn [nonempty app join]; split; try reflexivity;
    repeat first [exact T | reflexivity | apply tail_ok_cons_r | apply tail_ok_app_r].
Qed.

Lemma head_ok_app a b : head_ok a = true -> head_ok (a ++ b) = true.
Proof. destruct a; [discriminate | intro H; exact H]. Qed.
Lemma head_ok_ne a : head_ok a = true -> a <> [].
Proof. destruct a; [discriminate | discriminate]. Qed.

Lemma params_block_ok : forall ps, forallb param_ok ps = true -> ps <> [] ->
  let P := join [NL; NL] (map (emit_param true) ps) in head_ok P = true /\ tail_ok P = true.
Proof.
  induction ps as [|[n e] r IH]; intros Hok Hne; [contradiction|].
  cbn [forallb] in Hok. apply andb_true_iff in Hok as [Hp Hok]. unfold param_ok in Hp. cbn [fst snd] in Hp. apply andb_true_iff in Hp as [_ He].
  destruct (lines_block_ok (s2l "param " ++ n) (s2l "type " ++ n) e He) as [H1 H2].
  destruct r as [|p2 r2]; [cbn [map join]; split; assumption|].
  cbn [map]. rewrite join2_cons. destruct (IH Hok ltac:(discriminate)) as [I1 I2]. cbn zeta in *. split.
  - apply head_ok_app, H1.
  - rewrite tail_ok_app by (apply app_cons_not_nil || (intro K; destruct (app_eq_nil _ _ K); discriminate)).
    rewrite tail_ok_app by (apply head_ok_ne, I1). exact I2.
Qed.

Lemma count_char_app c a b : count_char c (a ++ b) = (count_char c a + count_char c b)%nat.
Proof. induction a as [|x a IH]; cbn; [reflexivity|]. destruct (x =? c); rewrite IH; reflexivity. Qed.

Lemma isspace_head_ok s : head_ok s = true -> isspace s = false.
Proof. destruct s as [|c r]; [discriminate|]. intro H. apply head_ok_not_space in H. cbn. rewrite H. reflexivity. Qed.

(* the outer wrapper of emit_rest returns the candidate when it has a non-blank first character and a line break *)
Lemma emit_wrapper cand : head_ok cand = true -> Nat.eqb (count_char NL cand) 0 = false ->
  match cand with
  | [] => []
  | c :: _ => if isspace cand then [] else if Nat.eqb (count_char NL cand) 0 then (if c =? NL then cand else NL :: cand) else cand
  end = cand.
Proof. intros H1 H2. destruct cand as [|c r]; [discriminate|]. rewrite (isspace_head_ok _ H1), H2. reflexivity. Qed.

Theorem emit_is_render doc ps ret :
  clean doc = true -> forallb param_ok ps = true -> ps <> [] -> ret_ok ret = true ->
  emit_rest true doc ps ret = render doc ps ret.
Proof.
  intros Hd Hp Hne Hr. destruct (clean_parts doc Hd) as [D1 [D2 _]].
  destruct (params_block_ok ps Hp Hne) as [P1 P2]. cbn zeta in P1, P2.
  set (P := join [NL; NL] (map (emit_param true) ps)) in *.
  assert (Pne : Nat.eqb (length P) 0 = false) by (destruct P; [discriminate | reflexivity]).
  assert (Ppe : num_of_nls P true = O) by (apply nls_end_tail_ok, P2).
  assert (W : forall body, emit_rest true doc ps ret = doc ++ [NL; NL] ++ body ->
              header_args_footer_to_str doc (if isspace (args_returns true ps ret) then [] else args_returns true ps ret) [] = doc ++ [NL; NL] ++ body ->
              True) by auto. clear W.
  unfold emit_rest, render, all_lines. destruct ret as [r|].
  - (* parameters and a return entry *)
    cbn [ret_ok] in Hr. destruct (lines_block_ok (s2l "return") (s2l "rtype") r Hr) as [R1 R2]. cbn zeta in R1, R2.
    fold (emit_return true r) in R1, R2. set (R := emit_return true r) in *.
    assert (Rne : R <> []) by (apply head_ok_ne, R1).
    assert (AR : args_returns true ps (Some r) = (P ++ [NL; NL] ++ R) ++ [NL]).
    { unfold args_returns. fold P. fold R. destruct R as [|r0 rr] eqn:ER; [contradiction|]. rewrite <- ER in *.
      rewrite Pne, (tail_ok_not_ends_nl P P2). cbn [orb]. rewrite Ppe.
      assert (L1 : Nat.eqb (length ([NL] ++ R)) 0 = false) by reflexivity. rewrite L1.
      assert (RE : num_of_nls ([NL] ++ R) true = O) by (apply nls_end_tail_ok, tail_ok_app_r, R2). rewrite RE.
      cbn [Nat.ltb Nat.leb negb andb orb Nat.eqb]. rewrite <- !app_assoc. reflexivity. }
    rewrite AR.
    assert (X2 : tail_ok (P ++ [NL; NL] ++ R) = true) by (do 2 apply tail_ok_app_r; exact R2).
    assert (X1 : head_ok ((P ++ [NL; NL] ++ R) ++ [NL]) = true) by (rewrite <- app_assoc; apply head_ok_app, P1).
    rewrite (isspace_head_ok _ X1).
    rewrite (haf_clean doc ((P ++ [NL; NL] ++ R) ++ [NL]) Hd X1)
      by (right; exists (P ++ [NL; NL] ++ R); split; [reflexivity | split; [exact X2 | intro K; apply app_eq_nil in K as [K _]; rewrite K in Pne; discriminate]]).
    rewrite tail_ok_app by discriminate. replace (tail_ok [NL]) with false by reflexivity. rewrite app_nil_r.
    rewrite emit_wrapper.
    + rewrite map_app, concat_app, (params_text ps [NL; NL] Hp Hne), (ret_text r [NL] Hr). fold P. fold R.
      rewrite <- !app_assoc. reflexivity.
    + apply head_ok_app, D1.
    + rewrite !count_char_app. cbn [count_char]. rewrite N.eqb_refl. destruct (count_char NL doc); reflexivity.
  - (* parameters only *)
    assert (AR : args_returns true ps None = P).
    { unfold args_returns. fold P. rewrite Ppe. cbn [length Nat.eqb negb andb Nat.ltb Nat.leb orb]. rewrite !app_nil_r. reflexivity. }
    rewrite AR, (isspace_head_ok _ P1), (haf_clean doc P Hd P1) by (left; exact P2). rewrite P2.
    rewrite emit_wrapper.
    + rewrite (params_text ps [NL] Hp Hne). fold P. rewrite <- !app_assoc. reflexivity.
    + apply head_ok_app, D1.
    + rewrite !count_char_app. cbn [count_char]. rewrite N.eqb_refl. destruct (count_char NL doc); reflexivity.
Qed.

(* ================= 9. the round trip ================= *)
Theorem rest_roundtrip doc ps ret :
  clean doc = true -> forallb param_ok ps = true -> NoDup (map fst ps) -> ps <> [] -> ret_ok ret = true ->
  parse_rest (emit_rest true doc ps ret) = {| p_doc := doc; p_params := ps; p_ret := ret |}.
Proof. intros Hd Hp Hnd Hne Hr. rewrite emit_is_render by assumption. apply parse_render; auto. Qed.

(* ================= 10. emit_types = False: the same text as for the description without its types ================= *)
Definition drop_typ (e : pentry) : pentry := {| pe_doc := pe_doc e; pe_typ := None |}.
Definition drop_typs (ps : list (str * pentry)) : list (str * pentry) := map (fun p => (fst p, drop_typ (snd p))) ps.

Lemma lines_of_false key key_typ e : lines_of key key_typ false e = lines_of key key_typ true (drop_typ e).
Proof. unfold lines_of, drop_typ. cbn [pe_doc pe_typ nonempty]. destruct (nonempty (pe_typ e)); reflexivity. Qed.

Lemma args_returns_false ps ret : args_returns false ps ret = args_returns true (drop_typs ps) (option_map drop_typ ret).
Proof.
  unfold args_returns, drop_typs. rewrite map_map.
  assert (E : map (emit_param false) ps = map (fun x => emit_param true (fst x, drop_typ (snd x))) ps).
  { apply map_ext. intros [n e]. unfold emit_param. cbn [fst snd]. rewrite lines_of_false. reflexivity. }
  rewrite E. destruct ret as [r|]; cbn [option_map]; [|reflexivity].
  unfold emit_return. rewrite lines_of_false. reflexivity.
Qed.

Theorem emit_false_is_emit_true_without_types doc ps ret :
  emit_rest false doc ps ret = emit_rest true doc (drop_typs ps) (option_map drop_typ ret).
Proof. unfold emit_rest. rewrite args_returns_false. reflexivity. Qed.

Theorem rest_roundtrip_no_types doc ps ret :
  clean doc = true -> forallb param_ok (drop_typs ps) = true -> NoDup (map fst ps) -> ps <> [] -> ret_ok (option_map drop_typ ret) = true ->
  parse_rest (emit_rest false doc ps ret) = {| p_doc := doc; p_params := drop_typs ps; p_ret := option_map drop_typ ret |}.
Proof.
  intros Hd Hp Hnd Hne Hr. rewrite emit_false_is_emit_true_without_types. apply rest_roundtrip; auto.
  - unfold drop_typs. rewrite map_map. cbn [fst]. exact Hnd.
  - destruct ps; [contradiction | discriminate].
Qed.

(* ================= 11. a return entry and no parameter ================= *)
Lemma haf_clean_nl doc x :
  clean doc = true -> head_ok x = true -> tail_ok x = true ->
  header_args_footer_to_str doc (NL :: x ++ [NL]) [] = doc ++ [NL; NL] ++ x ++ [NL].
Proof.
  intros Hd Hx Tx. destruct (clean_parts doc Hd) as [D1 [D2 _]].
  assert (Hen : num_of_nls doc true = O) by (apply nls_end_tail_ok; exact D2).
  assert (Xne : x <> []) by (apply head_ok_ne, Hx).
  assert (S1 : num_of_nls (NL :: x ++ [NL]) false = 1%nat).
  { unfold num_of_nls. cbn [count_nls_prefix]. rewrite N.eqb_refl. f_equal. apply count_nls_head_ok, head_ok_app, Hx. }
  assert (E1 : num_of_nls (NL :: x ++ [NL]) true = 1%nat).
  { change (NL :: x ++ [NL]) with (([NL] ++ x) ++ [NL]). apply nls_end_one; [apply tail_ok_app_r, Tx | discriminate]. }
  assert (CL : count_leading_space doc = O).
  { destruct doc as [|d0 dr]; [discriminate|]. cbn. rewrite (head_ok_not_space d0 dr D1). reflexivity. }
  destruct doc as [|d0 dr]; [discriminate|]. destruct x as [|x0 xr]; [contradiction|].
  unfold header_args_footer_to_str. cbv iota beta zeta.
  rewrite S1, Hen, E1. cbn [length Nat.eqb Nat.ltb Nat.leb negb andb nls repeat app].
  assert (A1s : num_of_nls (NL :: NL :: x0 :: xr ++ [NL]) false = 2%nat).
  { unfold num_of_nls. cbn [count_nls_prefix]. rewrite N.eqb_refl. do 2 f_equal.
    apply head_ok_not_space in Hx. rewrite (nonspace_not_nl x0 Hx), Hx. reflexivity. }
  cbn [app]. rewrite !app_nil_r. rewrite A1s, CL. cbn [firstn count_char Nat.sub count_leading_space].
  replace (is_space NL) with true by reflexivity. cbn [Nat.eqb spaces repeat]. unfold indent. rewrite indent_nil, ?app_nil_r.
  assert (LO : last_opt (NL :: NL :: x0 :: xr ++ [NL]) = Some NL).
  { change (NL :: NL :: x0 :: xr ++ [NL]) with ((NL :: NL :: x0 :: xr) ++ [NL]). apply last_opt_app_nl. }
  rewrite LO, N.eqb_refl. cbn [app length Nat.ltb Nat.leb andb Nat.add Nat.eqb orb nls repeat negb]. rewrite !app_nil_r. reflexivity.
Qed.

Theorem emit_is_render_ret_only doc r :
  clean doc = true -> entry_ok r = true -> emit_rest true doc [] (Some r) = render doc [] (Some r).
Proof.
  intros Hd Hr. destruct (clean_parts doc Hd) as [D1 [D2 _]].
  destruct (lines_block_ok (s2l "return") (s2l "rtype") r Hr) as [R1 R2]. cbn zeta in R1, R2.
  fold (emit_return true r) in R1, R2.
  unfold emit_rest, render, all_lines. cbn [lines_params app].
  assert (AR : args_returns true [] (Some r) = NL :: emit_return true r ++ [NL]).
  { unfold args_returns. cbn [map join]. set (R := emit_return true r) in *.
    destruct R as [|r0 rr] eqn:ER; [discriminate|]. rewrite <- ER in *.
    cbn [length Nat.eqb orb app]. replace (num_of_nls [] true) with O by reflexivity.
    assert (L1 : Nat.eqb (length R) 0 = false) by (rewrite ER; reflexivity). rewrite L1.
    rewrite (nls_end_tail_ok R R2). cbn [Nat.ltb Nat.leb negb andb orb Nat.eqb app]. reflexivity. }
  rewrite AR.
  assert (NS : isspace (NL :: emit_return true r ++ [NL]) = false).
  { cbn [isspace forallb]. replace (is_space NL) with true by reflexivity. cbn [andb].
    destruct (emit_return true r) as [|r0 rr]; [discriminate|]. cbn [app forallb]. rewrite (head_ok_not_space r0 rr R1). reflexivity. }
  rewrite NS, (haf_clean_nl doc (emit_return true r) Hd R1 R2).
  rewrite emit_wrapper.
  - rewrite (ret_text r [NL] Hr), <- !app_assoc. reflexivity.
  - apply head_ok_app, D1.
  - rewrite !count_char_app. cbn [count_char]. rewrite N.eqb_refl. destruct (count_char NL doc); reflexivity.
Qed.

Theorem rest_roundtrip_ret_only doc r :
  clean doc = true -> entry_ok r = true ->
  parse_rest (emit_rest true doc [] (Some r)) = {| p_doc := doc; p_params := []; p_ret := Some r |}.
Proof.
  intros Hd Hr. rewrite emit_is_render_ret_only by assumption.
  apply parse_render; auto; [constructor | right; discriminate].
Qed.
