(* Model/Entities.v: in a text of blank-separated words the entities are exactly the words written between ``` fences, in order. *)
From Coq Require Import Lia.
From CDD Require Import PyStr RestDocProofs Entities.
Open Scope N_scope.

(* a word: no blank, no backtick *)
Definition plain (w : str) : bool := forallb (fun c => negb (is_space c) && negb (c =? TICK)) w.
Definition FENCE3 : str := [TICK; TICK; TICK].

(* (fenced?, word) *)
Definition token := (bool * str)%type.
Definition render (t : token) : str := if fst t then FENCE3 ++ snd t ++ FENCE3 else snd t.
Definition token_ok (t : token) : bool := plain (snd t) && (negb (fst t) || negb (Nat.eqb (length (snd t)) 0)).

Definition clean_state (ents : list str) : estate := {| e_entities := ents; e_ticks := 0; e_stack := [] |}.

Lemma run_plain : forall w ents k, plain w = true -> (k <= 2)%nat ->
  fold_left estep w {| e_entities := ents; e_ticks := k; e_stack := [] |} = {| e_entities := ents; e_ticks := k; e_stack := [] |}.
Proof.
  induction w as [|c w IH]; intros ents k H Hk; [reflexivity|]. cbn [fold_left plain forallb] in *.
  apply andb_prop in H. destruct H as [Hc Hw]. apply andb_prop in Hc. destruct Hc as [C1 C2].
  apply negb_true_iff in C1. apply negb_true_iff in C2.
  unfold estep at 2. cbn [e_ticks e_stack e_entities]. rewrite C1, C2.
  replace (Nat.ltb 2 k) with false by (symmetry; apply Nat.ltb_ge; lia). apply IH; assumption.
Qed.

(* inside a fence: the characters of the word are collected *)
Lemma run_collect : forall w ents st, plain w = true -> st <> [] ->
  fold_left estep w {| e_entities := ents; e_ticks := 0; e_stack := st |} = {| e_entities := ents; e_ticks := 0; e_stack := st ++ w |}.
Proof.
  induction w as [|c w IH]; intros ents st H Hs; [rewrite app_nil_r; reflexivity|]. cbn [fold_left plain forallb] in *.
  apply andb_prop in H. destruct H as [Hc Hw]. apply andb_prop in Hc. destruct Hc as [C1 C2].
  apply negb_true_iff in C1. apply negb_true_iff in C2.
  unfold estep at 2. cbn [e_ticks e_stack e_entities]. rewrite C1, C2. cbn [Nat.ltb Nat.leb].
  destruct st as [|s0 st']; [contradiction|].
  rewrite IH by (try exact Hw; destruct st'; discriminate). rewrite <- app_assoc. reflexivity.
Qed.

Lemma step_tick ents k st : (k <= 2)%nat ->
  estep {| e_entities := ents; e_ticks := k; e_stack := st |} TICK = {| e_entities := ents; e_ticks := S k; e_stack := st |}.
Proof.
  intro H. unfold estep. cbn [e_ticks e_stack e_entities]. replace (is_space TICK) with false by reflexivity.
  replace (Nat.ltb 2 k) with false by (symmetry; apply Nat.ltb_ge; lia). rewrite N.eqb_refl. reflexivity.
Qed.

Lemma three_ticks ents st :
  fold_left estep FENCE3 {| e_entities := ents; e_ticks := 0; e_stack := st |} = {| e_entities := ents; e_ticks := 3; e_stack := st |}.
Proof. unfold FENCE3. cbn [fold_left]. rewrite !step_tick by lia. reflexivity. Qed.

Lemma step_first c ents : is_space c = false ->
  estep {| e_entities := ents; e_ticks := 3; e_stack := [] |} c = {| e_entities := ents; e_ticks := 0; e_stack := [c] |}.
Proof. intro H. unfold estep. cbn [e_ticks e_stack e_entities]. rewrite H. reflexivity. Qed.

Lemma run_fenced w ents : plain w = true -> w <> [] ->
  fold_left estep (FENCE3 ++ w ++ FENCE3) (clean_state ents) = {| e_entities := ents; e_ticks := 3; e_stack := w |}.
Proof.
  intros H Hne. destruct w as [|c w]; [contradiction|].
  cbn [plain forallb] in H. apply andb_prop in H. destruct H as [Hc Hw]. apply andb_prop in Hc. destruct Hc as [C1 _].
  apply negb_true_iff in C1.
  rewrite !fold_left_app. unfold clean_state. rewrite three_ticks. cbn [fold_left]. rewrite (step_first c ents C1).
  rewrite run_collect by (try exact Hw; discriminate). cbn [app]. apply three_ticks.
Qed.

(* a blank (any whitespace character: a space, a line break, a tab) after a word closes it *)
Lemma step_space_stack ents k w c : is_space c = true -> w <> [] ->
  estep {| e_entities := ents; e_ticks := k; e_stack := w |} c = clean_state (ents ++ [w]).
Proof. intros Hc H. unfold estep, add_then_clear, clean_state. rewrite Hc. cbn. destruct w; [contradiction | reflexivity]. Qed.
Lemma step_space_empty ents k c : is_space c = true -> estep {| e_entities := ents; e_ticks := k; e_stack := [] |} c = clean_state ents.
Proof. intro Hc. unfold estep. rewrite Hc. reflexivity. Qed.

Definition entities_of (ts : list token) : list str := map snd (filter fst ts).

(* state after a token that is followed by a blank *)
Lemma run_token_sp t c ents : token_ok t = true -> is_space c = true ->
  fold_left estep (render t ++ [c]) (clean_state ents) = clean_state (ents ++ entities_of [t]).
Proof.
  intros H Hc. destruct t as [[|] w]; unfold token_ok, render, entities_of in *; cbn [fst snd filter map] in *; apply andb_prop in H; destruct H as [Hp Hn].
  - cbn [negb orb] in Hn. apply negb_true_iff in Hn. apply Nat.eqb_neq in Hn.
    assert (Hne : w <> []) by (intro K; apply Hn; rewrite K; reflexivity).
    rewrite fold_left_app. rewrite (run_fenced w ents Hp Hne). cbn [fold_left]. apply step_space_stack; assumption.
  - rewrite fold_left_app. unfold clean_state. rewrite (run_plain w ents 0 Hp) by lia. cbn [fold_left]. rewrite app_nil_r. apply step_space_empty. exact Hc.
Qed.

(* tokens, each followed by its own blank character *)
Definition spaced := (token * char)%type.
Definition render_spaced (tc : spaced) : str := render (fst tc) ++ [snd tc].
Definition spaced_ok (tc : spaced) : bool := token_ok (fst tc) && is_space (snd tc).

Lemma run_tokens : forall (ts : list spaced) ents, forallb spaced_ok ts = true ->
  fold_left estep (concat (map render_spaced ts)) (clean_state ents) = clean_state (ents ++ entities_of (map fst ts)).
Proof.
  induction ts as [|[t c] r IH]; intros ents H; cbn [map concat]; [unfold entities_of; cbn; rewrite app_nil_r; reflexivity|].
  cbn [forallb] in H. apply andb_prop in H. destruct H as [Ht Hr]. unfold spaced_ok in Ht. cbn [fst snd] in Ht. apply andb_prop in Ht. destruct Ht as [T1 T2].
  unfold render_spaced at 1. cbn [fst snd].
  rewrite fold_left_app, (run_token_sp t c ents T1 T2), (IH _ Hr). rewrite <- app_assoc. f_equal. f_equal.
  unfold entities_of. cbn [map filter fst]. destruct (fst t); reflexivity.
Qed.

(* the text: words separated by blanks of any kind (a trailing blank or not makes no difference) *)
Theorem entities_are_the_fenced_words (ts : list spaced) last_ : forallb spaced_ok ts = true -> token_ok last_ = true ->
  extract_entities (concat (map render_spaced ts) ++ render last_) = entities_of (map fst ts ++ [last_]).
Proof.
  intros H Hl. unfold extract_entities. rewrite fold_left_app. change einit with (clean_state []). rewrite (run_tokens ts [] H). cbn [app].
  destruct last_ as [[|] w]; unfold token_ok, render in *; cbn [fst snd] in *; apply andb_prop in Hl; destruct Hl as [Hp Hn].
  - cbn [negb orb] in Hn. apply negb_true_iff in Hn. apply Nat.eqb_neq in Hn.
    assert (Hne : w <> []) by (intro K; apply Hn; rewrite K; reflexivity).
    rewrite (run_fenced w _ Hp Hne). unfold add_then_clear. cbn [e_stack e_entities]. destruct w; [contradiction|].
    unfold entities_of. rewrite filter_app, map_app. reflexivity.
  - unfold clean_state. rewrite (run_plain w _ 0 Hp) by lia. unfold add_then_clear. cbn [e_stack e_entities].
    unfold entities_of. rewrite filter_app, map_app. cbn. rewrite app_nil_r. reflexivity.
Qed.

(* the yml block of a generated route: two fenced names; the operation is about the one that is not "ServerError" *)
Example entities_example :
  extract_entities (s2l "responses:" ++ [NL] ++ s2l "  '200':" ++ [NL] ++ s2l "    description: A `Config` object." ++ [NL] ++ s2l "    $ref: ```Config```" ++ [NL]
                    ++ s2l "  '400':" ++ [NL] ++ s2l "    $ref: ```ServerError```")
  = [s2l "Config"; s2l "ServerError"]
  /\ pick_entity [s2l "Config"; s2l "ServerError"] = Some (s2l "Config")
  /\ pick_entity [s2l "ServerError"] = None.
Proof. repeat split; vm_compute; reflexivity. Qed.

(* outside: a character glued to the closing fence becomes an entity of its own *)
Example entities_refuted : extract_entities (s2l "```Config```s") = [s2l "Config"; s2l "s"].
Proof. vm_compute. reflexivity. Qed.
