From Coq Require Import List Bool.
Import ListNotations.
From CDD Require Import Sync.

Section Sync.
  Variable name : Type.
  Variable name_eqb : name -> name -> bool.
  Hypothesis name_eqb_refl : forall n, name_eqb n n = true.
  Variable I : Type.
  Variable I_eqb : I -> I -> bool.
  Hypothesis I_eqb_refl : forall i, I_eqb i i = true.
  Hypothesis I_eqb_eq : forall a b, I_eqb a b = true -> a = b.
  Variable find : name -> list (item name I) -> option I.
  Notation cex := (conform_existing name name_eqb I I_eqb find).
  Notation conform := (conform name name_eqb I I_eqb find).
  Notation replace := (replace name name_eqb I).
  Notation lookup := (lookup name name_eqb I).
  Notation other_defs := (other_defs name name_eqb I).

  Lemma other_defs_replace n g l : other_defs n (replace n g l) = other_defs n l.
  Proof.
    induction l as [|[m i|k] r IH]; cbn; [reflexivity| |].
    - destruct (name_eqb m n) eqn:E; cbn; rewrite E; cbn; [reflexivity | f_equal; exact IH].
    - f_equal. exact IH.
  Qed.
  Lemma other_defs_app n a b : other_defs n (a ++ b) = other_defs n a ++ other_defs n b.
  Proof. unfold Sync.other_defs. apply filter_app. Qed.

  (* code outside the named target is unchanged: every other item, in order, for every kind and every existing file *)
  Theorem outside_unchanged k n gold items items' :
    cex k n gold items = Some items' -> other_defs n items' = other_defs n items.
  Proof.
    unfold Sync.conform_existing. destruct (find n items) as [old|].
    - destruct (I_eqb old gold); [intro H; injection H as <-; reflexivity|].
      destruct k; intro H; injection H as <-; [apply other_defs_replace | reflexivity | reflexivity].
    - intro H. injection H as <-. rewrite other_defs_app. cbn. rewrite name_eqb_refl. cbn. apply app_nil_r.
  Qed.

  (* a missing class / argparse file is created with exactly the truth's interface -- under the name [gname] *)
  Theorem created_equiv k n gname gold : k <> KFunction ->
    conform k n gname gold None = Some (Some [Def name I gname gold]) /\ lookup gname [Def name I gname gold] = Some gold.
  Proof. intro Hk. split; [destruct k; [reflexivity | contradiction | reflexivity]|]. cbn. rewrite name_eqb_refl. reflexivity. Qed.
  (* ... so the named target exists afterwards only if that name is the target's name *)
  Theorem created_wrong_name k n gname gold : k <> KFunction -> name_eqb gname n = false ->
    exists items, conform k n gname gold None = Some (Some items) /\ lookup n items = None.
  Proof.
    intros Hk Hn. exists [Def name I gname gold]. split; [destruct k; [reflexivity | contradiction | reflexivity]|].
    cbn. rewrite Hn. reflexivity.
  Qed.
  (* a missing function file makes the command fail *)
  Theorem missing_function_crashes n gname gold : conform KFunction n gname gold None = None.
  Proof. reflexivity. Qed.

  Lemma lookup_replace n g l i : lookup n l = Some i -> lookup n (replace n g l) = Some g.
  Proof.
    induction l as [|[m j|k] r IH]; cbn; [discriminate| |exact IH].
    destruct (name_eqb m n) eqn:E; cbn; rewrite E; [reflexivity | exact IH].
  Qed.

  (* a class target that is located ends up with the truth's interface *)
  Theorem class_target_equiv n gold items old items' :
    find n items = Some old -> lookup n items = Some old ->
    cex KClass n gold items = Some items' -> lookup n items' = Some gold.
  Proof.
    intros Hf Hl. unfold Sync.conform_existing. rewrite Hf. destruct (I_eqb old gold) eqn:E.
    - intro H. injection H as <-. rewrite Hl. f_equal. apply I_eqb_eq. exact E.
    - intro H. injection H as <-. eapply lookup_replace; eauto.
  Qed.

  Lemma cex_class n gold items :
    (forall l, find n l = lookup n l) ->
    cex KClass n gold items =
      match lookup n items with
      | None => Some (items ++ [Def name I n gold])
      | Some old => if I_eqb old gold then Some items else Some (replace n gold items)
      end.
  Proof. intro Hfind. unfold Sync.conform_existing. rewrite Hfind. reflexivity. Qed.

  Lemma lookup_app_new n gold items : lookup n items = None -> lookup n (items ++ [Def name I n gold]) = Some gold.
  Proof.
    induction items as [|[m i|k] r IH]; cbn; intro El.
    - rewrite name_eqb_refl. reflexivity.
    - destruct (name_eqb m n); [discriminate | apply IH; exact El].
    - apply IH. exact El.
  Qed.

  (* when the lookup really finds what is there, a second sync of an existing class file is the identity *)
  Theorem class_idempotent n gold items items' :
    (forall l, find n l = lookup n l) ->
    cex KClass n gold items = Some items' -> cex KClass n gold items' = Some items'.
  Proof.
    intros Hfind. rewrite (cex_class n gold items Hfind).
    destruct (lookup n items) as [old|] eqn:El.
    - destruct (I_eqb old gold) eqn:E; intro H; injection H as <-.
      + rewrite (cex_class n gold items Hfind), El, E. reflexivity.
      + rewrite (cex_class n gold _ Hfind), (lookup_replace n gold items old El), I_eqb_refl. reflexivity.
    - intro H. injection H as <-. rewrite (cex_class n gold _ Hfind), (lookup_app_new n gold items El), I_eqb_refl. reflexivity.
  Qed.

  (* a function / argparse target that exists and differs is left exactly as it was (the property FAILS there) *)
  Theorem function_target_untouched k n gold items old :
    k <> KClass -> find n items = Some old -> I_eqb old gold = false -> cex k n gold items = Some items.
  Proof. intros Hk Hf He. unfold Sync.conform_existing. rewrite Hf, He. destruct k; [contradiction | reflexivity | reflexivity]. Qed.

  (* when the lookup MISSES an existing definition the target is appended again on every run: never a no-op *)
  Theorem append_grows k n gold items :
    find n items = None -> find n (items ++ [Def name I n gold]) = None ->
    cex k n gold (items ++ [Def name I n gold]) = Some ((items ++ [Def name I n gold]) ++ [Def name I n gold]).
  Proof. intros H1 H2. unfold Sync.conform_existing. rewrite H2. reflexivity. Qed.
End Sync.
