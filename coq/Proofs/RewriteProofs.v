From Coq Require Import Lia.
From CDD Require Import PyStr Rewrite.
Open Scope N_scope.

Lemma list_set_length {A} (l : list A) i v : length (list_set l i v) = length l.
Proof.
  unfold list_set. set (n := Z.of_nat (length l)). set (j := if (i <? 0)%Z then (n + i)%Z else i).
  destruct ((j <? 0)%Z || (n <=? j)%Z) eqn:E; [reflexivity|].
  apply orb_false_iff in E as [E1 E2]. apply Z.ltb_ge in E1. apply Z.leb_gt in E2.
  rewrite app_length. cbn [length]. rewrite firstn_length, skipn_length. unfold n in *. lia.
Qed.

(* exactly one argument is replaced, in place *)
Lemma replace_arg_spec loc search new : forall args args' b,
  replace_arg loc search new args = (args', b) ->
  (b = false /\ args' = args) \/
  (b = true /\ exists pre a post, args = pre ++ a :: post /\ args' = pre ++ new :: post /\
                                   strs_eqb (loc ++ [a_name a]) search = true).
Proof.
  induction args as [|a r IH]; intros args' b H; cbn in H.
  - injection H as <- <-. left. split; reflexivity.
  - destruct (strs_eqb (loc ++ [a_name a]) search) eqn:E.
    + injection H as <- <-. right. split; [reflexivity|]. exists [], a, r. repeat split. exact E.
    + destruct (replace_arg loc search new r) as [r' b'] eqn:Er. injection H as <- <-.
      destruct (IH r' b' eq_refl) as [[-> ->]|[-> [pre [x [post [-> [-> Hx]]]]]]].
      * left. split; reflexivity.
      * right. split; [reflexivity|]. exists (a :: pre), x, post. repeat split. exact Hx.
Qed.

Lemma replace_arg_length loc search new args args' b :
  replace_arg loc search new args = (args', b) -> length args' = length args.
Proof.
  intro H. destruct (replace_arg_spec loc search new args args' b H) as [[_ ->]|[_ [pre [a [post [-> [-> _]]]]]]]; [reflexivity|].
  rewrite !app_length. reflexivity.
Qed.

(* parameter / default alignment: a function keeps its number of positional parameters, keyword-only parameters and defaults *)
Theorem visit_func_alignment search r loc args kwonly defaults a' k' d' b :
  visit_func search r loc args kwonly defaults = (a', k', d', b) ->
  length a' = length args /\ length k' = length kwonly /\ length d' = length defaults.
Proof.
  unfold visit_func. set (dd := match r with RAnn t _ (Some v) => _ | _ => defaults end).
  assert (Hd : length dd = length defaults).
  { unfold dd. destruct r as [x|t an [v|]]; try reflexivity.
    destruct (idx_of t args (start_idx args)); [|reflexivity].
    destruct ((Z.of_nat (length defaults) >? z)%Z); [apply list_set_length | reflexivity]. }
  destruct (replace_arg loc search (repl_as_arg r) args) as [args1 b1] eqn:E1.
  destruct b1.
  - intro H. injection H as <- <- <- <-. repeat split; [eapply replace_arg_length; eauto | exact Hd].
  - destruct (replace_arg loc search (repl_as_arg r) kwonly) as [kw1 b2] eqn:E2.
    intro H. injection H as <- <- <- <-. repeat split; [eapply replace_arg_length; eauto | exact Hd].
Qed.

(* defaults are untouched unless the replacement is a class attribute WITH a value whose name is also a parameter name *)
Theorem visit_func_defaults_unchanged search r loc args kwonly defaults a' k' d' b :
  visit_func search r loc args kwonly defaults = (a', k', d', b) ->
  match r with RAnn t _ (Some _) => idx_of t args (start_idx args) = None | _ => True end ->
  d' = defaults.
Proof.
  unfold visit_func. intros H Hr.
  assert (Hd : match r with
               | RAnn t _ (Some v) =>
                   match idx_of t args (start_idx args) with
                   | Some idx => if (Z.of_nat (length defaults) >? idx)%Z then list_set defaults idx v else defaults
                   | None => defaults
                   end
               | _ => defaults
               end = defaults).
  { destruct r as [x|t an [v|]]; try reflexivity. rewrite Hr. reflexivity. }
  rewrite Hd in H.
  destruct (replace_arg loc search (repl_as_arg r) args) as [args1 b1]. destruct b1.
  - injection H as _ _ <- _. reflexivity.
  - destruct (replace_arg loc search (repl_as_arg r) kwonly) as [kw1 b2]. injection H as _ _ <- _. reflexivity.
Qed.

Lemma map_const_length {A B} (c : B) (l1 l2 : list A) : length l1 = length l2 -> map (fun _ => c) l1 = map (fun _ => c) l2.
Proof.
  revert l2; induction l1 as [|x l1 IH]; intros [|y l2] H; cbn in *; try discriminate; [reflexivity|].
  f_equal. apply IH. lia.
Qed.

(* the whole module keeps its shape: same definitions and statements in the same order, same arities *)
Lemma visit_shape : forall fuel search r parent replaced nodes nodes' b,
  visit fuel search r parent replaced nodes = Some (nodes', b) -> map shape nodes' = map shape nodes.
Proof.
  induction fuel as [|f IH]; intros search r parent replaced nodes nodes' b H; [discriminate|].
  cbn [visit] in H. destruct nodes as [|n rest]; [injection H as <- _; reflexivity|].
  destruct n as [name body|name args kwonly defaults bid|target ann value|target value|i].
  - destruct (negb replaced && strs_eqb (parent ++ [name]) search); [discriminate|].
    destruct (visit f search r [name] replaced body) as [[body' b1]|] eqn:Eb; [|discriminate].
    destruct (visit f search r parent b1 rest) as [[rest' b2]|] eqn:Er; [|discriminate].
    injection H as <- _. cbn [map shape]. rewrite (IH _ _ _ _ _ _ _ Eb), (IH _ _ _ _ _ _ _ Er). reflexivity.
  - destruct (negb replaced && strs_eqb (parent ++ [name]) (removelast search)).
    + destruct (visit_func search r (parent ++ [name]) args kwonly defaults) as [[[a' k'] d'] b1] eqn:Ev.
      destruct (visit f search r parent (replaced || b1) rest) as [[rest' b2]|] eqn:Er; [|discriminate].
      injection H as <- _. cbn [map shape]. rewrite (IH _ _ _ _ _ _ _ Er).
      destruct (visit_func_alignment _ _ _ _ _ _ _ _ _ _ Ev) as [Ha [Hk Hd]].
      rewrite (map_const_length (mkArg [] None) a' args Ha), (map_const_length (mkArg [] None) k' kwonly Hk),
              (map_const_length [] d' defaults Hd). reflexivity.
    + destruct (visit f search r parent replaced rest) as [[rest' b2]|] eqn:Er; [|discriminate].
      injection H as <- _. cbn [map]. rewrite (IH _ _ _ _ _ _ _ Er). reflexivity.
  - destruct (negb replaced && strs_eqb (parent ++ [target]) search).
    + destruct (repl_as_node r) as [x|] eqn:Ex; [|discriminate].
      destruct (visit f search r parent true rest) as [[rest' b2]|] eqn:Er; [|discriminate].
      injection H as <- _. cbn [map]. rewrite (IH _ _ _ _ _ _ _ Er).
      destruct r as [a|t an v]; [discriminate|]. injection Ex as <-. reflexivity.
    + destruct (visit f search r parent replaced rest) as [[rest' b2]|] eqn:Er; [|discriminate].
      injection H as <- _. cbn [map]. rewrite (IH _ _ _ _ _ _ _ Er). reflexivity.
  - destruct (negb replaced && strs_eqb (parent ++ [target]) search).
    + destruct (repl_as_node r) as [x|] eqn:Ex; [|discriminate].
      destruct (visit f search r parent true rest) as [[rest' b2]|] eqn:Er; [|discriminate].
      injection H as <- _. cbn [map]. rewrite (IH _ _ _ _ _ _ _ Er).
      destruct r as [a|t an v]; [discriminate|]. injection Ex as <-. reflexivity.
    + destruct (visit f search r parent replaced rest) as [[rest' b2]|] eqn:Er; [|discriminate].
      injection H as <- _. cbn [map]. rewrite (IH _ _ _ _ _ _ _ Er). reflexivity.
  - destruct (visit f search r parent replaced rest) as [[rest' b2]|] eqn:Er; [|discriminate].
    injection H as <- _. cbn [map]. rewrite (IH _ _ _ _ _ _ _ Er). reflexivity.
Qed.

Theorem rewrite_shape search r m m' b : rewrite search r m = Some (m', b) -> map shape m' = map shape m.
Proof. unfold rewrite. apply visit_shape. Qed.
