(* The phase-0 filter of parse_adhoc_doc_for_typ lets through only word characters, the three
   separators and whitespace -- for every input string. *)
From Coq Require Import Lia.
From CDD Require Import PyStr Adhoc.

Definition okw (w : str) : Prop := forallb allowed w = true.
Definition Inv (s : st) : Prop := Forall okw (closed_rev s) /\ okw (cur_rev s).

Lemma forallb_rev {A} (f : A -> bool) (l : list A) : forallb f (rev l) = forallb f l.
Proof.
  induction l as [|x l IH]; cbn; [reflexivity|].
  rewrite forallb_app, IH. cbn. rewrite andb_true_r. apply andb_comm.
Qed.

Lemma step_inv prev i c next s : Inv s -> Inv (step prev i c next s).
Proof.
  intros [Hc Hcur]. unfold step.
  destruct (is_word_char c || _) eqn:Hw.
  - split; cbn; [exact Hc|].
    unfold okw. cbn. rewrite Hcur, andb_true_r.
    apply orb_true_iff in Hw as [Hw|Hw].
    + unfold allowed. rewrite Hw. reflexivity.
    + apply andb_true_iff in Hw as [Hw _]. apply andb_true_iff in Hw as [Hw _].
      unfold allowed, is_sep_char. unfold DOT in Hw. rewrite Hw. cbn. rewrite orb_true_r. reflexivity.
  - destruct (is_sep_char c || is_space c) eqn:Hs.
    + split; cbn; [|reflexivity].
      constructor.
      * unfold okw. cbn. rewrite andb_true_r. unfold allowed.
        apply orb_true_iff in Hs as [Hs|Hs]; rewrite Hs; rewrite ?orb_true_r; reflexivity.
      * constructor; [|exact Hc]. unfold okw. rewrite forallb_rev. exact Hcur.
    + split; assumption.
Qed.

Lemma loop_inv rest : forall prev i s, Inv s -> Inv (loop prev i rest s).
Proof.
  induction rest as [|c r IH]; intros prev i s H; cbn; [exact H|].
  apply IH. apply step_inv. exact H.
Qed.

Lemma words_ok doc : Forall okw (fst (fst (words_of_doc doc))).
Proof.
  unfold words_of_doc. cbn [fst].
  destruct (loop_inv doc (last_opt doc) 0%nat (mkSt [] [] (-1)%Z false)) as [Hc Hcur].
  { split; [constructor|reflexivity]. }
  apply Forall_rev. constructor; [|exact Hc].
  unfold okw. rewrite forallb_rev. exact Hcur.
Qed.

Lemma Forall_firstn {A} (P : A -> Prop) n (l : list A) : Forall P l -> Forall P (firstn n l).
Proof. revert n; induction l as [|x l IH]; intros [|n] H; cbn; try constructor; inversion H; subst; auto. Qed.
Lemma Forall_skipn {A} (P : A -> Prop) n (l : list A) : Forall P l -> Forall P (skipn n l).
Proof. revert n; induction l as [|x l IH]; intros [|n] H; cbn; auto. inversion H; subst; auto. Qed.

Lemma lslice_ok ws a b : Forall okw ws -> Forall okw (lslice ws a b).
Proof. intro H. unfold lslice. apply Forall_firstn, Forall_skipn, H. Qed.

Lemma concat_ok ws : Forall okw ws -> okw (concat ws).
Proof.
  induction 1 as [|w ws Hw _ IH]; [reflexivity|].
  unfold okw in *. cbn. rewrite forallb_app, Hw, IH. reflexivity.
Qed.

Lemma assoc_in k t v : assoc k t = Some v -> In v (map snd t).
Proof.
  induction t as [|[a b] t IH]; cbn; [discriminate|].
  destruct (str_eqb k a); [intro H; injection H as <-; left; reflexivity | intro H; right; auto].
Qed.
Lemma first_some_assoc ws t v : first_some (fun w => assoc w t) ws = Some v -> In v (map snd t).
Proof.
  induction ws as [|w ws IH]; cbn; [discriminate|].
  destruct (assoc w t) eqn:E; [intro H; injection H as <-; eapply assoc_in; eauto | auto].
Qed.

Theorem phase0_alphabet doc :
  okw (p_fst (phase0 doc)) /\
  (forall s, p_sentence (phase0 doc) = Some s -> okw s) /\
  Forall okw (p_words (phase0 doc)) /\
  (forall t, p_candidate (phase0 doc) = Some t -> In t (map snd adhoc_type_table)).
Proof.
  unfold phase0. pose proof (words_ok doc) as Hw.
  destruct (words_of_doc doc) as [[ws se] b]. cbn in Hw. cbn [p_fst p_sentence p_words p_candidate].
  repeat split.
  - apply concat_ok, lslice_ok, Hw.
  - intros s. destruct (has_or_of _).
    + intro H; injection H as <-. apply concat_ok, lslice_ok, Hw.
    + destruct (has_or_of _); [|discriminate].
      intro H; injection H as <-. apply concat_ok, lslice_ok, Hw.
  - exact Hw.
  - intros t. apply first_some_assoc.
Qed.

(* what the whitelist excludes: no call, subscript-free attribute chain with underscores, lambda,
   assignment expression, f-string field, decorator, line continuation can be spelled *)
Lemma allowed_excludes :
  forallb (fun c => negb (allowed c)) (s2l "()[]{}_:=@\!$%&*+-<>?^~#") = true.
Proof. vm_compute. reflexivity. Qed.
