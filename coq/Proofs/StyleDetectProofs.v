(* The canonical ReST text of an interface with at least one parameter or a return entry is detected as ReST. *)
From CDD Require Import PyStr DocSplit RestDoc StyleDetect MergeProofs DefaultDocProofs RestDocProofs.

Lemma contains_mid p a b : contains p (a ++ p ++ b) = true.
Proof. apply contains_app_r, contains_prefix. Qed.

Lemma token_detected t X : In t all_tokens -> contains t X = true -> derive_format X = Rest.
Proof.
  intros Hin Hc. unfold derive_format.
  assert (E : existsb (fun t0 => contains t0 X) all_tokens = true) by (apply existsb_exists; exists t; split; assumption).
  rewrite E. reflexivity.
Qed.

Theorem render_is_rest doc ps ret :
  forallb param_ok ps = true -> ret_ok ret = true -> (ps <> [] \/ ret <> None) ->
  derive_format (render doc ps ret) = Rest.
Proof.
  intros Hp Hr Hne. pose proof (all_lines_ok ps ret Hp Hr) as HL. pose proof (all_lines_nonempty ps ret Hp Hr Hne) as HN.
  unfold render. destruct (all_lines ps ret) as [|[t b] L] eqn:E; [contradiction|].
  inversion HL as [|? ? [Ht _] _]; subst. cbn [fst] in Ht.
  apply (token_detected t); [exact Ht|]. cbn [map concat]. unfold cat at 1. cbn [fst snd].
  rewrite <- !app_assoc. apply contains_app_r. cbn [app]. do 2 (apply (contains_app_r t [_])). apply contains_prefix.
Qed.

Theorem emitted_rest_is_rest doc ps ret :
  clean doc = true -> forallb param_ok ps = true -> ps <> [] -> ret_ok ret = true ->
  derive_format (emit_rest true doc ps ret) = Rest.
Proof.
  intros Hd Hp Hne Hr. rewrite (emit_is_render doc ps ret Hd Hp Hne Hr). apply render_is_rest; [assumption | assumption | left; exact Hne].
Qed.

(* prose alone decides too: a Google token in a description without ReST token makes it Google *)
Example style_examples :
  derive_format (s2l "Just prose.") = Numpydoc /\ derive_format (s2l "Args: are described below") = Google
  /\ derive_format (s2l "See :param x: above. Args: too") = Rest.
Proof. repeat split; vm_compute; reflexivity. Qed.
