From Coq Require Import Lia.
From CDD Require Import PyStr DefaultDoc.
Open Scope N_scope.

Lemma last_opt_app_single {A} (l : list A) x : last_opt (l ++ [x]) = Some x.
Proof. induction l as [|a l IH]; [reflexivity|]. cbn. destruct (l ++ [x]) eqn:E; [destruct l; discriminate|]. exact IH. Qed.

(* quoting twice is quoting once *)
Definition already_quoted (s : str) : bool :=
  match s with
  | [] => true
  | c :: _ => Nat.ltb 1 (length s) && (match last_opt s with Some l => c =? l | None => false end) && ((c =? SQ) || (c =? DQ))
  end.
Lemma quote_spec s : quote s = if already_quoted s then s else [DQ] ++ s ++ [DQ].
Proof. destruct s; reflexivity. Qed.
Lemma wrapped_is_quoted s : already_quoted ([DQ] ++ s ++ [DQ]) = true.
Proof.
  change ([DQ] ++ s ++ [DQ]) with (DQ :: (s ++ [DQ])). unfold already_quoted.
  assert (Hl : last_opt (DQ :: s ++ [DQ]) = Some DQ).
  { change (DQ :: s ++ [DQ]) with ((DQ :: s) ++ [DQ]). apply last_opt_app_single. }
  assert (Hn : Nat.ltb 1 (length (DQ :: s ++ [DQ])) = true).
  { apply Nat.ltb_lt. cbn [length]. rewrite app_length. cbn. lia. }
  rewrite Hl, Hn. reflexivity.
Qed.
Theorem quote_idempotent s : quote (quote s) = quote s.
Proof.
  rewrite (quote_spec s). destruct (already_quoted s) eqn:E.
  - rewrite quote_spec, E. reflexivity.
  - rewrite quote_spec, wrapped_is_quoted. reflexivity.
Qed.

Lemma contains_app_r p a b : contains p b = true -> contains p (a ++ b) = true.
Proof.
  induction a as [|x a IH]; intro H; [exact H|]. cbn [app contains]. rewrite (IH H). apply orb_true_r.
Qed.
Lemma startswith_app p r : startswith p (p ++ r) = true.
Proof. induction p as [|x p IH]; [reflexivity|]. cbn. rewrite N.eqb_refl. exact IH. Qed.
Lemma contains_prefix p r : contains p (p ++ r) = true.
Proof. destruct (p ++ r) eqn:E; cbn [contains]; rewrite <- E, startswith_app; reflexivity. Qed.

(* after the default has been announced once, the description "has defaults": a second application adds nothing *)
Lemma announced_has_defaults doc t :
  has_defaults ((if ends_with_stop doc then doc else doc ++ [46]) ++ s2l " Defaults to " ++ t) = true.
Proof.
  unfold has_defaults. apply orb_true_iff. left. apply contains_app_r.
  change (s2l " Defaults to " ++ t) with ([SP] ++ (s2l "Defaults" ++ (s2l " to " ++ t))).
  apply contains_app_r. apply contains_prefix.
Qed.
Lemma set_default_doc_once strip doc t : has_defaults doc = false ->
  set_default_doc strip doc (Some t) true = (if ends_with_stop doc then doc else doc ++ [46]) ++ s2l " Defaults to " ++ t.
Proof. intro H. unfold set_default_doc. rewrite H. reflexivity. Qed.
Lemma set_default_doc_fixed strip doc t : has_defaults doc = true -> set_default_doc strip doc (Some t) true = doc.
Proof. intro H. unfold set_default_doc. rewrite H. reflexivity. Qed.
Theorem set_default_doc_idempotent strip doc t :
  has_defaults doc = false ->
  set_default_doc strip (set_default_doc strip doc (Some t) true) (Some t) true = set_default_doc strip doc (Some t) true.
Proof.
  intro H. rewrite (set_default_doc_once strip doc t H). apply set_default_doc_fixed. apply announced_has_defaults.
Qed.

(* the description itself is a prefix of the result; a full stop is added only when none (and no comma) ends it *)
Theorem set_default_doc_keeps_description strip doc t :
  has_defaults doc = false ->
  exists rest, set_default_doc strip doc (Some t) true = doc ++ rest /\
               (ends_with_stop doc = true -> rest = s2l " Defaults to " ++ t) /\
               (ends_with_stop doc = false -> rest = [46] ++ s2l " Defaults to " ++ t).
Proof.
  intro H. unfold set_default_doc. rewrite H. cbn [negb andb].
  destruct (ends_with_stop doc); eexists; (split; [|split; intro; try discriminate; reflexivity]).
  - reflexivity.
  - rewrite <- app_assoc. reflexivity.
Qed.

(* with emit_default_doc off, a description that announces nothing is returned unchanged *)
Theorem set_default_doc_off strip doc d : has_defaults doc = false -> set_default_doc strip doc d false = doc.
Proof. intro H. unfold set_default_doc. rewrite H. cbn. destruct d; reflexivity. Qed.
