(* Model/FuncFmt.v: the parser reads the canonical text of a function back as the description it came from. *)
From Coq Require Import Lia.
From CDD Require Import PyStr MergeProofs DocSplit RestDoc RestDocProofs RestDocIndentProofs Merge FuncFmt.

(* ---- merging a signature into documented parameters of the same names, in the same order ---- *)
Notation lookup_ := (lookup str str_eqb cparam).
Notation update_ := (update str str_eqb cparam).
Notation mem_ := (mem str str_eqb cparam).

Definition oth (l : list (str * (cparam * cparam))) : list (str * cparam) := map (fun x => (fst x, fst (snd x))) l.
Definition tgt (l : list (str * (cparam * cparam))) : list (str * cparam) := map (fun x => (fst x, snd (snd x))) l.
Definition mrg (l : list (str * (cparam * cparam))) : list (str * cparam) := map (fun x => (fst x, merge_present (fst (snd x)) (snd (snd x)))) l.

Lemma filter_all {A} (f : A -> bool) : forall l, (forall x, In x l -> f x = true) -> filter f l = l.
Proof. induction l as [|x l IH]; intro H; [reflexivity|]. cbn [filter]. rewrite (H x (or_introl eq_refl)), IH; [reflexivity|]. intros y Hy. apply H. right. exact Hy. Qed.

Lemma lookup_here n v pre post : ~ In n (map fst pre) -> lookup_ n (pre ++ (n, v) :: post) = Some v.
Proof.
  induction pre as [|[k w] pre IH]; intro H; cbn [app lookup].
  - rewrite str_eqb_refl. reflexivity.
  - rewrite str_eqb_neq by (intro E; apply H; left; symmetry; exact E). apply IH. intro K. apply H. right. exact K.
Qed.

Lemma update_here n f v pre post : ~ In n (map fst pre) -> update_ n f (pre ++ (n, v) :: post) = pre ++ (n, f v) :: post.
Proof.
  induction pre as [|[k w] pre IH]; intro H; cbn [app update].
  - rewrite str_eqb_refl. reflexivity.
  - rewrite str_eqb_neq by (intro E; apply H; left; symmetry; exact E). rewrite IH; [reflexivity|]. intro K. apply H. right. exact K.
Qed.

Lemma loop1_aligned all_other : forall todo done,
  NoDup (map fst (done ++ todo)) -> (forall x, In x todo -> lookup_ (fst x) all_other = Some (fst (snd x))) ->
  loop1 str str_eqb cparam merge_present (map fst todo) all_other (mrg done ++ tgt todo) = mrg (done ++ todo).
Proof.
  induction todo as [|[n [o t]] todo IH]; intros done Hnd Hl.
  - cbn. rewrite !app_nil_r. reflexivity.
  - cbn [map fst loop1 fold_left]. unfold loop1 in IH.
    pose proof (Hl (n, (o, t)) (or_introl eq_refl)) as Hn. cbn [fst snd] in Hn.
    assert (S1 : step1 str str_eqb cparam merge_present all_other (mrg done ++ tgt ((n, (o, t)) :: todo)) n
                 = mrg done ++ (n, merge_present o t) :: tgt todo).
    { unfold step1. rewrite Hn. cbn [tgt map fst snd]. apply update_here.
      unfold mrg. rewrite map_map. cbn [fst]. rewrite map_app in Hnd. cbn [map fst] in Hnd. apply NoDup_remove_2 in Hnd.
      intro K. apply Hnd. apply in_or_app. left. exact K. }
    rewrite S1.
    change (mrg done ++ (n, merge_present o t) :: tgt todo) with (mrg done ++ mrg [(n, (o, t))] ++ tgt todo).
    rewrite app_assoc. unfold mrg at 1 2. rewrite <- map_app. fold (mrg (done ++ [(n, (o, t))])).
    rewrite IH; [rewrite <- app_assoc; reflexivity | rewrite <- app_assoc; exact Hnd | intros x Hx; apply Hl; right; exact Hx].
Qed.

Lemma loop2_present other : forall t, (forall kv, In kv other -> mem_ (fst kv) t = true) -> loop2 str str_eqb cparam other t = t.
Proof.
  unfold loop2. induction other as [|kv r IH]; intros t H; [reflexivity|]. cbn [fold_left]. rewrite (H kv (or_introl eq_refl)).
  apply IH. intros x Hx. apply H. right. exact Hx.
Qed.

Lemma mem_in n l : In n (map fst l) -> mem_ n l = true.
Proof.
  unfold mem, names. intro H. apply existsb_exists. exists n. split; [exact H | apply str_eqb_refl].
Qed.

Theorem merge_aligned l : NoDup (map fst l) ->
  cmerge (inter_in_order str str_eqb cparam (oth l) (tgt l)) (oth l) (tgt l) = mrg l.
Proof.
  intro Hnd. unfold cmerge, merge_params.
  assert (E : inter_in_order str str_eqb cparam (oth l) (tgt l) = map fst l).
  { unfold inter_in_order, names, oth. rewrite map_map. cbn [fst]. apply filter_all. intros n Hn. apply mem_in. unfold tgt. rewrite map_map. exact Hn. }
  rewrite E.
  pose proof (loop1_aligned (oth l) l [] Hnd) as L1. cbn [app mrg map] in L1. rewrite L1.
  - apply loop2_present. intros kv Hkv. apply mem_in. unfold oth in Hkv. apply in_map_iff in Hkv as [x [<- Hx]]. cbn [fst].
    unfold mrg. rewrite map_map. cbn [fst]. apply in_map. exact Hx.
  - intros x Hx. apply in_split in Hx as [pre [post ->]]. unfold oth. rewrite map_app. cbn [map]. destruct x as [n [o t]]. cbn [fst snd].
    apply lookup_here. rewrite map_map. cbn [fst]. rewrite map_app in Hnd. cbn [map fst] in Hnd. apply NoDup_remove_2 in Hnd.
    intro K. apply Hnd. apply in_or_app. left. exact K.
Qed.

(* ---- the canonical text of a function docstring (emit_separating_tab off): blank lines carry no tab ---- *)
Definition S2nt (k : nat) : str := NL :: NL :: tabs_of k.
Definition ftext (k : nat) (doc : str) (es : list (str * pentry)) : str :=
  grender (S1_of k) (S2nt k) (S1_of k) (S1_of k) (S2nt k) doc es None.

Lemma blank_S2nt k : blank (S2nt k) = true.
Proof. unfold S2nt. change (NL :: NL :: tabs_of k) with ([NL; NL] ++ tabs_of k). unfold blank. rewrite forallb_app. fold (blank (tabs_of k)). rewrite blank_tabs. reflexivity. Qed.
Lemma no_colon_tabs k : no_colon (tabs_of k) = true.
Proof. unfold tabs_of. induction k as [|k IH]; [reflexivity|]. cbn [repeat concat]. rewrite no_colon_app, IH. reflexivity. Qed.
Lemma no_colon_S1 k : no_colon (S1_of k) = true. Proof. unfold S1_of. cbn [no_colon forallb]. fold (no_colon (tabs_of k)). rewrite no_colon_tabs. reflexivity. Qed.
Lemma no_colon_S2nt k : no_colon (S2nt k) = true. Proof. unfold S2nt. cbn [no_colon forallb]. fold (no_colon (tabs_of k)). rewrite no_colon_tabs. reflexivity. Qed.

Definition fparam_ok (p : str * fparam) : bool :=
  name_ok (fst p) && (match fp_doc (snd p) with Some d => clean d | None => false end) && (match fp_typ (snd p) with Some t => typ_ok t | None => false end).
Definition sig_of (ta : bool) (ps : list (str * fparam)) : list fsig_arg :=
  map (fun p => {| fa_name := fst p; fa_ann := if ta then fp_typ (snd p) else None;
                   fa_default := match fp_default (snd p) with Some d => d | None => NONE end |}) ps.
Definition read_default (p : fparam) : str := match fp_default p with Some d => if str_eqb d NONE then NoneStr else d | None => NoneStr end.
Definition expected (ps : list (str * fparam)) : list (str * cparam) :=
  map (fun p => (fst p, mkCP (fp_typ (snd p)) (fp_doc (snd p)) (Some (read_default (snd p))))) ps.

Theorem function_parse_canonical ta k doc ps :
  clean doc = true -> forallb fparam_ok ps = true -> NoDup (map fst ps) -> ps <> [] ->
  parse_function {| f_doc := ftext k doc (map (fun p => (fst p, entry_of (negb ta) (snd p))) ps); f_args := sig_of ta ps |} = (doc, expected ps).
Proof.
  intros Hd Hp Hnd Hne. unfold parse_function. cbn [f_doc f_args]. unfold ftext.
  set (es := map (fun p => (fst p, entry_of (negb ta) (snd p))) ps).
  assert (Hes : forallb param_ok es = true).
  { apply forallb_forall. intros e He. apply in_map_iff in He as [p [<- Hin]]. rewrite forallb_forall in Hp. specialize (Hp p Hin).
    unfold fparam_ok in Hp. apply andb_true_iff in Hp as [Hp Ht]. apply andb_true_iff in Hp as [Hn Hdoc].
    unfold param_ok, entry_ok, entry_of. cbn [fst snd pe_doc pe_typ]. rewrite Hn.
    destruct (fp_doc (snd p)) as [d|]; [|discriminate]. destruct (fp_typ (snd p)) as [t|]; [|discriminate]. rewrite Hdoc. destruct ta; cbn [negb]; [reflexivity | rewrite Ht; reflexivity]. }
  assert (Hn' : NoDup (map fst es)) by (unfold es; rewrite map_map; exact Hnd).
  assert (Hne' : es <> [] \/ (None : option pentry) <> None) by (left; unfold es; destruct ps; [contradiction | discriminate]).
  rewrite (parse_grender (S1_of k) (S2nt k) (S1_of k) (S1_of k) (S2nt k) (blank_S1 k) (blank_S2nt k) (blank_S1 k) (blank_S1 k) (blank_S2nt k)
             (no_colon_S1 k) (no_colon_S2nt k) (no_colon_S1 k) (no_colon_S1 k) (no_colon_S2nt k) doc es None Hd Hes Hn' eq_refl Hne').
  cbn [p_doc p_params]. f_equal.
  (* both lists are projections of one list of (name, (signature entry, documented entry)) *)
  set (l := map (fun p => (fst p, (snd (sig_param {| fa_name := fst p; fa_ann := if ta then fp_typ (snd p) else None;
                                                     fa_default := match fp_default (snd p) with Some d => d | None => NONE end |}),
                                   mkCP (pe_typ (entry_of (negb ta) (snd p))) (pe_doc (entry_of (negb ta) (snd p))) None))) ps).
  assert (ET : map (fun ne : str * pentry => (fst ne, mkCP (pe_typ (snd ne)) (pe_doc (snd ne)) None)) es = tgt l)
    by (unfold es, tgt, l; rewrite !map_map; reflexivity).
  assert (EO : map sig_param (sig_of ta ps) = oth l) by (unfold sig_of, oth, l; rewrite !map_map; reflexivity).
  rewrite ET, EO.
  assert (Hl : NoDup (map fst l)) by (unfold l; rewrite map_map; exact Hnd).
  destruct (tgt l) as [|t0 tr] eqn:TL; [unfold tgt, l in TL; destruct ps; [contradiction | discriminate]|].
  destruct (oth l) as [|o0 or_] eqn:OL; [unfold oth, l in OL; destruct ps; [contradiction | discriminate]|].
  rewrite <- TL, <- OL, (merge_aligned l Hl).
  unfold mrg, l, expected. rewrite map_map. apply map_ext_in. intros p Hin. cbn [fst snd].
  rewrite forallb_forall in Hp. specialize (Hp p Hin). unfold fparam_ok in Hp. apply andb_true_iff in Hp as [Hp Ht]. apply andb_true_iff in Hp as [_ Hdoc].
  destruct (fp_doc (snd p)) as [d|] eqn:ED; [|discriminate]. destruct (fp_typ (snd p)) as [t|] eqn:ETy; [|discriminate].
  assert (Dne : nonempty (Some d) = true) by (destruct d; [discriminate Hdoc | reflexivity]).
  unfold sig_param, merge_present, entry_of, read_default. cbn [fst snd fa_name fa_ann fa_default c_typ c_doc c_default pe_doc pe_typ]. rewrite ED, ETy.
  destruct ta; cbn [negb c_typ c_doc c_default]; rewrite Dne; cbn [negb andb in_none_types]; destruct (fp_default (snd p)) as [dv|]; reflexivity.
Qed.
