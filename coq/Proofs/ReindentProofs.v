(* Model/Reindent.v: a one-line header without a run of four blanks comes out as it is, minus its indentation, plus " pass"; a header
   WITH such a run (inside a string default, say) is altered -- which is how doctrans comes to re-print it. *)
From Coq Require Import Lia.
From CDD Require Import PyStr RestDocProofs RestDocIndentProofs FuncEmitProofs Reindent.
Open Scope N_scope.

Lemma find_from_absent p : forall s i, contains p s = false -> find_from p s i = (-1)%Z.
Proof.
  induction s as [|c r IH]; intros i H; cbn [contains find_from] in *.
  - apply orb_false_iff in H. destruct H as [H1 _]. rewrite H1. reflexivity.
  - apply orb_false_iff in H. destruct H as [H1 H2]. rewrite H1. apply IH. exact H2.
Qed.

Lemma replace1_absent p b s : contains p s = false -> replace1 p b s = s.
Proof. intro H. unfold replace1, find. rewrite (find_from_absent p s 0 H). reflexivity. Qed.

Theorem header_untouched (ind h : str) :
  blank ind = true -> one_line ind = true -> one_line h = true -> head_ok h = true -> contains TAB4 h = false ->
  reindent_block_with_pass_body (ind ++ h) = h ++ PASS.
Proof.
  intros B O1 O2 Hh C. unfold reindent_block_with_pass_body.
  assert (OL : one_line (ind ++ h) = true).
  { unfold one_line in *. rewrite forallb_app. apply andb_true_intro. split; assumption. }
  unfold split_char. rewrite (split_char_aux_line (ind ++ h) [] OL). cbn [rev app map join].
  rewrite (lstrip_blank_app ind h B), (lstrip_head_ok h Hh), (replace1_absent TAB4 [] h C). reflexivity.
Qed.

(* a header with a four-blank string default is changed (two of the blanks of the default are not even inside quotes any more) *)
Example header_with_four_blanks_refuted :
  reindent_block_with_pass_body (s2l "    def f(a, indent='    '):") = s2l "def f(a, indent=''): pass".
Proof. vm_compute. reflexivity. Qed.

Example header_example :
  reindent_block_with_pass_body (s2l "    def f(a: int = 5, *rest, sep=',  '):") = s2l "def f(a: int = 5, *rest, sep=',  '): pass".
Proof. vm_compute. reflexivity. Qed.
