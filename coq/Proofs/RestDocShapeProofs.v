(* Shape of what the ReST parser model returns, for EVERY input text (no domain restriction): parameter names are pairwise
   distinct and carry no leading asterisk. *)
From Coq Require Import Lia.
From CDD Require Import PyStr MergeProofs DocSplit RestDoc.

Definition nostar (n : str) : Prop := startswith [STAR] n = false.

Lemma lstrip_star_nostar n : nostar (lstrip_chars [STAR] n).
Proof.
  unfold nostar. induction n as [|c r IH]; [reflexivity|]. cbn [lstrip_chars existsb]. unfold ceq. rewrite orb_false_r.
  destruct (c =? STAR) eqn:E; [exact IH|]. cbn [startswith]. rewrite N.eqb_sym, E. reflexivity.
Qed.

Lemma norm_name_nostar n : nostar (norm_name n).
Proof.
  unfold norm_name. destruct (endswith (s2l "kwargs") n || startswith [STAR; STAR] n) eqn:A; [apply lstrip_star_nostar|].
  apply orb_false_iff in A as [_ A]. destruct (startswith [STAR] n) eqn:B; [|exact B].
  destruct n as [|c r]; [discriminate|]. cbn [startswith] in A, B. rewrite andb_true_r in B. rewrite B in A. cbn [andb tl] in *.
  unfold nostar. destruct r as [|d r']; [reflexivity|]. cbn [startswith] in *. rewrite andb_true_r in *. exact A.
Qed.

(* keys of an ordered-dict update *)
Lemma set_assoc_keys k v : forall l, map fst (set_assoc k v l) = if existsb (str_eqb k) (map fst l) then map fst l else map fst l ++ [k].
Proof.
  induction l as [|[k' v'] l IH]; cbn [set_assoc map existsb fst]; [reflexivity|].
  destruct (str_eqb k k') eqn:E; cbn [map fst orb].
  - apply str_eqb_eq in E. subst k'. reflexivity.
  - rewrite IH. destruct (existsb (str_eqb k) (map fst l)); reflexivity.
Qed.

Lemma existsb_str_false k l : existsb (str_eqb k) l = false -> ~ In k l.
Proof.
  intros H K. induction l as [|x l IH]; [exact K|]. cbn [existsb] in H. apply orb_false_iff in H as [H1 H2].
  destruct K as [->|K]; [rewrite str_eqb_refl in H1; discriminate | exact (IH H2 K)].
Qed.

Lemma NoDup_snoc {A} (l : list A) x : NoDup l -> ~ In x l -> NoDup (l ++ [x]).
Proof.
  induction l as [|y l IH]; intros N H; cbn [app]; [constructor; [intros []|constructor]|].
  inversion N as [|? ? Hy Nl]; subst. constructor.
  - intro K. apply in_app_or in K as [K|[K|[]]]; [exact (Hy K) | subst; apply H; left; reflexivity].
  - apply IH; [exact Nl | intro K; apply H; right; exact K].
Qed.

Definition keys_ok (l : list (str * pentry)) : Prop := NoDup (map fst l) /\ Forall nostar (map fst l).

Lemma set_assoc_ok k v l : nostar k -> keys_ok l -> keys_ok (set_assoc k v l).
Proof.
  intros Hk [N F]. unfold keys_ok. rewrite set_assoc_keys. destruct (existsb (str_eqb k) (map fst l)) eqn:E; [split; assumption|].
  split.
  - apply NoDup_snoc; [exact N | apply existsb_str_false, E].
  - apply Forall_app. split; [exact F | constructor; [exact Hk | constructor]].
Qed.

Definition inv (s : pstate) : Prop := keys_ok (st_params s) /\ match st_cur s with Some (n, _) => nostar n | None => True end.

Lemma flush_ok s : inv s -> keys_ok (flush s).
Proof.
  intros [K C]. unfold flush. destruct (st_cur s) as [[n e]|]; [|exact K].
  destruct (startswith [STAR] n); [exact K | apply set_assoc_ok; assumption].
Qed.

Lemma parse_token_line_inv s line : inv s -> inv (parse_token_line s line).
Proof.
  intros I. pose proof I as [K C]. unfold parse_token_line.
  destruct (existsb (fun t => startswith t line) return_tokens); [split; [exact K | exact C]|].
  destruct (st_cur s) as [[n e]|] eqn:EC.
  - destruct (str_eqb n _); cbn [st_params st_cur]; (split; [|apply norm_name_nostar]); [exact K|].
    pose proof (flush_ok s I) as F. exact F.
  - cbn [st_params st_cur]. split; [exact K | apply norm_name_nostar].
Qed.

Lemma parse_seg_inv s sg : inv s -> inv (parse_seg s sg).
Proof.
  intros I. destruct sg as [[|] line]; cbn [parse_seg]; [apply parse_token_line_inv, I|].
  destruct (st_doc s); [|exact I]. exact I.
Qed.

Lemma fold_inv : forall segs s, inv s -> inv (fold_left parse_seg segs s).
Proof. induction segs as [|sg r IH]; intros s I; [exact I|]. cbn [fold_left]. apply IH, parse_seg_inv, I. Qed.

Theorem parse_rest_names_ok doc : NoDup (map fst (p_params (parse_rest doc))) /\ Forall nostar (map fst (p_params (parse_rest doc))).
Proof.
  unfold parse_rest. cbn [p_params]. apply flush_ok, fold_inv. split; [split; constructor | exact I].
Qed.
