From Coq Require Import Lia.
From CDD Require Import PyStr SqlPk MergeProofs.
Open Scope N_scope.

Lemma is_pk_mark_doc d : is_pk (mark_doc d) = true.
Proof. destruct d; reflexivity. Qed.

Lemma count_pk_app a b : count_pk (a ++ b) = (count_pk a + count_pk b)%nat.
Proof. unfold count_pk. rewrite map_app, filter_app, app_length. reflexivity. Qed.

Lemma count_zero ps : existsb is_pk (map snd ps) = false -> count_pk ps = O.
Proof.
  unfold count_pk. induction ps as [|[k d] r IH]; cbn; [reflexivity|].
  intro H. apply orb_false_iff in H as [H1 H2]. rewrite H1. apply IH. exact H2.
Qed.

Lemma mark_not_in n ps : ~ In n (map fst ps) -> mark n ps = ps.
Proof.
  induction ps as [|[k d] r IH]; cbn; [reflexivity|]. intro H.
  destruct (str_eqb k n) eqn:E; [apply str_eqb_eq in E; subst; exfalso; apply H; left; reflexivity|].
  f_equal. apply IH. intro Hin. apply H. right. exact Hin.
Qed.

(* marking a name that occurs exactly once in a PK-free list yields exactly one primary key *)
Lemma count_mark n ps : NoDup (map fst ps) -> In n (map fst ps) -> count_pk ps = O -> count_pk (mark n ps) = 1%nat.
Proof.
  induction ps as [|[k d] r IH]; cbn [map fst]; intros Hnd Hin Hc; [contradiction|].
  inversion Hnd as [|? ? Hnotin Hnd']; subst.
  unfold count_pk in Hc. cbn [map snd filter] in Hc.
  destruct (is_pk d) eqn:Ed; [cbn in Hc; discriminate|].
  cbn [mark]. destruct (str_eqb k n) eqn:E.
  - apply str_eqb_eq in E. subst k. rewrite (mark_not_in n r Hnotin).
    unfold count_pk. cbn [map snd filter]. rewrite is_pk_mark_doc. cbn [length]. f_equal. exact Hc.
  - destruct Hin as [Hin|Hin]; [subst; rewrite str_eqb_refl in E; discriminate|].
    unfold count_pk. cbn [map snd filter]. rewrite Ed. apply IH; assumption.
Qed.

Theorem ensure_pk_one force ps :
  NoDup (map fst ps) -> (count_pk ps <= 1)%nat -> count_pk (ensure_pk force ps) = 1%nat.
Proof.
  intros Hnd Hle. unfold ensure_pk.
  destruct (existsb is_pk (map snd ps)) eqn:E.
  - (* already a PK: exactly one by hypothesis *)
    assert (count_pk ps <> O).
    { unfold count_pk. apply existsb_exists in E as [d [Hin Hd]]. intro H0.
      assert (In d (filter is_pk (map snd ps))) by (apply filter_In; split; assumption).
      destruct (filter is_pk (map snd ps)); [contradiction | discriminate]. }
    lia.
  - pose proof (count_zero ps E) as Hz.
    assert (Hid : count_pk (if mem_str ID (map fst ps) then mark ID ps else ps ++ [(ID, PK)]) = 1%nat).
    { destruct (mem_str ID (map fst ps)) eqn:M.
      - apply count_mark; [exact Hnd | | exact Hz]. unfold mem_str in M. apply existsb_exists in M as [x [Hin He]].
        apply str_eqb_eq in He. subst. exact Hin.
      - rewrite count_pk_app, Hz. reflexivity. }
    destruct (filter candidate (map fst ps)) as [|c [|c2 r]] eqn:F; try exact Hid.
    destruct force; cbn [negb]; [exact Hid|].
    apply count_mark; [exact Hnd | | exact Hz].
    assert (In c (filter candidate (map fst ps))) by (rewrite F; left; reflexivity).
    apply filter_In in H as [H _]. exact H.
Qed.
