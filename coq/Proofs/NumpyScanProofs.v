(* Models NumpyScan / GoogleScan / NumpyLine composed: a whole NumPy-style docstring -- header prose, the underlined "Parameters"
   heading, "name : typ" and an indented description per parameter -- is read back as that header and exactly those parameters. *)
From Coq Require Import Lia.
From CDD Require Import PyStr RestDocProofs RestDocIndentProofs FuncEmitProofs GoogleLine GoogleLineProofs GoogleHead GoogleHeadProofs GoogleScan GoogleScanProofs
  NumpyLine NumpyLineProofs NumpyScan.
Open Scope N_scope.

Definition DASH : char := 45.

Ltac peel x Hc c C :=
  destruct x as [|c x];
  [ cbn; repeat rewrite andb_false_r; reflexivity
  | cbn [lacks forallb] in Hc; apply andb_prop in Hc; destruct Hc as [C Hc] ].

(* no occurrence of the heading can start inside a text without "-" that is followed by the heading *)
Lemma no_early_start_numpy : forall x r, x <> [] -> lacks DASH x = true -> startswith NPARAMS (x ++ NPARAMS ++ r) = false.
Proof.
  intros x r Hx Hc. unfold NPARAMS.
  destruct x as [|c1 x]; [contradiction|]. cbn [lacks forallb] in Hc. apply andb_prop in Hc. destruct Hc as [C1 Hc].
  peel x Hc c2 C2. peel x Hc c3 C3. peel x Hc c4 C4. peel x Hc c5 C5. peel x Hc c6 C6. peel x Hc c7 C7. peel x Hc c8 C8. peel x Hc c9 C9.
  peel x Hc c10 C10. peel x Hc c11 C11. peel x Hc c12 C12. peel x Hc c13 C13. peel x Hc c14 C14. peel x Hc c15 C15. peel x Hc c16 C16.
  peel x Hc c17 C17. peel x Hc c18 C18. peel x Hc c19 C19. peel x Hc c20 C20. peel x Hc c21 C21.
  apply negb_true_iff in C21. unfold DASH in C21. cbn [app startswith]. rewrite (N.eqb_sym 45 c21), C21.
  repeat rewrite andb_false_r. reflexivity.
Qed.

Lemma index_of_after_numpy : forall a r, lacks DASH a = true -> index_of NPARAMS (a ++ NPARAMS ++ r) = Some (length a).
Proof.
  induction a as [|c a IH]; intros r H.
  - cbn [app length]. apply index_of_here. unfold NPARAMS. cbn. reflexivity.
  - assert (E : startswith NPARAMS ((c :: a) ++ NPARAMS ++ r) = false) by (apply no_early_start_numpy; [discriminate | exact H]).
    cbn [app] in *. cbn [index_of]. rewrite E. cbn [lacks forallb] in H. apply andb_prop in H. destruct H as [_ H].
    rewrite (IH r H). reflexivity.
Qed.

Lemma blank_lacks_dash s : blank s = true -> lacks DASH s = true.
Proof.
  induction s as [|c s IH]; [reflexivity|]. cbn [blank forallb lacks]. intro H. apply andb_prop in H. destruct H as [H1 H2].
  fold (blank s) in H2. fold (lacks DASH s). rewrite (IH H2), andb_true_r.
  destruct (N.eqb_spec c DASH) as [->|]; [vm_compute in H1; discriminate | reflexivity].
Qed.

Theorem numpy_head_general (pre H sep rest : str) :
  blank pre = true -> head_ok H = true -> head_ok (rev H) = true -> lacks DASH H = true -> blank sep = true ->
  numpy_scan_head (pre ++ H ++ sep ++ NPARAMS ++ rest) = (H, Some (skipn 1 rest)) /\ numpy_ir_doc (pre ++ H ++ sep ++ NPARAMS ++ rest) = H.
Proof.
  intros BP H1 H2 HC B.
  assert (E : numpy_scan_head (pre ++ H ++ sep ++ NPARAMS ++ rest) = (H, Some (skipn 1 rest))).
  { unfold numpy_scan_head.
    replace (pre ++ H ++ sep ++ NPARAMS ++ rest) with ((pre ++ H ++ sep) ++ NPARAMS ++ rest) by (rewrite <- !app_assoc; reflexivity).
    rewrite index_of_after_numpy by (rewrite !lacks_app, HC, (blank_lacks_dash sep B), (blank_lacks_dash pre BP); reflexivity).
    rewrite firstn_app, firstn_all, Nat.sub_diag. cbn [firstn]. rewrite app_nil_r.
    unfold white_spacer.
    assert (NS : isspace (pre ++ H ++ sep) = false).
    { unfold isspace. destruct (pre ++ H ++ sep) eqn:K; [reflexivity|]. rewrite <- K. rewrite !forallb_app.
      destruct H as [|h H']; [discriminate|]. cbn [forallb]. cbn [head_ok] in H1. apply negb_true_iff in H1. rewrite H1.
      rewrite andb_false_r. reflexivity. }
    rewrite NS. rewrite (strip_padded pre H sep BP B H1 H2).
    f_equal. f_equal.
    replace (length (pre ++ H ++ sep) + length NPARAMS + 1)%nat with (length ((pre ++ H ++ sep) ++ NPARAMS) + 1)%nat
      by (rewrite (app_length (pre ++ H ++ sep) NPARAMS); reflexivity).
    rewrite (app_assoc (pre ++ H ++ sep) NPARAMS rest). apply skipn_app_plus. }
  split; [exact E|]. unfold numpy_ir_doc. rewrite E. cbn [fst].
  assert (NS : isspace H = false).
  { destruct H as [|h H']; [discriminate|]. cbn [isspace forallb]. cbn [head_ok] in H1. apply negb_true_iff in H1. rewrite H1. reflexivity. }
  rewrite NS. apply lstrip_head_ok. exact H1.
Qed.

(* ---- lines -> units: an entry's first line starts a unit, its indented description continues it ---- *)
Lemma append_last_snoc acc u l : append_last (acc ++ [u]) l = acc ++ [u ++ [l]].
Proof. unfold append_last. rewrite rev_app_distr. cbn [rev app]. rewrite rev_involutive. reflexivity. Qed.

Definition nentry_ok1 (e : nentry) : bool :=
  let '(n, t, d) := e in
  nentry_ok e && one_line n && one_line t && match d with Some x => one_line x && negb (Nat.eqb (length x) 0) | None => true end.

Lemma indent_first (n t : str) : head_ok n = true -> indent_of (n ++ t) = O.
Proof. destruct n as [|c n']; [discriminate|]. cbn [head_ok app indent_of]. intro H. apply negb_true_iff in H. rewrite H. reflexivity. Qed.

Lemma indent_desc (x : str) : head_ok x = true -> indent_of (TAB4 ++ x) = 4%nat.
Proof. destruct x as [|c x']; [discriminate|]. cbn [head_ok]. intro H. apply negb_true_iff in H. unfold TAB4. cbn [app indent_of]. replace (is_space SP) with true by reflexivity. rewrite H. reflexivity. Qed.

Lemma form_units_entries : forall es acc, forallb nentry_ok1 es = true ->
  form_units 0 (concat (map emit_nentry es)) acc = (acc ++ map emit_nentry es, []).
Proof.
  induction es as [|[[n t] d] es IH]; intros acc H; cbn [map concat]; [cbn [form_units]; rewrite app_nil_r; reflexivity|].
  cbn [forallb] in H. apply andb_prop in H. destruct H as [He Hr]. unfold nentry_ok1 in He.
  apply andb_prop in He. destruct He as [He Hd1]. apply andb_prop in He. destruct He as [He _]. apply andb_prop in He. destruct He as [He _].
  unfold nentry_ok in He. apply andb_prop in He. destruct He as [He Hd]. apply andb_prop in He. destruct He as [He _]. apply andb_prop in He. destruct He as [He _].
  apply andb_prop in He. destruct He as [He _]. apply andb_prop in He. destruct He as [N1 _].
  unfold emit_nentry, emit_numpy_param. cbn [app].
  destruct d as [x|].
  - cbn [app form_units]. rewrite (indent_first n _ N1). cbn [Nat.eqb].
    rewrite (indent_desc x Hd). cbn [Nat.eqb Nat.ltb Nat.leb]. rewrite append_last_snoc. cbn [app].
    rewrite (IH _ Hr). rewrite <- app_assoc. reflexivity.
  - cbn [app form_units]. rewrite (indent_first n _ N1). cbn [Nat.eqb]. rewrite (IH _ Hr). rewrite <- app_assoc. reflexivity.
Qed.

(* ---- text -> lines ---- *)
Lemma nentry_lines_one_line e : nentry_ok1 e = true -> Forall (fun l => one_line l = true) (emit_nentry e).
Proof.
  destruct e as [[n t] d]. unfold nentry_ok1, emit_nentry, emit_numpy_param. intro H.
  apply andb_prop in H. destruct H as [H Hd]. apply andb_prop in H. destruct H as [H Ht]. apply andb_prop in H. destruct H as [_ Hn].
  assert (F : one_line (n ++ [SP; GCOLON; SP] ++ t) = true) by (rewrite !one_line_app, Hn, Ht; reflexivity).
  destruct d as [x|]; cbn [app].
  - apply andb_prop in Hd. destruct Hd as [Hx _]. constructor; [exact F|]. constructor; [|constructor].
    rewrite one_line_app, Hx. reflexivity.
  - constructor; [exact F | constructor].
Qed.

Lemma nentry_last_nonempty e : emit_nentry e <> [] /\ last_opt (emit_nentry e) <> Some [].
Proof.
  destruct e as [[n t] d]. unfold emit_nentry, emit_numpy_param. cbn [app]. destruct d as [x|]; cbn [app last_opt].
  - split; [discriminate|]. unfold TAB4. cbn [app]. discriminate.
  - split; [discriminate|]. intro K. injection K. intro Q. apply app_eq_nil in Q. destruct Q as [_ Q]. discriminate.
Qed.

Lemma last_opt_app_ne {A} (a b : list A) : b <> [] -> last_opt (a ++ b) = last_opt b.
Proof.
  intro H. induction a as [|x a IH]; [reflexivity|]. cbn [app last_opt]. destruct (a ++ b) eqn:K; [apply app_eq_nil in K; destruct K; contradiction | exact IH].
Qed.

Lemma concat_last : forall es, es <> [] -> last_opt (concat (map emit_nentry es)) <> Some [] /\ concat (map emit_nentry es) <> [].
Proof.
  induction es as [|e r IH]; intro H; [contradiction|]. cbn [map concat].
  destruct r as [|e2 r2].
  - cbn [map concat]. rewrite app_nil_r. destruct (nentry_last_nonempty e) as [A B]. split; assumption.
  - destruct IH as [I1 I2]; [discriminate|]. split.
    + rewrite last_opt_app_ne by exact I2. exact I1.
    + intro K. apply app_eq_nil in K. destruct K as [_ K]. exact (I2 K).
Qed.

Lemma splitlines_join_numpy es : es <> [] -> forallb nentry_ok1 es = true ->
  splitlines (join [NL] (concat (map emit_nentry es))) = concat (map emit_nentry es).
Proof.
  intros Hne H. destruct (concat_last es Hne) as [L1 L2]. unfold splitlines. rewrite split_join.
  - destruct (last_opt (concat (map emit_nentry es))) as [[|c r]|] eqn:K; try reflexivity. exfalso. apply L1. reflexivity.
  - exact L2.
  - apply Forall_concat. apply Forall_forall. intros ls Hl. apply in_map_iff in Hl. destruct Hl as [e [<- He]].
    apply nentry_lines_one_line. rewrite forallb_forall in H. apply H. exact He.
Qed.

Theorem numpy_docstring_roundtrip (pre H sep : str) (es : list nentry) :
  blank pre = true -> head_ok H = true -> head_ok (rev H) = true -> lacks DASH H = true -> blank sep = true ->
  es <> [] -> forallb nentry_ok1 es = true ->
  numpy_docstring (pre ++ H ++ sep ++ NPARAMS ++ [NL] ++ join [NL] (concat (map emit_nentry es))) = (H, map read_nentry es).
Proof.
  intros BP H1 H2 HC B Hne Hes. unfold numpy_docstring.
  destruct (numpy_head_general pre H sep ([NL] ++ join [NL] (concat (map emit_nentry es))) BP H1 H2 HC B) as [E1 E2].
  rewrite E1, E2. cbn [app skipn]. f_equal.
  unfold section_units. rewrite (splitlines_join_numpy es Hne Hes).
  assert (OK : forallb nentry_ok es = true).
  { rewrite forallb_forall in *. intros e He. specialize (Hes e He). destruct e as [[n t] d]. unfold nentry_ok1 in Hes.
    apply andb_prop in Hes. destruct Hes as [Hes _]. apply andb_prop in Hes. destruct Hes as [Hes _]. apply andb_prop in Hes. tauto. }
  destruct (concat_last es Hne) as [_ L2].
  destruct (concat (map emit_nentry es)) as [|l0 r0] eqn:K; [contradiction|].
  assert (FI : indent_of l0 = O).
  { destruct es as [|[[n t] d] es']; [contradiction|]. cbn [map concat] in K. unfold emit_nentry, emit_numpy_param in K. cbn [app] in K.
    injection K as K0 _. rewrite <- K0.
    cbn [forallb] in OK. apply andb_prop in OK. destruct OK as [O1 _]. unfold nentry_ok in O1.
    apply andb_prop in O1. destruct O1 as [O1 _]. apply andb_prop in O1. destruct O1 as [O1 _]. apply andb_prop in O1. destruct O1 as [O1 _].
    apply andb_prop in O1. destruct O1 as [O1 _]. apply andb_prop in O1. destruct O1 as [O1 _]. apply indent_first. exact O1. }
  rewrite FI. rewrite <- K. rewrite (form_units_entries es [] Hes). cbn [fst app].
  exact (numpy_params_roundtrip es OK).
Qed.

Example numpy_docstring_example :
  numpy_docstring ([NL] ++ s2l "Load the dataset." ++ [NL; NL] ++ s2l "Parameters" ++ [NL] ++ s2l "----------" ++ [NL]
                   ++ s2l "name : str" ++ [NL] ++ s2l "    dataset to load" ++ [NL] ++ s2l "batch_size : int")
  = (s2l "Load the dataset.", [(s2l "name", Some (s2l "str"), Some (s2l "dataset to load")); (s2l "batch_size", Some (s2l "int"), Some [])]).
Proof. vm_compute. reflexivity. Qed.
