From CDD Require Import PyStr NameSan.
Open Scope N_scope.

Lemma lstrip_star_no_leading s : no_leading_star (lstrip_chars [STAR] s) = true.
Proof.
  induction s as [|c r IH]; [reflexivity|]. cbn [lstrip_chars existsb].
  unfold ceq. destruct (c =? STAR) eqn:E; cbn [orb].
  - exact IH.
  - unfold no_leading_star. cbn [startswith]. rewrite (N.eqb_sym STAR c), E. reflexivity.
Qed.

Theorem sanitise_no_leading_star name : no_leading_star (sanitise_name name) = true.
Proof.
  unfold sanitise_name.
  destruct (endswith s_kwargs name || startswith [STAR; STAR] name) eqn:E1.
  - apply lstrip_star_no_leading.
  - apply orb_false_iff in E1 as [_ E2].
    destruct (startswith [STAR] name) eqn:E3.
    + destruct name as [|a rest]; [cbn in E3; discriminate|]. cbn [skipn].
      cbn [startswith] in E2, E3. rewrite andb_true_r in E3. rewrite E3 in E2. cbn [andb] in E2.
      unfold no_leading_star. destruct rest as [|b r]; [reflexivity|].
      cbn [startswith] in *. rewrite E2. reflexivity.
    + unfold no_leading_star. rewrite E3. reflexivity.
Qed.
