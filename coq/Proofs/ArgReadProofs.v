(* Model/ArgRead.v: what the argparse reader keeps of an add_argument call -- the default that is written (whatever its value), the
   members of `choices` in the order written, Optional exactly for the options that are not required. *)
From CDD Require Import PyStr ExtractDefault ArgRead.
Open Scope N_scope.

(* a default that is written is the parameter's default: also 0, 0.0, False, '' (whenever the call is read at all) *)
Theorem written_default_is_kept c d r : a_default c = Some d -> parse_out_param c = Some r -> r_default r = Some (AVal d).
Proof.
  intros H. unfold parse_out_param. rewrite H.
  destruct (match a_choices c with Some elts => handle_choices elts _ | None => Some _ end); [|discriminate].
  destruct (a_help c); intro E; injection E as <-; reflexivity.
Qed.

(* choices: a Literal of the members, quoted for the (default) type str, in the order of the tuple *)
Definition quoted (v : pyval) : str := s2l "'" ++ v_str v ++ s2l "'".
Theorem choices_in_order c elts : a_type c = None -> a_action c = None -> a_choices c = Some elts -> a_required c = true ->
  option_map r_typ (parse_out_param c) = Some (s2l "Literal[" ++ join (s2l ", ") (map quoted elts) ++ s2l "]").
Proof.
  intros Ht Ha Hc Hr. unfold parse_out_param. rewrite Ht, Ha, Hc, Hr.
  destruct (a_help c); destruct (a_default c); try reflexivity; try (destruct (extract_default_text _ true); reflexivity).
Qed.

(* a plain typed option: Optional exactly when it is not required *)
Definition plain_typ (t : str) : bool := negb (str_eqb t (s2l "loads")) && negb (contains (s2l "Optional") t).
Theorem optional_iff_not_required c t : a_type c = Some t -> plain_typ t = true -> a_choices c = None -> a_action c = None ->
  option_map r_typ (parse_out_param c) = Some (if a_required c then t else s2l "Optional[" ++ t ++ s2l "]").
Proof.
  intros Ht Hp Hc Ha. unfold plain_typ in Hp. apply andb_prop in Hp. destruct Hp as [P1 P2]. apply negb_true_iff in P1. apply negb_true_iff in P2.
  unfold parse_out_param. rewrite Ht, Hc, Ha. unfold handle_value. rewrite P1.
  destruct (a_required c); cbn [negb andb]; rewrite ?P2;
    destruct (a_help c); destruct (a_default c); try reflexivity; try (destruct (extract_default_text _ true); reflexivity).
Qed.

(* a required option without a default gets the zero value of its simple type, NoneStr otherwise *)
Theorem required_without_default c : a_default c = None -> a_help c = None -> a_required c = true -> a_choices c = None ->
  option_map r_default (parse_out_param c)
  = Some (Some (match simple_default (match a_type c with Some t => handle_value t | None => s2l "str" end) with Some v => AVal v | None => ANoneStr end)).
Proof. intros Hd Hh Hr Hc. unfold parse_out_param. rewrite Hd, Hh, Hr, Hc. reflexivity. Qed.

(* members that are not strings under a type other than str: ", ".join raises (the recorded behaviour of `choices=(1, 2)` with type=int) *)
Example int_choices_raise :
  parse_out_param {| a_name := s2l "n"; a_type := Some (s2l "int"); a_help := None; a_required := true; a_default := None; a_action := None;
                     a_choices := Some [{| v_repr := s2l "2"; v_str := s2l "2"; v_empty := false; v_is_str := false |}] |} = None.
Proof. vm_compute. reflexivity. Qed.

(* `--seed`, type=int, default=0 (not required) and `--mode`, choices=('train', 'eval', 'predict'), required *)
Example argread_examples :
  parse_out_param {| a_name := s2l "seed"; a_type := Some (s2l "int"); a_choices := None; a_help := Some (s2l "the seed"); a_required := false;
                     a_default := Some {| v_repr := s2l "0"; v_str := s2l "0"; v_empty := false; v_is_str := false |}; a_action := None |}
  = Some {| r_name := s2l "seed"; r_doc := Some (s2l "the seed. Defaults to 0"); r_typ := s2l "Optional[int]";
            r_default := Some (AVal {| v_repr := s2l "0"; v_str := s2l "0"; v_empty := false; v_is_str := false |}) |}
  /\ option_map r_typ (parse_out_param {| a_name := s2l "mode"; a_type := None; a_help := None; a_required := true; a_default := None; a_action := None;
                               a_choices := Some [{| v_repr := s2l "'train'"; v_str := s2l "train"; v_empty := false; v_is_str := true |};
                                                  {| v_repr := s2l "'eval'"; v_str := s2l "eval"; v_empty := false; v_is_str := true |};
                                                  {| v_repr := s2l "'predict'"; v_str := s2l "predict"; v_empty := false; v_is_str := true |}] |})
     = Some (s2l "Literal['train', 'eval', 'predict']").
Proof. split; vm_compute; reflexivity. Qed.
