From Coq Require Import Permutation Lia.
From CDD Require Import PyStr Merge.

Section Generic.
  Variable name : Type.
  Variable name_eqb : name -> name -> bool.
  Hypothesis name_eqb_spec : forall a b, name_eqb a b = true <-> a = b.
  Variable param : Type.
  Variable mpp : param -> param -> param.
  Notation params := (params name param).
  Notation lookup := (lookup name name_eqb param).
  Notation update := (update name name_eqb param).
  Notation names := (names name param).
  Notation mem := (mem name name_eqb param).
  Notation step1 := (step1 name name_eqb param mpp).
  Notation loop1 := (loop1 name name_eqb param mpp).
  Notation loop2 := (loop2 name name_eqb param).
  Notation merge_params := (merge_params name name_eqb param mpp).

  Lemma eqb_refl a : name_eqb a a = true. Proof. apply name_eqb_spec. reflexivity. Qed.
  Lemma eqb_neq a b : a <> b -> name_eqb a b = false.
  Proof. intro H. destruct (name_eqb a b) eqn:E; [|reflexivity]. apply name_eqb_spec in E. contradiction. Qed.

  Lemma names_update n f l : names (update n f l) = names l.
  Proof. induction l as [|[k v] r IH]; cbn; [reflexivity|]. destruct (name_eqb n k); cbn; [reflexivity|]. f_equal. exact IH. Qed.

  Lemma update_comm a b f g l : a <> b -> update a f (update b g l) = update b g (update a f l).
  Proof.
    intro Hab. induction l as [|[k v] r IH]; cbn; [reflexivity|].
    destruct (name_eqb b k) eqn:Eb, (name_eqb a k) eqn:Ea; cbn; rewrite ?Ea, ?Eb; try reflexivity.
    - apply name_eqb_spec in Ea, Eb. congruence.
    - rewrite IH. reflexivity.
  Qed.

  Lemma step1_comm other t a b : a <> b -> step1 other (step1 other t a) b = step1 other (step1 other t b) a.
  Proof.
    intro Hab. unfold Merge.step1. destruct (lookup a other), (lookup b other); try reflexivity.
    apply update_comm. congruence.
  Qed.

  Lemma loop1_perm other : forall e1 e2, Permutation e1 e2 -> NoDup e1 ->
    forall t, loop1 e1 other t = loop1 e2 other t.
  Proof.
    unfold Merge.loop1. induction 1 as [| x l l' HP IH | x y l | l l' l'' HP1 IH1 HP2 IH2]; intros Hnd t.
    - reflexivity.
    - cbn [fold_left]. apply IH. inversion Hnd; assumption.
    - cbn [fold_left]. rewrite step1_comm; [reflexivity|].
      inversion Hnd as [|? ? Hnotin _]; subst. intro E; subst. apply Hnotin. left. reflexivity.
    - rewrite IH1 by assumption. apply IH2. eapply Permutation_NoDup; eauto.
  Qed.

  (* the result does not depend on the order in which the set intersection is enumerated *)
  Theorem merge_enum_independent other t e1 e2 :
    Permutation e1 e2 -> NoDup e1 -> merge_params e1 other t = merge_params e2 other t.
  Proof. intros HP Hnd. unfold Merge.merge_params. rewrite (loop1_perm other e1 e2 HP Hnd). reflexivity. Qed.

  Lemma loop1_names other : forall e t, names (loop1 e other t) = names t.
  Proof.
    unfold Merge.loop1. induction e as [|n e IH]; intros t; cbn [fold_left]; [reflexivity|].
    rewrite IH. unfold Merge.step1. destruct (lookup n other); [apply names_update|reflexivity].
  Qed.

  (* names appended by loop 2: the names of [other] not yet present, in the order of [other], once each *)
  Fixpoint fresh (seen : list name) (l : list name) : list name :=
    match l with
    | [] => []
    | n :: r => if existsb (name_eqb n) seen then fresh seen r else n :: fresh (seen ++ [n]) r
    end.
  Lemma loop2_names : forall other t, names (loop2 other t) = names t ++ fresh (names t) (names other).
  Proof.
    unfold Merge.loop2. induction other as [|[k v] r IH]; intros t.
    - cbn. rewrite app_nil_r. reflexivity.
    - cbn [fold_left fst]. change (names ((k, v) :: r)) with (k :: names r). cbn [fresh].
      destruct (existsb (name_eqb k) (names t)) eqn:E.
      + assert (Hm : mem k t = true) by exact E. rewrite Hm. apply IH.
      + assert (Hm : mem k t = false) by exact E. rewrite Hm.
        rewrite IH. unfold Merge.names. rewrite map_app. cbn. rewrite <- app_assoc. reflexivity.
  Qed.

  (* ORDER SPEC: documented names first, in documented order; then undocumented ones in signature order *)
  Theorem merge_order_spec enum other t :
    names (merge_params enum other t) = names t ++ fresh (names t) (names other).
  Proof. unfold Merge.merge_params. rewrite loop2_names, loop1_names. reflexivity. Qed.

  Lemma existsb_eqb_In n l : existsb (name_eqb n) l = true <-> In n l.
  Proof.
    rewrite existsb_exists. split.
    - intros [x [Hin He]]. apply name_eqb_spec in He. subst. exact Hin.
    - intro H. exists n. split; [exact H | apply eqb_refl].
  Qed.

  Lemma fresh_spec : forall l seen n,
    In n (fresh seen l) -> ~ In n seen /\ In n l.
  Proof.
    induction l as [|x r IH]; intros seen n H; cbn in H; [contradiction|].
    destruct (existsb (name_eqb x) seen) eqn:E.
    - destruct (IH _ _ H) as [H1 H2]. split; [exact H1 | right; exact H2].
    - destruct H as [<-|H].
      + split; [|left; reflexivity]. intro Hin. apply existsb_eqb_In in Hin. congruence.
      + destruct (IH _ _ H) as [H1 H2]. split; [|right; exact H2].
        intro Hin. apply H1. apply in_or_app. left. exact Hin.
  Qed.

  Lemma fresh_complete : forall l seen n, In n l -> In n seen \/ In n (fresh seen l).
  Proof.
    induction l as [|x r IH]; intros seen n H; [contradiction|]. cbn.
    destruct (existsb (name_eqb x) seen) eqn:E.
    - destruct H as [<-|H]; [left; apply existsb_eqb_In; exact E | apply IH; exact H].
    - destruct H as [<-|H]; [right; left; reflexivity|].
      destruct (IH (seen ++ [x]) n H) as [Hs|Hf]; [|right; right; exact Hf].
      apply in_app_or in Hs as [Hs|[<-|[]]]; [left; exact Hs | right; left; reflexivity].
  Qed.

  Lemma fresh_nodup : forall l seen, NoDup (fresh seen l).
  Proof.
    induction l as [|x r IH]; intros seen; cbn; [constructor|].
    destruct (existsb (name_eqb x) seen); [apply IH|].
    constructor; [|apply IH]. intro Hin. apply fresh_spec in Hin as [Hn _]. apply Hn.
    apply in_or_app. right. left. reflexivity.
  Qed.

  (* every name of [other] (the signature) occurs in the result, and the result has no duplicate
     when the documented names have none *)
  Theorem merge_covers_other enum other t n :
    In n (names other) -> In n (names (merge_params enum other t)).
  Proof.
    intro H. rewrite merge_order_spec. apply in_or_app.
    destruct (fresh_complete (names other) (names t) n H); [left|right]; assumption.
  Qed.

  Lemma NoDup_app_intro {A} (l1 l2 : list A) :
    NoDup l1 -> NoDup l2 -> (forall x, In x l1 -> ~ In x l2) -> NoDup (l1 ++ l2).
  Proof.
    induction l1 as [|a l1 IH]; intros H1 H2 Hd; cbn; [exact H2|].
    inversion H1 as [|? ? Hna Hnd]; subst. constructor.
    - intro Hin. apply in_app_or in Hin as [Hin|Hin]; [contradiction|]. apply (Hd a); [left; reflexivity | exact Hin].
    - apply IH; [exact Hnd | exact H2 | intros x Hx; apply Hd; right; exact Hx].
  Qed.

  Theorem merge_nodup enum other t :
    NoDup (names t) -> NoDup (names (merge_params enum other t)).
  Proof.
    intro Hnd. rewrite merge_order_spec. apply NoDup_app_intro; [exact Hnd | apply fresh_nodup|].
    intros x Hx Hf. apply fresh_spec in Hf as [Hn _]. contradiction.
  Qed.

  (* hence: every signature parameter appears EXACTLY once *)
  Theorem merge_signature_once enum other t n (eq_dec : forall a b : name, {a = b} + {a <> b}) :
    NoDup (names t) -> In n (names other) -> count_occ eq_dec (names (merge_params enum other t)) n = 1%nat.
  Proof.
    intros Hnd Hin. apply NoDup_count_occ'; [apply merge_nodup; exact Hnd | apply merge_covers_other; exact Hin].
  Qed.
End Generic.

(* ---- _join_non_none: the resulting MAP (key -> value) is independent of the enumeration -------- *)
Lemma str_eqb_refl a : str_eqb a a = true.
Proof. induction a as [|x a IH]; cbn; [reflexivity|]. rewrite N.eqb_refl, IH. reflexivity. Qed.
Lemma str_eqb_eq a b : str_eqb a b = true <-> a = b.
Proof.
  split; [|intros ->; apply str_eqb_refl].
  revert b; induction a as [|x a IH]; intros [|y b]; cbn; try discriminate; [reflexivity|].
  intro H. apply andb_true_iff in H as [H1 H2]. apply N.eqb_eq in H1. apply IH in H2. subst. reflexivity.
Qed.

Lemma kv_get_set_same k v m : kv_get k (kv_set k v m) = v.
Proof.
  induction m as [|[a w] r IH]; cbn; [rewrite str_eqb_refl; reflexivity|].
  destruct (str_eqb k a) eqn:E; cbn; rewrite E; [reflexivity | exact IH].
Qed.
Lemma kv_get_set_other k k' v m : k <> k' -> kv_get k' (kv_set k v m) = kv_get k' m.
Proof.
  intro Hn. induction m as [|[a w] r IH]; cbn.
  - destruct (str_eqb k' k) eqn:E; [apply str_eqb_eq in E; congruence | reflexivity].
  - destruct (str_eqb k a) eqn:E; cbn.
    + apply str_eqb_eq in E. subst a. destruct (str_eqb k' k) eqn:E2; [apply str_eqb_eq in E2; congruence | reflexivity].
    + destruct (str_eqb k' a); [reflexivity | exact IH].
Qed.

(* what a lookup in the joined map returns, whatever the enumeration *)
Lemma join_get enum primacy other : forall acc k,
  kv_get k (fold_left (fun acc k =>
               match kv_get k primacy, kv_get k other with
               | None, Some v => kv_set k (Some v) acc
               | _, _ => acc
               end) enum acc)
  = if existsb (str_eqb k) enum
    then match kv_get k primacy, kv_get k other with None, Some v => Some v | _, _ => kv_get k acc end
    else kv_get k acc.
Proof.
  induction enum as [|x enum IH]; intros acc k; cbn; [reflexivity|].
  rewrite IH. destruct (str_eqb k x) eqn:E.
  - apply str_eqb_eq in E. subst x. cbn.
    destruct (kv_get k primacy) eqn:Ep, (kv_get k other) eqn:Eo; cbn;
      try (destruct (existsb (str_eqb k) enum); reflexivity).
    rewrite kv_get_set_same. destruct (existsb (str_eqb k) enum); reflexivity.
  - cbn. assert (Hne : x <> k) by (intro; subst; rewrite str_eqb_refl in E; discriminate).
    destruct (kv_get x primacy), (kv_get x other); try reflexivity.
    rewrite (kv_get_set_other x k _ acc Hne). reflexivity.
Qed.

Theorem join_enum_independent e1 e2 primacy other :
  (forall k, In k e1 <-> In k e2) ->
  forall k, kv_get k (join_non_none e1 primacy other) = kv_get k (join_non_none e2 primacy other).
Proof.
  intros Hsame k. unfold join_non_none. rewrite !join_get.
  assert (E : existsb (str_eqb k) e1 = existsb (str_eqb k) e2).
  { apply eq_true_iff_eq. rewrite !existsb_exists. split; intros [x [Hin He]]; apply str_eqb_eq in He; subst x;
      exists k; (split; [apply Hsame; exact Hin | apply str_eqb_refl]). }
  rewrite E. reflexivity.
Qed.
