(* Model/ClassFmt.v: the body of the emitted class has exactly one annotated assignment per typed attribute, in order, carrying the
   described annotation and the described default (no default: no value). *)
From CDD Require Import PyStr DocSplit RestDoc ClassFmt.

Definition typed (p : str * cparam) : bool := match cp_typ (snd p) with Some _ => true | None => false end.
Definition item_of (p : str * cparam) : body_item :=
  {| b_name := fst p; b_typ := match cp_typ (snd p) with Some t => t | None => [] end; b_value := cp_default (snd p) |}.

Theorem class_body_carries doc ps : k_body (emit_class doc ps) = map item_of (filter typed ps).
Proof.
  unfold emit_class. cbn [k_body]. induction ps as [|p r IH]; [reflexivity|].
  cbn [flat_map filter]. rewrite IH. destruct (cp_typ (snd p)) as [t|] eqn:E.
  - assert (T : typed p = true) by (unfold typed; rewrite E; reflexivity). rewrite T. cbn [app map]. f_equal.
    unfold item_of. rewrite E. reflexivity.
  - assert (T : typed p = false) by (unfold typed; rewrite E; reflexivity). rewrite T. reflexivity.
Qed.

Corollary class_body_all_typed doc ps : forallb typed ps = true -> k_body (emit_class doc ps) = map item_of ps.
Proof.
  intro H. rewrite class_body_carries. f_equal. induction ps as [|p r IH]; [reflexivity|].
  cbn [forallb filter] in *. apply andb_prop in H. destruct H as [H1 H2]. rewrite H1, (IH H2). reflexivity.
Qed.

Example class_body_example :
  k_body (emit_class (s2l "Config") [(s2l "size", {| cp_typ := Some (s2l "int"); cp_doc := Some (s2l "how big"); cp_default := Some (s2l "5") |});
                                     (s2l "label", {| cp_typ := Some (s2l "Optional[str]"); cp_doc := None; cp_default := None |})])
  = [{| b_name := s2l "size"; b_typ := s2l "int"; b_value := Some (s2l "5") |}; {| b_name := s2l "label"; b_typ := s2l "Optional[str]"; b_value := None |}].
Proof. vm_compute. reflexivity. Qed.
