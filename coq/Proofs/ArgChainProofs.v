(* The argparse row of the normal-form table (Model/Norm.v: N0 FArgparse, measured) DERIVED from the two halves of the argparse hop:
   what the emitter registers (Model/Exec.v: argparse_action, measured against a live ArgumentParser) read back by the transcribed
   reader (Model/ArgRead.v: parse_out_param). *)
From CDD Require Import PyStr FuncSig Norm Exec ExtractDefault ArgRead.
Open Scope N_scope.

Definition base_name (b : base) : str :=
  match b with BInt => s2l "int" | BFloat => s2l "float" | BStr => s2l "str" | BBool => s2l "bool" end.
Definition lit_text (ms : list str) : str := s2l "Literal[" ++ join (s2l ", ") (map (fun m => s2l "'" ++ m ++ s2l "'") ms) ++ s2l "]".
Definition render_inner (i : inner) : str := match i with IBase b => base_name b | ILit ms => lit_text ms end.
Definition render_ctyp (t : ctyp) : str := if t_opt t then s2l "Optional[" ++ render_inner (t_inner t) ++ s2l "]" else render_inner (t_inner t).

Definition pyval_of_str (s : str) : pyval :=
  {| v_repr := s2l "'" ++ s ++ s2l "'"; v_str := s; v_empty := match s with [] => true | _ => false end; v_is_str := true |}.
Definition pyval_of_cdef (d : cdef) : option pyval :=
  match d with
  | DAbs | DNone => None
  | DInt z => Some {| v_repr := Z_to_str z; v_str := Z_to_str z; v_empty := false; v_is_str := false |}
  | DFloat r => Some {| v_repr := r; v_str := r; v_empty := false; v_is_str := false |}
  | DBool b => Some {| v_repr := if b then s2l "True" else s2l "False"; v_str := if b then s2l "True" else s2l "False"; v_empty := false; v_is_str := false |}
  | DStr s => Some (pyval_of_str s)
  end.

(* the add_argument call the emitter writes, as the reader sees it (no help text: descriptions are not part of the table) *)
Definition call_of (name : str) (a : action) : argcall :=
  {| a_name := name; ArgRead.a_type := Exec.a_type a; ArgRead.a_choices := option_map (map pyval_of_str) (Exec.a_choices a); a_help := None;
     ArgRead.a_required := Exec.a_required a; ArgRead.a_default := pyval_of_cdef (Exec.a_default a); a_action := None |}.

Definition adefault_of (d : cdef) : option adefault := option_map AVal (pyval_of_cdef d).

(* the part of the table's domain the two halves are consistent on: a None default belongs to an Optional type; the members of an
   Optional Literal do not spell "Optional" *)
Definition chain_dom (p : cparam) : bool :=
  let '(t, d) := p in
  well_typed p
  && match d with DNone => t_opt t | _ => true end
  && match t_inner t with ILit ms => negb (t_opt t) || negb (contains (s2l "Optional") (lit_text ms)) | IBase _ => true end.

Lemma lit_choices ms : handle_choices (map pyval_of_str ms) (s2l "str") = Some (lit_text ms).
Proof. unfold handle_choices, lit_text. cbn [simple_default str_eqb andb orb]. rewrite map_map. reflexivity. Qed.

Theorem argparse_row_derived name t d : chain_dom (t, d) = true ->
  match N0 FArgparse (t, d) with
  | Some (t', d') =>
      exists r, parse_out_param (call_of name (argparse_action (t, d))) = Some r /\ r_typ r = render_ctyp t' /\ r_default r = adefault_of d'
  | None => True
  end.
Proof.
  destruct t as [o i]. unfold chain_dom. intro H. apply andb_prop in H. destruct H as [H HL]. apply andb_prop in H. destruct H as [HW HN].
  destruct i as [b|ms].
  - (* scalar types: everything computes *)
    destruct o; destruct b; destruct d as [| |z|r|bb|s]; try discriminate; try (eexists; split; [reflexivity | split; reflexivity]);
      try (cbn; eexists; split; [reflexivity | split; reflexivity]).
    all: try (cbn in HW; discriminate).
  - (* Literal of strings *)
    cbn [t_inner] in HL.
    destruct d as [| |z|r|bb|s]; try (cbn in HW; discriminate).
    + (* no default *)
      destruct o.
      * cbn [negb orb t_opt] in HL. apply negb_true_iff in HL.
        unfold parse_out_param, call_of, argparse_action, N0. cbn [t_opt t_inner Exec.a_type Exec.a_choices Exec.a_default Exec.a_required
          ArgRead.a_type ArgRead.a_choices ArgRead.a_default ArgRead.a_required a_help a_action a_name option_map pyval_of_cdef negb andb].
        rewrite lit_choices, HL. eexists; split; [reflexivity | split; reflexivity].
      * unfold parse_out_param, call_of, argparse_action, N0. cbn [t_opt t_inner Exec.a_type Exec.a_choices Exec.a_default Exec.a_required
          ArgRead.a_type ArgRead.a_choices ArgRead.a_default ArgRead.a_required a_help a_action a_name option_map pyval_of_cdef negb andb].
        rewrite lit_choices. eexists; split; [reflexivity | split; reflexivity].
    + (* None default: Optional only *)
      cbn [t_opt] in HN. subst o. cbn [negb orb t_opt] in HL. apply negb_true_iff in HL.
      unfold parse_out_param, call_of, argparse_action, N0. cbn [t_opt t_inner Exec.a_type Exec.a_choices Exec.a_default Exec.a_required
        ArgRead.a_type ArgRead.a_choices ArgRead.a_default ArgRead.a_required a_help a_action a_name option_map pyval_of_cdef negb andb].
      rewrite lit_choices, HL. eexists; split; [reflexivity | split; reflexivity].
    + (* a string default *)
      destruct o.
      * cbn [negb orb t_opt] in HL. apply negb_true_iff in HL.
        unfold parse_out_param, call_of, argparse_action, N0. cbn [t_opt t_inner Exec.a_type Exec.a_choices Exec.a_default Exec.a_required
          ArgRead.a_type ArgRead.a_choices ArgRead.a_default ArgRead.a_required a_help a_action a_name option_map pyval_of_cdef negb andb].
        rewrite lit_choices, HL. eexists; split; [reflexivity | split; reflexivity].
      * unfold parse_out_param, call_of, argparse_action, N0. cbn [t_opt t_inner Exec.a_type Exec.a_choices Exec.a_default Exec.a_required
          ArgRead.a_type ArgRead.a_choices ArgRead.a_default ArgRead.a_required a_help a_action a_name option_map pyval_of_cdef negb andb].
        rewrite lit_choices. eexists; split; [reflexivity | split; reflexivity].
Qed.

Example argparse_row_examples :
  chain_dom (mkT false (IBase BInt), DAbs) = true /\ chain_dom (mkT true (ILit [s2l "a"; s2l "b"]), DStr (s2l "a")) = true
  /\ option_map r_typ (parse_out_param (call_of (s2l "n") (argparse_action (mkT true (ILit [s2l "b"; s2l "a"]), DAbs)))) = Some (s2l "Optional[Literal['b', 'a']]").
Proof. repeat split; vm_compute; reflexivity. Qed.
