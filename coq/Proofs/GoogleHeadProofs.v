(* Model/GoogleHead.v: the prose in front of "Args:" is what the Google scanner keeps as the description, whatever blank text
   (a line break, a blank line, indentation, nothing at all) separates the two. *)
From Coq Require Import Lia.
From CDD Require Import PyStr RestDocProofs GoogleLine GoogleLineProofs GoogleHead.
Open Scope N_scope.

Lemma index_of_here p s : startswith p s = true -> index_of p s = Some O.
Proof. destruct s; cbn [index_of]; intro H; rewrite H; reflexivity. Qed.

(* no occurrence of "Args:" can start inside a colon-free text that is followed by "Args:" *)
Lemma no_early_start : forall x r, x <> [] -> lacks GCOLON x = true -> startswith ARGS (x ++ ARGS ++ r) = false.
Proof.
  intros x r Hx Hc.
  destruct x as [|c1 x]; [contradiction|]. cbn [lacks forallb] in Hc. apply andb_prop in Hc. destruct Hc as [C1 Hc].
  destruct x as [|c2 x]; [cbn; rewrite !andb_false_r; reflexivity|]. cbn [forallb] in Hc. apply andb_prop in Hc. destruct Hc as [C2 Hc].
  destruct x as [|c3 x]; [cbn; rewrite !andb_false_r; reflexivity|]. cbn [forallb] in Hc. apply andb_prop in Hc. destruct Hc as [C3 Hc].
  destruct x as [|c4 x]; [cbn; rewrite !andb_false_r; reflexivity|]. cbn [forallb] in Hc. apply andb_prop in Hc. destruct Hc as [C4 Hc].
  destruct x as [|c5 x]; [cbn; rewrite !andb_false_r; reflexivity|]. cbn [forallb] in Hc. apply andb_prop in Hc. destruct Hc as [C5 _].
  apply negb_true_iff in C5. unfold GCOLON in C5. unfold ARGS. cbn [app startswith]. rewrite (N.eqb_sym 58 c5), C5. rewrite !andb_false_r. reflexivity.
Qed.

Lemma index_of_after : forall a r, lacks GCOLON a = true -> index_of ARGS (a ++ ARGS ++ r) = Some (length a).
Proof.
  induction a as [|c a IH]; intros r H.
  - cbn [app length]. apply index_of_here. unfold ARGS. cbn. reflexivity.
  - assert (E : startswith ARGS ((c :: a) ++ ARGS ++ r) = false) by (apply no_early_start; [discriminate | exact H]).
    cbn [app] in *. cbn [index_of]. rewrite E. cbn [lacks forallb] in H. apply andb_prop in H. destruct H as [_ H].
    rewrite (IH r H). reflexivity.
Qed.

Lemma blank_lacks_colon s : blank s = true -> lacks GCOLON s = true.
Proof.
  induction s as [|c s IH]; [reflexivity|]. cbn [blank forallb lacks]. intro H. apply andb_prop in H. destruct H as [H1 H2].
  fold (blank s) in H2. fold (lacks GCOLON s). rewrite (IH H2), andb_true_r.
  destruct (N.eqb_spec c GCOLON) as [->|]; [vm_compute in H1; discriminate | reflexivity].
Qed.

Theorem google_header_kept (H sep rest : str) :
  head_ok H = true -> head_ok (rev H) = true -> lacks GCOLON H = true -> blank sep = true ->
  fst (google_scan_head (H ++ sep ++ ARGS ++ rest)) = H /\ google_ir_doc (H ++ sep ++ ARGS ++ rest) = H.
Proof.
  intros H1 H2 HC B.
  assert (E : fst (google_scan_head (H ++ sep ++ ARGS ++ rest)) = H).
  { unfold google_scan_head.
    replace (H ++ sep ++ ARGS ++ rest) with ((H ++ sep) ++ ARGS ++ rest) by (rewrite <- app_assoc; reflexivity).
    rewrite index_of_after by (rewrite lacks_app, HC, (blank_lacks_colon sep B); reflexivity).
    cbn [fst]. rewrite firstn_app, firstn_all, Nat.sub_diag. cbn [firstn]. rewrite app_nil_r.
    unfold white_spacer.
    assert (NS : isspace (H ++ sep) = false).
    { destruct H as [|h H']; [discriminate|]. cbn [app isspace forallb]. cbn [head_ok] in H1. apply negb_true_iff in H1. rewrite H1. reflexivity. }
    rewrite NS. rewrite <- (app_nil_l (H ++ sep)). apply (strip_padded [] H sep); try assumption; reflexivity. }
  split; [exact E|]. unfold google_ir_doc. rewrite E.
  assert (NS : isspace H = false).
  { destruct H as [|h H']; [discriminate|]. cbn [isspace forallb]. cbn [head_ok] in H1. apply negb_true_iff in H1. rewrite H1. reflexivity. }
  rewrite NS. apply lstrip_head_ok. exact H1.
Qed.

(* a two-paragraph header that runs straight into the section, and a header separated by an indented blank line *)
Example google_header_examples :
  google_ir_doc (s2l "Scale it." ++ [NL; NL] ++ s2l "Nothing is modified in place." ++ [NL] ++ s2l "Args:" ++ [NL] ++ s2l "  x (int): v")
  = s2l "Scale it." ++ [NL; NL] ++ s2l "Nothing is modified in place."
  /\ google_ir_doc (s2l "Scale it." ++ [NL; SP; SP; SP; SP; NL; SP; SP; SP; SP] ++ s2l "Args:" ++ [NL] ++ s2l "  x (int): v") = s2l "Scale it."
  /\ google_ir_doc (s2l "No section here") = s2l "No section here".
Proof. repeat split; vm_compute; reflexivity. Qed.

(* outside the domain: a colon in the prose is fine unless it spells the token; the FIRST "Args:" wins *)
Example google_header_refuted :
  google_ir_doc (s2l "See Args: below." ++ [NL; NL] ++ s2l "Args:" ++ [NL] ++ s2l "  x: v") = s2l "See".
Proof. vm_compute. reflexivity. Qed.
