From Coq Require Import Lia.
From CDD Require Import PyStr CmpAst MergeProofs.

Section Ind.
  Variable P : pyobj -> Prop.
  Hypothesis HN : forall c fs, Forall P fs -> P (Node c fs).
  Hypothesis HL : forall l, Forall P l -> P (Lst l).
  Hypothesis HT : forall l, Forall P l -> P (Tup l).
  Hypothesis HA : forall t r, P (Atom t r).
  Fixpoint pyobj_rect' (o : pyobj) : P o :=
    match o with
    | Node c fs => HN c fs ((fix go (l : list pyobj) : Forall P l := match l with [] => Forall_nil _ | x :: r => Forall_cons _ (pyobj_rect' x) (go r) end) fs)
    | Lst l => HL l ((fix go (l : list pyobj) : Forall P l := match l with [] => Forall_nil _ | x :: r => Forall_cons _ (pyobj_rect' x) (go r) end) l)
    | Tup l => HT l ((fix go (l : list pyobj) : Forall P l := match l with [] => Forall_nil _ | x :: r => Forall_cons _ (pyobj_rect' x) (go r) end) l)
    | Atom t r => HA t r
    end.
End Ind.

Definition go_cmp := fix go (x y : list pyobj) : bool := match x, y with p :: x', q :: y' => cmp_ast p q && go x' y' | _, _ => true end.

Lemma cmp_unfold_lst x y : cmp_ast (Lst x) (Lst y) = Nat.eqb (length x) (length y) && go_cmp x y. Proof. reflexivity. Qed.
Lemma cmp_unfold_tup x y : cmp_ast (Tup x) (Tup y) = Nat.eqb (length x) (length y) && go_cmp x y. Proof. reflexivity. Qed.
Lemma cmp_unfold_node c d x y : cmp_ast (Node c x) (Node d y) = str_eqb c d && go_cmp x y. Proof. reflexivity. Qed.

(* pairwise comparison of two lists of equal length that succeeds gives equal lists, element-wise under the hypothesis *)
Lemma go_cmp_eq : forall x, Forall (fun p => forall q, cmp_ast p q = true -> p = q) x ->
  forall y, length x = length y -> go_cmp x y = true -> x = y.
Proof.
  induction x as [|p x IH]; intros HF [|q y] HL Hc; try reflexivity; try (cbn in HL; lia).
  inversion HF as [|? ? Hp HF']; subst. cbn [go_cmp] in Hc. apply andb_true_iff in Hc as [H1 H2].
  rewrite (Hp q H1). f_equal. apply IH; auto; cbn in HL; lia.
Qed.

Lemma go_cmp_refl : forall x, Forall (fun p => cmp_ast p p = true) x -> go_cmp x x = true.
Proof. induction x as [|p x IH]; intro HF; [reflexivity|]. inversion HF; subst. cbn. rewrite H1. apply IH. assumption. Qed.

Theorem cmp_ast_refl : forall a, cmp_ast a a = true.
Proof.
  apply pyobj_rect'; intros.
  - rewrite cmp_unfold_node, str_eqb_refl. apply go_cmp_refl. assumption.
  - rewrite cmp_unfold_lst, Nat.eqb_refl. apply go_cmp_refl. assumption.
  - rewrite cmp_unfold_tup, Nat.eqb_refl. apply go_cmp_refl. assumption.
  - cbn. rewrite !str_eqb_refl. reflexivity.
Qed.

(* lists and tuples are compared with their lengths: a proper prefix is never equal *)
Theorem cmp_ast_list_length x y : cmp_ast (Lst x) (Lst y) = true -> length x = length y.
Proof. rewrite cmp_unfold_lst. intro H. apply andb_true_iff in H as [H _]. apply Nat.eqb_eq, H. Qed.

(* instances of one class have the same number of fields (Python: _fields belongs to the class) *)
Fixpoint same_arity (a b : pyobj) : bool :=
  match a, b with
  | Node c x, Node d y => (if str_eqb c d then Nat.eqb (length x) (length y) else true)
                          && (fix go (x y : list pyobj) := match x, y with p :: x', q :: y' => same_arity p q && go x' y' | _, _ => true end) x y
  | Lst x, Lst y | Tup x, Tup y => (fix go (x y : list pyobj) := match x, y with p :: x', q :: y' => same_arity p q && go x' y' | _, _ => true end) x y
  | _, _ => true
  end.
Definition go_ar := fix go (x y : list pyobj) : bool := match x, y with p :: x', q :: y' => same_arity p q && go x' y' | _, _ => true end.

Lemma go_both : forall x, Forall (fun p => forall q, same_arity p q = true -> cmp_ast p q = true -> p = q) x ->
  forall y, length x = length y -> go_ar x y = true -> go_cmp x y = true -> x = y.
Proof.
  induction x as [|p x IH]; intros HF [|q y] HL Ha Hc; try reflexivity; try (cbn in HL; lia).
  inversion HF as [|? ? Hp HF']; subst. cbn in Ha, Hc. apply andb_true_iff in Ha as [A1 A2]. apply andb_true_iff in Hc as [C1 C2].
  rewrite (Hp q A1 C1). f_equal. apply IH; auto; cbn in HL; lia.
Qed.

Theorem cmp_ast_sound : forall a b, same_arity a b = true -> cmp_ast a b = true -> a = b.
Proof.
  apply (pyobj_rect' (fun a => forall b, same_arity a b = true -> cmp_ast a b = true -> a = b)).
  - intros c fs HF [d y| | |] Ha Hc; try discriminate. rewrite cmp_unfold_node in Hc. apply andb_true_iff in Hc as [E Hc].
    change (same_arity (Node c fs) (Node d y)) with ((if str_eqb c d then Nat.eqb (length fs) (length y) else true) && go_ar fs y) in Ha.
    rewrite E in Ha. apply andb_true_iff in Ha as [L Ha]. apply Nat.eqb_eq in L. apply str_eqb_eq in E. subst d.
    f_equal. apply (go_both fs HF y L Ha Hc).
  - intros l HF [|y| |] Ha Hc; try discriminate. rewrite cmp_unfold_lst in Hc. apply andb_true_iff in Hc as [L Hc]. apply Nat.eqb_eq in L.
    change (same_arity (Lst l) (Lst y)) with (go_ar l y) in Ha. f_equal. apply (go_both l HF y L Ha Hc).
  - intros l HF [| |y|] Ha Hc; try discriminate. rewrite cmp_unfold_tup in Hc. apply andb_true_iff in Hc as [L Hc]. apply Nat.eqb_eq in L.
    change (same_arity (Tup l) (Tup y)) with (go_ar l y) in Ha. f_equal. apply (go_both l HF y L Ha Hc).
  - intros t r [| | |u s] _ Hc; try discriminate. cbn in Hc. apply andb_true_iff in Hc as [E1 E2].
    apply str_eqb_eq in E1. apply str_eqb_eq in E2. subst. reflexivity.
Qed.
