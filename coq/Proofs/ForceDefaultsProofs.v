(* Model/ForceDefaults.v: defaults that already form a suffix of the parameter list are left exactly as announced; otherwise the result is
   made a suffix by inventing defaults. *)
From CDD Require Import PyStr ForceDefaults.

Section P.
Variable D : Type.
Notation param := (option str * option D)%type.

Definition has (p : param) : bool := match snd p with Some _ => true | None => false end.
(* no parameter without default after one with a default *)
Fixpoint suffix_shaped (seen : bool) (ps : list param) : bool :=
  match ps with [] => true | p :: r => (negb seen || has p) && suffix_shaped (seen || has p) r end.

Definition own (p : param) : option (forced D) := option_map (FOwn D) (snd p).

Lemma all_have_identity : forall ps, forallb has ps = true -> forall b, force_future D b ps = map own ps.
Proof.
  induction ps as [|p r IH]; intros H b; [reflexivity|]. cbn [forallb] in H. apply andb_prop in H. destruct H as [Hp Hr].
  cbn [force_future map]. unfold interpolate, own, has in *. destruct (snd p) as [d|]; [|discriminate]. cbn [option_map]. f_equal. apply IH. exact Hr.
Qed.

Lemma seen_all_have : forall r, suffix_shaped true r = true -> forallb has r = true.
Proof.
  induction r as [|q r IH]; intro H; [reflexivity|]. cbn [suffix_shaped negb orb] in H. apply andb_prop in H. destruct H as [H1 H2].
  cbn [forallb]. rewrite H1. apply IH. exact H2.
Qed.

Theorem suffix_defaults_are_kept : forall ps, suffix_shaped false ps = true -> force_future D false ps = map own ps.
Proof.
  induction ps as [|p r IH]; intro H; [reflexivity|]. cbn [suffix_shaped negb orb] in H.
  cbn [force_future map]. unfold interpolate at 1. unfold own at 1. unfold has in H.
  destruct (snd p) as [d|] eqn:E; cbn [option_map orb].
  - f_equal. cbn [andb] in H. apply all_have_identity. apply seen_all_have. exact H.
  - f_equal. unfold interpolate. rewrite E. cbn [orb]. apply IH. exact H.
Qed.

(* whatever comes in, what comes out is suffix-shaped: after the first default every parameter has one *)
Definition has_out (x : option (forced D)) : bool := match x with Some _ => true | None => false end.
Fixpoint out_shaped (seen : bool) (l : list (option (forced D))) : bool :=
  match l with [] => true | x :: r => (negb seen || has_out x) && out_shaped (seen || has_out x) r end.
Theorem result_is_suffix_shaped : forall ps b, out_shaped b (force_future D b ps) = true.
Proof.
  induction ps as [|p r IH]; intro b; [reflexivity|]. cbn [force_future out_shaped].
  assert (K : negb b || has_out (interpolate D b p) = true).
  { unfold interpolate. destruct (snd p); [apply orb_true_r|]. destruct b; reflexivity. }
  rewrite K. cbn [andb].
  replace (b || match interpolate D b p with Some _ => true | None => false end) with (b || has_out (interpolate D b p)) by reflexivity.
  apply IH.
Qed.
End P.

(* a default in the middle: the parameter behind it gets a zero of its type, or NoneStr *)
Example force_example :
  force_future N false [(Some (s2l "int"), None); (Some (s2l "str"), Some 7%N); (Some (s2l "int"), None); (Some (s2l "List[str]"), None)]
  = [None; Some (FOwn N 7%N); Some (FZero N (s2l "int")); Some (FNoneStr N)].
Proof. vm_compute. reflexivity. Qed.
