From CDD Require Import PyStr MergeProofs Infer.

(* a declarative model is recognised wherever `Base` stands among its bases *)
Theorem base_anywhere pre post : infer (IClass (pre ++ Some (s2l "Base") :: post)) = Parser (s2l "sqlalchemy").
Proof.
  cbn [infer]. rewrite existsb_app. cbn [existsb]. rewrite str_eqb_refl. cbn [orb]. rewrite orb_true_r. reflexivity.
Qed.

(* and only then *)
Theorem no_base_is_a_class bases :
  (forall b, In b bases -> b <> Some (s2l "Base")) -> infer (IClass bases) = Parser (s2l "class_").
Proof.
  intro H. cbn [infer].
  assert (E : existsb (fun b => match b with Some i => str_eqb i (s2l "Base") | None => false end) bases = false).
  { induction bases as [|b r IH]; [reflexivity|]. cbn [existsb]. rewrite IH by (intros x Hx; apply H; right; exact Hx).
    destruct b as [i|]; [|reflexivity]. destruct (str_eqb i (s2l "Base")) eqn:E; [|reflexivity].
    apply str_eqb_eq in E. subst i. exfalso. apply (H (Some (s2l "Base"))); [left; reflexivity | reflexivity]. }
  rewrite E. reflexivity.
Qed.

Theorem assignment_is_transparent v : infer (IAssign v) = infer v.
Proof. reflexivity. Qed.

Example infer_examples :
  infer (IClass [Some (s2l "TimestampMixin"); Some (s2l "Base")]) = Parser (s2l "sqlalchemy")
  /\ infer (IClass [None; Some (s2l "object")]) = Parser (s2l "class_")
  /\ infer (IFunction [s2l "argument_parser"]) = Parser (s2l "argparse_ast")
  /\ infer (IAssign (ICall 3 (Some (s2l "metadata")))) = Parser (s2l "sqlalchemy_table")
  /\ infer (IAssign (ICall 0 None)) = NoAnswer.
Proof. repeat split; vm_compute; reflexivity. Qed.
