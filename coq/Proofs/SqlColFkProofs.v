(* Model/SqlCol.v: the foreign-key marker "[FK(target)] description" through emit_col and parse_col. *)
From Coq Require Import Lia.
From CDD Require Import PyStr MergeProofs SqlCol SqlColProofs.
Open Scope N_scope.

Definition FKP : str := Eval vm_compute in s2l "[FK(".
Definition FKS : str := Eval vm_compute in s2l ")] ".
Definition RPc : str := [41%N].

Lemma find_from_skip1 c : forall pre rest i, ~ In c pre -> find_from [c] (pre ++ c :: rest) i = (i + Z.of_nat (length pre))%Z.
Proof.
  induction pre as [|x pre IH]; intros rest i H; cbn [app find_from startswith length].
  - rewrite N.eqb_refl. cbn [andb]. lia.
  - assert (E : (c =? x) = false) by (apply N.eqb_neq; intro K; apply H; left; symmetry; exact K).
    rewrite E. cbn [andb]. rewrite IH by (intro K; apply H; right; exact K). lia.
Qed.

Lemma slice_from_pre (pre rest : str) : slice_from (pre ++ rest) (Z.of_nat (length pre)) = rest.
Proof.
  unfold slice_from, norm_idx, slen. rewrite app_length.
  destruct (Z.ltb_spec (Z.of_nat (length pre)) 0); [lia|].
  rewrite Z.min_l by lia. rewrite Nat2Z.id, skipn_app, skipn_all, Nat.sub_diag. reflexivity.
Qed.

Lemma slice_mid' (a b c : str) : slice (a ++ b ++ c) (Z.of_nat (length a)) (Z.of_nat (length a) + Z.of_nat (length b)) = b.
Proof.
  unfold slice, norm_idx, slen. rewrite !app_length.
  destruct (Z.ltb_spec (Z.of_nat (length a)) 0); [lia|].
  destruct (Z.ltb_spec (Z.of_nat (length a) + Z.of_nat (length b)) 0); [lia|].
  rewrite !Z.min_l by lia. replace (Z.of_nat (length a) + Z.of_nat (length b) - Z.of_nat (length a))%Z with (Z.of_nat (length b)) by lia.
  rewrite !Nat2Z.id, skipn_app, skipn_all, Nat.sub_diag. cbn [skipn app]. rewrite firstn_app, firstn_all, Nat.sub_diag. cbn. apply app_nil_r.
Qed.

(* the target of the key carries no "]" *)
Definition target_ok (f : str) : bool := forallb (fun c => negb (c =? RB)) f.

Theorem col_roundtrip_fk t f d : keeps_typ t = true -> target_ok f = true -> head_ok d = true ->
  match last_opt d with Some c => negb (c =? DOT) | None => false end = true ->
  let p := {| p_typ := t; p_doc := Some (FKP ++ f ++ FKS ++ d); p_default := None |} in
  c_fk (emit_col p) = Some f /\ c_comment (emit_col p) = Some d /\ c_pk (emit_col p) = false /\ parse_col (emit_col p) = p.
Proof.
  intros Ht Hf Hh L. cbn zeta. unfold emit_col. cbn [p_doc p_typ p_default].
  set (doc := FKP ++ f ++ FKS ++ d).
  assert (Epk : startswith (s2l "[PK]") doc = false) by reflexivity.
  assert (Efk : startswith (s2l "[FK") doc = true) by reflexivity.
  rewrite Epk, Efk. cbn [orb negb andb].
  (* the first "]" closes the marker *)
  assert (Nin : ~ In RB (FKP ++ f ++ RPc)).
  { intro K. apply in_app_or in K as [K|K]; [cbn in K; repeat (destruct K as [K|K]; [discriminate|]); exact K|].
    apply in_app_or in K as [K|K]; [|cbn in K; destruct K as [K|[]]; discriminate].
    unfold target_ok in Hf. rewrite forallb_forall in Hf. specialize (Hf _ K). rewrite N.eqb_refl in Hf. discriminate. }
  assert (Edoc : doc = (FKP ++ f ++ RPc) ++ RB :: SP :: d) by (unfold doc, FKS; rewrite <- !app_assoc; reflexivity).
  assert (Efind : find [RB] doc = Z.of_nat (length (FKP ++ f ++ RPc))).
  { unfold find. rewrite Edoc, (find_from_skip1 RB _ _ 0%Z Nin). lia. }
  rewrite Efind.
  assert (Erest : slice_from doc (Z.of_nat (length (FKP ++ f ++ RPc)) + 1) = SP :: d).
  { replace (Z.of_nat (length (FKP ++ f ++ RPc)) + 1)%Z with (Z.of_nat (length ((FKP ++ f ++ RPc) ++ [RB]))) by (rewrite (app_length (FKP ++ f ++ RPc)); cbn [length]; lia).
    replace doc with (((FKP ++ f ++ RPc) ++ [RB]) ++ SP :: d) by (rewrite Edoc, <- app_assoc; reflexivity). apply slice_from_pre. }
  rewrite Erest, (lstrip_sp_head d Hh), (rstrip_dots_id d L).
  assert (Eval : slice doc 4 (Z.of_nat (length (FKP ++ f ++ RPc)) + 1 - 2) = f).
  { assert (E1 : (Z.of_nat (length (FKP ++ f ++ RPc)) + 1 - 2 = Z.of_nat (length FKP) + Z.of_nat (length f))%Z)
      by (rewrite !app_length; cbn [length FKP RPc]; lia).
    rewrite E1. change 4%Z with (Z.of_nat (length FKP)). unfold doc. apply slice_mid'. }
  rewrite Eval. destruct d as [|c r]; [discriminate|]. cbn [c_fk c_comment c_pk]. repeat split.
  unfold parse_col. cbn [c_type c_nullable c_comment c_pk c_fk c_default]. rewrite (base_of_ctype t Ht).
  unfold doc, FKP, FKS. cbn [app s2l]. rewrite <- ?app_assoc. reflexivity.
Qed.
