From CDD Require Import PyStr Norm.
Open Scope N_scope.

Lemma N_id_on_dom f p : dom03 p = true -> N f p = Some p.
Proof.
  destruct p as [t d]. unfold dom03, N. intro H. apply andb_true_iff in H as [Hw H]. rewrite Hw. cbn [snd] in H.
  destruct f, d; try discriminate; try reflexivity; try (destruct s; [discriminate|reflexivity]).
  cbn. rewrite Z.leb_le in H. destruct (z <? 0)%Z eqn:E; [apply Z.ltb_lt in E; exfalso; apply (Z.lt_irrefl z); eapply Z.lt_le_trans; eauto | reflexivity].
Qed.

(* any chain of conversions, of any length, gives back exactly the parameter it started with *)
Theorem chain_preserves fs : forall p, dom03 p = true -> chain fs p = Some p.
Proof.
  unfold chain. induction fs as [|f r IH]; intros p H; cbn [fold_left]; [reflexivity|].
  rewrite (N_id_on_dom f p H). apply IH. exact H.
Qed.

(* hence conversions commute: the result does not depend on which formats were visited *)
Corollary chains_commute fs gs p : dom03 p = true -> chain fs p = chain gs p.
Proof. intro H. rewrite !chain_preserves by exact H. reflexivity. Qed.

(* one round is a fixpoint wherever the model is defined ... except where stated below *)
Definition stable (f : fmt) (p : cparam) : Prop :=
  forall q, N f p = Some q -> N f q = Some q.

Theorem one_round_is_fixpoint f p : stable f p.
Proof.
  destruct p as [[o i] d]. intros q H. unfold N in H.
  destruct (well_typed (mkT o i, d)) eqn:W.
  - (* well-typed start: case analysis on the whole (finite) shape *)
    destruct f, d; cbn in H;
      repeat match goal with
             | H : Some _ = Some _ |- _ => injection H as <-
             | H : context [if ?b then _ else _] |- _ => destruct b eqn:?
             | H : context [match ?x with _ => _ end] |- _ => destruct x eqn:?
             end; try discriminate;
      unfold N; cbn in W |- *;
      repeat match goal with
             | |- context [if ?b then _ else _] => destruct b eqn:?
             | |- context [match ?x with _ => _ end] => destruct x eqn:?
             end; try reflexivity; try discriminate; try congruence.
  - destruct f; try discriminate. injection H as <-. unfold N. rewrite W. reflexivity.
Qed.

(* hence any number of further rounds changes nothing *)
Fixpoint rounds (n : nat) (f : fmt) (p : cparam) : option cparam :=
  match n with
  | O => Some p
  | S k => match N f p with Some q => rounds k f q | None => None end
  end.
Theorem rounds_stable f p q : N f p = Some q -> forall n, rounds n f q = Some q.
Proof.
  intros H n. induction n as [|n IH]; [reflexivity|]. cbn [rounds].
  rewrite (one_round_is_fixpoint f p q H). exact IH.
Qed.
