(* Lemmas about Model/Cst.v *)
From Coq Require Import Lia.
From CDD Require Import PyStr Cst.

Section Scanner.
  Variable C : Type.
  Variable is_nl : C -> bool.
  Variable is_comment has_triple is_other cut_here : list C -> bool.
  Local Notation split_other := (Cst.split_other C cut_here).
  Local Notation cst_scan := (Cst.cst_scan C is_comment has_triple is_other cut_here).
  Local Notation scanner_loop := (Cst.scanner_loop C is_nl is_comment has_triple is_other cut_here).

  Lemma split_other_concat : forall stmt expr acc,
    concat (split_other expr stmt acc) = concat acc ++ expr ++ stmt.
  Proof.
    induction stmt as [|c rest IH]; intros expr acc; cbn [Cst.split_other].
    - destruct expr; rewrite ?concat_app; cbn; rewrite ?app_nil_r; reflexivity.
    - destruct (cut_here (expr ++ [c])); rewrite IH.
      + rewrite concat_app. cbn. rewrite app_nil_r, <- !app_assoc. reflexivity.
      + rewrite <- !app_assoc. reflexivity.
  Qed.

  Lemma cst_scan_concat : forall scanned stack sc st,
    cst_scan scanned stack = (sc, st) -> concat sc ++ st = concat scanned ++ stack.
  Proof.
    unfold Cst.cst_scan; intros scanned stack sc st H.
    destruct (is_comment stack);
      [inversion H; subst; rewrite concat_app; cbn; rewrite !app_nil_r; reflexivity|].
    destruct (is_other stack);
      [inversion H; subst; rewrite split_other_concat; cbn; rewrite !app_nil_r; reflexivity|].
    destruct (has_triple stack); inversion H; subst; rewrite ?concat_app; cbn;
      rewrite ?app_nil_r; reflexivity.
  Qed.

  Lemma loop_concat : forall src scanned stack,
    concat (scanner_loop src scanned stack) = concat scanned ++ stack ++ src.
  Proof.
    induction src as [|c rest IH]; intros scanned stack; cbn [Cst.scanner_loop].
    - destruct (cst_scan scanned stack) as [sc st] eqn:E.
      apply cst_scan_concat in E.
      rewrite app_nil_r, <- E. destruct st; rewrite ?concat_app; cbn; rewrite ?app_nil_r; reflexivity.
    - destruct (is_nl c).
      + destruct (cst_scan scanned stack) as [sc st] eqn:E.
        apply cst_scan_concat in E.
        rewrite IH, <- app_assoc. cbn. rewrite app_assoc, E, <- app_assoc. reflexivity.
      + rewrite IH, <- app_assoc. reflexivity.
  Qed.

  Theorem cst_scanner_gen_lossless : forall src,
    concat (cst_scanner_gen C is_nl is_comment has_triple is_other cut_here src) = src.
  Proof. intro src. unfold cst_scanner_gen. rewrite loop_concat. reflexivity. Qed.

  (* no empty node is ever produced by the inner splitter *)
  Lemma split_other_nonempty : forall stmt expr acc,
    Forall (fun x => x <> []) acc -> Forall (fun x => x <> []) (split_other expr stmt acc).
  Proof.
    induction stmt as [|c rest IH]; intros expr acc H; cbn [Cst.split_other].
    - destruct expr; [exact H|]. apply Forall_app; split; [exact H|]. constructor; [discriminate|constructor].
    - destruct (cut_here (expr ++ [c])); apply IH; [|exact H].
      apply Forall_app; split; [exact H|]. constructor; [|constructor].
      destruct expr; discriminate.
  Qed.
End Scanner.

(* ---- cst_parser: values and tiling *)
Lemma parser_values_aux : forall scanned acc prev,
  map n_value (cst_parser_aux acc prev scanned) = scanned.
Proof.
  induction scanned as [|s r IH]; intros acc prev; cbn [cst_parser_aux map]; [reflexivity|].
  rewrite IH. f_equal. unfold parse_one_node.
  repeat match goal with |- context [if ?b then _ else _] => destruct b end;
  repeat match goal with |- context [match ?x with _ => _ end] => destruct x end; reflexivity.
Qed.

Lemma parse_one_node_fields : forall acc prev s,
  let n := parse_one_node acc prev s in
  n_start n = acc /\ n_end n = (acc + Z.of_nat (count_char NL s))%Z /\ n_value n = s.
Proof.
  intros acc prev s. unfold parse_one_node.
  repeat match goal with |- context [if ?b then _ else _] => destruct b end;
  repeat match goal with |- context [match ?x with _ => _ end] => destruct x end;
  cbn; auto.
Qed.

(* the line ranges chain: each node starts where the previous one ended *)
Fixpoint chain (a : Z) (l : list node) : Prop :=
  match l with
  | [] => True
  | n :: r => n_start n = a /\ chain (n_end n) r
  end.
Definition spans (n : node) : Prop :=
  (n_end n - n_start n)%Z = Z.of_nat (count_char NL (n_value n)).

Lemma parser_tiling_aux : forall scanned acc prev,
  chain acc (cst_parser_aux acc prev scanned) /\ Forall spans (cst_parser_aux acc prev scanned).
Proof.
  induction scanned as [|s r IH]; intros acc prev; cbn [cst_parser_aux chain]; [split; [exact I|constructor]|].
  destruct (parse_one_node_fields acc prev s) as (Hs & He & Hv).
  specialize (IH (n_end (parse_one_node acc prev s)) (n_kind (parse_one_node acc prev s))).
  destruct IH as [IH1 IH2]. split; [split; [exact Hs|exact IH1]|].
  constructor; [|exact IH2]. unfold spans. rewrite Hs, He, Hv. lia.
Qed.

Lemma count_char_app : forall c a b, count_char c (a ++ b) = (count_char c a + count_char c b)%nat.
Proof. induction a as [|x a IH]; intros b; cbn; [reflexivity|]. destruct (N.eqb x c); rewrite IH; reflexivity. Qed.

Fixpoint last_end (a : Z) (l : list node) : Z :=
  match l with [] => a | n :: r => last_end (n_end n) r end.

Lemma parser_last_end_aux : forall scanned acc prev,
  last_end acc (cst_parser_aux acc prev scanned) = (acc + Z.of_nat (count_char NL (concat scanned)))%Z.
Proof.
  induction scanned as [|s r IH]; intros acc prev; cbn [cst_parser_aux last_end concat].
  - cbn. lia.
  - rewrite IH. destruct (parse_one_node_fields acc prev s) as (_ & He & _). rewrite He.
    rewrite count_char_app. lia.
Qed.
