(* The NumPy round trip as text: what the docstring emitter writes for a description and its typed parameters is read back as that
   description and exactly those parameters. *)
From Coq Require Import Lia.
From CDD Require Import PyStr DocSplit RestDoc RestDocProofs RestDocIndentProofs FuncEmitProofs GoogleLine GoogleLineProofs GoogleHead GoogleHeadProofs
  GoogleScan GoogleScanProofs GoogleEmitProofs NumpyLine NumpyLineProofs NumpyScan NumpyScanProofs NumpyEmit.
Open Scope N_scope.

(* the entry's last written character is visible: its description's when it has one, else its type's *)
Definition ends_visible (e : nentry) : bool :=
  let '(n, t, d) := e in match d with Some x => tail_ok x | None => tail_ok t end.

Lemma join_app_ne : forall a b : list str, a <> [] -> b <> [] -> join [NL] (a ++ b) = join [NL] a ++ [NL] ++ join [NL] b.
Proof.
  assert (E : forall x y (t : list str), join [NL] (x :: y :: t) = x ++ [NL] ++ join [NL] (y :: t)) by reflexivity.
  induction a as [|x a IH]; intros b Ha Hb; [contradiction|]. destruct a as [|y a'].
  - cbn [app]. destruct b as [|b0 b']; [contradiction|]. rewrite E. reflexivity.
  - change ((x :: y :: a') ++ b) with (x :: y :: (a' ++ b)). rewrite !E. change (y :: a' ++ b) with ((y :: a') ++ b).
    rewrite IH by (try discriminate; exact Hb). rewrite <- !app_assoc. reflexivity.
Qed.

Lemma concat_ne (LL : list (list str)) : LL <> [] -> Forall (fun l => l <> []) LL -> concat LL <> [].
Proof.
  destruct LL as [|l r]; [contradiction|]. intros _ H. inversion H as [|? ? Hl _]; subst. cbn [concat]. intro K. apply app_eq_nil in K. destruct K. contradiction.
Qed.

Lemma join_concat : forall (LL : list (list str)), Forall (fun l => l <> []) LL -> join [NL] (map (join [NL]) LL) = join [NL] (concat LL).
Proof.
  induction LL as [|l r IH]; intro H; [reflexivity|]. inversion H as [|? ? Hl Hr]; subst.
  destruct r as [|l2 r2]; [cbn; rewrite app_nil_r; reflexivity|].
  assert (E : forall x y (t : list str), join [NL] (x :: y :: t) = x ++ [NL] ++ join [NL] (y :: t)) by reflexivity.
  change (map (join [NL]) (l :: l2 :: r2)) with (join [NL] l :: join [NL] l2 :: map (join [NL]) r2). rewrite E.
  change (join [NL] l2 :: map (join [NL]) r2) with (map (join [NL]) (l2 :: r2)). rewrite (IH Hr).
  change (concat (l :: l2 :: r2)) with (l ++ concat (l2 :: r2)).
  rewrite join_app_ne; [reflexivity | exact Hl | apply concat_ne; [discriminate | exact Hr]].
Qed.

Lemma splitlines_join_numpy_nl es : es <> [] -> forallb nentry_ok1 es = true ->
  splitlines (join [NL] (concat (map emit_nentry es)) ++ [NL]) = concat (map emit_nentry es).
Proof.
  intros Hne H. destruct (concat_last es Hne) as [_ L2].
  rewrite <- (join_snoc_empty _ L2). unfold splitlines. rewrite split_join.
  - match goal with |- context [last_opt ?X] => replace (last_opt X) with (Some (@nil char)) by (symmetry; apply last_opt_snoc) end. apply removelast_last.
  - destruct (concat (map emit_nentry es)); discriminate.
  - apply Forall_app. split; [|constructor; [reflexivity | constructor]].
    apply Forall_concat. apply Forall_forall. intros ls Hl. apply in_map_iff in Hl. destruct Hl as [e [<- He]].
    apply nentry_lines_one_line. rewrite forallb_forall in H. apply H. exact He.
Qed.

Theorem numpy_docstring_roundtrip_nl (pre H sep : str) (es : list nentry) :
  blank pre = true -> head_ok H = true -> head_ok (rev H) = true -> lacks DASH H = true -> blank sep = true ->
  es <> [] -> forallb nentry_ok1 es = true ->
  numpy_docstring (pre ++ H ++ sep ++ NPARAMS ++ [NL] ++ join [NL] (concat (map emit_nentry es)) ++ [NL]) = (H, map read_nentry es).
Proof.
  intros BP H1 H2 HC B Hne Hes. unfold numpy_docstring.
  destruct (numpy_head_general pre H sep ([NL] ++ join [NL] (concat (map emit_nentry es)) ++ [NL]) BP H1 H2 HC B) as [E1 E2].
  rewrite E1, E2. cbn [app skipn]. f_equal.
  unfold section_units. rewrite (splitlines_join_numpy_nl es Hne Hes).
  assert (OK : forallb nentry_ok es = true).
  { rewrite forallb_forall in *. intros e He. specialize (Hes e He). destruct e as [[n t] d]. unfold nentry_ok1 in Hes.
    apply andb_prop in Hes. destruct Hes as [Hes _]. apply andb_prop in Hes. destruct Hes as [Hes _]. apply andb_prop in Hes. tauto. }
  destruct (concat_last es Hne) as [_ L2].
  destruct (concat (map emit_nentry es)) as [|l0 r0] eqn:K; [contradiction|].
  assert (FI : indent_of l0 = O).
  { destruct es as [|[[n t] d] es']; [contradiction|]. cbn [map concat] in K. unfold emit_nentry, emit_numpy_param in K. cbn [app] in K.
    injection K as K0 _. rewrite <- K0.
    cbn [forallb] in OK. apply andb_prop in OK. destruct OK as [O1 _]. unfold nentry_ok in O1.
    apply andb_prop in O1. destruct O1 as [O1 _]. apply andb_prop in O1. destruct O1 as [O1 _]. apply andb_prop in O1. destruct O1 as [O1 _].
    apply andb_prop in O1. destruct O1 as [O1 _]. apply andb_prop in O1. destruct O1 as [O1 _]. apply indent_first. exact O1. }
  rewrite FI. rewrite <- K. rewrite (form_units_entries es [] Hes). cbn [fst app].
  exact (numpy_params_roundtrip es OK).
Qed.

(* the emitter's text, in closed form *)
Definition as_entry (e : nentry) : str * option str * option str := let '(n, t, d) := e in (n, Some t, d).

Lemma numpy_lines_eq es :
  map (fun e : str * option str * option str => join [NL] (emit_numpy_param true true (fst (fst e)) (snd (fst e)) (snd e))) (map as_entry es)
  = map (join [NL]) (map emit_nentry es).
Proof. rewrite map_map. rewrite map_map. apply map_ext. intros [[n t] d]. reflexivity. Qed.

Lemma tail_ok_join_snoc : forall (L : list str) l, tail_ok l = true -> tail_ok (join [NL] (L ++ [l])) = true.
Proof.
  assert (E : forall x y (t : list str), join [NL] (x :: y :: t) = x ++ [NL] ++ join [NL] (y :: t)) by reflexivity.
  induction L as [|x L IH]; intros l H; [exact H|].
  destruct (L ++ [l]) as [|y t] eqn:K; [destruct L; discriminate|].
  change ((x :: L) ++ [l]) with (x :: (L ++ [l])). rewrite K, E, <- K. rewrite !app_assoc. apply tail_ok_app_r. apply IH. exact H.
Qed.

Lemma entry_lines_visible e : ends_visible e = true -> tail_ok (join [NL] (emit_nentry e)) = true.
Proof.
  destruct e as [[n t] d]. unfold ends_visible, emit_nentry, emit_numpy_param. intro He. destruct d as [x|]; cbn [app].
  - apply (tail_ok_join_snoc [n ++ [SP; GCOLON; SP] ++ t] (TAB4 ++ x)). apply tail_ok_app_r. exact He.
  - apply (tail_ok_join_snoc [] (n ++ [SP; GCOLON; SP] ++ t)). apply tail_ok_app_r. apply tail_ok_app_r. exact He.
Qed.

Lemma last_visible : forall es, es <> [] -> forallb ends_visible es = true -> tail_ok (join [NL] (concat (map emit_nentry es))) = true.
Proof.
  induction es as [|e r IH]; intros Hne H; [contradiction|].
  cbn [forallb] in H. apply andb_prop in H. destruct H as [He Hr].
  destruct r as [|e2 r2].
  - cbn [map concat]. rewrite app_nil_r. apply entry_lines_visible. exact He.
  - change (concat (map emit_nentry (e :: e2 :: r2))) with (emit_nentry e ++ concat (map emit_nentry (e2 :: r2))).
    destruct (concat_last (e2 :: r2)) as [_ C]; [discriminate|].
    destruct (nentry_last_nonempty e) as [Ne _].
    rewrite join_app_ne by assumption. rewrite !app_assoc. apply tail_ok_app_r. apply IH; [discriminate | exact Hr].
Qed.

Theorem emit_numpy_text doc es : clean doc = true -> es <> [] -> forallb nentry_ok1 es = true -> forallb ends_visible es = true ->
  emit_numpy doc (map as_entry es) = doc ++ [NL; NL] ++ NPARAMS ++ [NL] ++ join [NL] (concat (map emit_nentry es)) ++ [NL].
Proof.
  intros Hd Hne H V. unfold emit_numpy, numpy_args.
  destruct (map as_entry es) as [|a0 as0] eqn:Ea; [destruct es; [contradiction | discriminate]|]. rewrite <- Ea.
  rewrite numpy_lines_eq.
  assert (NEl : Forall (fun l : list str => l <> []) (map emit_nentry es)).
  { apply Forall_forall. intros l Hl. apply in_map_iff in Hl. destruct Hl as [e [<- _]]. apply nentry_last_nonempty. }
  destruct (concat_last es Hne) as [_ L2].
  assert (J : join [NL] (NPARAMS :: map (join [NL]) (map emit_nentry es)) = NPARAMS ++ [NL] ++ join [NL] (concat (map emit_nentry es))).
  { rewrite <- (join_concat _ NEl). destruct (map (join [NL]) (map emit_nentry es)) as [|l0 r0] eqn:K; [|reflexivity].
    destruct es as [|e es']; [contradiction | discriminate]. }
  rewrite J.
  assert (T : tail_ok (NPARAMS ++ [NL] ++ join [NL] (concat (map emit_nentry es))) = true).
  { rewrite !app_assoc. apply tail_ok_app_r. apply last_visible; assumption. }
  rewrite (nls_end_tail_ok _ T). cbn [Nat.ltb Nat.leb]. rewrite app_nil_r.
  assert (NS : isspace (NPARAMS ++ [NL] ++ join [NL] (concat (map emit_nentry es))) = false) by reflexivity.
  rewrite NS.
  rewrite (haf_clean doc _ Hd) by (try reflexivity; left; exact T).
  rewrite T.
  destruct (clean_parts doc Hd) as [D1 _]. destruct doc as [|d0 dr]; [discriminate|].
  cbn [app].
  assert (NSP : is_space d0 = false) by (apply (head_ok_not_space d0 dr D1)).
  cbn [isspace forallb]. rewrite NSP. cbn [andb].
  match goal with |- context [Nat.eqb (count_char NL ?X) 0] =>
    replace (Nat.eqb (count_char NL X) 0) with false
      by (symmetry; apply Nat.eqb_neq; apply count_char_in; right; apply in_or_app; right; left; reflexivity) end.
  rewrite <- !app_assoc. reflexivity.
Qed.

Theorem numpy_emit_parse_roundtrip doc es :
  clean doc = true -> lacks DASH doc = true -> es <> [] -> forallb nentry_ok1 es = true -> forallb ends_visible es = true ->
  numpy_docstring (emit_numpy doc (map as_entry es)) = (doc, map read_nentry es).
Proof.
  intros Hd HD Hne H V. rewrite (emit_numpy_text doc es Hd Hne H V).
  destruct (clean_parts doc Hd) as [D1 [D2 _]].
  exact (numpy_docstring_roundtrip_nl [] doc [NL; NL] es eq_refl D1 D2 HD eq_refl Hne H).
Qed.

Example numpy_emit_example :
  emit_numpy (s2l "Load the dataset.") [(s2l "name", Some (s2l "str"), Some (s2l "dataset to load")); (s2l "batch_size", Some (s2l "int"), None)]
  = s2l "Load the dataset." ++ [NL; NL] ++ s2l "Parameters" ++ [NL] ++ s2l "----------" ++ [NL] ++ s2l "name : str" ++ [NL] ++ s2l "    dataset to load"
    ++ [NL] ++ s2l "batch_size : int" ++ [NL].
Proof. vm_compute. reflexivity. Qed.
