(* cdd/compound/openapi/emit.py:openapi + utils/emit_openapi_utils.py, and the component-key
   derivation of gen_openapi.openapi_bulk.  Definitions only. *)
From CDD Require Import PyStr.
Open Scope N_scope.

Inductive json := JS (s : str) | JB (b : bool) | JO (kv : list (str * json)) | JA (l : list json).

Definition L (s : string) : str := s2l s.
Definition k_ref : str := L "$ref".

(* every string stored under a "$ref" key, anywhere in the tree *)
Fixpoint refs (j : json) : list str :=
  match j with
  | JS _ | JB _ => []
  | JA l => (fix go (l : list json) : list str := match l with [] => [] | x :: r => refs x ++ go r end) l
  | JO kv => (fix go (kv : list (str * json)) : list str :=
                match kv with
                | [] => []
                | (k, v) :: r =>
                    (match v with JS s => if str_eqb k k_ref then [s] else [] | _ => [] end) ++ refs v ++ go r
                end) kv
  end.

(* Python dict assignment d[k] = v on an insertion-ordered association list *)
Fixpoint dset {V} (k : str) (v : V) (d : list (str * V)) : list (str * V) :=
  match d with
  | [] => [(k, v)]
  | (a, w) :: r => if str_eqb k a then (a, v) :: r else (a, w) :: dset k v r
  end.
Definition keys {V} (d : list (str * V)) : list str := map fst d.

Definition schema_ref (name : str) : str := L "#/components/schemas/" ++ name.
Definition body_ref (name : str) : str := L "#/components/requestBodies/" ++ name ++ L "Body".
Definition server_error : str := L "ServerError".
Definition a_object (name : str) : str := L "A `" ++ name ++ L "` object.".

Definition content_schema (name : str) : json :=
  JO [(L "application/json", JO [(L "schema", JO [(k_ref, JS (schema_ref name))])])].
Definition response (descr : str) (name : str) : json :=
  JO [(L "description", JS descr); (L "content", content_schema name)].
Definition server_error_response : json := response (L "A `ServerError` object.") server_error.

Definition post_op (name : str) : json :=
  JO [(L "summary", JS (a_object name));
      (L "requestBody", JO [(L "required", JB true); (k_ref, JS (body_ref name))]);
      (L "responses", JO [(L "201", response (a_object name) name); (L "400", server_error_response)])].
Definition get_op (name : str) : json :=
  JO [(L "summary", JS (a_object name));
      (L "responses", JO [(L "200", response (a_object name) name); (L "404", server_error_response)])].
Definition delete_op (name : str) : json :=
  JO [(L "summary", JS (L "Delete one `" ++ name ++ L "`")); (L "responses", JO [(L "204", JO [])])].
Definition path_parameter (name id : str) : json :=
  JO [(L "name", JS id); (L "in", JS (L "path"));
      (L "description", JS (L "Primary key of target `" ++ name ++ L "`"));
      (L "required", JB true); (L "schema", JO [(L "type", JS (L "string"))])].
Definition request_body (name : str) : json :=
  JO [(L "description", JS (a_object name)); (L "required", JB true); (L "content", content_schema name)].

(* one path item, structurally *)
Inductive pitem := PCollection (name : str) | PItem (name id : str) (has_get has_delete : bool).
Definition render_pitem (p : pitem) : json :=
  match p with
  | PCollection n => JO [(L "post", post_op n)]
  | PItem n id g d =>
      JO ([(L "parameters", JA [path_parameter n id])]
          ++ (if g then [(L "get", get_op n)] else []) ++ (if d then [(L "delete", delete_op n)] else []))
  end.

Record entry := mkEntry { e_name : str; e_model : list (str * json); e_route : str; e_id : str; e_crud : str }.
Record state := mkState { st_paths : list (str * pitem); st_schemas : list (str * list (str * json)); st_bodies : list (str * str) }.

Definition has (c : ascii) (crud : str) : bool := existsb (ceq (ch c)) crud.
Definition crud_valid (crud : str) : bool := forallb (fun c => existsb (ceq c) (L "CRUD")) crud.
Definition strip_dollar (m : list (str * json)) : list (str * json) :=
  filter (fun kv => negb (startswith (L "$") (fst kv))) m.
Definition item_route (route id : str) : str := route ++ L "/{" ++ id ++ L "}".

(* components_paths_from_name_model_route_id_crud *)
Definition step (st : state) (e : entry) : state :=
  let n := e_name e in
  let c := has "C" (e_crud e) in
  let paths1 := if c then dset (e_route e) (PCollection n) (st_paths st) else st_paths st in
  let paths2 := if crud_valid (e_crud e)
                then dset (item_route (e_route e) (e_id e)) (PItem n (e_id e) (has "R" (e_crud e)) (has "D" (e_crud e))) paths1
                else paths1 in
  mkState paths2 (dset n (strip_dollar (e_model e)) (st_schemas st))
          (if c then dset (n ++ L "Body") n (st_bodies st) else st_bodies st).

Definition init (server_error_schema : list (str * json)) : state :=
  mkState [] [(server_error, strip_dollar server_error_schema)] [].
Definition run (ses : list (str * json)) (entries : list entry) : state := fold_left step entries (init ses).

Definition render (st : state) : json :=
  JO [(L "openapi", JS (L "3.0.0"));
      (L "info", JO [(L "version", JS (L "0.0.1")); (L "title", JS (L "REST API"))]);
      (L "components", JO [(L "requestBodies", JO (map (fun kb => (fst kb, request_body (snd kb))) (st_bodies st)));
                           (L "schemas", JO (map (fun ks => (fst ks, JO (snd ks))) (st_schemas st)))]);
      (L "paths", JO (map (fun kp => (fst kp, render_pitem (snd kp))) (st_paths st)))].
Definition openapi (ses : list (str * json)) (entries : list entry) : json := render (run ses entries).

(* what "defined in the same document" means *)
Definition defined (st : state) (r : str) : Prop :=
  (exists n, r = schema_ref n /\ In n (keys (st_schemas st))) \/
  (exists n, r = body_ref n /\ In (n ++ L "Body") (keys (st_bodies st))).

(* structural view of the refs of one path item *)
Definition pitem_refs (p : pitem) : list str :=
  match p with
  | PCollection n => [body_ref n; schema_ref n; schema_ref server_error]
  | PItem n _ g _ => if g then [schema_ref n; schema_ref server_error] else []
  end.

(* the component key openapi_bulk derives from a table name: name.replace("_tbl", "", 1).title() *)
Definition bulk_component_key (table_name : str) : str := title (replace1 (L "_tbl") [] table_name).
