(* The line scanner of cdd/shared/docstring_parsers.py:_scan_phase_numpydoc_and_google for the parameter section (style google, text
   without a return section): the lines after the "Args:" token are grouped into units by their indentation -- the indentation of the
   first line starts a unit, deeper lines continue it, a shallower line (a blank line included) ends the section.  Together with
   Model/GoogleHead.v (where the section starts) and Model/GoogleLine.v (what a unit says).  Definitions only. *)
From CDD Require Import PyStr GoogleLine GoogleHead.
Open Scope N_scope.

(* str.splitlines for texts whose only line break is "\n": no empty last line *)
Definition splitlines (s : str) : list str :=
  let l := split_char NL s in
  match last_opt l with Some [] => removelast l | _ => l end.

Fixpoint indent_of (s : str) : nat := match s with c :: r => if is_space c then S (indent_of r) else O | [] => O end.

Definition append_last (acc : list (list str)) (l : str) : list (list str) :=
  match rev acc with [] => [[l]] | u :: r => rev r ++ [u ++ [l]] end.

(* -> (units, the lines from the first shallower one on) *)
Fixpoint form_units (fi : nat) (lines : list str) (acc : list (list str)) : list (list str) * list str :=
  match lines with
  | [] => (acc, [])
  | l :: r => let i := indent_of l in
              if Nat.eqb i fi then form_units fi r (acc ++ [[l]])
              else if Nat.ltb i fi then (acc, l :: r)
              else form_units fi r (append_last acc l)
  end.

Definition section_units (rest : str) : list (list str) * list str :=
  let lines := splitlines rest in
  form_units (match lines with l :: _ => indent_of l | [] => O end) lines [].

(* a unit of several lines: the continuation lines are part of the description *)
Definition google_unit (u : list str) : unit_result :=
  match u with
  | [] => UStop
  | first :: more =>
      match parse_google_unit first, break_at GCOLON first with
      | UOk n t _, Some (_, post) => UOk n t (strip (join [NL] (lstrip post :: more)))
      | r, _ => r
      end
  end.

Definition unit_is_afterward (u : list str) : bool := match u with f :: _ => is_afterward f | [] => false end.

(* the description and the parameters of a Google docstring that has an "Args:" section and nothing after it *)
Definition google_docstring (text : str) : str * params_result :=
  match google_scan_head text with
  | (_, None) => (google_ir_doc text, PList [])
  | (_, Some rest) =>
      (google_ir_doc text, collect_units (map google_unit (take_until unit_is_afterward (fst (section_units rest)))))
  end.
