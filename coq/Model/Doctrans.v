(* doctrans write-back: (1) in-place replacement of CST nodes, (2) the header re-print of
   cdd/shared/ast_cst_utils.py:maybe_replace_function_args, (3) the order of package calls and the file write in
   cdd/compound/doctrans.py:doctrans.  Definitions only. *)
From CDD Require Import PyStr DocSplit.
Open Scope N_scope.

(* (1) replacing the text of the nodes at given indices *)
Fixpoint set_nth {A} (i : nat) (v : A) (l : list A) : list A :=
  match l, i with
  | [], _ => []
  | _ :: r, O => v :: r
  | x :: r, S k => x :: set_nth k v r
  end.
Definition apply_repl (repl : list (nat * str)) (nodes : list str) : list str :=
  fold_left (fun acc iv => set_nth (fst iv) (snd iv) acc) repl nodes.

(* (2) the header re-print *)
Definition rfind (p s : str) : Z :=
  match find (rev p) (rev s) with
  | Zneg _ => (-1)%Z
  | z => (slen s - z - slen p)%Z
  end.
Definition find_from_idx (p s : str) (i : Z) : Z :=      (* s.find(p, i) for i >= 0 *)
  match find p (slice_from s i) with Zneg _ => (-1)%Z | z => (z + Z.min i (slen s))%Z end.
Definition render_arg (a : str * option str) : str :=
  match snd a with None => fst a | Some ann => fst a ++ s2l ": " ++ ann end.

Definition header_reprint (value : str) (new_args : list (str * option str)) : str :=
  let fstart :=
    if startswith (s2l "def ") value then 4%Z
    else ((let i := find (s2l " def ") value in if (i =? -1)%Z then find (s2l ")def ") value else i) + 4 + 1)%Z in
  let arg_start := find_from_idx (s2l "(") value fstart in
  let func_end0 := rfind (s2l ":") value in
  let rt := rfind (s2l "->") (slice_to value func_end0) in
  let func_end1 := if (-1 <? rt)%Z then rt else func_end0 in
  let func_end := (rfind (s2l ")") (slice_to value func_end1) + 1)%Z in
  slice_to value (arg_start + 1) ++ join (s2l ", ") (map render_arg new_args) ++ slice_from value (func_end - 1).

(* (3) program order of doctrans(): package calls (any of which may raise) and the opening of the file for writing *)
Inductive ev := ECall (callee : str) | EOpenWrite | EOtherCall (callee : str).
(* the file is truncated before the failure iff an open-for-write precedes the raising call *)
Definition truncated_when_raising_at (items : list ev) (i : nat) : bool :=
  existsb (fun e => match e with EOpenWrite => true | _ => false end) (firstn i items).
Fixpoint atomic (seen_open : bool) (items : list ev) : bool :=
  match items with
  | [] => true
  | ECall _ :: r => negb seen_open && atomic seen_open r
  | EOpenWrite :: r => atomic true r
  | EOtherCall _ :: r => atomic seen_open r
  end.

(* (4) maybe_replace_function_return_type: the two string edits of a def header *)
Definition remove_return_typ (statement : str) : str :=
  rstrip (slice_to statement (rfind (s2l "->") statement)) ++ s2l ":".
Definition rpartition_colon (s : str) : str * str * str :=
  match rfind (s2l ":") s with
  | Zneg _ => ([], [], s)
  | i => (slice_to s i, s2l ":", slice_from s (i + 1))
  end.
Definition add_return_typ (statement return_typ : str) : str :=
  let '(pre, col, post) := rpartition_colon statement in
  pre ++ s2l " -> " ++ return_typ ++ col ++ post.
(* cur / new: the return annotation before and after (None = absent); None result = header left alone *)
Definition retype_header (value : str) (cur new : option str) : option str :=
  match cur, new with
  | None, None => None
  | Some c, Some n => if str_eqb c n then None else Some (add_return_typ (remove_return_typ value) n)
  | Some _, None => Some (remove_return_typ value)
  | None, Some n => Some (add_return_typ value n)
  end.

(* (5) find_cst_at_ast: the first CST node whose line window contains the AST node's line and whose kind and name agree *)
Record cnode := { c_start : Z; c_end : Z; c_kind : str; c_name : option str }.
Definition opt_str_eqb (a b : option str) : bool :=
  match a, b with Some x, Some y => str_eqb x y | None, None => true | _, _ => false end.
Definition cst_matches (lineno : Z) (kind : str) (name : option str) (c : cnode) : bool :=
  (c_start c <=? lineno)%Z && (lineno <=? c_end c)%Z && str_eqb (c_kind c) kind && opt_str_eqb (c_name c) name.
Fixpoint find_cst_from (i : nat) (l : list cnode) (lineno : Z) (kind : str) (name : option str) : option nat :=
  match l with
  | [] => None
  | c :: r => if cst_matches lineno kind name c then Some i else find_cst_from (S i) r lineno kind name
  end.
Definition find_cst (l : list cnode) (lineno : Z) (kind : str) (name : option str) : option nat := find_cst_from O l lineno kind name.

(* (6) maybe_replace_doc_str_in_function_or_class: insert / delete / replace the node after the def header *)
Inductive edit := ENop | EInsertAfter (v : str) | EDeleteAfter | EReplaceAfter (v : str).

Definition apply_edit (e : edit) (i : nat) (l : list str) : list str :=
  match e with
  | ENop => l
  | EInsertAfter v => firstn (S i) l ++ v :: skipn (S i) l
  | EDeleteAfter => firstn (S i) l ++ skipn (S (S i)) l
  | EReplaceAfter v => firstn (S i) l ++ v :: skipn (S (S i)) l
  end.

Definition TQ : str := [34; 34; 34].
Definition omit_whitespace (s : str) : str := filter (fun c => negb ((c =? SP) || (c =? NL) || (c =? 9))) s.
Definition tab_len : Z := 4.

(* formatted_doc_str: the text of the new docstring node, indented like the node that follows the header *)
Definition formatted_doc_str (after_value doc : str) : str :=
  let s0 := lstrip_chars [NL] after_value in
  let ind := count_leading_space s0 in
  let space := firstn ind s0 in
  let prefix := slice s0 0 (Z.of_nat ind - tab_len) in
  let body := rstrip (join [NL] (map (fun line => prefix ++ line) (split_char NL doc))) in
  [NL] ++ space ++ TQ ++ body ++ [NL] ++ space ++ TQ.

(* after = the node after the header: its text and whether it is a docstring-flagged triple-quoted node *)
Definition doc_edit (new_doc : str) (after_value : str) (after_is_docstr : bool) : edit :=
  match new_doc, after_is_docstr with
  | [], false => ENop
  | [], true => EDeleteAfter
  | _, false => EInsertAfter (formatted_doc_str after_value new_doc)
  | _, true =>
      let cur := slice (strip after_value) 3 (-3) in
      if str_eqb (omit_whitespace cur) (omit_whitespace new_doc) then ENop else EReplaceAfter (formatted_doc_str after_value new_doc)
  end.
