(* cdd/docstring/utils/parse_utils.py : _parse_adhoc_doc_for_typ_phase0, transcribed.
   This is the "word character whitelist" in front of the one eval on analysed data
   (docstring_parsers.__set_name_and_type_handle_doc_in_param).  Definitions only. *)
From CDD Require Import PyStr.
Open Scope N_scope.

(* word_chars = digits + ascii_letters + backtick, single quote, double quote, slash, bar *)
Definition is_word_char (c : char) : bool :=
  is_ascii_alnum c || (c =? 96) || (c =? 39) || (c =? 34) || (c =? 47) || (c =? 124).
Definition is_sep_char (c : char) : bool := (c =? 46) || (c =? 59) || (c =? 44).   (* . ; , *)
Definition DOT : char := 46.
Definition BACKTICK : char := 96.

(* every character that can end up in [words] *)
Definition allowed (c : char) : bool := is_word_char c || is_sep_char c || is_space c.

(* loop state: closed words in reverse order, the open word in reverse order,
   sentence_ends (-1 = unset), break_the_union *)
Record st := mkSt { closed_rev : list str; cur_rev : str; sent_ends : Z; btu : bool }.

Definition step (prev : option char) (i : nat) (c : char) (next : option char) (s : st) : st :=
  let dot_joins :=
    (c =? DOT)
    && match next with Some n => is_word_char n | None => false end
    && (Nat.eqb i 1 || match prev with Some p => negb (p =? BACKTICK) | None => true end) in
  if is_word_char c || dot_joins then
    mkSt (closed_rev s) (c :: cur_rev s) (sent_ends s) (btu s)
  else if is_sep_char c || is_space c then
    let closed' := [c] :: rev (cur_rev s) :: closed_rev s in
    let se := if (c =? DOT) && (sent_ends s =? -1)%Z then Z.of_nat (length closed') else sent_ends s in
    let b := if (c =? DOT) && (sent_ends s =? -1)%Z then btu s else if c =? 59 then true else btu s in
    mkSt closed' [] se b
  else s.

(* [prev] is doc[i-1] with Python's negative indexing: for i = 0 it is the LAST character *)
Fixpoint loop (prev : option char) (i : nat) (rest : str) (s : st) : st :=
  match rest with
  | [] => s
  | c :: r => loop (Some c) (S i) r (step prev i c (match r with n :: _ => Some n | [] => None end) s)
  end.

Definition words_of_doc (doc : str) : list str * Z * bool :=
  let s := loop (last_opt doc) 0 doc (mkSt [] [] (-1)%Z false) in
  (rev (rev (cur_rev s) :: closed_rev s), sent_ends s, btu s).

(* generic Python slice l[a:b] *)
Definition lslice {A} (l : list A) (a b : Z) : list A :=
  let n := Z.of_nat (length l) in
  let a' := norm_idx n a in
  let b' := norm_idx n b in
  firstn (Z.to_nat (b' - a')) (skipn (Z.to_nat a') l).
Definition lslice_from {A} (l : list A) (a : Z) : list A :=
  skipn (Z.to_nat (norm_idx (Z.of_nat (length l)) a)) l.

Definition s_or : str := s2l " or ".
Definition s_of : str := s2l " of ".
Definition has_or_of (s : str) : bool := contains s_or s || contains s_of s.

(* str.isidentifier() restricted to what a word can contain (ASCII) *)
Definition is_ident_start (c : char) : bool := is_ascii_alpha c || (c =? 95).
Definition is_identifier (s : str) : bool :=
  match s with
  | [] => false
  | c :: r => is_ident_start c && forallb (fun x => is_ascii_alnum x || (x =? 95)) r
  end.

(* the for-loop over sliding_window(words[sentence_starts:], 2): returns the final sentence_ends *)
Fixpoint snd_sentence_end (ws : list str) (se : Z) : Z :=
  match ws with
  | a :: ((b :: _) as r) =>
      let se' := (se + 1)%Z in
      if str_eqb a [DOT] && negb (is_identifier b) then se' else snd_sentence_end r se'
  | _ => se
  end.

Definition adhoc_type_table : list (str * str) :=
  map (fun p => (s2l (fst p), s2l (snd p)))
  [ ("bool", "bool"); ("boolean", "bool"); ("dict", "dict"); ("dictionary", "dict"); ("false", "bool");
    ("filename", "str"); ("float", "float"); ("frequency", "int"); ("integer", "int"); ("int64", "int");
    ("`int64`castable", "int"); ("list", "list"); ("number", "int"); ("path", "str"); ("quantity", "int");
    ("str", "str"); ("string", "str"); ("true", "bool"); ("tuple", "Tuple"); ("whether", "bool") ]%string.

Fixpoint assoc (k : str) (t : list (str * str)) : option str :=
  match t with
  | [] => None
  | (a, b) :: r => if str_eqb k a then Some b else assoc k r
  end.
Fixpoint first_some {A B} (f : A -> option B) (l : list A) : option B :=
  match l with
  | [] => None
  | x :: r => match f x with Some y => Some y | None => first_some f r end
  end.

Record phase0_result := mkP0 { p_candidate : option str; p_fst : str; p_sentence : option str; p_words : list str }.

Definition phase0 (doc : str) : phase0_result :=
  let '(words, se, b) := words_of_doc doc in
  let cand := first_some (fun w => assoc w adhoc_type_table) words in
  let start := if b && (2 <? Z.of_nat (length words))%Z then 2%Z else 0%Z in
  let fst_sentence := concat (lslice words start se) in
  let sentence :=
    if has_or_of fst_sentence then Some fst_sentence
    else
      let se2 := snd_sentence_end (lslice_from words se) se in
      let snd_sentence := concat (lslice words se se2) in
      if has_or_of snd_sentence then Some snd_sentence else None in
  mkP0 cand fst_sentence sentence words.
