(* cdd/compound/gen_utils.py: naming of generated symbols, __all__ accumulation and the
   re-ordering of the generated module body.  Definitions only. *)
From CDD Require Import PyStr.
Open Scope N_scope.

(* name_tpl = pre ++ "{name}" ++ suf *)
Definition fmt (pre suf name : str) : str := pre ++ name ++ suf.

Definition kwlist : list str := map s2l
  [ "False"; "None"; "True"; "and"; "as"; "assert"; "async"; "await"; "break"; "class"; "continue"; "def"; "del";
    "elif"; "else"; "except"; "finally"; "for"; "from"; "global"; "if"; "import"; "in"; "is"; "lambda"; "nonlocal";
    "not"; "or"; "pass"; "raise"; "return"; "try"; "while"; "with"; "yield" ]%string.
Definition iskeyword (s : str) : bool := mem_str s kwlist.
Definition valid_ident_char (c : char) : bool := is_ascii_alnum c || (c =? 95).

(* pure_utils.ensure_valid_identifier *)
Definition ensure_valid_identifier (s : str) : str :=
  match s with
  | [] => [95]
  | c :: _ =>
      if iskeyword s then s ++ [95]
      else
        let s' := if is_ascii_digit c then 95 :: s else s in
        match filter valid_ident_char s' with [] => [95] | r => r end
  end.

(* get_functions_and_classes: one emitted symbol per entry, global__all__ gets the formatted name *)
Definition all_names (pre suf : str) (names : list str) : list str := map (fmt pre suf) names.
Definition symbol_names (pre suf : str) (names : list str) : list str :=
  map (fun n => ensure_valid_identifier (fmt pre suf n)) names.

Definition plain_identifier (s : str) : bool :=
  match s with
  | [] => false
  | c :: _ => negb (is_ascii_digit c) && forallb valid_ident_char s && negb (iskeyword s)
  end.

(* gen_module: body re-ordering.  A node is the docstring expression, an import (from __future__ or
   not) or anything else; payload = position in the generated text. *)
Inductive node := NImport (future : bool) (id : nat) | NOther (id : nat).
Definition is_import (n : node) : bool := match n with NImport _ _ => true | _ => false end.
Definition is_future (n : node) : bool := match n with NImport true _ => true | _ => false end.
Definition is_plain_import (n : node) : bool := match n with NImport false _ => true | _ => false end.

Definition reorder (has_doc : bool) (body : list node) : list node :=
  (if has_doc then firstn 1 body else [])
  ++ filter is_future body ++ filter is_plain_import body
  ++ filter (fun n => negb (is_import n)) (if has_doc then tl body else body).
