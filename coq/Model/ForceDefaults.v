(* The rule that makes the defaults of a Google / NumPy docstring a suffix of the parameter list:
   cdd/shared/docstring_parsers.py:_parse_phase_numpydoc_and_google._interpolate_defaults_and_force_future_default over
   cdd/docstring/utils/emit_utils.py:interpolate_defaults -- once a parameter carries a default, every LATER parameter without one is
   given the zero value of its simple type (NoneStr when the type is not simple).  A parameter is its type and the default its own
   description announced (None: none); the announced default is opaque here.  Definitions only. *)
From CDD Require Import PyStr.
Open Scope N_scope.

Section Force.
Variable D : Type.                                   (* an announced default *)

Inductive forced := FOwn (d : D) | FZero (typ : str) | FNoneStr.      (* the parameter's own / simple_types[typ] / NoneStr *)

Definition is_simple (t : str) : bool :=
  str_eqb t (s2l "int") || str_eqb t (s2l "float") || str_eqb t (s2l "complex") || str_eqb t (s2l "str") || str_eqb t (s2l "bool").

(* interpolate_defaults on one parameter *)
Definition interpolate (require_default : bool) (p : option str * option D) : option forced :=
  match snd p with
  | Some d => Some (FOwn d)
  | None => if require_default then Some (match fst p with Some t => if is_simple t then FZero t else FNoneStr | None => FNoneStr end)
            else None
  end.

(* the map with its sticky flag *)
Fixpoint force_future (require_default : bool) (ps : list (option str * option D)) : list (option forced) :=
  match ps with
  | [] => []
  | p :: r => let x := interpolate require_default p in
              x :: force_future (require_default || match x with Some _ => true | None => false end) r
  end.
End Force.
