(* Reading one `argument_parser.add_argument(...)` call back into a parameter: cdd/argparse_function/utils/emit_utils.py:parse_out_param
   (with _handle_value / _handle_keyword), emit_default_doc on (the default), require_default off.  The call is carried as the record of
   its keywords; a Python value as its repr, its str and whether it is an empty sized object.  Definitions only. *)
From CDD Require Import PyStr ExtractDefault.
Open Scope N_scope.

Record pyval := { v_repr : str; v_str : str; v_empty : bool; v_is_str : bool }.
Inductive adefault := ANoneStr | AVal (v : pyval) | AFromDoc (text : str).     (* AFromDoc: the text extract_default found in the help *)

Record argcall := {
  a_name : str;                       (* the option without its leading "--" *)
  a_type : option str;                (* type=<Name>: the name *)
  a_choices : option (list pyval);    (* choices=(...) *)
  a_help : option str;
  a_required : bool;
  a_default : option pyval;           (* default=<value>; None when the keyword is absent or its value is None *)
  a_action : option str }.

Record aparam := { r_name : str; r_doc : option str; r_typ : str; r_default : option adefault }.

Definition simple_default (typ : str) : option pyval :=
  if str_eqb typ (s2l "int") then Some {| v_repr := s2l "0"; v_str := s2l "0"; v_empty := false; v_is_str := false |}
  else if str_eqb typ (s2l "float") then Some {| v_repr := s2l "0.0"; v_str := s2l "0.0"; v_empty := false; v_is_str := false |}
  else if str_eqb typ (s2l "complex") then Some {| v_repr := s2l "0j"; v_str := s2l "0j"; v_empty := false; v_is_str := false |}
  else if str_eqb typ (s2l "str") then Some {| v_repr := s2l "''"; v_str := []; v_empty := true; v_is_str := true |}
  else if str_eqb typ (s2l "bool") then Some {| v_repr := s2l "False"; v_str := s2l "False"; v_empty := false; v_is_str := false |}
  else None.

Definition handle_value (t : str) : str := if str_eqb t (s2l "loads") then s2l "Optional[dict]" else t.

(* _handle_keyword: Literal[...] for a simple type (members quoted when the type is str), Union[...] otherwise; members in the order
   of the tuple.  Without the quoting the members go to ", ".join(...) as they are: a member that is not a str raises TypeError (None) *)
Definition handle_choices (elts : list pyval) (typ : str) : option str :=
  let simple := match simple_default typ with Some _ => true | None => false end in
  let quote_ := simple && str_eqb typ (s2l "str") in
  if quote_ || forallb v_is_str elts then
    Some ((if simple then s2l "Literal" else s2l "Union") ++ s2l "["
          ++ join (s2l ", ") (map (fun v => if quote_ then s2l "'" ++ v_str v ++ s2l "'" else v_str v) elts) ++ s2l "]")
  else None.

Definition DOTC : char := 46.

Definition parse_out_param (c : argcall) : option aparam :=
  let typ0 := match a_type c with Some t => handle_value t | None => s2l "str" end in
  let doc0 :=
    match a_help c with
    | None => None
    | Some h =>
        match a_default c with
        | None => Some h
        | Some d =>
            if v_empty d || contains (s2l "defaults to") h || contains (s2l "Defaults to") h then Some h
            else Some ((if endswith [DOTC] h then h else h ++ [DOTC]) ++ s2l " Defaults to " ++ v_str d)
        end
    end in
  let '(doc1, default1) :=
    match a_default c with
    | Some d => (doc0, Some (AVal d))
    | None => match doc0 with
              | Some h => let '(h', t) := extract_default_text h true in (Some h', option_map AFromDoc t)
              | None => (None, None)        (* extract_default(None) *)
              end
    end in
  let default2 :=
    match default1 with
    | Some d => Some d
    | None => if a_required c then Some (match simple_default typ0 with Some v => AVal v | None => ANoneStr end) else None
    end in
  match (match a_choices c with Some elts => handle_choices elts typ0 | None => Some typ0 end) with
  | None => None
  | Some typ1 =>
      let typ2 := match a_action c with Some a => if str_eqb a (s2l "append") then s2l "List[" ++ typ1 ++ s2l "]" else typ1 | None => typ1 end in
      let typ3 := if negb (a_required c) && negb (contains (s2l "Optional") typ2) then s2l "Optional[" ++ typ2 ++ s2l "]" else typ2 in
      Some {| r_name := a_name c; r_doc := doc1; r_typ := typ3; r_default := default2 |}
  end.
