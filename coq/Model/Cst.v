(* Model of cdd/shared/cst_utils.py: cst_scanner, cst_scan, cst_parser, cst_parse_one_node,
   infer_cst_type, get_construct_name; cdd/shared/pure_utils.py: balanced_parentheses,
   is_triple_quoted.  Definitions only. *)
From CDD Require Import PyStr.
Open Scope N_scope.

(* ---------------------------------------------------------------- parametric scanner *)
Section Scanner.
  Variable C : Type.
  Variable is_nl : C -> bool.
  (* the lexical decisions of cst_scan, as opaque predicates on the joined stack *)
  Variable is_comment has_triple is_other : list C -> bool.
  (* inner loop of the is_other_statement branch: cut after this expression? *)
  Variable cut_here : list C -> bool.

  Fixpoint split_other (expr : list C) (stmt : list C) (acc : list (list C)) : list (list C) :=
    match stmt with
    | [] => match expr with [] => acc | _ => acc ++ [expr] end
    | c :: rest =>
        let e := expr ++ [c] in
        if cut_here e then split_other [] rest (acc ++ [e]) else split_other e rest acc
    end.

  Definition cst_scan (scanned : list (list C)) (stack : list C) : list (list C) * list C :=
    if is_comment stack then (scanned ++ [stack], [])
    else if is_other stack then (split_other [] stack scanned, [])
    else if has_triple stack then (scanned ++ [stack], [])
    else (scanned, stack).

  Fixpoint scanner_loop (src : list C) (scanned : list (list C)) (stack : list C) : list (list C) :=
    match src with
    | [] => let '(sc, st) := cst_scan scanned stack in
            match st with [] => sc | _ => sc ++ [st] end
    | c :: rest =>
        let '(sc, st) := if is_nl c then cst_scan scanned stack else (scanned, stack) in
        scanner_loop rest sc (st ++ [c])
    end.
  Definition cst_scanner_gen (src : list C) : list (list C) := scanner_loop src [] [].
End Scanner.

(* ---------------------------------------------------------------- the real predicates *)
Definition QS : char := 39. (* single quote *)
Definition QD : char := 34. (* double quote *)
Definition BSL : char := 92. (* backslash *)
Definition HASH : char := 35.
Definition AT : char := 64.
Definition COLON : char := 58.
Definition TQS : str := [QS; QS; QS].
Definition TQD : str := [QD; QD; QD].

Definition is_triple_quoted (s : str) : bool :=
  (5 <? length s)%nat &&
  ((startswith TQS s && endswith TQS s) || (startswith TQD s && endswith TQD s)).

(* balanced_parentheses: three differences instead of six counters *)
Record bp_state := { bp_q : option char; bp_prev : option char; bp_r : Z; bp_s : Z; bp_c : Z }.
Definition bp_step (st : bp_state) (c : char) : bp_state :=
  let st' :=
    match bp_q st with
    | Some q =>
        if N.eqb c q && (match bp_prev st with Some p => negb (N.eqb p BSL) | None => true end)
        then {| bp_q := None; bp_prev := bp_prev st; bp_r := bp_r st; bp_s := bp_s st; bp_c := bp_c st |}
        else st
    | None =>
        if N.eqb c QS || N.eqb c QD
        then {| bp_q := Some c; bp_prev := bp_prev st; bp_r := bp_r st; bp_s := bp_s st; bp_c := bp_c st |}
        else if N.eqb c 40 then {| bp_q := None; bp_prev := bp_prev st; bp_r := (bp_r st + 1)%Z; bp_s := bp_s st; bp_c := bp_c st |}
        else if N.eqb c 41 then {| bp_q := None; bp_prev := bp_prev st; bp_r := (bp_r st - 1)%Z; bp_s := bp_s st; bp_c := bp_c st |}
        else if N.eqb c 91 then {| bp_q := None; bp_prev := bp_prev st; bp_r := bp_r st; bp_s := (bp_s st + 1)%Z; bp_c := bp_c st |}
        else if N.eqb c 93 then {| bp_q := None; bp_prev := bp_prev st; bp_r := bp_r st; bp_s := (bp_s st - 1)%Z; bp_c := bp_c st |}
        else if N.eqb c 123 then {| bp_q := None; bp_prev := bp_prev st; bp_r := bp_r st; bp_s := bp_s st; bp_c := (bp_c st + 1)%Z |}
        else if N.eqb c 125 then {| bp_q := None; bp_prev := bp_prev st; bp_r := bp_r st; bp_s := bp_s st; bp_c := (bp_c st - 1)%Z |}
        else st
    end in
  {| bp_q := bp_q st'; bp_prev := Some c; bp_r := bp_r st'; bp_s := bp_s st'; bp_c := bp_c st' |}.
Definition balanced_parentheses (s : str) : bool :=
  let st := fold_left bp_step s {| bp_q := None; bp_prev := None; bp_r := 0; bp_s := 0; bp_c := 0 |} in
  (bp_r st =? 0)%Z && (bp_s st =? 0)%Z && (bp_c st =? 0)%Z.

(* tuple(filter(None, map(str.strip, s.split(SPACE)))) *)
Definition words_of (s : str) : list str :=
  filter (fun w => match w with [] => false | _ => true end) (map strip (split_char SP s)).

Definition K_def := s2l "def".
Definition K_class := s2l "class".

Definition real_is_comment (stack : str) : bool := startswith [HASH] (strip stack).
Definition real_is_other (stack : str) : bool :=
  let s := strip stack in
  if endswith [BSL] s then false
  else match s with [] => false | _ => true end
       && balanced_parentheses s
       && (negb (startswith [AT] s) || endswith [COLON] s)
       && negb (startswith TQS s) && negb (startswith TQD s).
Definition real_has_triple (stack : str) : bool :=
  let s := strip stack in
  if endswith [BSL] s then false else is_triple_quoted s.

Definition real_cut_here (e : str) : bool :=
  let s := strip e in
  if is_triple_quoted s || (startswith [HASH] s && endswith [NL] e) then true
  else if balanced_parentheses s then
    if endswith [NL] e && negb (endswith [BSL] s)
       && (negb (endswith [COLON] s) || (negb (contains K_class s) && negb (contains K_def s)))
       && negb (isspace e) && negb (startswith [AT] s)
    then true
    else
      let words := words_of s in
      if mem_str K_def words || mem_str K_class words
      then match last_opt words with
           | Some w => endswith [COLON] w && balanced_parentheses s
           | None => false
           end
      else false
  else false.

Definition cst_scanner (src : str) : list str :=
  cst_scanner_gen char (N.eqb NL) real_is_comment real_has_triple real_is_other real_cut_here src.

(* ---------------------------------------------------------------- cst_parser *)
Inductive kind :=
| UnchangingLine | Assignment | AnnAssignment | AugAssignment | FunctionDefinitionStart
| ClassDefinitionStart | IfStatement | ElifStatement | ElseStatement | WithStatement
| ForStatement | WhileStatement | MatchStatement | CaseStatement | CommentStatement
| PassStatement | DelStatement | YieldStatement | BreakStatement | ContinueStatement
| GlobalStatement | NonlocalStatement | ReturnStatement | RaiseStatement | TryStatement
| ExceptStatement | FinallyStatement | FromStatement | ImportStatement | TrueStatement
| FalseStatement | NoneStatement | ExprStatement | SetExprStatement | DictExprStatement
| GenExprStatement | ListCompStatement | CallStatement | TripleQuoted.

Definition kind_name (k : kind) : string :=
  match k with
  | UnchangingLine => "UnchangingLine" | Assignment => "Assignment"
  | AnnAssignment => "AnnAssignment" | AugAssignment => "AugAssignment"
  | FunctionDefinitionStart => "FunctionDefinitionStart"
  | ClassDefinitionStart => "ClassDefinitionStart" | IfStatement => "IfStatement"
  | ElifStatement => "ElifStatement" | ElseStatement => "ElseStatement"
  | WithStatement => "WithStatement" | ForStatement => "ForStatement"
  | WhileStatement => "WhileStatement" | MatchStatement => "MatchStatement"
  | CaseStatement => "CaseStatement" | CommentStatement => "CommentStatement"
  | PassStatement => "PassStatement" | DelStatement => "DelStatement"
  | YieldStatement => "YieldStatement" | BreakStatement => "BreakStatement"
  | ContinueStatement => "ContinueStatement" | GlobalStatement => "GlobalStatement"
  | NonlocalStatement => "NonlocalStatement" | ReturnStatement => "ReturnStatement"
  | RaiseStatement => "RaiseStatement" | TryStatement => "TryStatement"
  | ExceptStatement => "ExceptStatement" | FinallyStatement => "FinallyStatement"
  | FromStatement => "FromStatement" | ImportStatement => "ImportStatement"
  | TrueStatement => "TrueStatement" | FalseStatement => "FalseStatement"
  | NoneStatement => "NoneStatement" | ExprStatement => "ExprStatement"
  | SetExprStatement => "SetExprStatement" | DictExprStatement => "DictExprStatement"
  | GenExprStatement => "GenExprStatement" | ListCompStatement => "ListCompStatement"
  | CallStatement => "CallStatement" | TripleQuoted => "TripleQuoted"
  end.

Definition contains2statement : list (str * kind) :=
  [ (s2l "#", CommentStatement); (s2l "pass", PassStatement); (s2l "del", DelStatement);
    (s2l "yield", YieldStatement); (s2l "break", BreakStatement);
    (s2l "continue", ContinueStatement); (s2l "global", GlobalStatement);
    (s2l "nonlocal", NonlocalStatement); (s2l "return", ReturnStatement);
    (s2l "raise", RaiseStatement); (s2l "except", ExceptStatement);
    (s2l "finally", FinallyStatement); (s2l "try", TryStatement); (s2l "from", FromStatement);
    (s2l "import", ImportStatement); (s2l "if", IfStatement); (s2l "elif", ElifStatement);
    (s2l "else:", ElseStatement); (s2l "with", WithStatement); (s2l "for", ForStatement);
    (s2l "while", WhileStatement); (s2l "match", MatchStatement); (s2l "case", CaseStatement);
    (s2l "True", TrueStatement); (s2l "False", FalseStatement); (s2l "None", NoneStatement) ].

Fixpoint assoc_str {A} (k : str) (l : list (str * A)) : option A :=
  match l with
  | [] => None
  | (k', v) :: r => if str_eqb k k' then Some v else assoc_str k r
  end.

Fixpoint first_word_kind (words : list str) : option kind :=
  match words with
  | [] => None
  | w :: r => match assoc_str w contains2statement with
              | Some k => Some k
              | None => first_word_kind r
              end
  end.

(* note: += and -= are one string +=-= in the source (implicit concatenation) *)
Definition augassign : list str :=
  map s2l ["+=-="; "*="; "@="; "/="; "%="; "&="; "|="; "^="; "<<="; ">>="; "**="; "//="]%string.
Definition math_operators : list str :=
  map s2l ["@"; "/"; "//"; "*"; "**"; "+"; "-"; "%"; "&"; "|"; "<<"; ">>"; "<"; ">"; "=="; ">="; "<="; "^"]%string.

Definition has_char (c : char) (s : str) : bool := existsb (N.eqb c) s.

Definition infer_cst_type (s : str) (words : list str) : kind :=
  if startswith [91] s then ListCompStatement
  else if startswith [123] s then (if has_char COLON s then DictExprStatement else SetExprStatement)
  else if startswith [40] s then GenExprStatement
  else match first_word_kind words with
  | Some k => k
  | None =>
    if existsb (fun a => contains a s) augassign then AugAssignment
    else if has_char COLON s && has_char 61 s then AnnAssignment
    else if has_char 61 s then Assignment
    else if existsb (fun a => contains a s) math_operators then ExprStatement
    else if has_char 40 s then CallStatement
    else UnchangingLine
  end.

(* words[idx+1][: words[idx+1].find(LPAREN)]  -- find = -1 drops the last character *)
Fixpoint get_construct_name (words : list str) : option str :=
  match words with
  | w :: ((nxt :: _) as r) =>
      if str_eqb w K_def then Some (slice_to nxt (find [40] nxt))
      else if str_eqb w K_class then
        let e := find [40] nxt in
        let e' := if (e =? -1)%Z then find [COLON] nxt else e in
        Some (slice_to nxt e')
      else get_construct_name r
  | _ => None
  end.

Record node := {
  n_kind : kind; n_start : Z; n_end : Z; n_value : str;
  n_name : option str; n_double_q : option bool; n_docstr : option bool }.

Definition is_def_kind (k : kind) : bool :=
  match k with ClassDefinitionStart | FunctionDefinitionStart => true | _ => false end.

Definition parse_one_node (acc : Z) (prev : kind) (statement : str) : node :=
  let acc' := (acc + Z.of_nat (count_char NL statement))%Z in
  let s := strip statement in
  let words := words_of s in
  let mk k nm dq ds := {| n_kind := k; n_start := acc; n_end := acc'; n_value := statement;
                          n_name := nm; n_double_q := dq; n_docstr := ds |} in
  let is_single := (5 <? length s)%nat && str_eqb (firstn 3 s) TQS && str_eqb (slice_from s (-3)) TQS in
  let is_double := (5 <? length s)%nat && negb is_single && str_eqb (firstn 3 s) TQD && str_eqb (slice_from s (-3)) TQD in
  if is_single || is_double then mk TripleQuoted None (Some is_double) (Some (is_def_kind prev))
  else match words with
  | [] => mk UnchangingLine None None None
  | w0 :: _ =>
    match (if (1 <? length words)%nat then get_construct_name words else None) with
    | Some nm => mk (if str_eqb w0 K_class then ClassDefinitionStart else FunctionDefinitionStart) (Some nm) None None
    | None => mk (infer_cst_type s words) None None None
    end
  end.

Fixpoint cst_parser_aux (acc : Z) (prev : kind) (scanned : list str) : list node :=
  match scanned with
  | [] => []
  | st :: r => let n := parse_one_node acc prev st in n :: cst_parser_aux (n_end n) (n_kind n) r
  end.
Definition cst_parser (scanned : list str) : list node := cst_parser_aux 1 UnchangingLine scanned.
Definition cst_parse (src : str) : list node := cst_parser (cst_scanner src).
