(* cdd/shared/parse/utils/parser_utils.py:infer -- which parser `--parse infer` picks for a node (the AST-node branches).
   A node is abstracted to what the function looks at.  Definitions only. *)
From CDD Require Import PyStr.

Inductive inode :=
| IFunction (arg_names : list str)                       (* FunctionDef: names of args.args *)
| IClass (base_ids : list (option str))                  (* ClassDef: .id of every base that has one (Name), None for the others *)
| IAssign (value : inode)                                (* Assign / AnnAssign: the value is inspected *)
| ICall (nargs : nat) (second_arg_id : option str)       (* Call: number of positional args, .id of the second one *)
| IModule.

Inductive answer := Parser (name : str) | NoAnswer (* falls off the if-chain: None *) | Raises (* NotImplementedError / AttributeError *).

Fixpoint infer (n : inode) : answer :=
  match n with
  | IFunction args => if mem_str (s2l "argument_parser") args then Parser (s2l "argparse_ast") else Parser (s2l "function")
  | IClass bases =>
      if existsb (fun b => match b with Some i => str_eqb i (s2l "Base") | None => false end) bases
      then Parser (s2l "sqlalchemy") else Parser (s2l "class_")
  | IAssign v => infer v
  | ICall nargs second =>
      if Nat.ltb 2 nargs
      then match second with
           | Some i => if str_eqb i (s2l "metadata") then Parser (s2l "sqlalchemy_table") else NoAnswer
           | None => Raises                                  (* node.args[1].id on a node without .id *)
           end
      else NoAnswer
  | IModule => Raises
  end.
