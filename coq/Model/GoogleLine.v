(* The parameter lines of a Google-style docstring: cdd/shared/docstring_utils.py:emit_param_str (style "google", a parameter, not the
   return entry; the description as set_default_doc left it) and the per-unit reader `_parse` of
   cdd/shared/docstring_parsers.py:_parse_phase_numpydoc_and_google (Google branch, one-line units, parse_original_whitespace off)
   together with the rule that cuts the parameter list at the first line that "ends with its only colon" (free text afterwards).
   Definitions only. *)
From CDD Require Import PyStr.
Open Scope N_scope.

Definition GCOLON : char := 58.
Definition LP : char := 40.
Definition RP : char := 41.
Definition LBRACE : char := 123.
Definition RBRACE : char := 125.

(* "  {name} ({typ}): " / "  {name}: " followed by the description when there is one *)
Definition emit_google_param (name : str) (typ doc : option str) : str :=
  [SP; SP] ++ name ++ (match typ with Some t => [SP; LP] ++ t ++ [RP; GCOLON; SP] | None => [GCOLON; SP] end)
  ++ (match doc with Some d => d | None => [] end).

(* str.partition on one character *)
Fixpoint break_at (c : char) (s : str) : option (str * str) :=
  match s with
  | [] => None
  | x :: r => if x =? c then Some ([], r)
              else match break_at c r with Some (a, b) => Some (x :: a, b) | None => None end
  end.

Inductive unit_result :=
| UOk (name : str) (typ : option str) (doc : str)
| UStop                                             (* no colon at all: StopIteration inside the map, which ENDS the parameter list *)
| UErr                                              (* a type that is not wrapped in parentheses: AssertionError *)
| UOther.                                           (* the "{a, b}" choice syntax: not modelled *)

Definition OR_ : str := Eval vm_compute in s2l " or ".
Definition parse_google_unit (line : str) : unit_result :=
  match break_at GCOLON line with
  | None => UStop
  | Some (pre, post) =>
      let s := lstrip pre in
      let '(name0, typ0) := match break_at LP s with Some (a, b) => (a, LP :: b) | None => (s, []) end in
      let name := strip name0 in
      let typ := rstrip typ0 in
      let doc := strip post in
      match typ with
      | [] => UOk name None doc
      | _ => if startswith [LP] typ && endswith [RP] typ then
               let t := removelast (tl typ) in
               let t' := if contains OR_ t then s2l "Union[" ++ join (s2l ", ") (split_str OR_ t) ++ s2l "]" else t in
               let e := lstrip post in
               if Nat.ltb 3 (length e) && startswith [LBRACE] e && endswith [RBRACE] e then UOther else UOk name (Some t') doc
             else UErr
      end
  end.

(* a line that ends with its only colon starts the free text after the parameters *)
Definition is_afterward (l : str) : bool := endswith [GCOLON] l && Nat.eqb (count_char GCOLON l) 1.

Fixpoint take_until {A} (f : A -> bool) (l : list A) : list A :=
  match l with [] => [] | x :: r => if f x then [] else x :: take_until f r end.

(* the parameter list: units in order; the first colon-less unit ends it silently, a badly wrapped type raises *)
Inductive params_result := PList (ps : list (str * option str * str)) | PRaises | POther.
Fixpoint collect_units (us : list unit_result) : params_result :=
  match us with
  | [] => PList []
  | UStop :: _ => PList []
  | UErr :: _ => PRaises
  | UOther :: _ => POther
  | UOk n t d :: r => match collect_units r with PList l => PList ((n, t, d) :: l) | x => x end
  end.
Definition google_params (lines : list str) : params_result := collect_units (map parse_google_unit (take_until is_afterward lines)).
