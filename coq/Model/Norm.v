(* The per-format normal form of one parameter (type string + default) after emit -> text -> parse,
   on the common representable domain of C03 (scalar, Optional[scalar], Literal[str..], Optional[Literal]),
   for the five formats class, pydantic, function, argparse, docstring-rest.  Faithful to the code as
   measured, not tidy: where the implementation drifts, so does [N].  Definitions only. *)
From CDD Require Import PyStr.
Open Scope N_scope.

Inductive base := BInt | BFloat | BStr | BBool.
Inductive inner := IBase (b : base) | ILit (members : list str).
Record ctyp := mkT { t_opt : bool; t_inner : inner }.
Inductive cdef := DAbs | DNone | DInt (z : Z) | DFloat (repr : str) | DBool (b : bool) | DStr (s : str).
Definition cparam := (ctyp * cdef)%type.
Inductive fmt := FClass | FPydantic | FFunction | FArgparse | FDocstring.

Definition is_base (b : base) (i : inner) : bool :=
  match i, b with IBase BInt, BInt | IBase BFloat, BFloat | IBase BStr, BStr | IBase BBool, BBool => true | _, _ => false end.

(* total on the domain; [option] is kept so that an un-modelled combination can be added as None later *)
Definition N0 (f : fmt) (p : cparam) : option cparam :=
  let '(t, d) := p in
  match f with
  | FClass | FPydantic =>
      match d with DNone => Some (mkT true (t_inner t), DNone) | _ => Some p end
  | FFunction =>
      match d with DAbs => Some (t, DNone) | _ => Some p end       (* "a parameter without default is shown as =None" *)
  | FArgparse =>
      match d with
      | DAbs =>
          if t_opt t then Some p
          else match t_inner t with
               | IBase BInt => Some (t, DInt 0)
               | IBase BFloat => Some (t, DFloat (s2l "0.0"))
               | IBase BStr => Some (t, DStr [])
               | IBase BBool => Some (mkT true (t_inner t), DAbs)
               | ILit _ => Some (t, DStr [])
               end
      | DNone => Some (mkT true (t_inner t), DAbs)
      | _ => Some p
      end
  | FDocstring =>
      match d with
      | DNone => Some (t, DStr (s2l "(None)"))
      | DInt z => if (z <? 0)%Z then Some (t, DFloat (Z_to_str z ++ s2l ".0")) else Some p
      | DStr [] => Some (t, DAbs)               (* an empty-string default is lost *)
      | _ => Some p
      end
  end.

(* a default of the kind its type announces; after a drift (a string "(None)" or a float on an int parameter)
   the state is ill-typed: only the docstring format, which produced it, is modelled there (it is stable) *)
Definition well_typed (p : cparam) : bool :=
  match snd p, t_inner (fst p) with
  | DAbs, _ | DNone, _ => true
  | DInt _, IBase BInt | DFloat _, IBase BFloat | DBool _, IBase BBool | DStr _, IBase BStr | DStr _, ILit _ => true
  | _, _ => false
  end.
Definition N (f : fmt) (p : cparam) : option cparam :=
  if well_typed p then N0 f p else match f with FDocstring => Some p | _ => None end.

Definition chain (fs : list fmt) (p : cparam) : option cparam :=
  fold_left (fun acc f => match acc with Some x => N f x | None => None end) fs (Some p).

(* the part of the quantifier's domain on which the interface really is stable *)
Definition dom03 (p : cparam) : bool :=
  well_typed p &&
  match snd p with
  | DAbs | DNone => false
  | DInt z => (0 <=? z)%Z
  | DStr [] => false
  | _ => true
  end.
