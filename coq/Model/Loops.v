(* The six `while` loops of the non-test package: the part of each loop body that drives the loop
   condition (index arithmetic), transcribed.  Definitions only. *)
From CDD Require Import PyStr DocSplit.
Open Scope Z_scope.

(* generic fuelled loop with an iteration counter: None = out of fuel *)
Section Loop.
  Variable S : Type.
  Variable guard : S -> bool.     (* the while condition AND "no break taken in this iteration" *)
  Variable step : S -> S.
  Fixpoint run (fuel : nat) (s : S) (n : nat) : option (S * nat) :=
    match fuel with
    | O => None
    | Datatypes.S f => if guard s then run f (step s) (Datatypes.S n) else Some (s, n)
    end.
End Loop.

Definition char_at (s : str) (i : Z) : option char := index s i.
Definition is_nl_at (s : str) (i : Z) : bool := match char_at s i with Some c => N.eqb c NL | None => false end.
Definition in_range (s : str) (i : Z) : bool := match char_at s i with Some _ => true | None => false end.

(* L1  cdd/docstring/emit.py: docstring --   while next_nl > -1:
         line = cds[prev_nl:next_nl]; if not line.isspace(): break
         prev_nl, next_nl = next_nl + 1, cds.find("\n", next_nl + 1)            (state: prev_nl, next_nl) *)
Definition l1_guard (cds : str) (s : Z * Z) : bool :=
  (-1 <? snd s) && isspace (slice cds (fst s) (snd s)).
Definition l1_step (cds : str) (s : Z * Z) : Z * Z :=
  (snd s + 1, find_at [NL] cds (Z.to_nat (snd s + 1))).
Definition l1_mu (cds : str) (s : Z * Z) : nat :=
  if snd s <? 0 then O else S (Z.to_nat (1 + slen cds - snd s)).
Definition l1_init (cds : str) : Z * Z := (0, find [NL] cds).

(* L2  docstring_utils._get_token_last_idx --  while idx != 0 and doc_str[idx] != "\n": idx -= 1
       (an out-of-range index raises IndexError: the loop is left) *)
Definition l2_guard (doc : str) (idx : Z) : bool := negb (idx =? 0) && in_range doc idx && negb (is_nl_at doc idx).
Definition l2_step (idx : Z) : Z := idx - 1.
Definition l2_mu (doc : str) (idx : Z) : nat := if 0 <=? idx then Z.to_nat idx else Z.to_nat (slen doc + idx + 1).

(* L3  docstring_utils._get_token_last_idx --  while i < len(doc_str) and doc_str[i] != "\n": i += 1 *)
Definition l3_guard (doc : str) (i : Z) : bool := (i <? slen doc) && negb (is_nl_at doc i).
Definition l3_step (i : Z) : Z := i + 1.
Definition l3_mu (doc : str) (i : Z) : nat := Z.to_nat (slen doc - i).

(* L4  docstring_utils._get_token_last_idx_if_no_next_token --  while line_end < len(doc_str):
         line_end += count(takewhile(ne "\n", doc_str[line_start:])); ...; line_start = line_end; line_end += 1 *)
Fixpoint count_until_nl (s : str) : nat :=
  match s with c :: r => if N.eqb c NL then O else Datatypes.S (count_until_nl r) | [] => O end.
Definition l4_guard (doc : str) (s : Z * Z) : bool := snd s <? slen doc.
Definition l4_step (doc : str) (s : Z * Z) : Z * Z :=
  let line_end := snd s + Z.of_nat (count_until_nl (slice_from doc (fst s))) in
  (line_end, line_end + 1).
Definition l4_mu (doc : str) (s : Z * Z) : nat := Z.to_nat (slen doc - snd s).

(* L5  parse_utils._union_literal_from_sentence_phase0 --  while i < len(sentence):   (state: i, quotes["'"], quotes['"'])
         ch = sentence[i]
         if ch.isspace(): i += count(takewhile(isspace, sentence[i:])) - 1
         if ch in ("'", '"'):
             if i == 0 or sentence[i-1] != "\\": quotes[ch] += 1
             if i + 2 < len(sentence) and sum(quotes.values()) & 1 == 0 and sentence[i+1] == ",": i += 1
         i += 1 *)
Definition l5_state := (Z * (Z * Z))%type.
Definition l5_guard (sen : str) (s : l5_state) : bool := fst s <? slen sen.
Definition l5_step (sen : str) (s : l5_state) : l5_state :=
  let i := fst s in let q1 := fst (snd s) in let q2 := snd (snd s) in
  match char_at sen i with
  | None => (i + 1, (q1, q2))
  | Some c =>
      if is_space c then
        (i + (Z.of_nat (count_leading_space (slice_from sen i)) - 1) + 1, (q1, q2))
      else if N.eqb c 39 || N.eqb c 34 then
        let esc := negb (i =? 0) && match char_at sen (i - 1) with Some p => N.eqb p 92 | None => false end in
        let q1' := if N.eqb c 39 && negb esc then q1 + 1 else q1 in
        let q2' := if N.eqb c 34 && negb esc then q2 + 1 else q2 in
        let skip := (i + 2 <? slen sen) && Z.even (q1' + q2')
                    && match char_at sen (i + 1) with Some n => N.eqb n 44 | None => false end in
        ((if skip then i + 1 else i) + 1, (q1', q2'))
      else (i + 1, (q1, q2))
  end.
Definition l5_mu (sen : str) (s : l5_state) : nat := Z.to_nat (slen sen - fst s).

(* L6  ast_utils.find_in_ast --  while len(current_search): query = current_search.pop(0); ...
         (inside, for a FunctionDef child:  if len(current_search): query = current_search.pop(0))
       [pop_second] says, per iteration, whether the inner pop happens (it depends on the AST) *)
Definition l6_guard {A} (s : list A) : bool := negb (Nat.eqb (length s) 0).
Definition l6_step {A} (pop_second : list A -> bool) (s : list A) : list A :=
  let s1 := tl s in if pop_second s1 then tl s1 else s1.
