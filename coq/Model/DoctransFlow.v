(* doctransify_cst: for every def / class of the converted AST -- find its CST node, edit the docstring node after it, rewrite
   the header text.  The header rewrite is an arbitrary function here (the theorems hold for every one).  Definitions only. *)
From CDD Require Import PyStr DocSplit Doctrans.

Record knode := { k_kind : str; k_text : str; k_docstr : bool; k_start : Z; k_end : Z; k_name : option str }.

Definition K_FUNC : str := s2l "FunctionDefinitionStart".
Definition K_CLASS : str := s2l "ClassDefinitionStart".
Definition K_TRIPLE : str := s2l "TripleQuoted".
Definition is_header (c : knode) : bool := str_eqb (k_kind c) K_FUNC || str_eqb (k_kind c) K_CLASS.
Definition is_docnode (c : knode) : bool := str_eqb (k_kind c) K_TRIPLE && k_docstr c.
(* everything that is neither a definition header nor a docstring *)
Definition other (c : knode) : bool := negb (is_header c) && negb (is_docnode c).
Definition others (l : list knode) : list str := map k_text (filter other l).

Definition as_cnode (c : knode) : cnode := {| c_start := k_start c; c_end := k_end c; c_kind := k_kind c; c_name := k_name c |}.

(* one definition of the converted AST: where it is, what it is called, its docstring ("" = none), and how its header text is rewritten *)
Record defn := { d_lineno : Z; d_kind : str; d_name : option str; d_doc : str; d_header : str -> str }.

Definition set_text (c : knode) (t : str) : knode :=
  {| k_kind := k_kind c; k_text := t; k_docstr := k_docstr c; k_start := k_start c; k_end := k_end c; k_name := k_name c |}.
Definition doc_node (after : knode) (t : str) : knode :=
  {| k_kind := K_TRIPLE; k_text := t; k_docstr := true; k_start := k_start after; k_end := k_end after; k_name := None |}.
Definition no_node : knode := {| k_kind := s2l "UnchangingLine"; k_text := []; k_docstr := false; k_start := 0; k_end := 0; k_name := None |}.

Definition edit_nodes (i : nat) (new_doc : str) (l : list knode) : list knode :=
  let after := nth (S i) l no_node in
  match doc_edit new_doc (k_text after) (is_docnode after) with
  | ENop => l
  | EInsertAfter v => firstn (S i) l ++ doc_node after v :: skipn (S i) l
  | EDeleteAfter => firstn (S i) l ++ skipn (S (S i)) l
  | EReplaceAfter v => firstn (S i) l ++ doc_node after v :: skipn (S (S i)) l
  end.

Definition rewrite_header (i : nat) (h : str -> str) (l : list knode) : list knode :=
  match nth_error l i with
  | Some c => firstn i l ++ set_text c (h (k_text c)) :: skipn (S i) l
  | None => l
  end.

Definition step (l : list knode) (d : defn) : list knode :=
  match find_cst (map as_cnode l) (d_lineno d) (d_kind d) (d_name d) with
  | None => l
  | Some i => rewrite_header i (d_header d) (edit_nodes i (d_doc d) l)
  end.

Definition doctransify (l : list knode) (defs : list defn) : list knode := fold_left step defs l.
