(* Straight-line guard model for the destructive-operation guard of `gen` in cdd/__main__.py.
   Definitions only. *)
From Coq Require Import List String Bool.
Import ListNotations.
Local Open Scope string_scope.

Inductive item :=
| IGuardRaise (cond : string)
| ICall (callee args : string)
| IAssign (target : string)
| IOther (text : string)
| ICompound (text : string).

(* The environment: [target_exists] = "the file gen will write exists and phase = 0";
   [other] = the truth value of any other condition (unconstrained). *)
Definition approved_cond : string := "path.isfile(args.output_filename) and args.phase == 0".
Definition approved_call_args : string := "**args_dict".
Definition approved_derivation : string := "{k: v for k, v in vars(args).items() if k != 'command'}".

(* does an assignment target write through args / args_dict (what the guard reads / what gen receives)? *)
Fixpoint mentions (needle hay : string) : bool :=
  match hay with
  | EmptyString => match needle with EmptyString => true | _ => false end
  | String _ rest => if String.prefix needle hay then true else mentions needle rest
  end.
Definition rebinds (target : string) : bool := mentions "args" target || mentions "output_filename" target.

(* run: returns the callees called, in order.  [linked] says whether the guard's reading of
   args.output_filename still denotes the file gen receives. *)
Fixpoint run (target_exists other : bool) (linked : bool) (items : list item) : list string :=
  match items with
  | [] => []
  | IGuardRaise c :: r =>
      let v := if String.eqb c approved_cond then (if linked then target_exists else other) else other in
      if v then [] (* raised *) else run target_exists other linked r
  | ICall f a :: r => f :: run target_exists other linked r
  | IAssign t :: r => run target_exists other (linked && negb (rebinds t)) r
  | IOther _ :: r => run target_exists other linked r
  | ICompound _ :: r => "<unknown>" :: "gen" :: run target_exists other linked r   (* fail closed *)
  end.

(* the syntactic check: an approved guard precedes every call, with no re-binding in between or before *)
Fixpoint guarded (seen_guard : bool) (items : list item) : bool :=
  match items with
  | [] => true
  | IGuardRaise c :: r => guarded (seen_guard || String.eqb c approved_cond) r
  | ICall f a :: r => seen_guard && guarded seen_guard r
  | IAssign t :: r => negb (rebinds t) && guarded seen_guard r
  | IOther _ :: r => guarded seen_guard r
  | ICompound _ :: r => false
  end.
