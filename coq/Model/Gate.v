(* The black/whitelist gate of cdd/compound/exmod.py:exmod_single_folder as a boolean formula over five atoms.
   Definitions only; the formula itself is regenerated from the source (Gen/ExmodGate.v). *)
From Coq Require Import List String Bool.
Import ListNotations.
From CDD Require Import PyStr.

Inductive atom := AInBl | AInWl | ABlEmpty | AWlEmpty | ABothEmpty.
Inductive bexp :=
| BTrue | BFalse
| BAtom (a : atom)
| BNot (e : bexp)
| BAnd (a b : bexp)
| BOr (a b : bexp)
| BIf (c t e : bexp)
| BAny (l : list bexp)
| BAll (l : list bexp)
| BUnknown (text : string).

Definition lift2 (f : bool -> bool -> bool) (a b : option bool) : option bool :=
  match a, b with Some x, Some y => Some (f x y) | _, _ => None end.

(* in_bl, in_wl: membership of mod_path; bl_e, wl_e: emptiness of the (normalised) lists *)
Fixpoint eval4 (in_bl in_wl bl_e wl_e : bool) (e : bexp) : option bool :=
  let ev := eval4 in_bl in_wl bl_e wl_e in
  match e with
  | BTrue => Some true
  | BFalse => Some false
  | BAtom AInBl => Some in_bl
  | BAtom AInWl => Some in_wl
  | BAtom ABlEmpty => Some bl_e
  | BAtom AWlEmpty => Some wl_e
  | BAtom ABothEmpty => Some (bl_e && wl_e)
  | BNot a => option_map negb (ev a)
  | BAnd a b => lift2 andb (ev a) (ev b)
  | BOr a b => lift2 orb (ev a) (ev b)
  | BIf c t f => match ev c with Some true => ev t | Some false => ev f | None => None end
  | BAny l => (fix go (l : list bexp) := match l with [] => Some false | x :: r => lift2 orb (ev x) (go r) end) l
  | BAll l => (fix go (l : list bexp) := match l with [] => Some true | x :: r => lift2 andb (ev x) (go r) end) l
  | BUnknown _ => None
  end.

Definition is_nil {A} (l : list A) : bool := match l with [] => true | _ => false end.

(* the gate on concrete lists: does module m proceed to emission? None = the formula contains something not understood *)
Definition proceeds (gate : bexp) (blacklist whitelist : list str) (m : str) : option bool :=
  eval4 (mem_str m blacklist) (mem_str m whitelist) (is_nil blacklist) (is_nil whitelist) gate.

(* what the property demands of the gate *)
Definition gate_spec (in_bl in_wl bl_e wl_e : bool) : bool :=
  negb in_bl && (wl_e || in_wl).
