(* cdd/shared/ast_utils.py:find_in_ast on a module annotated by annotate_ancestry, over the node type of Model/Rewrite.v
   (function bodies are never entered by find_in_ast either).  A literal transcription of the two nested loops, including the
   state they share: `query` and `current_search` are re-bound inside the for loop (one more element is popped at every
   FunctionDef met), `cursor` may become an ast.arg, `child_node` survives the for loop.  Definitions only.

   The result names the node by its position: FNode path (indices through the body lists), FArg path k (k-th positional parameter
   of the function at path), FNone (the function falls off its while loop and returns None), FErr (the for loop is entered with
   `cursor` bound to an ast.arg: TypeError). *)
From CDD Require Import PyStr Rewrite.

Inductive found := FNode (path : list nat) | FArg (path : list nat) (k : nat) | FNone | FErr.
Inductive cursor := CList (prefix : list nat) (parent : list str) (l : list node) | CArg.

(* _location as annotate_ancestry sets it: the IMMEDIATE parent's name (nothing for the module) followed by the own name / target *)
Definition node_loc (parent : list str) (x : node) : option (list str) :=
  match x with
  | NClass n _ | NFunc n _ _ _ _ => Some (parent ++ [n])
  | NAnn t _ _ | NAssign t _ => Some (parent ++ [t])
  | NOther _ => None
  end.
Definition loc_is (o : option (list str)) (search : list str) : bool :=
  match o with Some l => strs_eqb l search | None => false end.

Fixpoint find_arg (q : str) (args : list argd) (i : nat) : option nat :=
  match args with
  | [] => None
  | a :: r => if str_eqb (a_name a) q then Some i else find_arg q r (S i)
  end.

Definition child := (option str * list nat)%type.      (* name attribute (if any) and position of `child_node` *)
Definition st := (str * list str * cursor * child)%type.   (* query, current_search, cursor, child_node *)

(* for child_node in cursor: ... *)
Fixpoint scan (search : list str) (prefix : list nat) (parent : list str) (i : nat) (l : list node) (s : st) : found + st :=
  match l with
  | [] => inr s
  | x :: r =>
      let '(query, cs, cur, _) := s in
      let here := prefix ++ [i] in
      if loc_is (node_loc parent x) search then inl (FNode here)
      else
        match x with
        | NFunc n args _ _ _ =>
            let '(query', cs') := match cs with q :: t => (q, t) | [] => (query, cs) end in
            match find_arg query' args O with
            | Some k => match cs' with
                        | [] => inl (FArg here k)
                        | _ => scan search prefix parent (S i) r (query', cs', CArg, (Some n, here))
                        end
            | None => scan search prefix parent (S i) r (query', cs', cur, (Some n, here))
            end
        | NAnn t _ _ =>
            if str_eqb t query then inl (FNode here) else scan search prefix parent (S i) r (query, cs, cur, (None, here))
        | NClass n body =>
            if str_eqb n query then inr (query, cs, CList here [n] body, (Some n, here))      (* break *)
            else scan search prefix parent (S i) r (query, cs, cur, (Some n, here))
        | _ => scan search prefix parent (S i) r (query, cs, cur, (None, here))
        end
  end.

(* while len(current_search): ... *)
Fixpoint outer (fuel : nat) (search : list str) (cs : list str) (cur : cursor) (ch : child) : found :=
  match fuel with
  | O => FNone
  | S f =>
      match cs with
      | [] => FNone
      | q :: t =>
          if (match t with [] => true | _ => false end) && (match fst ch with Some n => str_eqb n q | None => false end)
          then FNode (snd ch)
          else match cur with
               | CArg => FErr
               | CList prefix parent l =>
                   match scan search prefix parent O l (q, t, cur, ch) with
                   | inl r => r
                   | inr (_, cs', cur', ch') => outer f search cs' cur' ch'
                   end
               end
      end
  end.

Definition find_in_ast (search : list str) (m : list node) : found :=
  match search with
  | [] => FNode []
  | _ => outer (S (length search)) search search (CList [] [] m) (None, [])
  end.
