(* cdd/shared/defaults_utils.py:extract_default at text level (typ = None, rstrip_default = True, the default announcers of
   DEFAULTS_TO_VARIANTS), with cdd/shared/pure_utils.py:location_within under the case-folding comparator.  Definitions only.

   The result is (description, default TEXT): the last step of _parse_out_default_and_doc that turns the text into a Python value
   (int / float / bool / literal_eval under a simple typ) is not in this model.

   str.casefold: the model folds one character to one character (ASCII upper -> lower, U+017F -> s, U+212A -> k, anything else
   unchanged).  That is exact for the comparison `window.casefold() == announcer.casefold()` because the announcers are ASCII, the
   window has the announcer's length and every code point folds to at least one code point, so the two sides can only be equal
   when every window character folds to one character; the two non-ASCII code points that fold to an ASCII letter are the ones
   listed (checked over all of Unicode by the harness on every run).  str.isdigit is modelled for ASCII digits only. *)
From CDD Require Import PyStr.
Open Scope N_scope.

Definition fold_char (c : char) : char :=
  if is_ascii_upper c then c + 32 else if c =? 383 then 115 else if c =? 8490 then 107 else c.
Definition fold (s : str) : str := map fold_char s.

Definition DOT : char := 46.
Definition LP : char := 40.
Definition RP : char := 41.
Definition TABC : char := 9.
Definition BTK : char := 96.

Definition VARIANTS : list str :=
  [ s2l "defaults to "; s2l "defaults to" ++ [NL]; s2l "Default value is "; s2l "Default:"; s2l "defaults" ++ [NL] ++ s2l " to ";
    s2l "defaults" ++ [NL] ++ s2l " to" ++ [NL]; s2l "Default value" ++ [NL] ++ s2l " is "; s2l "Defaults" ++ [NL] ++ s2l "            to" ].

(* location_within for one announcer: the first window of the announcer's length that equals it after folding *)
Fixpoint find_ci (needle hay : str) : option nat :=
  if str_eqb (fold (firstn (length needle) hay)) (fold needle) then Some O
  else match hay with
       | [] => None
       | _ :: r => match find_ci needle r with Some i => Some (S i) | None => None end
       end.

(* ... over the announcers, in their order: the first ANNOUNCER that occurs anywhere wins (not the leftmost occurrence) *)
Fixpoint loc_within (vs : list str) (hay : str) : option (nat * nat) :=
  match vs with
  | [] => None
  | v :: r => match find_ci v hay with
              | Some i => Some (i, i + length v)%nat
              | None => loc_within r hay
              end
  end.

Definition is_bracket (c : char) : bool := (c =? 123) || (c =? 91) || (c =? 40) || (c =? 41) || (c =? 93) || (c =? 125).

(* the character loop: stops at the first "." that is not followed by a digit, unless a bracket was seen before *)
Fixpoint scan_default (sub : str) (seen_bracket : bool) : str :=
  match sub with
  | [] => []
  | c :: r =>
      if (c =? DOT) && (match r with [] => true | n :: _ => negb (is_ascii_digit n) end) && negb seen_bracket then []
      else c :: scan_default r (seen_bracket || is_bracket c)
  end.

Definition is_stop_token (c : char) : bool := (c =? SP) || (c =? TABC) || (c =? NL) || (c =? DOT).
Definition is_gap (c : char) : bool := (c =? SP) || (c =? TABC) || (c =? NL).
Fixpoint count_while (f : char -> bool) (s : str) : nat :=
  match s with c :: r => if f c then S (count_while f r) else O | [] => O end.

(* end_offset: None | Some z, as default_end_offset *)
Definition finish (line : str) (start_idx end_idx : Z) (end_offset : option Z) (emit_default_doc : bool) : str * option str :=
  let sub_l := match end_offset with Some o => slice line end_idx o | None => slice_from line end_idx end in
  let raw := scan_default sub_l false in
  let start_rest := (end_idx + slen raw)%Z in
  let default := strip_chars [SP; TABC; BTK] raw in
  if emit_default_doc then (line, Some default)
  else
    let end_ := slice_to line (start_idx - 1) in
    let extra := match last_opt end_ with Some c => if is_gap c then 1%Z else 0%Z | None => 0%Z end in
    let start_rest' := (start_rest + Z.of_nat (count_while is_stop_token (slice_from line start_rest)))%Z in
    let fst_ := slice_to line (start_idx - 1 - extra) in
    let rest := match end_offset with
                | Some o => slice line start_rest' o
                | None => if (0 <? extra)%Z then slice line start_rest' (- extra) else slice_from line start_rest'
                end in
    (fst_ ++ rest, Some default).

Definition extract_default_text (line : str) (emit_default_doc : bool) : str * option str :=
  match loc_within (map (fun v => LP :: v) VARIANTS) line with
  | Some (i, e) =>
      let off := if endswith [RP] line then (-1)%Z else if endswith [RP; DOT] line then (-2)%Z else 0%Z in
      finish line (Z.of_nat i + 1) (Z.of_nat e) (Some off) emit_default_doc
  | None =>
      match loc_within VARIANTS line with
      | Some (i, e) => finish line (Z.of_nat i) (Z.of_nat e) None emit_default_doc
      | None => (line, None)
      end
  end.
