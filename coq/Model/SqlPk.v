(* cdd/sqlalchemy/utils/emit_utils.py: ensure_has_primary_key, on (column name, description) pairs.
   All three SQLAlchemy emitters call it on the parameters before building the columns.  Definitions only. *)
From CDD Require Import PyStr.
Open Scope N_scope.

Definition PK : str := s2l "[PK]".
Definition is_pk (doc : str) : bool := startswith PK doc.
Definition candidate (k : str) : bool :=
  contains (s2l "_name") k || contains (s2l "_id") k || contains (s2l "id_") k || str_eqb k (s2l "id").
Definition mark_doc (doc : str) : str := match doc with [] => PK | _ => PK ++ [SP] ++ doc end.
Fixpoint mark (n : str) (ps : list (str * str)) : list (str * str) :=
  match ps with
  | [] => []
  | (k, d) :: r => if str_eqb k n then (k, mark_doc d) :: mark n r else (k, d) :: mark n r
  end.
Definition ID : str := s2l "id".

Definition ensure_pk (force_pk_id : bool) (ps : list (str * str)) : list (str * str) :=
  if existsb is_pk (map snd ps) then ps
  else
    let cands := filter candidate (map fst ps) in
    match cands with
    | [c] => if negb force_pk_id then mark c ps
             else if mem_str ID (map fst ps) then mark ID ps else ps ++ [(ID, PK)]
    | _ => if mem_str ID (map fst ps) then mark ID ps else ps ++ [(ID, PK)]
    end.

Definition count_pk (ps : list (str * str)) : nat := length (filter is_pk (map snd ps)).
