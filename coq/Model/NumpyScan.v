(* A whole NumPy-style docstring with a parameter section and nothing after it: where the prose ends (location_within of
   "Parameters\n----------"), the line scanner shared with the Google style (Model/GoogleScan.v:section_units) and the unit reader
   (Model/NumpyLine.v).  Definitions only. *)
From CDD Require Import PyStr GoogleLine GoogleHead GoogleScan NumpyLine.
Open Scope N_scope.

Definition NPARAMS : str := Eval vm_compute in s2l "Parameters" ++ [NL] ++ s2l "----------".
Definition NRETURNS : str := Eval vm_compute in s2l "Returns" ++ [NL] ++ s2l "-------".

Definition numpy_scan_head (text : str) : str * option str :=
  let loc := match index_of NPARAMS text with
             | Some i => Some (i, length NPARAMS)
             | None => match index_of NRETURNS text with Some i => Some (i, length NRETURNS) | None => None end
             end in
  match loc with
  | Some (i, l) => (white_spacer (firstn i text), Some (skipn (i + l + 1) text))
  | None => (text, None)
  end.

Definition numpy_ir_doc (text : str) : str :=
  let d := fst (numpy_scan_head text) in if isspace d then [] else lstrip d.

Definition numpy_docstring (text : str) : str * list (str * option str * option str) :=
  match numpy_scan_head text with
  | (_, None) => (numpy_ir_doc text, [])
  | (_, Some rest) => (numpy_ir_doc text, numpy_params (fst (section_units rest)))
  end.
