(* cdd/shared/conformance.py:_conform_filename as a decision table over an abstract file.
   A file is a list of top-level items; an item is a named definition carrying an interface, or anything else.
   [I] is the type of interfaces (what the matching parser returns), with a decidable equality. *)
From Coq Require Import List Bool.
Import ListNotations.

Section Sync.
  Variable name : Type.
  Variable name_eqb : name -> name -> bool.
  Variable I : Type.
  Variable I_eqb : I -> I -> bool.        (* cmp_ast(original, re-emission of the truth) *)

  Inductive kind := KClass | KFunction | KArgparse.
  Inductive item := Def (n : name) (i : I) | Other (id : nat).
  Definition file := option (list item).   (* None = the file does not exist *)

  (* find_in_ast, as far as the decision table needs it: [find] may MISS an existing definition (it does,
     when an unrelated FunctionDef precedes the target) -- it is a parameter of the model *)
  Variable find : name -> list item -> option I.

  Fixpoint replace (n : name) (g : I) (l : list item) : list item :=
    match l with
    | [] => []
    | Def m i :: r => if name_eqb m n then Def m g :: r else Def m i :: replace n g r
    | Other k :: r => Other k :: replace n g r
    end.

  Definition conform_existing (k : kind) (n : name) (gold : I) (items : list item) : file :=
        match find n items with
        | None => Some (items ++ [Def n gold])                    (* appended (mode "a") *)
        | Some old =>
            if I_eqb old gold then Some items                      (* cmp_ast equal: untouched *)
            else match k with
                 | KClass => Some (replace n gold items)           (* RewriteAtQuery.generic_visit replaces a ClassDef *)
                 | KFunction | KArgparse => Some items             (* visit_FunctionDef only handles arguments: "unchanged" *)
                 end
        end.

  (* [gname] = the name under which the truth is emitted when NO options are passed (a missing file is written
     with emit_func(ir) alone: the truth's own name for a class, the emitter's default for argparse; the function
     emitter cannot be called without its name/type arguments: the command fails) *)
  Definition conform (k : kind) (n gname : name) (gold : I) (f : file) : option file :=
    match f with
    | None => match k with KFunction => None | _ => Some (Some [Def gname gold]) end        (* created (mode "wt") / TypeError *)
    | Some items => Some (conform_existing k n gold items)
    end.
  Definition others (l : list item) : list nat :=
    flat_map (fun it => match it with Other k => [k] | Def _ _ => [] end) l.
  Fixpoint lookup (n : name) (l : list item) : option I :=
    match l with
    | [] => None
    | Def m i :: r => if name_eqb m n then Some i else lookup n r
    | Other _ :: r => lookup n r
    end.
  Definition other_defs (n : name) (l : list item) : list item :=
    filter (fun it => match it with Def m _ => negb (name_eqb m n) | Other _ => true end) l.
End Sync.
