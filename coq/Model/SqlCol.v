(* One column of the SQLAlchemy formats: cdd/sqlalchemy/utils/emit_utils.py:param_to_sqlalchemy_column_calls (+ _handle_column_args,
   _handle_column_keywords, shared_utils.update_args_infer_typ_sqlalchemy) and cdd/sqlalchemy/utils/parse_utils.py:column_call_to_param,
   on the SQL-representable domain of C05 (int / float / str / bool / dict, Literal of strings, Optional[..] of those; "[PK]" and
   "[FK(..)]" markers in the description; defaults as rendered literals).  A Column(...) call is carried as a record of its
   arguments.  Definitions only. *)
From CDD Require Import PyStr.
Open Scope N_scope.

Inductive base := BInt | BFloat | BStr | BBool | BDict | BLit (members : list str).
Record ityp := { t_opt : bool; t_base : base }.
Inductive dval := DNoneStr | DVal (text : str).              (* the NoneStr sentinel, or the repr of a Python literal *)
Record param := { p_typ : ityp; p_doc : option str; p_default : option dval }.

Inductive ctype := CInteger | CFloat | CString | CBoolean | CJSON | CEnum (members : list str).
Record col := { c_type : ctype; c_fk : option str; c_pk : bool; c_comment : option str; c_default : option dval; c_nullable : option bool }.

Definition ctype_of (b : base) : ctype :=
  match b with BInt => CInteger | BFloat => CFloat | BStr => CString | BBool => CBoolean | BDict => CJSON | BLit ms => CEnum ms end.

Definition DOT : char := 46.
Definition RB : char := 93.
Definition rstrip_dots (s : str) : str := rstrip_chars [DOT] s.

(* default not in none_types = (None, "None", NoneStr) *)
Definition is_none_default (d : dval) : bool :=
  match d with DNoneStr => true | DVal t => str_eqb t (s2l "None") || str_eqb t (s2l "'None'") end.

Definition emit_col (p : param) : col :=
  let doc := match p_doc p with Some d => d | None => [] end in
  let nullable0 := if t_opt (p_typ p) then Some true else None in
  let pk := startswith (s2l "[PK]") doc in
  let fk := startswith (s2l "[FK") doc in
  let fk_end := (find [RB] doc + 1)%Z in
  let doc' := if pk then lstrip (slice_from doc 4)
              else if fk then lstrip (slice_from doc fk_end)
              else doc in
  let fk_val := if negb pk && fk then Some (slice doc 4 (fk_end - 2)) else None in
  let nullable := if pk || fk then nullable0
                  else match p_default p with
                       | Some d => if is_none_default d then nullable0 else Some false
                       | None => nullable0
                       end in
  let comment := match rstrip_dots doc' with [] => None | c => Some c end in
  {| c_type := ctype_of (t_base (p_typ p)); c_fk := fk_val; c_pk := pk; c_comment := comment; c_default := p_default p; c_nullable := nullable |}.

Definition base_of (c : ctype) : ityp :=
  match c with
  | CInteger => {| t_opt := false; t_base := BInt |} | CFloat => {| t_opt := false; t_base := BFloat |}
  | CString => {| t_opt := false; t_base := BStr |} | CBoolean => {| t_opt := false; t_base := BBool |}
  | CJSON => {| t_opt := true; t_base := BDict |}                (* column_type2typ["JSON"] = "Optional[dict]" *)
  | CEnum ms => {| t_opt := false; t_base := BLit ms |}
  end.

Definition parse_col (c : col) : param :=
  let t0 := base_of (c_type c) in
  let typ := match c_nullable c with Some true => {| t_opt := true; t_base := t_base t0 |} | _ => t0 end in
  let doc0 := c_comment c in
  let doc1 := if c_pk c then Some (match doc0 with Some d => s2l "[PK] " ++ d | None => s2l "[PK]" end)
              else match c_fk c with
                   | Some f => Some (match doc0 with Some d => s2l "[FK(" ++ f ++ s2l ")] " ++ d | None => s2l "[FK(" ++ f ++ s2l ")]" end)
                   | None => doc0
                   end in
  let doc2 := match c_default c, doc1 with Some _, Some d => Some (d ++ [DOT]) | _, d => d end in
  {| p_typ := typ; p_doc := doc2; p_default := c_default c |}.
