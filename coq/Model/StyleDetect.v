(* cdd/shared/docstring_utils.py:derive_docstring_format -- the style of a docstring is decided by token presence, ReST first.
   Definitions only. *)
From CDD Require Import PyStr RestDoc.

Inductive style := Rest | Google | Numpydoc.

Definition google_tokens : list str := map s2l ["Args:"; "Kwargs:"; "Raises:"; "Returns:"]%string.
Definition numpydoc_tokens : list str := [s2l "Parameters" ++ [NL] ++ s2l "----------"; s2l "Returns" ++ [NL] ++ s2l "-------"].

Definition derive_format (doc : str) : style :=
  if existsb (fun t => contains t doc) all_tokens then Rest
  else if existsb (fun t => contains t doc) google_tokens then Google
  else Numpydoc.
