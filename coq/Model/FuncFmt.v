(* The function format as text: docstring (cdd/function/emit.py: docstring(..., emit_types = not type_annotations, indent_level = 2),
   i.e. Model/RestDoc.v:emit_rest_indented_nt: emit_separating_tab is off on Python >= 3.9) plus the signature (annotations when type_annotations is on; EVERY parameter gets a default,
   `None` when the description has none).  Parser: cdd/function/parse.py:function = the docstring parser, then ir_merge of the
   signature's parameters into the documented ones (Model/Merge.v:cmerge with merge_present_params), defaults through func_arg2param.
   The value of a default is an opaque source token; the token None reads back as NoneStr.  Definitions only. *)
From CDD Require Import PyStr DocSplit RestDoc Merge.

Record fparam := { fp_typ : option str; fp_doc : option str; fp_default : option str }.
Record fsig_arg := { fa_name : str; fa_ann : option str; fa_default : str }.
Record func := { f_doc : str; f_args : list fsig_arg }.

Definition NONE : str := s2l "None".
Definition INDENT : nat := 2.

Definition entry_of (emit_types : bool) (p : fparam) : pentry := {| pe_doc := fp_doc p; pe_typ := if emit_types then fp_typ p else None |}.

Definition emit_function (type_annotations : bool) (doc : str) (ps : list (str * fparam)) : func :=
  {| f_doc := emit_rest_indented_nt INDENT (negb type_annotations) doc (map (fun p => (fst p, entry_of true (snd p))) ps) None;
     f_args := map (fun p => {| fa_name := fst p; fa_ann := if type_annotations then fp_typ (snd p) else None;
                                fa_default := match fp_default (snd p) with Some d => d | None => NONE end |}) ps |}.

(* func_arg2param + the conversion of the default node by merge_present_params *)
Definition sig_param (a : fsig_arg) : str * cparam :=
  (fa_name a, mkCP (fa_ann a) None (Some (if str_eqb (fa_default a) NONE then NoneStr else fa_default a))).

Definition parse_function (f : func) : str * list (str * cparam) :=
  let t := parse_rest (f_doc f) in
  let target := map (fun ne => (fst ne, mkCP (pe_typ (snd ne)) (pe_doc (snd ne)) None)) (p_params t) in
  let other := map sig_param (f_args f) in
  (p_doc t,
   match target with
   | [] => other
   | _ => match other with [] => target | _ => cmerge (inter_in_order str str_eqb cparam other target) other target end
   end).
