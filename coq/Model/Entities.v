(* cdd/compound/openapi/utils/parse_utils.py:extract_entities -- the names written between ``` fences in the yml block of a route's
   docstring -- and the choice cdd/compound/openapi/parse.py:openapi makes among them (the last one that is not "ServerError" names the
   operation's entity).  Literal transcription of the character loop (the counter `space` is never read and is left out).
   Definitions only. *)
From CDD Require Import PyStr.
Open Scope N_scope.

Definition TICK : char := 96.

Record estate := { e_entities : list str; e_ticks : nat; e_stack : str }.

Definition add_then_clear (s : estate) : estate :=
  {| e_entities := match e_stack s with [] => e_entities s | w => e_entities s ++ [w] end; e_ticks := e_ticks s; e_stack := [] |}.

Definition estep (s : estate) (c : char) : estate :=
  if is_space c then let s' := add_then_clear s in {| e_entities := e_entities s'; e_ticks := 0; e_stack := [] |}
  else if Nat.ltb 2 (e_ticks s) then
    let s' := match e_stack s with [] => s | _ => add_then_clear s end in
    {| e_entities := e_entities s'; e_ticks := 0; e_stack := e_stack s' ++ [c] |}
  else if c =? TICK then {| e_entities := e_entities s; e_ticks := S (e_ticks s); e_stack := e_stack s |}
  else match e_stack s with
       | [] => s
       | st => {| e_entities := e_entities s; e_ticks := e_ticks s; e_stack := st ++ [c] |}
       end.

Definition einit : estate := {| e_entities := []; e_ticks := 0; e_stack := [] |}.
Definition extract_entities (text : str) : list str := e_entities (add_then_clear (fold_left estep text einit)).

(* openapi(): the entity the operation is about *)
Definition SERVER_ERROR : str := Eval vm_compute in s2l "ServerError".
Definition pick_entity (es : list str) : option str :=
  fold_left (fun acc e => if str_eqb e SERVER_ERROR then acc else Some e) es None.
