(* cdd/shared/docstring_utils.py: the header / args / footer split and its re-assembly.
   _get_token_start_idx and header_args_footer_to_str are transcribed literally; the three-way
   slicing is stated parametrically in the two indices.  Definitions only. *)
From CDD Require Import PyStr.
Open Scope N_scope.

Definition DASH : char := 45.

(* TOKENS_SET / NUMPYDOC_TOKENS_SET (first lines of every style's tokens) *)
Definition tokens_set : list str := map s2l
  [":cvar"; ":ivar"; ":param"; ":raises"; ":return"; ":rtype"; ":type"; ":var";
   "Args:"; "Kwargs:"; "Parameters"; "Raises:"; "Returns"; "Returns:"]%string.
Definition numpydoc_tokens_set : list str := map s2l ["Parameters"; "Returns"]%string.

Fixpoint count_leading_space (s : str) : nat :=
  match s with c :: r => if is_space c then S (count_leading_space r) else O | [] => O end.

(* s.find(p, i) *)
Definition find_at (p s : str) (i : nat) : Z :=
  if Nat.ltb (length s) i then (-1)%Z
  else match find p (skipn i s) with
       | Zneg _ => (-1)%Z
       | z => (z + Z.of_nat i)%Z
       end.

Definition all_dashes (s : str) : bool := Nat.eqb (count_char DASH s) (length s).

(* the test made at a newline at index [idx] whose line content is [line] *)
Definition triggers (doc : str) (idx : nat) (line : str) : bool :=
  let ind := count_leading_space line in
  let l := skipn ind line in
  if mem_str l numpydoc_tokens_set then
    let i := (ind + idx + 1)%nat in
    let next_line := slice doc (Z.of_nat i) (find_at [NL] doc i) in
    all_dashes next_line
  else existsb (fun tok => startswith tok l) tokens_set.

Fixpoint scan (doc rest : str) (idx : nat) (stack_rev : str) : Z :=
  match rest with
  | [] => (-1)%Z
  | c :: r =>
      if c =? NL then
        if triggers doc idx (rev stack_rev) then (Z.of_nat idx - Z.of_nat (length stack_rev))%Z
        else scan doc r (S idx) []
      else scan doc r (S idx) (c :: stack_rev)
  end.

Definition get_token_start_idx (doc : str) : Z := scan doc doc 0 [].

(* ---- the three-way split, parametric in the two indices ------------------------------------ *)
(* header = doc[:start] if start > -1 else None; args = doc[start or None : last or None];
   footer = doc[last:] if last != -1 else None *)
Definition split3 (doc : str) (start last : Z) : option str * str * option str :=
  ( (if (-1 <? start)%Z then Some (slice_to doc start) else None),
    slice doc (if (-1 <? start)%Z then start else 0%Z) (if (-1 <? last)%Z then last else slen doc),
    (if (last =? -1)%Z then None else Some (slice_from doc last)) ).

Definition concat3 (p : option str * str * option str) : str :=
  let '(h, a, f) := p in
  (match h with Some x => x | None => [] end) ++ a ++ (match f with Some x => x | None => [] end).

(* ---- re-assembly ----------------------------------------------------------------------------- *)
(* pure_utils.count_chars_from(s, str.isspace, "\n", end) *)
Fixpoint count_nls_prefix (s : str) : nat :=
  match s with
  | c :: r => if c =? NL then S (count_nls_prefix r) else if is_space c then count_nls_prefix r else O
  | [] => O
  end.
(* from the end the Python loop runs i = len-1 .. start_idx+1, i.e. it never looks at s[0] *)
Definition num_of_nls (s : str) (from_end : bool) : nat :=
  if from_end then count_nls_prefix (rev (tl s)) else count_nls_prefix s.

(* textwrap.indent(text, prefix, predicate=lambda _: _): the prefix goes in front of every line
   (lines are text.splitlines(True); only "\n" is modelled as a line break) *)
Fixpoint indent_aux (prefix : str) (s : str) (at_line_start : bool) : str :=
  match s with
  | [] => []
  | c :: r => (if at_line_start then prefix else []) ++ c :: indent_aux prefix r (c =? NL)
  end.
Definition indent (prefix s : str) : str := indent_aux prefix s true.

Definition nls (n : nat) : str := repeat NL n.
Definition spaces (n : nat) : str := repeat SP n.

Definition header_args_footer_to_str (header args_returns footer : str) : str :=
  let header_end_nls := match header with [] => O | _ => num_of_nls header true end in
  (* first block *)
  let ar1 :=
    match args_returns with
    | [] => []
    | _ =>
        let s_nls := num_of_nls args_returns false in
        let e_nls := num_of_nls args_returns true in
        (if Nat.ltb s_nls 2 && negb (Nat.eqb (length header) 0) && Nat.eqb header_end_nls 0
         then nls (if Nat.eqb s_nls 0 then 2 else s_nls) else [])
        ++ args_returns ++ (if Nat.eqb e_nls 0 then [NL] else [])
    end in
  let ar_start_nls := match args_returns with [] => O | _ => num_of_nls ar1 false end in
  let ar_end_nls := match args_returns with [] => O | _ => num_of_nls ar1 true end in
  let footer_start_nls :=
    match footer with
    | [] => O
    | _ => let k := count_nls_prefix footer in if Nat.eqb k 0 then ar_end_nls else k
    end in
  (* match indent of args_returns to header or footer *)
  let ar2 :=
    match ar1 with
    | [] => []
    | _ =>
        let hof := match header with [] => footer | _ => header end in
        let ia := count_leading_space hof in
        let newlines := match hof with [] => O | _ => count_char NL (firstn ia hof) end in
        let ia' := (ia - newlines)%nat in
        let cur := count_leading_space ar1 in
        if Nat.eqb cur ia' then ar1
        else
          let ind := spaces ia' in
          let r := indent ind ar1 in
          match last_opt r with
          | Some c => if (c =? NL) && Nat.ltb 1 (length ar1) then r ++ ind else r
          | None => r
          end
    end in
  let nls_after_header := (header_end_nls + ar_start_nls)%nat in
  let needed :=
    if Nat.ltb 1 nls_after_header || Nat.eqb (length header) 0 || Nat.eqb (length ar2) 0 then O
    else if Nat.eqb nls_after_header 1 then 1%nat else if Nat.eqb nls_after_header 0 then 2%nat else O in
  header ++ nls needed ++ ar2
  ++ (if negb (Nat.eqb (length ar2) 0) && negb (Nat.eqb (length footer) 0)
         && Nat.eqb footer_start_nls 0 && Nat.eqb ar_end_nls 0 then [NL] else [])
  ++ footer.
