(* cdd/shared/cst_utils.py:reindent_block_with_pass_body -- the text of a `def` / `class` header, taken out of its file, made parsable:
   every line loses its leading blanks, the FIRST run of four blanks anywhere in the result is deleted, " pass" is appended.
   (doctrans parses the result and compares its arguments with the ones it computed; when they differ the header is re-printed.)
   Definitions only. *)
From CDD Require Import PyStr.
Open Scope N_scope.

Definition TAB4 : str := [SP; SP; SP; SP].
Definition PASS : str := Eval vm_compute in s2l " pass".

Definition reindent_block_with_pass_body (s : str) : str :=
  replace1 TAB4 [] (join [NL] (map lstrip (split_char NL s))) ++ PASS.
