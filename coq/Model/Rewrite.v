(* cdd/shared/ast_utils.py: annotate_ancestry (_location, _idx) + RewriteAtQuery, on a module AST subset.
   Expressions and annotations are carried as their source text.  Definitions only. *)
From CDD Require Import PyStr.
Open Scope N_scope.

Definition expr := str.
Record argd := mkArg { a_name : str; a_ann : option expr }.

Inductive node :=
| NClass (name : str) (body : list node)
| NFunc (name : str) (args kwonly : list argd) (defaults : list expr) (body_id : nat)   (* the body is not visited *)
| NAnn (target : str) (ann : expr) (value : option expr)
| NAssign (target : str) (value : expr)
| NOther (id : nat).

(* the replacement node handed to RewriteAtQuery *)
Inductive repl :=
| RArg (a : argd)                                  (* a function parameter of the input (ast.arg) *)
| RAnn (target : str) (ann : expr) (value : option expr).   (* a class attribute of the input, or the --input-eval Literal *)

Fixpoint strs_eqb (a b : list str) : bool :=
  match a, b with
  | [], [] => true
  | x :: a', y :: b' => str_eqb x y && strs_eqb a' b'
  | _, _ => false
  end.

Definition repl_as_node (r : repl) : option node :=
  match r with RAnn t a v => Some (NAnn t a v) | RArg _ => None end.   (* an ast.arg in a class body: not valid Python *)
Definition repl_as_arg (r : repl) : argd :=
  match r with RArg a => a | RAnn t a _ => mkArg t (Some a) end.     (* emit_arg *)

(* Python list assignment l[i] = v with a possibly negative index *)
Definition list_set {A} (l : list A) (i : Z) (v : A) : list A :=
  let n := Z.of_nat (length l) in
  let j := if (i <? 0)%Z then (n + i)%Z else i in
  if (j <? 0)%Z || (n <=? j)%Z then l
  else firstn (Z.to_nat j) l ++ v :: skipn (S (Z.to_nat j)) l.

Definition is_self (a : argd) : bool := str_eqb (a_name a) (s2l "self") || str_eqb (a_name a) (s2l "cls").

(* _idx of the first positional argument named [n] (enumerate starts at -1 when the first argument is self/cls) *)
Fixpoint idx_of (n : str) (args : list argd) (start : Z) : option Z :=
  match args with
  | [] => None
  | a :: r => if str_eqb (a_name a) n then Some start else idx_of n r (start + 1)%Z
  end.
Definition start_idx (args : list argd) : Z := match args with a :: _ => if is_self a then (-1)%Z else 0%Z | [] => 0%Z end.

(* replace the first argument whose _location equals the search path; returns (list, replaced?) *)
Fixpoint replace_arg (loc_prefix search : list str) (new : argd) (args : list argd) : list argd * bool :=
  match args with
  | [] => ([], false)
  | a :: r =>
      if strs_eqb (loc_prefix ++ [a_name a]) search then (new :: r, true)
      else let '(r', b) := replace_arg loc_prefix search new r in (a :: r', b)
  end.

(* get_value(AnnAssign) is the value NODE (never a member of none_types) when a value is present, NoneStr when absent: a written
   `= None` is copied like any other value *)

(* visit_FunctionDef *)
Definition visit_func (search : list str) (r : repl) (loc : list str) (args kwonly : list argd) (defaults : list expr)
  : list argd * list argd * list expr * bool :=
  let defaults' :=
    match r with
    | RAnn t _ (Some v) =>
        match idx_of t args (start_idx args) with
        | Some idx => if (Z.of_nat (length defaults) >? idx)%Z then list_set defaults idx v else defaults
        | None => defaults
        end
    | _ => defaults
    end in
  let new := repl_as_arg r in
  let '(args', b1) := replace_arg loc search new args in
  if b1 then (args', kwonly, defaults', true)
  else let '(kw', b2) := replace_arg loc search new kwonly in (args, kw', defaults', b2).

(* generic_visit over a list of statements; [parent] = the name list of the immediate parent ([] for a module) *)
Fixpoint visit (fuel : nat) (search : list str) (r : repl) (parent : list str) (replaced : bool) (nodes : list node)
  : option (list node * bool) :=
  match fuel with
  | O => None
  | S f =>
    match nodes with
    | [] => Some ([], replaced)
    | n :: rest =>
        let continue_ := fun (n' : node) (b : bool) =>
          match visit f search r parent b rest with Some (rest', b') => Some (n' :: rest', b') | None => None end in
        match n with
        | NClass name body =>
            if negb replaced && strs_eqb (parent ++ [name]) search then None   (* replacing a whole class: outside the property's domain *)
            else
              match visit f search r [name] replaced body with
              | Some (body', b) => continue_ (NClass name body') b
              | None => None
              end
        | NFunc name args kwonly defaults bid =>
            if negb replaced && strs_eqb (parent ++ [name]) (removelast search) then
              let '(a', k', d', b) := visit_func search r (parent ++ [name]) args kwonly defaults in
              continue_ (NFunc name a' k' d' bid) (replaced || b)
            else continue_ n replaced
        | NAnn target _ _ | NAssign target _ =>
            if negb replaced && strs_eqb (parent ++ [target]) search then
              match repl_as_node r with Some x => continue_ x true | None => None end
            else continue_ n replaced
        | NOther _ => continue_ n replaced
        end
    end
  end.

Fixpoint size (n : node) : nat :=
  match n with NClass _ body => S (fold_right (fun x acc => size x + acc)%nat O body) | _ => 1%nat end.
Definition size_list (l : list node) : nat := fold_right (fun x acc => size x + acc)%nat O l.

Definition rewrite (search : list str) (r : repl) (m : list node) : option (list node * bool) :=
  visit (S (2 * size_list m + length m)) search r [] false m.

(* the shape that must not change: everything except the annotation/name of arguments and whole attribute statements *)
Fixpoint shape (n : node) : node :=
  match n with
  | NClass name body => NClass name (map shape body)
  | NFunc name args kwonly defaults bid =>
      NFunc name (map (fun _ => mkArg [] None) args) (map (fun _ => mkArg [] None) kwonly) (map (fun _ => []) defaults) bid
  | NAnn _ _ _ | NAssign _ _ => NOther 0
  | NOther i => NOther i
  end.
