(* The parameter entries of a NumPy-style docstring: cdd/shared/docstring_utils.py:emit_param_str (style "numpydoc", a parameter, not the
   return entry; one-line description as set_default_doc left it, word wrap off) and the per-unit reader `_parse` of
   cdd/shared/docstring_parsers.py:_parse_phase_numpydoc_and_google (NumPy branch; a unit is the entry's first line followed by its
   deeper-indented lines; parse_original_whitespace off).  Definitions only. *)
From CDD Require Import PyStr GoogleLine.
Open Scope N_scope.

Definition TAB4 : str := [SP; SP; SP; SP].

(* lines written for one parameter: "{name} : {typ}" when types are written and there is one, then the indented description *)
Definition emit_numpy_param (emit_type emit_doc : bool) (name : str) (typ doc : option str) : list str :=
  (match typ with Some t => if emit_type then [name ++ [SP; GCOLON; SP] ++ t] else [] | None => [] end)
  ++ (match doc with Some d => if emit_doc then [TAB4 ++ d] else [] | None => [] end).

Inductive nunit := NSkip | NEntry (name : str) (typ : option str) (doc : option str).

(* name, _, typ = scan[0].partition(":") *)
Definition parse_numpy_unit (unit_ : list str) : nunit :=
  match unit_ with
  | [] => NSkip
  | first :: rest =>
      let '(name, typ) := match break_at GCOLON first with Some (a, b) => (a, b) | None => (first, []) end in
      match name with
      | [] => NSkip
      | _ => match typ with
             | [] => NEntry (strip name) None None
             | _ => NEntry (strip name) (Some (lstrip typ)) (Some (join [NL] (map lstrip rest)))
             end
      end
  end.

(* the parameter section: units in order, cut at the first unit whose first line "ends with its only colon" (the same rule as for the
   Google style); skipped units (empty name) leave no entry *)
Definition unit_afterward (u : list str) : bool := match u with f :: _ => is_afterward f | [] => false end.
Definition numpy_params (units : list (list str)) : list (str * option str * option str) :=
  flat_map (fun u => match parse_numpy_unit u with NSkip => [] | NEntry n t d => [(n, t, d)] end) (take_until unit_afterward units).
