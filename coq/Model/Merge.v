(* cdd/shared/parse/utils/parser_utils.py: merge_params / merge_present_params / _join_non_none,
   with Python's SET ITERATION ORDER as an explicit enumeration argument.  Definitions only. *)
From CDD Require Import PyStr.

Section Generic.
  Variable name : Type.
  Variable name_eqb : name -> name -> bool.
  Variable param : Type.
  Variable mpp : param -> param -> param.      (* merge_present_params other target = new target *)
  Definition params := list (name * param).    (* an ordered dict *)

  Fixpoint lookup (n : name) (l : params) : option param :=
    match l with [] => None | (k, v) :: r => if name_eqb n k then Some v else lookup n r end.
  Fixpoint update (n : name) (f : param -> param) (l : params) : params :=
    match l with [] => [] | (k, v) :: r => if name_eqb n k then (k, f v) :: r else (k, v) :: update n f r end.
  Definition names (l : params) : list name := map fst l.
  Definition mem (n : name) (l : params) : bool := existsb (name_eqb n) (names l).

  (* loop 1: for name in other.keys() & target.keys(): merge_present_params(other[name], target[name])
     -- a set is iterated: [enum] is ANY enumeration of the intersection *)
  Definition step1 (other : params) (t : params) (n : name) : params :=
    match lookup n other with Some o => update n (mpp o) t | None => t end.
  Definition loop1 (enum : list name) (other t : params) : params := fold_left (step1 other) enum t.
  (* loop 2: for name in tuple(other.keys()): if name not in target: target[name] = other[name] *)
  Definition loop2 (other t : params) : params :=
    fold_left (fun acc kv => if mem (fst kv) acc then acc else acc ++ [kv]) other t.
  Definition merge_params (enum : list name) (other t : params) : params := loop2 other (loop1 enum other t).

  (* the enumeration Python would use if sets iterated in the order of [other] *)
  Definition inter_in_order (other t : params) : list name := filter (fun n => mem n t) (names other).
End Generic.

(* ---- concrete instance for the correspondence ------------------------------------------------- *)
Record cparam := mkCP { c_typ : option str; c_doc : option str; c_default : option str }.
(* defaults are modelled as optional strings; none_types = (None, "None", NoneStr) *)
Definition NoneStr : str := s2l "```(None)```".
Definition simple_types : list str := map s2l ["int"; "float"; "complex"; "str"; "bool"]%string.
Definition is_simple (t : option str) : bool :=
  match t with None => true | Some s => mem_str s simple_types end.
Definition nonempty (o : option str) : bool := match o with Some (_ :: _) => true | _ => false end.
Definition in_none_types (o : option str) : bool :=
  match o with None => true | Some s => str_eqb s (s2l "None") || str_eqb s NoneStr end.

Definition merge_present (o t : cparam) : cparam :=
  let doc := if negb (nonempty (c_doc t)) && nonempty (c_doc o) then c_doc o else c_doc t in
  let typ :=
    match c_typ o with
    | Some ot =>
        if match c_typ t with None => true | Some ty => mem_str ty simple_types && negb (mem_str ot simple_types) end
        then Some ot else c_typ t
    | None => c_typ t
    end in
  let dflt := if in_none_types (c_default t) && match c_default o with Some _ => true | None => false end
              then c_default o else c_default t in
  mkCP typ doc dflt.

Definition cmerge (enum : list str) (other t : list (str * cparam)) : list (str * cparam) :=
  merge_params str str_eqb cparam merge_present enum other t.

(* _join_non_none(primacy, other) on key/value maps: keys missing or None in primacy are filled from other.
   [enum] enumerates frozenset(primacy.keys() + other.keys()) *)
Definition kv := list (str * option str).
Fixpoint kv_get (k : str) (m : kv) : option str :=
  match m with [] => None | (a, v) :: r => if str_eqb k a then v else kv_get k r end.
Fixpoint kv_has (k : str) (m : kv) : bool :=
  match m with [] => false | (a, _) :: r => str_eqb k a || kv_has k r end.
Fixpoint kv_set (k : str) (v : option str) (m : kv) : kv :=
  match m with
  | [] => [(k, v)]
  | (a, w) :: r => if str_eqb k a then (a, v) :: r else (a, w) :: kv_set k v r
  end.
Definition join_non_none (enum : list str) (primacy other : kv) : kv :=
  fold_left (fun acc k =>
               match kv_get k primacy, kv_get k other with
               | None, Some v => kv_set k (Some v) acc
               | _, _ => acc
               end) enum primacy.
