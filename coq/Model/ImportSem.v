(* Operational semantics of Python's import statement over a package's module-level statements.
   Definitions only. *)
From Coq Require Import List PArith Bool FMapPositive FSetPositive.
Import ListNotations.
Open Scope positive_scope.
Module PM := PositiveMap.
Module PS := PositiveSet.

Inductive stmt :=
| SBind (n : positive)
| SImport (chain : list positive) (bind : positive)
| SFrom (chain : list positive) (m : positive) (items : list (positive * option positive * positive))
| SUse (names : list positive)
| SUnsupported.
Record modinfo := mkMod { m_parent : option positive; m_short : positive; m_body : list stmt }.

Record mstate := mkSt { s_loaded : bool; s_names : PS.t; s_sub : PM.t positive }.
Definition state := PM.t mstate.
Inductive err := EUnsupported (importer : positive) | ECannotImportName (importer m name : positive) | ENoAttr (importer m name : positive) | EUnbound (importer name : positive).
Inductive result := Ok (st : state) | Err (e : err) | OutOfFuel.

Definition bind (st : state) (m n : positive) : state :=
  match PM.find m st with
  | Some ms => PM.add m (mkSt (s_loaded ms) (PS.add n (s_names ms)) (s_sub ms)) st
  | None => st
  end.
Definition has_name (st : state) (m n : positive) : bool :=
  match PM.find m st with Some ms => PS.mem n (s_names ms) | None => false end.

Section Sem.
  Variable mods : PM.t modinfo.
  Variable root_name : positive.
  Variable root_mod : positive.

  (* resolve a module-level attribute chain a.b.c... starting at module [cur] *)
  Fixpoint use_chain (st : state) (importer cur : positive) (ns : list positive) : option err :=
    match ns with
    | [] => None
    | a :: rest =>
        match PM.find cur st with
        | None => Some (ENoAttr importer cur a)
        | Some ms =>
            if PS.mem a (s_names ms) then
              match PM.find a (s_sub ms) with
              | Some sub => use_chain st importer sub rest
              | None => None          (* a plain object: stop checking *)
              end
            else Some (ENoAttr importer cur a)
        end
    end.

  Fixpoint load (fuel : nat) (st : state) (m : positive) {struct fuel} : result :=
    match fuel with
    | O => OutOfFuel
    | S fuel' =>
        match PM.find m st with
        | Some _ => Ok st                          (* in sys.modules, possibly partially initialised *)
        | None =>
            match PM.find m mods with
            | None => Ok st                        (* external module: assumed importable *)
            | Some info =>
                let load_chain :=
                  fix load_chain (st : state) (c : list positive) : result :=
                    match c with
                    | [] => Ok st
                    | x :: r => match load fuel' st x with Ok st' => load_chain st' r | e => e end
                    end in
                let from_items :=
                  fix from_items (st : state) (src : positive) (items : list (positive * option positive * positive)) : result :=
                    match items with
                    | [] => Ok st
                    | (n, sub, asn) :: r =>
                        if has_name st src n then from_items (bind st m asn) src r
                        else match sub with
                             | Some s => match load fuel' st s with
                                         | Ok st' => from_items (bind st' m asn) src r
                                         | e => e end
                             | None => Err (ECannotImportName m src n)
                             end
                    end in
                let exec :=
                  fix exec (st : state) (ss : list stmt) : result :=
                    match ss with
                    | [] => Ok st
                    | SBind n :: r => exec (bind st m n) r
                    | SImport c b :: r =>
                        match load_chain st c with Ok st' => exec (bind st' m b) r | e => e end
                    | SFrom c src items :: r =>
                        match load_chain st c with
                        | Ok st' => match from_items st' src items with Ok st'' => exec st'' r | e => e end
                        | e => e end
                    | SUnsupported :: _ => Err (EUnsupported m)
                    | SUse ns :: r =>
                        match ns with
                        | [] => exec st r
                        | a :: rest =>
                            if has_name st m a then
                              if Pos.eqb a root_name then
                                match use_chain st m root_mod rest with Some e => Err e | None => exec st r end
                              else exec st r
                            else Err (EUnbound m a)
                        end
                    end in
                let st0 := PM.add m (mkSt false PS.empty (PM.empty _)) st in
                match exec st0 (m_body info) with
                | Ok st1 =>
                    let st2 := match PM.find m st1 with
                               | Some ms => PM.add m (mkSt true (s_names ms) (s_sub ms)) st1
                               | None => st1 end in
                    Ok (match m_parent info with
                        | Some p => match PM.find p st2 with
                                    | Some ps => PM.add p (mkSt (s_loaded ps) (PS.add (m_short info) (s_names ps))
                                                               (PM.add (m_short info) m (s_sub ps))) st2
                                    | None => st2 end
                        | None => st2 end)
                | e => e
                end
            end
        end
    end.

  (* `python -c "import a.b.c"`: load every prefix in order *)
  Fixpoint import_chain (fuel : nat) (st : state) (c : list positive) : result :=
    match c with
    | [] => Ok st
    | x :: r => match load fuel st x with Ok st' => import_chain fuel st' r | e => e end
    end.
End Sem.

(* ---- whole-program runs over a generated module table *)
Section Run.
  Variable modules : list (positive * modinfo).
  Variable root_name root_mod : positive.
  Variable fuel : nat.

  Definition mods : PM.t modinfo := fold_left (fun acc '(k, v) => PM.add k v acc) modules (PM.empty _).

  (* a fresh interpreter importing the dotted names cs in this order *)
  Definition run (cs : list (list positive)) : result :=
    fold_left (fun r c => match r with Ok st => import_chain mods root_name root_mod fuel st c | e => e end)
              cs (Ok (PM.empty _)).
  Definition ok (r : result) : bool := match r with Ok _ => true | _ => false end.

  (* names bound in every loaded module, canonically ordered *)
  Definition names_of (st : state) : list (positive * (bool * list positive)) :=
    map (fun '(k, ms) => (k, (s_loaded ms, PS.elements (s_names ms)))) (PM.elements st).
  Fixpoint pos_list_eqb (a b : list positive) : bool :=
    match a, b with
    | [], [] => true
    | x :: a', y :: b' => Pos.eqb x y && pos_list_eqb a' b'
    | _, _ => false
    end.
  Fixpoint names_eqb (a b : list (positive * (bool * list positive))) : bool :=
    match a, b with
    | [], [] => true
    | (k, (l, ns)) :: a', (k', (l', ns')) :: b' =>
        Pos.eqb k k' && Bool.eqb l l' && pos_list_eqb ns ns' && names_eqb a' b'
    | _, _ => false
    end.

  Definition single_ok (m : list positive) : bool := ok (run [m]).
  (* importing a then b and b then a both succeed and bind the same names everywhere *)
  Definition pair_ok (ab : list positive * list positive) : bool :=
    let '(a, b) := ab in
    match run [a; b], run [b; a] with
    | Ok s1, Ok s2 => names_eqb (names_of s1) (names_of s2)
    | _, _ => false
    end.
End Run.
