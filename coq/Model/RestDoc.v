(* ReST docstrings: the emitter (cdd/docstring/emit.py:docstring + docstring_utils.emit_param_str, style "rest", purpose
   "function", word_wrap off, indent_level 0, no _internal) and the parser (docstring_parsers._scan_phase_rest +
   _parse_phase_rest) for parameters that carry a description and / or a type and no default.  Definitions only.

   Not in this model: interpolate_defaults / _set_name_and_type / extract_default (they act as the identity on the
   domain of the round-trip theorem: descriptions without a default announcer; checked by the correspondence),
   textwrap.fill, indentation of continuation lines. *)
From CDD Require Import PyStr DocSplit.

Definition COLON : char := 58.
Definition BT : char := 96.
Definition STAR : char := 42.

Definition arg_tokens : list str := map s2l [":param"; ":cvar"; ":ivar"; ":var"; ":type"; ":raises"]%string.
Definition return_tokens : list str := map s2l [":return"; ":rtype"]%string.
Definition all_tokens : list str := arg_tokens ++ return_tokens.

(* ---- _scan_phase_rest: literal transcription ------------------------------------------------ *)
Definition seg := (bool * str)%type.

(* tuple(stack_rev[:len(token)]) == reversed token *)
Definition ends_with (s tok : str) : bool := str_eqb (firstn (length tok) (rev s)) (rev tok).

(* the inner `for token in rev_known_tokens_t` loop; [snap] is stack_rev, computed once per character *)
Fixpoint tok_loop (toks : list str) (snap : str) (scanned : list seg) (stack : str) : list seg * str :=
  match toks with
  | [] => (scanned, stack)
  | t :: rest =>
      if ends_with snap t then
        let body := firstn (length stack - length t) stack in
        let scanned' := scanned ++ [(negb (Nat.eqb (length scanned) 0), body)] in
        tok_loop rest snap scanned' (firstn (length t) (skipn (length body) stack))
      else tok_loop rest snap scanned stack
  end.

Definition step (tokens : list str) (st : list seg * str) (c : char) : list seg * str :=
  let '(scanned, stack) := st in
  let stack' := stack ++ [c] in tok_loop tokens stack' scanned stack'.

Definition scan_chars (tokens : list str) (s : str) (st : list seg * str) : list seg * str := fold_left (step tokens) s st.

Definition last_flag (l : list seg) : bool := match last_opt l with Some (b, _) => b | None => false end.

Definition finish_scan (tokens : list str) (st : list seg * str) : list seg :=
  let '(scanned, stack) := st in
  match stack with
  | [] => scanned
  | _ => scanned ++ [(last_flag scanned || existsb (fun t => startswith t stack) tokens, stack)]
  end.

Definition scan_rest (doc : str) : list seg := finish_scan all_tokens (scan_chars all_tokens doc ([], [])).

(* ---- _parse_phase_rest (structure) ----------------------------------------------------------- *)
Record pentry := { pe_doc : option str; pe_typ : option str }.
Definition empty_entry : pentry := {| pe_doc := None; pe_typ := None |}.
Definition set_doc (e : pentry) (v : str) : pentry := {| pe_doc := Some v; pe_typ := pe_typ e |}.
Definition set_typ (e : pentry) (v : str) : pentry := {| pe_doc := pe_doc e; pe_typ := Some v |}.

Record parsed := { p_doc : str; p_params : list (str * pentry); p_ret : option pentry }.

(* dict[name] = value on an ordered dict: an existing key keeps its position *)
Fixpoint set_assoc (k : str) (v : pentry) (l : list (str * pentry)) : list (str * pentry) :=
  match l with
  | [] => [(k, v)]
  | (k', v') :: r => if str_eqb k k' then (k, v) :: r else (k', v') :: set_assoc k v r
  end.

(* _set_param_values: "typ" when the line starts with [sw], backticks removed, "**..." becomes dict *)
Definition typ_value (val : str) : str :=
  let v := replace (s2l "```") [] val in
  if startswith [STAR; STAR] v then s2l "dict" else v.

(* s.find(p, start) with Python's treatment of a negative start *)
Definition find_start (p s : str) (start : Z) : Z :=
  let st := norm_idx (slen s) start in
  match find p (slice_from s st) with
  | Zneg _ => (-1)%Z
  | z => (z + st)%Z
  end.

(* _set_name_and_type on the NAME (run after every token line): leading asterisks are removed ("**kw" / anything ending in "kwargs":
   all of them; "*args": one) *)
Definition norm_name (n : str) : str :=
  if endswith (s2l "kwargs") n || startswith [STAR; STAR] n then lstrip_chars [STAR] n
  else if startswith [STAR] n then tl n else n.

Record pstate := { st_doc : str; st_params : list (str * pentry); st_ret : option pentry; st_cur : option (str * pentry) }.

Definition flush (s : pstate) : list (str * pentry) :=
  match st_cur s with
  | Some (n, e) => if startswith [STAR] n then st_params s else set_assoc n e (st_params s)
  | None => st_params s
  end.

Definition parse_token_line (s : pstate) (line : str) : pstate :=
  if existsb (fun t => startswith t line) return_tokens then
    let nxt_colon := find_start [COLON] line 1 in
    let val := strip (slice_from line (nxt_colon + 1)) in
    let e := match st_ret s with Some e => e | None => empty_entry end in
    let e' := if startswith (s2l ":rtype") line then set_typ e (typ_value val) else set_doc e val in
    {| st_doc := st_doc s; st_params := st_params s; st_ret := Some e'; st_cur := st_cur s |}
  else
    let fst_space := find [SP] line in
    let nxt_colon := find_start [COLON] line fst_space in
    let name := slice line (fst_space + 1) nxt_colon in
    let '(params', cur_e) :=
      match st_cur s with
      | Some (n, e) => if str_eqb n name then (st_params s, e) else (flush s, empty_entry)
      | None => (st_params s, empty_entry)
      end in
    let val := strip (slice_from line (nxt_colon + 1)) in
    let e' := if startswith (s2l ":type") line then set_typ cur_e (typ_value val) else set_doc cur_e val in
    {| st_doc := st_doc s; st_params := params'; st_ret := st_ret s; st_cur := Some (norm_name name, e') |}.

Definition parse_seg (s : pstate) (sg : seg) : pstate :=
  let '(is_token, line) := sg in
  if is_token then parse_token_line s line
  else match st_doc s with
       | [] => {| st_doc := strip line; st_params := st_params s; st_ret := st_ret s; st_cur := st_cur s |}
       | _ => s
       end.

Definition init_state : pstate := {| st_doc := []; st_params := []; st_ret := None; st_cur := None |}.

Definition parse_rest (doc : str) : parsed :=
  let s := fold_left parse_seg (scan_rest doc) init_state in
  {| p_doc := st_doc s; p_params := flush s; p_ret := st_ret s |}.

(* ---- the emitter ------------------------------------------------------------------------------ *)
Definition nonempty (o : option str) : option str := match o with Some [] => None | x => x end.

Definition lines_of (key key_typ : str) (emit_types : bool) (e : pentry) : list str :=
  (match nonempty (pe_doc e) with Some d => [[COLON] ++ key ++ s2l ": " ++ lstrip d] | None => [] end)
  ++ (match nonempty (pe_typ e) with
      | Some t => if emit_types then [[COLON] ++ key_typ ++ s2l ": ```" ++ t ++ s2l "```"] else []
      | None => [] end).

Definition emit_param (emit_types : bool) (p : str * pentry) : str :=
  join [NL] (lines_of (s2l "param " ++ fst p) (s2l "type " ++ fst p) emit_types (snd p)).
Definition emit_return (emit_types : bool) (e : pentry) : str :=
  join [NL] (lines_of (s2l "return") (s2l "rtype") emit_types e).

Definition ends_nl (s : str) : bool := match last_opt s with Some c => c =? NL | None => false end.

Definition args_returns (emit_types : bool) (ps : list (str * pentry)) (ret : option pentry) : str :=
  let params := join [NL; NL] (map (emit_param emit_types) ps) in
  let returns :=
    match ret with
    | Some e => match emit_return emit_types e with
                | [] => []
                | line => (if Nat.eqb (length params) 0 || ends_nl params then [] else [NL]) ++ line
                end
    | None => []
    end in
  let pe := num_of_nls params true in
  let re := num_of_nls returns true in
  params ++ (if Nat.ltb pe 2 && negb (Nat.eqb (length returns) 0) then [NL] else [])
  ++ returns
  ++ (if (Nat.eqb (length returns) 0 && Nat.ltb 0 pe) || (negb (Nat.eqb (length returns) 0) && Nat.eqb re 0) then [NL] else []).

Definition emit_rest (emit_types : bool) (doc : str) (ps : list (str * pentry)) (ret : option pentry) : str :=
  let ar := args_returns emit_types ps ret in
  let cand := header_args_footer_to_str doc (if isspace ar then [] else ar) [] in
  match cand with
  | [] => []
  | c :: _ =>
      if isspace cand then []
      else if Nat.eqb (count_char NL cand) 0 then (if c =? NL then cand else NL :: cand)
      else cand
  end.

(* ---- indent_level > 0 (docstrings inside functions and classes): the tail of cdd/docstring/emit.py:docstring -------------
   prev_nl / next_nl skip leading whitespace-only lines; the first real line and the rest (splitlines) get the tab prefix (also the
   empty ones: emit_separating_tab); several lines are wrapped in a leading newline and a trailing newline + tab.
   splitlines is modelled for texts whose only line break character is "\n". *)
Definition TAB : str := [SP; SP; SP; SP].

(* the while loop: returns (line, next_nl) *)
Fixpoint skip_blank_lines (fuel : nat) (cand : str) (prev_nl next_nl : Z) : str * Z :=
  match fuel with
  | O => (slice_from cand prev_nl, slen cand)
  | S f =>
      if (next_nl <? 0)%Z then (slice_from cand prev_nl, slen cand)          (* while-else *)
      else
        let line := slice cand prev_nl next_nl in
        if negb (isspace line) then (line, next_nl)
        else skip_blank_lines f cand (next_nl + 1)
               (match find [NL] (slice_from cand (next_nl + 1)) with Zneg _ => (-1)%Z | z => (z + next_nl + 1)%Z end)
  end.

Definition splitlines_nl (s : str) : list str :=
  match s with
  | [] => []
  | _ => let l := split_char NL s in if ends_nl s then removelast l else l
  end.

Definition nth_char (s : str) (i : Z) : option char := nth_error s (Z.to_nat i).

Definition indent_doc (indent_level : nat) (cand : str) : str :=
  match indent_level with
  | O => cand
  | _ =>
    let tabs := concat (repeat TAB indent_level) in
    let '(line, next_nl) := skip_blank_lines (S (length cand)) cand 0 (find [NL] cand) in
    let n := slen cand in
    let start := if (n =? next_nl)%Z || (((next_nl + 1) <? n)%Z && negb (match nth_char cand (next_nl + 1) with Some c => c =? NL | None => false end))
                 then next_nl else (next_nl + 1)%Z in
    let lines := (match line with [] => [] | _ => [line] end) ++ splitlines_nl (slice_from cand start) in
    let joined := join [NL] (map (fun l => tabs ++ l) lines) in
    if Nat.ltb 1 (length lines)
    then (if startswith tabs joined then [NL] else []) ++ joined ++ (if ends_nl joined then [] else [NL] ++ tabs)
    else joined
  end.

Definition emit_rest_indented (indent_level : nat) (emit_types : bool) (doc : str) (ps : list (str * pentry)) (ret : option pentry) : str :=
  let ar := args_returns emit_types ps ret in
  let cand := header_args_footer_to_str doc (if isspace ar then [] else ar) [] in
  match cand with
  | [] => []
  | c :: _ =>
      if isspace cand then []
      else if Nat.eqb (count_char NL cand) 0 then (if c =? NL then cand else NL :: cand)
      else indent_doc indent_level cand
  end.

(* emit_separating_tab = False (what cdd/function/emit.py passes on Python >= 3.9): empty lines get no tab prefix *)
Definition indent_doc_nt (indent_level : nat) (cand : str) : str :=
  match indent_level with
  | O => cand
  | _ =>
    let tabs := concat (repeat TAB indent_level) in
    let '(line, next_nl) := skip_blank_lines (S (length cand)) cand 0 (find [NL] cand) in
    let n := slen cand in
    let start := if (n =? next_nl)%Z || (((next_nl + 1) <? n)%Z && negb (match nth_char cand (next_nl + 1) with Some c => c =? NL | None => false end))
                 then next_nl else (next_nl + 1)%Z in
    let lines := (match line with [] => [] | _ => [line] end) ++ splitlines_nl (slice_from cand start) in
    let joined := join [NL] (map (fun l => match l with [] => [] | _ => tabs ++ l end) lines) in
    if Nat.ltb 1 (length lines)
    then (if startswith tabs joined then [NL] else []) ++ joined ++ (if ends_nl joined then [] else [NL] ++ tabs)
    else joined
  end.

Definition emit_rest_indented_nt (indent_level : nat) (emit_types : bool) (doc : str) (ps : list (str * pentry)) (ret : option pentry) : str :=
  let ar := args_returns emit_types ps ret in
  let cand := header_args_footer_to_str doc (if isspace ar then [] else ar) [] in
  match cand with
  | [] => []
  | c :: _ =>
      if isspace cand then []
      else if Nat.eqb (count_char NL cand) 0 then (if c =? NL then cand else NL :: cand)
      else indent_doc_nt indent_level cand
  end.
