(* docstring_parsers._set_name_and_type: the name-sanitising branches.  Definitions only. *)
From CDD Require Import PyStr.
Open Scope N_scope.
Definition STAR : char := 42.
Definition s_kwargs : str := s2l "kwargs".
Definition sanitise_name (name : str) : str :=
  if endswith s_kwargs name || startswith [STAR; STAR] name then lstrip_chars [STAR] name
  else if startswith [STAR] name then skipn 1 name
  else name.
Definition no_leading_star (s : str) : bool := negb (startswith [STAR] s).
