(* cdd/function/emit.py + cdd/function/parse.py: how parameter names and defaults travel through a
   Python signature, and the class-attribute counterpart.  Definitions only.
   A default is an abstract value [D]; [None_] is the constant the emitter writes for "no default". *)
From Coq Require Import List Arith.
Import ListNotations.

Section Sig.
  Variable name : Type.
  Variable D : Type.
  Variable None_ : D.

  (* a Python signature part: argument names and the list of defaults (aligned to the TAIL) *)
  Definition pysig := (list name * list D)%type.

  (* what CPython means by (args, defaults): inspect.signature pairs the last |defaults| args *)
  Definition python_pairs (s : pysig) : list (name * option D) :=
    let '(args, defaults) := s in
    let k := length args - length defaults in
    combine (firstn k args) (repeat None k) ++ combine (skipn k args) (map Some defaults).

  (* function.parse: pad defaults on the left with None up to len(args), then zip *)
  Definition parse_pairs (s : pysig) : list (name * option D) :=
    let '(args, defaults) := s in
    let diff := length args - length defaults in     (* abs(...) with len(defaults) <= len(args) *)
    combine args (repeat None diff ++ map Some defaults).

  (* function.emit: every parameter gets a default; an absent / None default is written as the constant None *)
  Definition emit_sig (ps : list (name * option D)) : pysig :=
    (map fst ps, map (fun p => match snd p with Some d => d | None => None_ end) ps).

  (* class emit / parse: one (name, value?) statement per parameter; the value is present iff a default is *)
  Definition emit_class (ps : list (name * option D)) : list (name * option D) := ps.
  Definition parse_class (body : list (name * option D)) : list (name * option D) := body.
End Sig.
