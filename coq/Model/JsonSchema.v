(* cdd/json_schema/utils/emit_utils.py:param2json_schema_property and
   cdd/json_schema/utils/parse_utils.py:json_schema_property_to_param, on the JSON-representable
   type domain of the property.  Definitions only. *)
From CDD Require Import PyStr.
Open Scope N_scope.

(* types of the domain, structurally; [render_typ] gives the string the IR carries *)
Inductive base := BInt | BFloat | BStr | BBool | BDict | BList.
Inductive typ := TBase (b : base) | TLit (members : list str) | TOpt (t : typ).
(* defaults *)
Inductive dflt := DInt (z : Z) | DFloat (repr : str) | DStr (s : str) | DBool (b : bool) | DNone.

Definition base_name (b : base) : str :=
  s2l match b with BInt => "int" | BFloat => "float" | BStr => "str" | BBool => "bool" | BDict => "dict" | BList => "list" end.
Definition json_name (b : base) : str :=
  s2l match b with BInt => "integer" | BFloat => "number" | BStr => "string" | BBool => "boolean" | BDict => "object" | BList => "array" end.

Definition quote1 (s : str) : str := [39] ++ s ++ [39].
Fixpoint render_typ (t : typ) : str :=
  match t with
  | TBase b => base_name b
  | TLit ms => s2l "Literal[" ++ join (s2l ", ") (map quote1 ms) ++ s2l "]"
  | TOpt t => s2l "Optional[" ++ render_typ t ++ s2l "]"
  end.

(* sorted(members): insertion sort by code point order *)
Fixpoint str_leb (a b : str) : bool :=
  match a, b with
  | [], _ => true
  | _ :: _, [] => false
  | x :: a', y :: b' => if x <? y then true else if y <? x then false else str_leb a' b'
  end.
Fixpoint insert_sorted (x : str) (l : list str) : list str :=
  match l with
  | [] => [x]
  | y :: r => if str_leb x y then x :: l else y :: insert_sorted x r
  end.
Definition sort_strs (l : list str) : list str := fold_right insert_sorted [] l.

Record param := mkParam { p_typ : typ; p_doc : option str; p_default : option dflt }.
(* an emitted property *)
Record prop := mkProp { j_type : str; j_description : option str; j_pattern : option str; j_default : option dflt }.

Definition PIPE : str := [124].

(* (type, pattern) of a non-Optional type, and whether it goes through the Literal branch *)
Definition emit_inner (t : typ) : str * option str :=
  match t with
  | TBase b => (json_name b, None)
  | TLit ms => (json_name BStr, Some (join PIPE (sort_strs ms)))
  | TOpt t' => (render_typ t, None)        (* Optional[Optional[..]]: outside the domain, type text kept *)
  end.

(* param2json_schema_property: returns the property and whether the name is appended to `required` *)
Definition emit_prop (p : param) : prop * bool :=
  let d := match p_default p with      (* defaults in none_types = (None, "None", NoneStr) are dropped *)
           | Some DNone => None
           | Some (DStr s) => if str_eqb s (s2l "None") || str_eqb s (s2l "```(None)```") then None else Some (DStr s)
           | x => x
           end in
  let doc := match p_doc p with Some (_ :: _) => p_doc p | _ => None end in
  match p_typ p with
  | TOpt t' => let '(ty, pat) := emit_inner t' in (mkProp ty doc pat d, false)
  | t => let '(ty, pat) := emit_inner t in (mkProp ty doc pat d, true)
  end.

Definition required_names (ps : list (str * param)) : list str :=
  map fst (filter (fun np => snd (emit_prop (snd np))) ps).
Definition properties (ps : list (str * param)) : list (str * prop) :=
  map (fun np => (fst np, fst (emit_prop (snd np)))) ps.

(* ---- parse side ------------------------------------------------------------------------------- *)
Definition json_type2typ (s : str) : option str :=
  if str_eqb s (s2l "boolean") then Some (s2l "bool") else
  if str_eqb s (s2l "string") then Some (s2l "str") else
  if str_eqb s (s2l "object") then Some (s2l "dict") else
  if str_eqb s (s2l "array") then Some (s2l "list") else
  if str_eqb s (s2l "integer") then Some (s2l "int") else
  if str_eqb s (s2l "number") then Some (s2l "float") else
  if str_eqb s (s2l "int") then Some (s2l "integer") else
  if str_eqb s (s2l "float") then Some (s2l "number") else
  if str_eqb s (s2l "null") then Some (s2l "NoneType") else None.

Record rparam := mkRP { r_typ : option str; r_doc : option str; r_default : option dflt; r_pattern_left : option str }.

(* json_schema_property_to_param (names not ending in "kwargs"); None = KeyError in json_type2typ *)
Definition parse_prop (name : str) (pr : prop) (required : list str) : option rparam :=
  match (match j_type pr with [] => Some None | t => match json_type2typ t with Some x => Some (Some x) | None => None end end) with
  | None => None
  | Some typ0 =>
      let typ1 := match j_pattern pr with
                  | Some ((_ :: _) as pat) =>
                      Some (s2l "Literal[" ++ join (s2l ", ") (map quote1 (split_char 124 pat)) ++ s2l "]")
                  | _ => typ0
                  end in
      let typ2 := match typ1 with
                  | Some ((_ :: _) as t) =>
                      if negb (mem_str name required) && negb (contains (s2l "Optional[") t)
                      then Some (s2l "Optional[" ++ t ++ s2l "]") else typ1
                  | _ => typ1
                  end in
      Some (mkRP typ2 (j_description pr) (j_default pr) None)
  end.

(* the normal form of one parameter after emit -> parse: literal members sorted, empty doc dropped,
   None default dropped (then re-read as absent) *)
Fixpoint norm_typ (t : typ) : typ :=
  match t with
  | TBase b => TBase b
  | TLit ms => TLit (sort_strs ms)
  | TOpt t => TOpt (norm_typ t)
  end.

(* domain: Optional only at the top, literal members non-empty, free of "|" and quotes *)
Definition member_char_ok (c : char) : bool := is_ascii_alnum c || (c =? 95) || (c =? 45) || (c =? 46) || (c =? 32).
Definition member_ok (m : str) : bool := negb (Nat.eqb (length m) 0) && forallb member_char_ok m.
Definition inner_ok (t : typ) : bool :=
  match t with TBase _ => true | TLit ms => negb (Nat.eqb (length ms) 0) && forallb member_ok ms | TOpt _ => false end.
Definition typ_ok (t : typ) : bool := match t with TOpt t' => inner_ok t' | t => inner_ok t end.
Definition is_optional (t : typ) : bool := match t with TOpt _ => true | _ => false end.

(* ---- validation of a default against its own property schema, and the pattern semantics --------- *)
(* ECMA-262 search semantics of an alternation of literal strings: some alternative occurs in the text *)
Definition pattern_accepts (pat : str) (text : str) : bool := existsb (fun alt => contains alt text) (split_char 124 pat).
Definition default_validates (pr : prop) (d : dflt) : bool :=
  let ty := j_type pr in
  match d with
  | DInt _ => str_eqb ty (s2l "integer") || str_eqb ty (s2l "number")
  | DFloat _ => str_eqb ty (s2l "number")
  | DBool _ => str_eqb ty (s2l "boolean")
  | DStr s => str_eqb ty (s2l "string") && match j_pattern pr with Some pat => pattern_accepts pat s | None => true end
  | DNone => false
  end.
(* a default of the kind its declared type announces *)
Definition default_well_typed (t : typ) (d : dflt) : bool :=
  let t' := match t with TOpt x => x | x => x end in
  match t', d with
  | TBase BInt, DInt _ | TBase BFloat, DFloat _ | TBase BFloat, DInt _ | TBase BBool, DBool _ | TBase BStr, DStr _ => true
  | TLit ms, DStr s => mem_str s ms
  | _, DNone => true
  | _, _ => false
  end.
