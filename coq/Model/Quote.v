(* cdd/shared/pure_utils.py:unquote (quote is in Model/DefaultDoc.v).  Definitions only. *)
From CDD Require Import PyStr DefaultDoc.
Open Scope N_scope.

Definition unquote (s : str) : str :=
  if Nat.ltb 1 (length s)
     && ((startswith [DQ] s && endswith [DQ] s) || (startswith [SQ] s && endswith [SQ] s))
  then removelast (tl s) else s.
