(* cdd/shared/pure_utils.py:quote and cdd/shared/defaults_utils.py:set_default_doc at text level: how a default is
   carried in the prose ("... Defaults to <text>").  Definitions only. *)
From CDD Require Import PyStr.
Open Scope N_scope.

Definition DQ : char := 34.
Definition SQ : char := 39.
(* quote(s) for a str argument *)
Definition quote (s : str) : str :=
  match s with
  | [] => s
  | c :: _ =>
      if Nat.ltb 1 (length s) && (match last_opt s with Some l => c =? l | None => false end) && ((c =? SQ) || (c =? DQ))
      then s else [DQ] ++ s ++ [DQ]
  end.

Definition has_defaults (doc : str) : bool := contains (s2l "Defaults") doc || contains (s2l "defaults") doc.
Definition ends_with_stop (doc : str) : bool :=
  match last_opt doc with Some c => (c =? 46) || (c =? 44) | None => false end.

(* set_default_doc on the description text, given the text the default is rendered as; doc non-empty.
   [strip] stands for extract_default(doc, emit_default_doc=False)[0] (removal of the announcer), not modelled. *)
Definition set_default_doc (strip : str -> str) (doc : str) (default_text : option str) (emit_default_doc : bool) : str :=
  if has_defaults doc && negb emit_default_doc then strip doc
  else match default_text with
       | Some t => if negb (has_defaults doc) && emit_default_doc
                   then (if ends_with_stop doc then doc else doc ++ [46]) ++ s2l " Defaults to " ++ t
                   else doc
       | None => doc
       end.
