(* cdd/docstring/emit.py:docstring for the Google style (purpose "function", word_wrap off, indent_level 0, no _internal, no return
   entry): "Args:" and one line per parameter (Model/GoogleLine.v), joined to the description by header_args_footer_to_str
   (Model/DocSplit.v).  Definitions only. *)
From CDD Require Import PyStr DocSplit GoogleLine GoogleHead.
Open Scope N_scope.

Definition google_args (es : list (str * option str * option str)) : str :=
  match es with
  | [] => []
  | _ => let params := join [NL] (ARGS :: map (fun e : str * option str * option str => emit_google_param (fst (fst e)) (snd (fst e)) (snd e)) es) in
         params ++ (if Nat.ltb 0 (num_of_nls params true) then [NL] else [])
  end.

Definition emit_google (doc : str) (es : list (str * option str * option str)) : str :=
  let ar := google_args es in
  let cand := header_args_footer_to_str doc (if isspace ar then [] else ar) [] in
  match cand with
  | [] => []
  | c :: _ =>
      if isspace cand then []
      else if Nat.eqb (count_char NL cand) 0 then (if c =? NL then cand else NL :: cand)
      else cand
  end.
