(* cdd/shared/ast_utils.py:set_value on a str (the members of a Literal written by --input-eval, argparse choices, ...): one matching
   pair of quotes is removed from a text of MORE than two characters.  Definitions only. *)
From CDD Require Import PyStr DefaultDoc.
Open Scope N_scope.

Definition wears_quotes (s : str) : bool :=
  (startswith [DQ] s && endswith [DQ] s) || (startswith [SQ] s && endswith [SQ] s).

Definition set_value_text (s : str) : str :=
  if Nat.ltb 2 (length s) && wears_quotes s then removelast (tl s) else s.
