(* cdd/shared/ast_utils.py:cmp_ast, the change detector of sync and doctrans, on a generic Python object tree.  Definitions only. *)
From CDD Require Import PyStr.

Inductive pyobj :=
| Node (cls : str) (fields : list pyobj)      (* an ast.AST instance: class name, values of _fields in order *)
| Lst (items : list pyobj)
| Tup (items : list pyobj)
| Atom (typ : str) (repr : str).              (* anything else (str, int, None, the Undefined sentinel ...): compared with == *)

(* for left, right in zip(a, b): if not cmp(left, right): return False *)
Fixpoint all2 {A} (f : A -> A -> bool) (a b : list A) : bool :=
  match a, b with
  | x :: a', y :: b' => f x y && all2 f a' b'
  | _, _ => true
  end.

Fixpoint cmp_ast (a b : pyobj) : bool :=
  match a, b with
  | Lst x, Lst y => Nat.eqb (length x) (length y) && (fix go (x y : list pyobj) := match x, y with p :: x', q :: y' => cmp_ast p q && go x' y' | _, _ => true end) x y
  | Tup x, Tup y => Nat.eqb (length x) (length y) && (fix go (x y : list pyobj) := match x, y with p :: x', q :: y' => cmp_ast p q && go x' y' | _, _ => true end) x y
  | Node c x, Node d y => str_eqb c d && (fix go (x y : list pyobj) := match x, y with p :: x', q :: y' => cmp_ast p q && go x' y' | _, _ => true end) x y
  | Atom t r, Atom u s => str_eqb t u && str_eqb r s
  | _, _ => false
  end.

(* two instances of one class carry the same number of fields *)
Fixpoint arity_of (c : str) (o : pyobj) : list nat :=
  match o with
  | Node d fs => (if str_eqb c d then [length fs] else []) ++ flat_map (arity_of c) fs
  | Lst l | Tup l => flat_map (arity_of c) l
  | Atom _ _ => []
  end.
