(* What the emitted code exposes when executed: the signature CPython builds from (args, defaults), and
   the ArgumentParser actions the emitted argparse function registers (as measured on the code; compared
   with a live ArgumentParser on every run).  Definitions only. *)
From CDD Require Import PyStr FuncSig Norm.
Open Scope N_scope.

(* inspect.signature of an emitted function: every parameter, in order, with the default it would receive *)
Definition signature_of (none_ : str) (ps : list (str * option str)) : list (str * option str) :=
  python_pairs str str (emit_sig str str none_ ps).

(* one add_argument(...) action *)
Record action := mkAction { a_type : option str; a_choices : option (list str); a_default : cdef; a_required : bool }.

Definition argparse_action (p : cparam) : action :=
  let '(t, d) := p in
  let ty := match t_inner t with
            | IBase BInt => Some (s2l "int") | IBase BFloat => Some (s2l "float") | IBase BBool => Some (s2l "bool")
            | IBase BStr => None | ILit _ => None
            end in
  let ch := match t_inner t with ILit ms => Some ms | _ => None end in
  let dflt := match d with DNone => DAbs | x => x end in
  let req := negb (t_opt t) && negb (match t_inner t, d with IBase BBool, DAbs => true | _, _ => false end) in
  mkAction ty ch dflt req.

(* ArgumentParser.parse_args([]): an error if some option is required, else the defaults *)
Definition parse_args_empty (acts : list (str * action)) : option (list (str * cdef)) :=
  if existsb (fun na => a_required (snd na)) acts then None
  else Some (map (fun na => (fst na, a_default (snd na))) acts).

Definition described_default (d : cdef) : cdef := match d with DNone => DAbs | x => x end.
