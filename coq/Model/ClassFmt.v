(* The class format at the level the emitter and the parser exchange: a class is its docstring text plus the list of annotated
   assignments of its body.  Emitter: cdd/class_/emit.py:class_ (docstring with purpose "class", indent_level 1, emit_types off,
   word_wrap off, rstripped; one `name: typ [= value]` per parameter).  Parser: cdd/class_/parse.py:class_ (docstring parser, then the
   body updates / appends typ and default).  Definitions only.

   The value of a default is opaque here (a token that the AST carries unchanged); which Python values survive param2ast /
   get_value / parse_to_scalar is C02's class-based comparison, not this model. *)
From CDD Require Import PyStr DocSplit RestDoc.

Record cparam := { cp_typ : option str; cp_doc : option str; cp_default : option str }.
Record body_item := { b_name : str; b_typ : str; b_value : option str }.
Record klass := { k_doc : option str; k_body : list body_item }.

(* ---- emitter ---- *)
Definition cvar_line (p : str * cparam) : str :=
  match nonempty (cp_doc (snd p)) with
  | Some d => [COLON] ++ (s2l "cvar " ++ fst p) ++ s2l ": " ++ lstrip d
  | None => []
  end.

(* args_returns of the docstring emitter for purpose "class": lines joined by one newline, no return entry *)
Definition class_args (ps : list (str * cparam)) : str :=
  let params := join [NL] (map cvar_line ps) in
  let pe := num_of_nls params true in
  params ++ (if Nat.ltb 0 pe then [NL] else []).

Definition class_docstring (doc : str) (ps : list (str * cparam)) : str :=
  let ar := class_args ps in
  let cand := header_args_footer_to_str doc (if isspace ar then [] else ar) [] in
  rstrip (match cand with
          | [] => []
          | c :: _ =>
              if isspace cand then []
              else if Nat.eqb (count_char NL cand) 0 then (if c =? NL then cand else NL :: cand)
              else indent_doc 1 cand
          end).

Definition emit_class (doc : str) (ps : list (str * cparam)) : klass :=
  {| k_doc := match class_docstring doc ps with [] => None | d => Some d end;
     k_body := flat_map (fun p => match cp_typ (snd p) with
                                  | Some t => [{| b_name := fst p; b_typ := t; b_value := cp_default (snd p) |}]
                                  | None => [] end) ps |}.

(* ---- parser ---- *)
Fixpoint upsert (n : str) (f : cparam -> cparam) (mk : cparam) (l : list (str * cparam)) : list (str * cparam) :=
  match l with
  | [] => [(n, mk)]
  | (k, v) :: r => if str_eqb k n then (k, f v) :: r else (k, v) :: upsert n f mk r
  end.

Definition of_entry (e : pentry) : cparam := {| cp_typ := pe_typ e; cp_doc := pe_doc e; cp_default := None |}.

Definition parse_class (k : klass) : str * list (str * cparam) :=
  let '(doc, params) :=
    match k_doc k with
    | None => ([], [])
    | Some d => let p := parse_rest d in (p_doc p, map (fun ne => (fst ne, of_entry (snd ne))) (p_params p))
    end in
  (doc,
   fold_left (fun acc b =>
                upsert (b_name b)
                       (fun v => {| cp_typ := Some (b_typ b); cp_doc := cp_doc v; cp_default := match b_value b with Some x => Some x | None => cp_default v end |})
                       {| cp_typ := Some (b_typ b); cp_doc := None; cp_default := b_value b |} acc)
             (k_body k) params).
