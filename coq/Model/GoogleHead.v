(* Where the prose of a Google-style docstring ends: the head of cdd/shared/docstring_parsers.py:_scan_phase_numpydoc_and_google (style
   google, parse_original_whitespace off) -- pure_utils.location_within of "Args:" (else "Returns:") and the text in front of it --
   followed by what _parse_phase_numpydoc_and_google makes of it.  Definitions only. *)
From CDD Require Import PyStr.
Open Scope N_scope.

(* location_within(container, (token,)) with the default comparator: index of the first occurrence *)
Fixpoint index_of (p s : str) : option nat :=
  if startswith p s then Some O
  else match s with
       | [] => None
       | _ :: r => option_map S (index_of p r)
       end.

Definition ARGS : str := Eval vm_compute in s2l "Args:".
Definition RETURNS : str := Eval vm_compute in s2l "Returns:".

Definition white_spacer (s : str) : str := if isspace s then s else strip s.

(* (scanned["doc"], the text that goes on to the line scanner) *)
Definition google_scan_head (text : str) : str * option str :=
  let loc := match index_of ARGS text with
             | Some i => Some (i, length ARGS)
             | None => match index_of RETURNS text with Some i => Some (i, length RETURNS) | None => None end
             end in
  match loc with
  | Some (i, l) => (white_spacer (firstn i text), Some (skipn (i + l + 1) text))
  | None => (text, None)
  end.

(* intermediate_repr["doc"] *)
Definition google_ir_doc (text : str) : str :=
  let d := fst (google_scan_head text) in if isspace d then [] else lstrip d.
