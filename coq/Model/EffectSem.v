(* Effect skeleton language: what a function can DO to the outside world, as a function of its
   [dry_run] flag.  Definitions only (proofs in Proofs/EffectProofs.v).

   The skeleton of every non-test function of the package is regenerated from /repo by
   translate/effects.py on every run (Gen/EffectSkeleton.v).  A statement is
     - an effect site (file-system write, exec/eval/import, process, network, or a construct the
       translator does not understand -- fail closed),
     - an [If] whose guard is classified syntactically w.r.t. the local name [dry_run],
     - a call to another package function, saying how [dry_run] is passed,
     - a loop.
   Anything else is irrelevant to the question "which effects are reachable". *)
From Coq Require Import List Bool Arith.
Import ListNotations.

Inductive ekind := KFs | KExec | KProc | KNet | KUnsupported.
Definition ekind_eqb (a b : ekind) : bool :=
  match a, b with
  | KFs, KFs | KExec, KExec | KProc, KProc | KNet, KNet | KUnsupported, KUnsupported => true
  | _, _ => false
  end.

Inductive guard :=
| GDry (pol : bool)       (* the test is exactly [dry_run] (pol = true) or [not dry_run] (pol = false) *)
| GImplies (pol : bool)   (* the test being true implies dry_run = pol (a conjunction containing the literal) *)
| GOpaque.                (* anything else *)

Inductive darg :=
| DPass                   (* callee receives the caller's dry_run *)
| DConst (b : bool)       (* callee receives a literal *)
| DUnknown.               (* callee receives something the translator cannot classify *)

Inductive stmt :=
| Eff (k : ekind) (site : nat)
| If (g : guard) (t e : block)
| Call (f : nat) (d : darg)
| Loop (body : block)
with block := BNil | BCons (s : stmt) (b : block).

Definition prog := list block.
(* an unknown function id is NOT harmless: it is a block with an unsupported effect *)
Definition bad_block : block := BCons (Eff KUnsupported 0) BNil.
Definition body_of (p : prog) (f : nat) : block := nth f p bad_block.

Definition event := (ekind * nat)%type.

(* Big-step, nondeterministic trace semantics.  [dry] is the value of the local dry_run flag. *)
Inductive exec (p : prog) : bool -> block -> list event -> Prop :=
| ENil : forall dry, exec p dry BNil []
| ECons : forall dry s b t1 t2, exec_s p dry s t1 -> exec p dry b t2 -> exec p dry (BCons s b) (t1 ++ t2)
with exec_s (p : prog) : bool -> stmt -> list event -> Prop :=
| EEff : forall dry k s, exec_s p dry (Eff k s) [(k, s)]
| EDryT : forall dry t e tr, exec p dry t tr -> exec_s p dry (If (GDry dry) t e) tr
| EDryF : forall dry t e tr, exec p dry e tr -> exec_s p dry (If (GDry (negb dry)) t e) tr
| EImpT : forall dry t e tr, exec p dry t tr -> exec_s p dry (If (GImplies dry) t e) tr
| EImpF : forall dry pol t e tr, exec p dry e tr -> exec_s p dry (If (GImplies pol) t e) tr
| EOpT : forall dry t e tr, exec p dry t tr -> exec_s p dry (If GOpaque t e) tr
| EOpF : forall dry t e tr, exec p dry e tr -> exec_s p dry (If GOpaque t e) tr
| ECallP : forall dry f tr, exec p dry (body_of p f) tr -> exec_s p dry (Call f DPass) tr
| ECallC : forall dry f b tr, exec p b (body_of p f) tr -> exec_s p dry (Call f (DConst b)) tr
| ECallU : forall dry f b tr, exec p b (body_of p f) tr -> exec_s p dry (Call f DUnknown) tr
| ELoop0 : forall dry b, exec_s p dry (Loop b) []
| ELoopS : forall dry b t1 t2, exec p dry b t1 -> exec_s p dry (Loop b) t2 -> exec_s p dry (Loop b) (t1 ++ t2).

Scheme exec_ind2 := Minimality for exec Sort Prop
  with exec_s_ind2 := Minimality for exec_s Sort Prop.
Combined Scheme exec_mut from exec_ind2, exec_s_ind2.

(* ---- the checker ------------------------------------------------------------------------- *)
Definition ctx := (nat * bool)%type.      (* a function entered with a given dry_run value *)
Definition ctx_eqb (a b : ctx) : bool := Nat.eqb (fst a) (fst b) && Bool.eqb (snd a) (snd b).
Definition mem_ctx (c : ctx) (S : list ctx) : bool := existsb (ctx_eqb c) S.

Section Checker.
  Variable bad : ekind -> nat -> bool.   (* which effect events (kind, site) are forbidden *)

  (* [local_ok S dry b]: no forbidden effect site is reachable in [b] under flag [dry], and every
     callee context reachable from it is a member of [S]. *)
  Fixpoint local_ok (S : list ctx) (dry : bool) (b : block) {struct b} : bool :=
    match b with
    | BNil => true
    | BCons s r =>
        (match s with
         | Eff k site => negb (bad k site)
         | If (GDry pol) t e => if Bool.eqb dry pol then local_ok S dry t else local_ok S dry e
         | If (GImplies pol) t e =>
             (if Bool.eqb dry pol then local_ok S dry t else true) && local_ok S dry e
         | If GOpaque t e => local_ok S dry t && local_ok S dry e
         | Call f DPass => mem_ctx (f, dry) S
         | Call f (DConst b) => mem_ctx (f, b) S
         | Call f DUnknown => mem_ctx (f, true) S && mem_ctx (f, false) S
         | Loop body => local_ok S dry body
         end) && local_ok S dry r
    end.

  Definition closed_ok (p : prog) (S : list ctx) : bool :=
    forallb (fun c => local_ok S (snd c) (body_of p (fst c))) S.

  (* callee contexts syntactically reachable in a block under a flag *)
  Fixpoint callees (dry : bool) (b : block) {struct b} : list ctx :=
    match b with
    | BNil => []
    | BCons s r =>
        (match s with
         | Eff _ _ => []
         | If (GDry pol) t e => if Bool.eqb dry pol then callees dry t else callees dry e
         | If (GImplies pol) t e => (if Bool.eqb dry pol then callees dry t else []) ++ callees dry e
         | If GOpaque t e => callees dry t ++ callees dry e
         | Call f DPass => [(f, dry)]
         | Call f (DConst b) => [(f, b)]
         | Call f DUnknown => [(f, true); (f, false)]
         | Loop body => callees dry body
         end) ++ callees dry r
    end.

  Fixpoint add_new (l S : list ctx) : list ctx :=
    match l with
    | [] => S
    | c :: r => if mem_ctx c S then add_new r S else add_new r (S ++ [c])
    end.

  (* saturate: S := S + callees(S), [fuel] rounds *)
  Fixpoint saturate (p : prog) (fuel : nat) (S : list ctx) : list ctx :=
    match fuel with
    | O => S
    | Datatypes.S n =>
        let S' := fold_left (fun acc c => add_new (callees (snd c) (body_of p (fst c))) acc) S S in
        if Nat.eqb (length S') (length S) then S else saturate p n S'
    end.

  Definition reach (p : prog) (entry : ctx) : list ctx := saturate p (2 * length p + 2) [entry].

  (* the decision procedure used by the property theorems *)
  Definition safe_from (p : prog) (entry : ctx) : bool :=
    let S := reach p entry in mem_ctx entry S && closed_ok p S.
End Checker.

Definition bad_fs (k : ekind) (_ : nat) : bool := match k with KFs | KUnsupported => true | _ => false end.
Definition bad_exec (k : ekind) (_ : nat) : bool := match k with KExec | KProc | KNet | KUnsupported => true | _ => false end.
(* every site is forbidden unless its number is in an approved list *)
Definition bad_unless (approved : list nat) (_ : ekind) (site : nat) : bool := negb (existsb (Nat.eqb site) approved).

Definition harmless (bad : ekind -> nat -> bool) (tr : list event) : Prop :=
  Forall (fun ev => bad (fst ev) (snd ev) = false) tr.
