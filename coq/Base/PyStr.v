(* Python str operations over code points.  Definitions only (proofs: PyStrFacts.v). *)
From Coq Require Export List NArith ZArith Bool Ascii String.
Export ListNotations.
Open Scope N_scope.
(* String's [length]/[concat] must not shadow List's *)
Notation length := List.length (only parsing).
Notation concat := List.concat (only parsing).

Definition char := N.
Definition str := list char.

(* Coq string literal -> code-point list (ASCII literals in models) *)
Fixpoint s2l (s : string) : str :=
  match s with
  | EmptyString => []
  | String a r => N_of_ascii a :: s2l r
  end.

Definition ch (a : ascii) : char := N_of_ascii a.

Definition NL : char := 10.
Definition SP : char := 32.

Definition ceq (a b : char) : bool := N.eqb a b.

Fixpoint str_eqb (a b : str) : bool :=
  match a, b with
  | [], [] => true
  | x :: a', y :: b' => N.eqb x y && str_eqb a' b'
  | _, _ => false
  end.

(* CPython Py_UNICODE_ISSPACE *)
Definition is_space (c : char) : bool :=
  ((9 <=? c) && (c <=? 13)) || ((28 <=? c) && (c <=? 32)) || (c =? 133) || (c =? 160)
  || (c =? 5760) || ((8192 <=? c) && (c <=? 8202)) || (c =? 8232) || (c =? 8233)
  || (c =? 8239) || (c =? 8287) || (c =? 12288).

Fixpoint lstrip (s : str) : str :=
  match s with
  | c :: r => if is_space c then lstrip r else s
  | [] => []
  end.
Definition rstrip (s : str) : str := rev (lstrip (rev s)).
Definition strip (s : str) : str := rstrip (lstrip s).

(* strip a given set of characters *)
Fixpoint lstrip_chars (cs : str) (s : str) : str :=
  match s with
  | c :: r => if existsb (ceq c) cs then lstrip_chars cs r else s
  | [] => []
  end.
Definition rstrip_chars cs s := rev (lstrip_chars cs (rev s)).
Definition strip_chars cs s := rstrip_chars cs (lstrip_chars cs s).

Definition isspace (s : str) : bool :=
  match s with [] => false | _ => forallb is_space s end.

Fixpoint startswith (p s : str) : bool :=
  match p, s with
  | [], _ => true
  | x :: p', y :: s' => N.eqb x y && startswith p' s'
  | _ :: _, [] => false
  end.
Definition endswith (p s : str) : bool := startswith (rev p) (rev s).

(* substring test: p in s *)
Fixpoint contains (p s : str) : bool :=
  startswith p s || match s with [] => false | _ :: r => contains p r end.

(* s.find(p) as Z, -1 when absent *)
Fixpoint find_from (p s : str) (i : Z) : Z :=
  if startswith p s then i
  else match s with [] => (-1)%Z | _ :: r => find_from p r (i + 1)%Z end.
Definition find (p s : str) : Z := find_from p s 0%Z.

Definition slen (s : str) : Z := Z.of_nat (length s).

(* Python slice semantics for s[a:b] with possibly negative / out of range indices *)
Definition norm_idx (len i : Z) : Z :=
  if (i <? 0)%Z then Z.max 0 (len + i) else Z.min i len.
Definition slice (s : str) (a b : Z) : str :=
  let n := slen s in
  let a' := norm_idx n a in
  let b' := norm_idx n b in
  firstn (Z.to_nat (b' - a')) (skipn (Z.to_nat a') s).
Definition slice_to (s : str) (b : Z) : str := slice s 0%Z b.
Definition slice_from (s : str) (a : Z) : str := skipn (Z.to_nat (norm_idx (slen s) a)) s.

(* s[i] with Python semantics; None = IndexError *)
Definition index (s : str) (i : Z) : option char :=
  let n := slen s in
  let j := if (i <? 0)%Z then (n + i)%Z else i in
  if (j <? 0)%Z || (n <=? j)%Z then None else nth_error s (Z.to_nat j).

Fixpoint count_char (c : char) (s : str) : nat :=
  match s with
  | [] => O
  | x :: r => if N.eqb x c then S (count_char c r) else count_char c r
  end.

(* s.split(sep) for a single-character separator: never returns [] *)
Fixpoint split_char_aux (sep : char) (s cur : str) : list str :=
  match s with
  | [] => [rev cur]
  | c :: r => if N.eqb c sep then rev cur :: split_char_aux sep r []
              else split_char_aux sep r (c :: cur)
  end.
Definition split_char (sep : char) (s : str) : list str := split_char_aux sep s [].

(* s.split(sep) for a non-empty multi-character separator (fuel = length s + 1) *)
Fixpoint split_str_aux (fuel : nat) (sep s cur : str) : list str :=
  match fuel with
  | O => [rev cur ++ s]
  | S f =>
    match s with
    | [] => [rev cur]
    | c :: r =>
      if startswith sep s then rev cur :: split_str_aux f sep (skipn (length sep) s) []
      else split_str_aux f sep r (c :: cur)
    end
  end.
Definition split_str (sep s : str) : list str := split_str_aux (S (length s)) sep s [].

Fixpoint join (sep : str) (l : list str) : str :=
  match l with
  | [] => []
  | [x] => x
  | x :: r => x ++ sep ++ join sep r
  end.

(* s.replace(a, b) (a non-empty) and s.replace(a, b, 1) *)
Definition replace (a b s : str) : str := join b (split_str a s).
Definition replace1 (a b s : str) : str :=
  let i := find a s in
  if (i <? 0)%Z then s
  else firstn (Z.to_nat i) s ++ b ++ skipn (Z.to_nat i + length a) s.

(* s.splitlines() is not used on model paths; s.split("\n") is split_char NL *)

Definition is_ascii_digit (c : char) : bool := (48 <=? c) && (c <=? 57).
Definition is_ascii_upper (c : char) : bool := (65 <=? c) && (c <=? 90).
Definition is_ascii_lower (c : char) : bool := (97 <=? c) && (c <=? 122).
Definition is_ascii_alpha (c : char) : bool := is_ascii_upper c || is_ascii_lower c.
Definition is_ascii_alnum (c : char) : bool := is_ascii_alpha c || is_ascii_digit c.
Definition to_lower (c : char) : char := if is_ascii_upper c then c + 32 else c.
Definition to_upper (c : char) : char := if is_ascii_lower c then c - 32 else c.
Definition lower (s : str) : str := map to_lower s.
Definition upper (s : str) : str := map to_upper s.

(* str.title() on ASCII: uppercase after a non-letter, lowercase after a letter *)
Fixpoint title_aux (prev_cased : bool) (s : str) : str :=
  match s with
  | [] => []
  | c :: r =>
    if is_ascii_alpha c
    then (if prev_cased then to_lower c else to_upper c) :: title_aux true r
    else c :: title_aux false r
  end.
Definition title (s : str) : str := title_aux false s.

Definition mem_str (x : str) (l : list str) : bool := existsb (str_eqb x) l.

Fixpoint last_opt {A} (l : list A) : option A :=
  match l with [] => None | [x] => Some x | _ :: r => last_opt r end.

Fixpoint repeat_str (s : str) (n : nat) : str :=
  match n with O => [] | S k => s ++ repeat_str s k end.

(* decimal rendering of integers (for models that print numbers) *)
Fixpoint pos_digits_aux (fuel : nat) (n : N) (acc : str) : str :=
  match fuel with
  | O => acc
  | S f => let d := 48 + (n mod 10) in
           if n <? 10 then d :: acc else pos_digits_aux f (n / 10) (d :: acc)
  end.
Definition N_to_str (n : N) : str := pos_digits_aux (S (N.to_nat (N.log2 n))) n [].
Definition Z_to_str (z : Z) : str :=
  match z with
  | Z0 => [48]
  | Zpos p => N_to_str (Npos p)
  | Zneg p => 45 :: N_to_str (Npos p)
  end.
