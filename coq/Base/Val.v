(* Universal value type of the model<->harness line protocol. *)
From CDD Require Import PyStr.

Inductive val :=
| VS (s : str)        (* string as code points *)
| VZ (z : Z)
| VL (l : list val)
| VN                  (* None *)
| VB (b : bool).

Definition vopt {A} (f : A -> val) (o : option A) : val :=
  match o with Some a => f a | None => VN end.
Definition vstrs (l : list str) : val := VL (map VS l).
Definition vstring (s : string) : val := VS (s2l s).
(* error marker: VL [VS "!"; VS msg] *)
Definition verr (msg : string) : val := VL [VS [33]; VS (s2l msg)].

Definition as_str (v : val) : str := match v with VS s => s | _ => [] end.
Definition as_Z (v : val) : Z := match v with VZ z => z | _ => 0%Z end.
Definition as_bool (v : val) : bool := match v with VB b => b | _ => false end.
Definition as_list (v : val) : list val := match v with VL l => l | _ => [] end.
Definition as_opt_str (v : val) : option str := match v with VS s => Some s | _ => None end.
Definition arg (n : nat) (v : val) : val := nth n (as_list v) VN.

Fixpoint lookup_fn (name : str) (t : list (string * (val -> val))) : option (val -> val) :=
  match t with
  | [] => None
  | (k, f) :: r => if str_eqb name (s2l k) then Some f else lookup_fn name r
  end.
