#!/usr/bin/env python3
"""Development-time helper (never run by a check): run a check's `collect` over several seeds on the UNCHANGED tree and add
every discrepancy class that is not yet listed to known_findings.json, each with a concrete witness, for review.
usage: PYTHONPATH=/repo:/verif python tools/register_findings.py C02 <n_ir> <n_other> seed [seed...]"""
import importlib
import json
import os
import sys

sys.path.insert(0, "/verif")
from harness.common import Ctx, KNOWN  # noqa


def main():
    prop = sys.argv[1]
    args = [int(x) for x in sys.argv[2:4]]
    seeds = [int(x) for x in sys.argv[4:]]
    mod = importlib.import_module("harness.checks." + prop.lower())
    data = json.load(open(KNOWN))
    have = {e["cls"] for e in data["findings"]}
    new = {}
    for s in seeds:
        ctx = Ctx(prop, os.environ.get("REGISTER_TIER", "quick"), s)
        res = mod.collect(ctx, *args)
        items = res[1]
        for cls, det, inp in items:
            if cls not in have and cls not in new:
                new[cls] = (det, inp)
        print("seed", s, "items", len(items), "new classes so far", len(new), file=sys.stderr)
    for cls, (det, inp) in sorted(new.items()):
        d = dict(det) if isinstance(det, dict) else {"detail": det}
        d.pop("config", None)
        data["findings"].append({"id": "KF-" + cls.replace("/", "-").replace(":", "_").replace(">", "to"), "property": prop, "cls": cls,
                                 "status": "open", "what": "%s -- e.g. %s" % (describe(cls), json.dumps(d, default=repr)[:260]),
                                 "witness": json.loads(json.dumps(inp, default=repr)) if inp is not None else None})
    if not os.environ.get("REGISTER_DRY"):
        json.dump(data, open(KNOWN, "w"), indent=1)
    print("dry run, would add" if os.environ.get("REGISTER_DRY") else "added", len(new))
    for c in sorted(new):
        print("  ", c)


def describe(cls):
    parts = cls.split("/")
    return "round trip through %s with %s docstrings: %s" % (parts[1], parts[2] if len(parts) > 2 else "?", "/".join(parts[3:]))


if __name__ == "__main__":
    main()
