#!/usr/bin/env python3
"""Development-time helper: run `./check <prop> --tier <tier>` under several seeds on the UNCHANGED tree and list the distinct unlisted
discrepancy classes of the violations it prints (with one replay file each). Nothing is registered.
usage: python tools/classes_seen.py C16 quick 1 2 3"""
import json
import os
import re
import subprocess
import sys

prop, tier = sys.argv[1:3]
seen = {}
for seed in sys.argv[3:]:
    out = subprocess.run("cd /verif && ./check %s --tier %s" % (prop, tier), shell=True, capture_output=True, text=True,
                         env=dict(os.environ, VERIF_SEED=seed)).stdout
    for l in out.splitlines():
        m = re.match(r"VIOLATION property=\S+ replay=(\S+)", l)
        if m and os.path.exists(m.group(1)):
            d = json.load(open(m.group(1)))
            seen.setdefault(d.get("discrepancy_class") or d.get("stage"), m.group(1))
for c, f in sorted(seen.items()):
    print(c, f)
