#!/usr/bin/env python3
"""Regenerate /verif/MANIFEST.json from the table below (keeps it schema-valid)."""
import json
import os

HERE = os.path.dirname(os.path.dirname(os.path.abspath(__file__)))
ALL = ["C%02d" % i for i in range(1, 21)]

# property -> (technique, level text, level note, design_ref)
CLAIMS = {
    "C09": (
        "Coq proof by induction over the input string (parametric in the scanner's lexical predicates) + "
        "differential correspondence of the extracted model against cst_parse",
        "Theorems C09_lossless(_parametric), C09_values, C09_tiling, C09_last_line in coq/Properties/C09.v hold for every "
        "string over any alphabet and for any behaviour of the statement-detection predicates, so they cover all inputs, not "
        "a sample. The hand-written model (coq/Model/Cst.v) is tied to /repo on every run by exact comparison of node lists "
        "(kind, line range, text, name, quote flags) on all token sequences up to length 3 (quick) / 4 (thorough) over a "
        "26-token lexical alphabet, every repository file (windows for the model, whole files for the implementation-side "
        "property) and seeded mutations. Full proof of the stated property.",
        "Trusted: Coq kernel; extraction (ExtrOcamlBasic only) + OCaml driver; the correspondence harness; CPython's "
        "whitespace table as transcribed. Axioms: none (Print Assumptions: closed under the global context).",
        "6 (C09)",
    ),
    "C18": (
        "Coq kernel evaluation (vm_compute, lifted with forallb_forall) of an operational import semantics on the module "
        "graph regenerated from /repo by a translator on every run; validated against fresh interpreters",
        "Theorems C18_single (every public module imports first in a fresh interpreter) and C18_pairs (all ordered pairs, "
        "both orders succeed and bind the same names in every loaded module) are re-proved on every run over the module table "
        "that translate/imports.py regenerates from the current source (finite domain, exhaustive in both tiers, decided in the "
        "kernel). A re-introduced cycle breaks the proof; the check then replays the failing module(s) in real interpreters. "
        "The translator's verdicts are validated each run against `python -c 'import m'` for all public modules and a sample "
        "(quick) / all (thorough) unordered pairs in both orders.",
        "Trusted: Coq kernel incl. vm_compute; translate/imports.py; Model/ImportSem.v as a formalisation of the import "
        "protocol (function bodies not entered; external modules assumed importable). Axioms: none.",
        "6 (C18)",
    ),
    "C20": (
        "Coq soundness proof (induction on executions) of an effect-reachability checker over a skeleton language + kernel "
        "evaluation of the checker on the effect skeleton regenerated from /repo by a translator on every run; validated by "
        "observing real `python -m cdd exmod` runs (audit hook + file-system snapshots)",
        "C20_checker_sound is proved once for every program of the skeleton language (effect sites, dry_run guards, calls "
        "saying how dry_run is passed, loops): if the closure check accepts, every execution produces only harmless events. "
        "C20_dry_run instantiates it on the skeleton that translate/effects.py regenerates from the whole non-test package on "
        "every run: no execution of exmod with dry_run=True reaches a file-system write site (mkdir/makedirs/open for "
        "write/... or an unclassifiable construct). A removed or weakened guard, a callee invoked with dry_run=False, or a new "
        "write on a dry path breaks the proof; the check then reports the unguarded path and searches generated packages x "
        "options for a real dry run that changes the file system. The clauses about real runs (everything under the output "
        "directory, source untouched, generated files valid Python with resolvable __all__, black/whitelist gate) are decided "
        "by observation only: partial.",
        "Trusted: Coq kernel incl. vm_compute; translate/effects.py; Model/EffectSem.v as the meaning of the skeleton; calls "
        "through variables (getattr/import_module dispatch) and third-party internals are outside the skeleton (black's "
        "grammar cache is redirected to a scratch directory). Axioms: none.",
        "6 (C20)",
    ),
    "C17": (
        "Coq: (a) soundness-proved reachability checker evaluated in the kernel on the effect skeleton regenerated from /repo "
        "(inventory of every exec/eval/compile/import_module/process/network/file-write site reachable from parsers, emitters, "
        "doctrans, sync, gen with input_eval=False); (b) proof by induction over the docstring text that the whitelist in front of "
        "the one approved eval passes only word characters; correspondence of that model + audit-hook runs on adversarial inputs",
        "C17_sites: every execution of every parser/emitter/doctrans/sync/gen entry point of the regenerated skeleton with "
        "input_eval=False touches only sites of the approved list (exact call text: the adhoc eval, literal/closed-table "
        "import_module, gen's prepend/input-mapping opt-ins, writes to the named output); a new eval, a literal_eval widened to "
        "eval, a changed call text or a removed input_eval guard breaks the proof. C17_import_time: module-level code reaches "
        "only literal import_module sites. C17_phase0_alphabet (for every string): the sentences/words/candidate type that phase 0 "
        "of parse_adhoc_doc_for_typ hands on contain only ASCII letters, digits, backtick, quotes, / | . ; , and whitespace, and "
        "C17_allowed_excludes: none of ( ) [ ] { } _ : = @ passes. Phase 1 and the union builder are not transcribed: that they "
        "only select substrings/constants is checked on the implementation's result per generated text (partial). The model is "
        "compared with _parse_adhoc_doc_for_typ_phase0 on thousands of grammar-generated texts per run; adversarial modules are run "
        "through the library parsers/emitters, doctrans and sync under sys.addaudithook with sentinel files.",
        "Trusted: Coq kernel incl. vm_compute; translate/effects.py; the approved list (by inspection, in Properties/C17.v); "
        "CPython lexical fact that an expression over the whitelist alphabet contains no call/lambda/dunder; dynamic dispatch via "
        "getattr/import_module results is outside the skeleton. Axioms: none.",
        "6 (C17)",
    ),
    "C19": (
        "Coq: soundness proof of a straight-line guard checker evaluated in the kernel on the gen branch of main() regenerated from "
        "/repo; proofs (for all templates and name lists) about __all__ accumulation, symbol naming and body re-ordering of a "
        "hand-written model tied to gen by differential runs of `python -m cdd gen`",
        "C19_guard: on the statement list of the `gen` branch of cdd/__main__.py:main that translate/guards.py regenerates on every "
        "run, when the output file exists and phase = 0 gen is never called (C19_guard_sound proves the checker for every statement "
        "list; a removed/edited guard, a call moved in front of it, or a re-binding of args/args_dict breaks the proof). "
        "C19_all_exact / C19_symbols_defined / C19_reorder_keeps_everything: for every template and every list of entry names, "
        "__all__ is exactly the formatted names in order without duplicates, equals the emitted symbol names when the template "
        "yields plain identifiers, and the body re-ordering is a permutation keeping definitions in order. The model's prediction is "
        "compared with the module written by real gen runs (emit kind x parse kind x template x flags x output absent/present, "
        "including a '~' spelling of an existing output). Parse-back equivalence of each symbol and import completeness are "
        "observed only / left to C02,C05,C06: partial.",
        "Trusted: Coq kernel; translate/guards.py; extraction + driver; the harness. Known findings: function/pydantic kinds and "
        "import inference fail; sqlalchemy* ignore the template. Axioms: none.",
        "6 (C19)",
    ),
}

NOT_YET = "check not built yet in this development (DESIGN.md section 8 gives the order of work)"


def main():
    checks = []
    for p in ALL:
        if p not in CLAIMS:
            continue
        tech, text, note, ref = CLAIMS[p]
        checks.append({
            "property_id": p,
            "quick_cmd": "./check %s --tier quick" % p,
            "thorough_cmd": "./check %s --tier thorough" % p,
            "evidence_file": "/verif/evidence/%s.json" % p,
            "replay_cmd_template": "./check %s --replay {path}" % p,
            "engine": "coq-model+correspondence",
            "level_claimed": {"category": "proof", "text": text, "design_ref": "DESIGN.md section " + ref},
            "level_note": note,
            "technique": tech,
        })
    m = {
        "version": 1,
        "setup_cmd": "make -C /verif setup",
        "hooks": {
            "guard": "CDD_PYTHON_VERIF",
            "enable": "no source hooks are needed (observation is by PYTHONHASHSEED, sys.addaudithook, sys.settrace, "
                      "subprocess isolation and file-system snapshots); ./check exports CDD_PYTHON_VERIF=1 for uniformity",
            "baseline_off_cmd": "cd /repo && /venv/bin/python -m pytest -ra -q -p no:cacheprovider --timeout=900 "
                                "--continue-on-collection-errors",
            "source_commits": [],
            "add_only": True,
        },
        "engines": [{
            "name": "coq-model+correspondence",
            "path": "/verif/check",
            "serves_properties": sorted(CLAIMS),
            "kind_free_text": "Coq 8.16.1 theorems about Gallina models; models tied to /repo on every run by translators "
                              "(coq/Gen regenerated from the source) and by differential execution of the extracted model "
                              "against the implementation",
        }],
        "checks": checks,
        "not_applicable": [{"property_id": p, "reason": NOT_YET} for p in ALL if p not in CLAIMS],
        "notes": "See DESIGN.md. known_findings.json lists recorded/fixed genuine defects.",
    }
    with open(os.path.join(HERE, "MANIFEST.json"), "w") as f:
        json.dump(m, f, indent=1)


if __name__ == "__main__":
    main()
