#!/usr/bin/env python3
"""Regenerate /verif/MANIFEST.json from the table below (keeps it schema-valid)."""
import json
import os

HERE = os.path.dirname(os.path.dirname(os.path.abspath(__file__)))
ALL = ["C%02d" % i for i in range(1, 21)]

# property -> (technique, level text, level note, design_ref)
CLAIMS = {
    "C09": (
        "Coq proof by induction over the input string (parametric in the scanner's lexical predicates) + "
        "differential correspondence of the extracted model against cst_parse",
        "Theorems C09_lossless(_parametric), C09_values, C09_tiling, C09_last_line in coq/Properties/C09.v hold for every "
        "string over any alphabet and for any behaviour of the statement-detection predicates, so they cover all inputs, not "
        "a sample. The hand-written model (coq/Model/Cst.v) is tied to /repo on every run by exact comparison of node lists "
        "(kind, line range, text, name, quote flags) on all token sequences up to length 3 (quick) / 4 (thorough) over a "
        "26-token lexical alphabet, every repository file (windows for the model, whole files for the implementation-side "
        "property) and seeded mutations. Full proof of the stated property.",
        "Trusted: Coq kernel; extraction (ExtrOcamlBasic only) + OCaml driver; the correspondence harness; CPython's "
        "whitespace table as transcribed. Axioms: none (Print Assumptions: closed under the global context).",
        "6 (C09)",
    ),
    "C18": (
        "Coq kernel evaluation (vm_compute, lifted with forallb_forall) of an operational import semantics on the module "
        "graph regenerated from /repo by a translator on every run; validated against fresh interpreters",
        "Theorems C18_single (every public module imports first in a fresh interpreter) and C18_pairs (all ordered pairs, "
        "both orders succeed and bind the same names in every loaded module) are re-proved on every run over the module table "
        "that translate/imports.py regenerates from the current source (finite domain, exhaustive in both tiers, decided in the "
        "kernel). A re-introduced cycle breaks the proof; the check then replays the failing module(s) in real interpreters. "
        "The translator's verdicts are validated each run against `python -c 'import m'` for all public modules and a sample "
        "(quick) / all (thorough) unordered pairs in both orders.",
        "Trusted: Coq kernel incl. vm_compute; translate/imports.py; Model/ImportSem.v as a formalisation of the import "
        "protocol (function bodies not entered; external modules assumed importable). Axioms: none.",
        "6 (C18)",
    ),
    "C20": (
        "Coq soundness proof (induction on executions) of an effect-reachability checker over a skeleton language + kernel "
        "evaluation of the checker on the effect skeleton regenerated from /repo by a translator on every run; validated by "
        "observing real `python -m cdd exmod` runs (audit hook + file-system snapshots)",
        "C20_checker_sound is proved once for every program of the skeleton language (effect sites, dry_run guards, calls "
        "saying how dry_run is passed, loops): if the closure check accepts, every execution produces only harmless events. "
        "C20_dry_run instantiates it on the skeleton that translate/effects.py regenerates from the whole non-test package on "
        "every run: no execution of exmod with dry_run=True reaches a file-system write site (mkdir/makedirs/open for "
        "write/... or an unclassifiable construct). A removed or weakened guard, a callee invoked with dry_run=False, or a new "
        "write on a dry path breaks the proof; the check then reports the unguarded path and searches generated packages x "
        "options for a real dry run that changes the file system. The clauses about real runs (everything under the output "
        "directory, source untouched, generated files valid Python with resolvable __all__, black/whitelist gate) are decided "
        "by observation only: partial.",
        "Trusted: Coq kernel incl. vm_compute; translate/effects.py; Model/EffectSem.v as the meaning of the skeleton; calls "
        "through variables (getattr/import_module dispatch) and third-party internals are outside the skeleton (black's "
        "grammar cache is redirected to a scratch directory). Axioms: none.",
        "6 (C20)",
    ),
    "C17": (
        "Coq: (a) soundness-proved reachability checker evaluated in the kernel on the effect skeleton regenerated from /repo "
        "(inventory of every exec/eval/compile/import_module/process/network/file-write site reachable from parsers, emitters, "
        "doctrans, sync, gen with input_eval=False); (b) proof by induction over the docstring text that the whitelist in front of "
        "the one approved eval passes only word characters; correspondence of that model + audit-hook runs on adversarial inputs",
        "C17_sites: every execution of every parser/emitter/doctrans/sync/gen entry point of the regenerated skeleton with "
        "input_eval=False touches only sites of the approved list (exact call text: the adhoc eval, literal/closed-table "
        "import_module, gen's prepend/input-mapping opt-ins, writes to the named output); a new eval, a literal_eval widened to "
        "eval, a changed call text or a removed input_eval guard breaks the proof. C17_import_time: module-level code reaches "
        "only literal import_module sites. C17_phase0_alphabet (for every string): the sentences/words/candidate type that phase 0 "
        "of parse_adhoc_doc_for_typ hands on contain only ASCII letters, digits, backtick, quotes, / | . ; , and whitespace, and "
        "C17_allowed_excludes: none of ( ) [ ] { } _ : = @ passes. Phase 1 and the union builder are not transcribed: that they "
        "only select substrings/constants is checked on the implementation's result per generated text (partial). The model is "
        "compared with _parse_adhoc_doc_for_typ_phase0 on thousands of grammar-generated texts per run; adversarial modules are run "
        "through the library parsers/emitters, doctrans and sync under sys.addaudithook with sentinel files.",
        "Trusted: Coq kernel incl. vm_compute; translate/effects.py; the approved list (by inspection, in Properties/C17.v); "
        "CPython lexical fact that an expression over the whitelist alphabet contains no call/lambda/dunder; dynamic dispatch via "
        "getattr/import_module results is outside the skeleton. Axioms: none.",
        "6 (C17)",
    ),
    "C19": (
        "Coq: soundness proof of a straight-line guard checker evaluated in the kernel on the gen branch of main() regenerated from "
        "/repo; proofs (for all templates and name lists) about __all__ accumulation, symbol naming and body re-ordering of a "
        "hand-written model tied to gen by differential runs of `python -m cdd gen`",
        "C19_guard: on the statement list of the `gen` branch of cdd/__main__.py:main that translate/guards.py regenerates on every "
        "run, when the output file exists and phase = 0 gen is never called (C19_guard_sound proves the checker for every statement "
        "list; a removed/edited guard, a call moved in front of it, or a re-binding of args/args_dict breaks the proof). "
        "C19_all_exact / C19_symbols_defined / C19_reorder_keeps_everything: for every template and every list of entry names, "
        "__all__ is exactly the formatted names in order without duplicates, equals the emitted symbol names when the template "
        "yields plain identifiers, and the body re-ordering is a permutation keeping definitions in order. The model's prediction is "
        "compared with the module written by real gen runs (emit kind x parse kind x template x flags x output absent/present, "
        "including a '~' spelling of an existing output). Parse-back equivalence of each symbol and import completeness are "
        "observed only / left to C02,C05,C06: partial.",
        "Trusted: Coq kernel; translate/guards.py; extraction + driver; the harness. Known findings: function/pydantic kinds and "
        "import inference fail; sqlalchemy* ignore the template. Axioms: none.",
        "6 (C19)",
    ),
    "C10": (
        "Coq proofs (induction over permutations / lists) that merge_params and _join_non_none are independent of the set-"
        "enumeration order, + kernel-checked inventory of every order-relevant set iteration, mutable default and global writer "
        "regenerated from /repo by a translator; fresh-process runs across hash seeds and call histories",
        "C10_merge_enum_independent: for every pair of parameter dicts and any two enumerations of the key intersection (any hash "
        "seed) merge_params returns the same ordered result; C10_order_spec: the order is documented names then undocumented "
        "signature names in signature order; C10_join_enum_independent: the joined map of _join_non_none does not depend on the "
        "enumeration. C10_sites: the inventory of set iterations that translate/setiter.py regenerates from the whole non-test "
        "package on every run contains no order-relevant site, mutable default argument or global writer outside the approved, "
        "individually justified list -- an unsorted set reaching a loop/join/list breaks the proof. The model is compared with "
        "merge_params on generated dict pairs; functions documenting a subset/permutation of their signature, every emitter, and "
        "gen --phase 1 on a model with several foreign tables are run in fresh processes under several PYTHONHASHSEED values "
        "(incl. random) and byte-compared; repeated/interleaved in-process calls and re-use of one AST node across formats are "
        "compared with a fresh run. State outside the inventoried sites is not modelled: partial.",
        "Trusted: Coq kernel; translate/setiter.py (syntactic set-expression recognition; approved list by inspection); extraction + "
        "driver; hash randomisation abstracted as 'any permutation'. Axioms: none.",
        "6 (C10)",
    ),
    "C11": (
        "Coq: generic theorem 'a loop whose step strictly decreases a measure under its guard terminates within that many "
        "iterations' instantiated on the transcribed index arithmetic of each of the six while loops, + kernel-checked inventory "
        "(regenerated from /repo) that these are all the while loops, bodies unedited; watchdog runs and iteration-count "
        "correspondence via sys.settrace",
        "For every input and every starting state each of the six `while` loops of the package leaves the loop after at most mu "
        "iterations, mu linear in the text length (C11_*_terminates, C11_emit_skip_linear). C11_inventory: the loops that "
        "translate/loops.py finds in the current source are exactly these six (module|function|condition|hash of the body) and the "
        "directly self-recursive functions are the four approved ones, so a new loop or an edit to a loop body breaks the proof. "
        "Ties: iteration counts of the two fully transcribed loops (emit skip loop, union phase 0) are compared with "
        "sys.settrace counts on generated texts; every docstring-level entry point runs on all token sequences up to length 2 "
        "(quick) / 3 (thorough) over a 27-token alphabet plus random longer texts under a 3 s watchdog; doctrans is applied 3 times "
        "to generated modules. for-loops over finite sequences, AST recursion and CPython builtins are taken to terminate; "
        "'proportional to the size' is proved for loop iterations only: partial.",
        "Trusted: Coq kernel; translate/loops.py; the transcription of each loop's index arithmetic (L2-L4, L6 are not run against "
        "the code, only L1 and L5 are); CPython. Axioms: none.",
        "6 (C11)",
    ),
    "C14": (
        "Coq proofs for all names / all parameter lists (name sanitising has no leading asterisk; signature merge yields each "
        "signature parameter exactly once, no duplicates) + correspondence, + evaluation of the documented IR shape on the result "
        "of every parser over grammar-generated inputs",
        "C14_name_sanitised (every string), C14_merge_nodup and C14_signature_once (every pair of parameter lists, any set "
        "enumeration) are proved of hand-written models tied to _set_name_and_type and merge_params by differential runs (C10 "
        "shares the merge model). The remaining clauses of the shape (key set, string-ness, type parses as an expression, single "
        "return entry) have no theorem (no Python grammar in the model): they are evaluated on the implementation's result for "
        "generated docstrings in three styles (sections in any order, raises/usage/notes, multi-line descriptions, "
        "*args/**kwargs/**kw entries), functions, classes, argparse/SQLAlchemy/JSON-schema/pydantic artefacts and token-alphabet "
        "text: partial.",
        "Trusted: Coq kernel; extraction + driver; harness. Known findings: function parser returns typ None; ReST footer absorbed "
        "into the last type; malformed entries for arbitrary text. Axioms: none.",
        "6 (C14)",
    ),
    "C15": (
        "Coq proofs for every string: the three slices concatenate to the docstring for any index pair with start<=last; the start "
        "index is a line start; re-assembly keeps header as prefix and footer as suffix; models of _get_token_start_idx and "
        "header_args_footer_to_str tied to the code by differential runs; split identity and header preservation evaluated on the "
        "implementation for all style pairs",
        "C15_slices (parametric in the index functions, so it survives any rewrite of the index arithmetic that keeps start <= "
        "last), C15_start_is_line_start (the header consists of whole lines), C15_header_prefix / C15_footer_suffix (the prose is "
        "never rewritten by re-assembly). _get_token_start_idx and header_args_footer_to_str are literal transcriptions compared "
        "with the code on every generated docstring; _get_token_last_idx and the re-indentation step are not transcribed, so the "
        "concatenation identity of the real split, the presence in order of every header line after conversion (9 style pairs "
        "through the function parser) and 'no prose absorbed into a type/default' are evaluated on the implementation: partial.",
        "Trusted: Coq kernel; extraction + driver; harness; textwrap.indent modelled with newline as the only line break. Known "
        "findings: split(d, d) re-indents indented docstrings; ReST footer absorbed into the last type. Axioms: none.",
        "6 (C15)",
    ),
    "C16": (
        "Coq proof by induction over the entry list (invariant: every $ref of every path item and request body is defined) of a "
        "complete model of cdd.compound.openapi.emit.openapi, tied to the code by exact JSON comparison; refutation theorem for "
        "openapi_bulk's component key; observation of gen_routes -> upsert_routes -> openapi_bulk",
        "C16_closed_emit: for every list of (name, model, route, id, crud) entries -- any names, repeated names, colliding routes -- "
        "every $ref string anywhere in the emitted document resolves to a schema / request body defined in it; C16_crud_exact: the "
        "operations are exactly POST on the collection for C, GET / DELETE on the item for R / D; C16_path_params_declared. The "
        "model is compared as JSON with emit.openapi on generated entries each run (0 disagreements required). For openapi_bulk only "
        "the component-key derivation is modelled and C16_bulk_key_refuted shows it breaks closure for multi-word names (known "
        "finding); bulk documents are checked by running gen_routes/upsert_routes/openapi_bulk on generated SQLAlchemy models, "
        "including one single-model CRD job under 8 (quick) / 32 (thorough) hash seeds. Route parsing and 'routes fed back describe "
        "the same model' are observed only: partial.",
        "Trusted: Coq kernel; extraction + driver; harness JSON adapters. Known findings: multi-word names dangle; a second model in "
        "one routes file loses operations. Axioms: none.",
        "6 (C16)",
    ),
    "C06": (
        "Coq proofs over all parameter lists of a model of param2json_schema_property / json_schema_property_to_param (required iff "
        "not Optional; emit->parse round trip with sorted Literal members; defaults validate; pattern accepts every member; refutation "
        "of 'exactly the members'), tied by field-by-field comparison; meta-schema validity by the reference validator",
        "C06_required_iff (every parameter list), C06_roundtrip (every parameter of the domain: base types, Literal[str..] over "
        "letters/digits/_-. and space, Optional of those; NoDup names), C06_default_validates, C06_pattern_accepts_members are "
        "proved of Model/JsonSchema.v; C06_pattern_exact_refuted exhibits a non-member accepted by the unanchored pattern (known "
        "finding). Each run compares emitted properties, the required list and the parsed-back parameters with the extracted model "
        "on generated IRs (0..8 parameters) and evaluates the property on the implementation; draft 2020-12 validity, default "
        "validation and pattern behaviour are checked with jsonschema.Draft202012Validator in python3-vt on every emitted schema -- "
        "validity has no theorem: partial.",
        "Trusted: Coq kernel; extraction + driver; jsonschema 4.x as the meaning of 'valid'; the top-level description string is not "
        "modelled. Fixed: null description (252f2c6). Known: single-member Literal raises; unanchored pattern. Axioms: none.",
        "6 (C06)",
    ),
    "C02": (
        "Coq proofs for every signature / parameter list of the args-defaults alignment and the emit->parse of names, order and "
        "defaults (function), and the class body shape; tied by comparison with cdd.function.parse on generated signatures; all other "
        "clauses evaluated on the implementation over formats x styles x flags with per-class known findings",
        "C02_defaults_alignment: for every (args, defaults) with len(defaults) <= len(args) the parser's left-padding pairs each "
        "argument with exactly the default CPython gives it (a default cannot leak onto a neighbouring parameter); "
        "C02_function_roundtrip / C02_default_stays_on_its_parameter: emit->parse keeps names, order and each present default at its "
        "position, absent becomes None (the documented normalisation). The model is compared with function.parse on generated "
        "signatures (positional, keyword-only, self/cls). Types, descriptions and the class/pydantic/argparse value handling are not "
        "modelled: every IR is pushed through 7 format configurations x 3 docstring styles x emit_default_doc, rendered to text, "
        "re-parsed and compared field by field (and unparse/reparse of the emitted AST is checked); each difference is a "
        "discrepancy class (format/style/field/from-kind->to-kind) matched against known_findings.json -- 135 classes recorded on "
        "the pinned tree -- and any other class is a violation: partial.",
        "Trusted: Coq kernel; extraction + driver; harness comparison vocabulary. Axioms: none.",
        "6 (C02)",
    ),
    "C03": (
        "Coq proof by induction over the chain (any length) on a per-format normal-form table, with refutation theorems for the "
        "drifting inputs; the table is kept honest by hop-by-hop comparison with real conversion chains",
        "Model/Norm.v gives, for the five formats, the normal form of (type, default) of one parameter over the common domain, as "
        "measured on the code (function: absent->None; class/pydantic: None widens the type to Optional; argparse: absent->0/0.0/''; "
        "docstring: None->'(None)', negative int->float, ''->absent). C03_chain / C03_commute: on dom03 (default present, not None, "
        "non-negative ints, non-empty strings) every chain of any length returns exactly the start; C03_refuted_*: four short chains "
        "on which the faithful model -- and the implementation -- drift or fail to commute (known findings). Every run executes all 25 "
        "chains of length 2 and 40 (quick) / all 125 (thorough) of length 3 (+4-5 in thorough) per generated IR on the "
        "implementation, compares every intermediate parameter state with the model (0 disagreements required), requires exact "
        "preservation on dom03 and matches per-hop differences elsewhere against recorded classes. The table is measured, not "
        "derived from the emitters: partial.",
        "Trusted: Coq kernel; extraction + driver; the measured table (validated each run). Axioms: none.",
        "6 (C03)",
    ),
    "C08": (
        "Coq proof (exhaustive case analysis over the finite shape of a parameter state, lifted to all rounds by induction) that "
        "every format's normal-form function is idempotent; real 2..4-round runs compared round n vs n+1",
        "C08_idempotent / C08_rounds: for every parameter of the common domain, including the part a first round changes, and each "
        "of the five modelled formats, the second and every later round return what the first returned (Model/Norm.v, validated "
        "against the implementation each run). For 14 configurations (ReST with and without default-stripping, Google, NumPy, class, "
        "pydantic, function x3, argparse, json_schema, sqlalchemy, sqlalchemy_table) and IRs with trigger-word descriptions, "
        "non-suffix defaults and unusual types, 2..4 real rounds are run and round n+1 is compared with round n exactly; drift classes "
        "present on the pinned tree (many for Google/NumPy, 'Defaults to None' re-typing, code-quoted dict defaults) are recorded "
        "known findings, anything else is a violation. Descriptions are not modelled: partial.",
        "Trusted: Coq kernel; extraction + driver; the measured table. Axioms: none.",
        "6 (C08)",
    ),
    "C04": (
        "Coq proofs for every parameter list (inspect.signature view of the emitted function = the description; argparse "
        "parse_args([]) yields the described defaults when every option is Optional; refutation otherwise) + exec() of every "
        "emitted source with CPython as the oracle",
        "C04_function_signature: for every parameter list the signature CPython builds from the emitted (args, defaults) has the "
        "described names in order, each with its described default (None where none is described). C04_argparse_defaults_partial / "
        "C04_argparse_refuted_required: the argparse action table (type, choices, default, required -- measured, compared with a "
        "live ArgumentParser each run) yields the described defaults on parse_args([]) iff no option is registered required, and a "
        "non-Optional parameter WITH a default is registered required=True (known finding). Every generated IR of the executable "
        "domain is emitted as class, pydantic-shaped class, function (kw-only / positional) and argparse function in 3 docstring "
        "styles x emit_default_doc, compiled, exec()ed, and the live attributes / annotations / signature / actions / parse_args([]) "
        "compared with the description; unparse-reparse of the AST is checked. Class attribute and annotation semantics are observed, "
        "not modelled: partial.",
        "Trusted: Coq kernel; extraction + driver; CPython as executor/oracle. Axioms: none.",
        "6 (C04)",
    ),
    "C05": (
        "Coq proof over all column lists that primary-key inference leaves exactly one [PK]; correspondence with "
        "ensure_has_primary_key; agreement of the three emissions, primary_key count and round trip evaluated on the implementation",
        "C05_one_pk: for every list of distinct column names/descriptions with at most one [PK] marker and both force_pk_id values, "
        "ensure_has_primary_key (run by all three emitters) leaves exactly one marker -- proved of a transcription compared with "
        "the code on every generated IR. Column construction and the parsers are not modelled: for SQL-representable IRs x 3 variants x "
        "3 docstring styles x force_pk_id the check counts primary_key=True Columns in each emitted source (must be 1), parses the "
        "three emissions back and requires identical columns (hybrid read through its __table__: its own parser fails on the pinned "
        "tree), and compares each with the description, differences matched per class against known findings: partial.",
        "Trusted: Coq kernel; extraction + driver; harness. Axioms: none.",
        "6 (C05)",
    ),
    "C01": (
        "Coq proofs for every description / default text of how a default is written into the prose (set_default_doc: prefix, "
        "single full stop, announced exactly once; quote idempotent), tied by comparison with the code; the docstring round trip "
        "itself evaluated on the implementation over 3 styles x 16 flag combinations with per-class known findings",
        "C01_default_in_prose, C01_default_announced_once, C01_default_stripped, C01_quote_idempotent hold for every string (model "
        "Model/DefaultDoc.v compared with set_default_doc / quote on generated tuples each run). The scanners, the three style "
        "parsers and extract_default are NOT modelled (the character-level ReST scanner lemma of the design was not carried out): "
        "for IRs of the docstring-representable domain every (style, emit_default_doc, emit_types, word_wrap, parser keeps/strips "
        "the announcer) combination is rendered, parsed back and compared (names, order, type strings, defaults with their Python "
        "type, descriptions modulo whitespace / full stop / announcer, return entry); a sweep over all description lengths 30..120 "
        "exercises every word-wrap position. ReST differences are matched per fine class, Google/NumPy (which drift heavily on the "
        "pinned tree) per coarse class; anything else is a violation: partial.",
        "Trusted: Coq kernel; extraction + driver; harness comparison. Axioms: none.",
        "6 (C01)",
    ),
    "C13": (
        "Coq proofs over all modules / paths / replacements of a transcription of annotate_ancestry locations + RewriteAtQuery "
        "(shape and alignment preserved, exactly one parameter replaced in place, defaults unchanged under a stated side "
        "condition, refutation otherwise), tied by node-by-node comparison of the output file's AST",
        "C13_shape_preserved: the rewritten module has the same definitions and statements in the same order, every function keeps "
        "its numbers of positional / keyword-only parameters and defaults, non-attribute statements are untouched; C13_one_parameter: "
        "inside the function hit exactly one parameter is replaced in place; C13_alignment; C13_defaults_unchanged_partial: every "
        "default is unchanged unless the replacement is a class attribute with a value whose name is also a positional parameter; "
        "C13_defaults_refuted: in that case the faithful model overwrites ANOTHER parameter's default (witness replayed on the "
        "implementation every run: known finding). Each run calls sync_properties on generated module pairs x valid path pairs x wrap "
        "x --input-eval, converts the written file's AST to model nodes and requires equality with the model's rewrite (0 "
        "disagreements), and evaluates the property itself (everything outside the target identical, target carries the input's name "
        "and annotation / the Literal, input file untouched, input lookup equals the generator's ground truth). The input-side "
        "find_in_ast lookup is not modelled: partial.",
        "Trusted: Coq kernel; extraction + driver; the Python ast -> model adapter. Axioms: none.",
        "6 (C13)",
    ),
    "C12": (
        "Coq proofs over all abstract files of the decision table of _conform_filename (outside-target code unchanged, class "
        "target replaced, idempotence when the lookup finds what is there) with refutation theorems for the cases the code gets "
        "wrong, tied by comparing the table's prediction with the files after real `cdd sync` runs",
        "C12_outside_unchanged (any behaviour of find_in_ast, any kind, any existing file), C12_created_equiv, "
        "C12_class_target_equiv, C12_idempotent_partial are proved of Model/Sync.v; C12_function_target_refuted (an existing "
        "function/argparse target that differs is left untouched), C12_created_wrong_name_refuted (a missing class file is written "
        "under the truth's name), C12_missing_function_refuted (the command fails), C12_append_refuted (a missed lookup appends on "
        "every run) state where the faithful table -- and the code -- violate the property (known findings). Each run performs 1..3 "
        "`cdd sync` runs on generated file triples (targets different / equal / missing / empty, surrounded by unrelated "
        "definitions and an import alias carrying the target's name) x 3 truth kinds, abstracts every file before and after and "
        "requires the table's prediction to match (0 disagreements), and evaluates the property: truth unchanged, each target's "
        "parsed interface equals the truth as that format renders it, other top-level code identical, later runs byte-identical. "
        "find_in_ast and cmp_ast are observed, emit/parse are C02's: partial.",
        "Trusted: Coq kernel; extraction + driver; harness abstraction of files. Axioms: none.",
        "6 (C12)",
    ),
    "C07": (
        "Coq proofs over all source texts and all replacement sets that the CST write-back keeps every untouched node byte for "
        "byte (on top of the C09 scanner/parser model) and, over the call order of doctrans() regenerated from the source, that no "
        "raising package call can follow the open-for-write; a refutation theorem for the header re-print; tied by running "
        "maybe_replace_function_args against the extracted re-print and by evaluating the whole property on real doctrans runs",
        "C07_cst_untouched / C07_nothing_replaced_is_identity / C07_one_node_replaced: for every source and every set of replaced "
        "nodes the written text is the original outside the replaced nodes; C07_header_reprint_shape + C07_header_reprint_refuted: "
        "the faithful model of maybe_replace_function_args writes only `name[: annotation]` of the positional parameters between "
        "the parentheses, so defaults, *args, keyword-only parameters and **kwargs are dropped (known findings, re-observed every "
        "run); C07_checker_sound + C07_failure_atomic: in doctrans_order (Gen/DoctransOrder.v, regenerated by "
        "translate/writeorder.py) every package call precedes the open-for-write, so a failing conversion leaves the file "
        "untouched. Each run executes doctrans in place on generated modules x 3 styles x type_annotations x word-wrap and checks: "
        "valid Python; AST identical once docstrings/annotations/type comments are erased (per-def blame); comments in order; "
        "non-header non-docstring lines identical; file bytes identical after a raised error (inputs that raise in the write-back "
        "are generated); and compares the extracted header_reprint with maybe_replace_function_args on every def header of the "
        "modules (0 disagreements). DocTrans (AST rewrite), find_cst_at_ast and the docstring / return-type replacers are "
        "exercised end to end only, not modelled: partial.",
        "Trusted: Coq kernel; extraction + driver; translate/writeorder.py (fail-closed linearisation, BENIGN call list). Axioms: none.",
        "6 (C07)",
    ),
}

NOT_YET = "check not built yet in this development (DESIGN.md section 8 gives the order of work)"


def main():
    checks = []
    for p in ALL:
        if p not in CLAIMS:
            continue
        tech, text, note, ref = CLAIMS[p]
        checks.append({
            "property_id": p,
            "quick_cmd": "./check %s --tier quick" % p,
            "thorough_cmd": "./check %s --tier thorough" % p,
            "evidence_file": "/verif/evidence/%s.json" % p,
            "replay_cmd_template": "./check %s --replay {path}" % p,
            "engine": "coq-model+correspondence",
            "level_claimed": {"category": "proof", "text": text, "design_ref": "DESIGN.md section " + ref},
            "level_note": note,
            "technique": tech,
        })
    m = {
        "version": 1,
        "setup_cmd": "make -C /verif setup",
        "hooks": {
            "guard": "CDD_PYTHON_VERIF",
            "enable": "no source hooks are needed (observation is by PYTHONHASHSEED, sys.addaudithook, sys.settrace, "
                      "subprocess isolation and file-system snapshots); ./check exports CDD_PYTHON_VERIF=1 for uniformity",
            "baseline_off_cmd": "cd /repo && /venv/bin/python -m pytest -ra -q -p no:cacheprovider --timeout=900 "
                                "--continue-on-collection-errors",
            "source_commits": [],
            "add_only": True,
        },
        "engines": [{
            "name": "coq-model+correspondence",
            "path": "/verif/check",
            "serves_properties": sorted(CLAIMS),
            "kind_free_text": "Coq 8.16.1 theorems about Gallina models; models tied to /repo on every run by translators "
                              "(coq/Gen regenerated from the source) and by differential execution of the extracted model "
                              "against the implementation",
        }],
        "checks": checks,
        "not_applicable": [{"property_id": p, "reason": NOT_YET} for p in ALL if p not in CLAIMS],
        "notes": "See DESIGN.md. known_findings.json lists recorded/fixed genuine defects.",
    }
    with open(os.path.join(HERE, "MANIFEST.json"), "w") as f:
        json.dump(m, f, indent=1)


if __name__ == "__main__":
    main()
