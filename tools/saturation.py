#!/usr/bin/env python3
"""Development-time helper: run the class-based checks' `collect` at thorough sizes over many fresh seeds on the UNCHANGED tree and
report every discrepancy class that is not an open known finding (report only; nothing is registered).
usage: PYTHONPATH=/repo:/verif python tools/saturation.py seed [seed...]"""
import importlib
import json
import os
import sys

sys.path.insert(0, "/verif")
from harness.common import Ctx, KNOWN  # noqa

ARGS = {"C01": (1800, 18000), "C02": (1800, 15000), "C03": (300, 125), "C04": (2100, 0), "C05": (2100, 0), "C07": (18000, 0), "C08": (900, 4),
        "C12": (2400, 0), "C13": (9000, 0)}


def main():
    seeds = [int(x) for x in sys.argv[1:]]
    have = {e["cls"] for e in json.load(open(KNOWN))["findings"] if e["status"] == "open"}
    only = os.environ.get("SAT_PROPS")
    for prop, args in ARGS.items():
        if only and prop not in only.split(","):
            continue
        mod = importlib.import_module("harness.checks." + prop.lower())
        for s in seeds:
            ctx = Ctx(prop, "thorough", s)
            res = mod.collect(ctx, *args)
            new = {}
            for cls, det, inp in res[1]:
                if cls not in have:
                    new.setdefault(cls, (det, inp))
            corr = res[2]
            print(prop, "seed", s, "items", len(res[1]), "unlisted classes", len(new), "corr", len(corr) if hasattr(corr, "__len__") else corr, flush=True)
            for c, (det, inp) in new.items():
                print("   NEW", c, json.dumps(det, default=repr)[:300], flush=True)


if __name__ == "__main__":
    main()
