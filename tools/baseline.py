#!/usr/bin/env python3
"""Run the repo's pinned suite and compare the pass set with /root/.vp/BASELINE.json (stable_pass)."""
import json
import subprocess
import sys
import tempfile
import xml.etree.ElementTree as ET
import os

repo = sys.argv[1] if len(sys.argv) > 1 else "/repo"
base = json.load(open("/root/.vp/BASELINE.json"))
with tempfile.TemporaryDirectory() as d:
    x = os.path.join(d, "j.xml")
    subprocess.run("cd %s && /venv/bin/python -m pytest -ra -q -p no:cacheprovider --timeout=900 "
                   "--continue-on-collection-errors --junitxml=%s >/dev/null 2>&1" % (repo, x), shell=True)
    passed = set()
    for tc in ET.parse(x).getroot().iter("testcase"):
        if not any(c.tag in ("failure", "error", "skipped") for c in tc):
            passed.add("%s::%s" % (tc.get("classname"), tc.get("name")))
missing = sorted(set(base["stable_pass"]) - passed)
print("stable_pass:", len(base["stable_pass"]), "passed now:", len(passed), "missing:", len(missing))
for m in missing:
    print("  MISSING", m)
sys.exit(1 if missing else 0)
