#!/usr/bin/env python3
"""Fill the generated sections of DESIGN.md (between <!-- BEGIN GENERATED: x --> markers) from the claims table, the
theorem lists of the checks, known_findings.json, the evidence files, seeded/*/meta.json and audit/*.txt."""
import glob
import importlib.util
import json
import os
import re

HERE = os.path.dirname(os.path.dirname(os.path.abspath(__file__)))


def load(path, name):
    spec = importlib.util.spec_from_file_location(name, path)
    m = importlib.util.module_from_spec(spec)
    spec.loader.exec_module(m)
    return m


def theorems(prop):
    s = open(os.path.join(HERE, "harness", "checks", prop.lower() + ".py")).read()
    m = re.search(r"THEOREMS\s*=\s*\[(.*?)\]", s, re.S)
    return re.findall(r'"(\w+)"', m.group(1)) if m else []


def props_section():
    mk = load(os.path.join(HERE, "tools", "mkmanifest.py"), "mk")
    titles = {}
    for l in open(os.path.join(HERE, "properties.jsonl")):
        d = json.loads(l)
        titles[d["id"]] = d["title"]
    kf = json.load(open(os.path.join(HERE, "known_findings.json")))["findings"]
    out = []
    for p in mk.ALL:
        tech, text, note, _ref = mk.CLAIMS[p]
        for old, new in getattr(mk, "PATCHES", {}).get(p, []):
            text = text.replace(old, new)
        n_open = sum(1 for e in kf if e["property"] == p and e["status"] == "open")
        fixed = [e["status"].split(": ")[1] for e in kf if e["property"] == p and e["status"].startswith("fixed")]
        ev = {}
        try:
            ev = json.load(open(os.path.join(HERE, "evidence", p + ".json")))
        except Exception:  # noqa
            pass
        cov = ev.get("coverage", ev)
        out.append("### %s -- %s\n" % (p, titles[p]))
        out.append("*Technique.* %s.\n" % tech.rstrip("."))
        out.append("*Theorems audited every run* (`coq/Properties/%s.v`): %s.\n" % (p, ", ".join("`%s`" % t for t in theorems(p))))
        out.append("*What they say, the tie, what is partial.* %s\n" % text)
        out.append("*%s*\n" % note)
        line = "*Findings.* %d open class(es) in `known_findings.json`" % n_open
        if fixed:
            line += "; repaired: " + ", ".join(fixed)
        out.append(line + ".\n")
    return "\n".join(out)


def seeded_section():
    rows = ["| change | what it does | needs, to manifest | detected by `./check Cxx --tier quick` | first violation |", "|---|---|---|---|---|"]
    for d in sorted(glob.glob(os.path.join(HERE, "seeded", "C*-*"))):
        mid = os.path.basename(d)
        notes = open(os.path.join(d, "notes.md")).read() if os.path.exists(os.path.join(d, "notes.md")) else ""
        title = notes.strip().splitlines()[0].lstrip("# ").strip() if notes.strip() else ""
        title = re.sub(r"^C\d\d\s*(/|seeded bug|change)?\s*(change|bug)?\s*\d*\s*[-:]*\s*", "", title)
        m = re.search(r"(?:What is needed for it to manifest|What is needed|Needs)[^\n]*\n(.*?)(?:\n## |\n\*\*|\Z)", notes, re.S)
        needs = " ".join(m.group(1).split())[:220] if m else ""
        meta = json.load(open(os.path.join(d, "meta.json")))
        cr = meta.get("check_result", {})
        fv = cr.get("first_violation") or {}
        what = fv.get("clause") or fv.get("theorem") or fv.get("stage") or ""
        det = "yes (%d violations%s)" % (cr.get("violations", 0), ", proof/correspondence break, no-failing-input-found" if cr.get("no_failing_input_found") else "") if cr.get("detected") else "NO"
        rows.append("| %s | %s | %s | %s | %s |" % (mid, title.replace("|", "/")[:140], needs.replace("|", "/"), det, str(what).replace("|", "/")[:110]))
    return "\n".join(rows)


def audit_section():
    out = []
    nthm = 0
    for l in open(os.path.join(HERE, "properties.jsonl")):
        nthm += len(theorems(json.loads(l)["id"]))
    nlines = sum(len(open(f).read().splitlines()) for f in glob.glob(os.path.join(HERE, "coq", "*", "*.v")))
    out.append("* %d theorems are audited by the checks (`Check` + `Print Assumptions` in a generated audit file, every run); all "
               "answer \"Closed under the global context\". The development is %d lines of Coq (including the regenerated `Gen/`)." % (nthm, nlines))
    for name, title in (("forbidden.txt", "`grep` for forbidden vernacular over `coq/` (comments and string literals stripped)"),
                        ("coqchk.txt", "`coqchk -o` over the compiled property files (independent re-check; axioms of every loaded library)")):
        p = os.path.join(HERE, "audit", name)
        if os.path.exists(p):
            out.append("* %s:\n\n```\n%s\n```" % (title, open(p).read().strip()[-2500:]))
    return "\n".join(out)


def main():
    path = os.path.join(HERE, "DESIGN.md")
    s = open(path).read()
    for key, fn in (("properties", props_section), ("seeded", seeded_section), ("audit", audit_section)):
        a, b = "<!-- BEGIN GENERATED: %s -->" % key, "<!-- END GENERATED: %s -->" % key
        i, j = s.index(a) + len(a), s.index(b)
        s = s[:i] + "\n" + fn() + "\n" + s[j:]
    open(path, "w").write(s)


if __name__ == "__main__":
    main()
