#!/usr/bin/env python3
"""Development-time helper (VERIF_SEED=<n> in the environment: run under that seed and record the outcome under "other_seeds"): apply each seeded change in /verif/seeded/<id>/patch.diff to /repo, run the quick check of the
property it targets, undo the change, and record the outcome in seeded/<id>/meta.json ("check_result").
usage: python tools/run_seeded.py [id ...]     (no argument: all)"""
import glob
import json
import os
import re
import subprocess
import sys
import time

VERIF = "/verif"


def sh(cmd, **kw):
    return subprocess.run(cmd, shell=True, capture_output=True, text=True, **kw)


def main():
    ids = sys.argv[1:] or sorted(os.path.basename(p) for p in glob.glob(VERIF + "/seeded/C*-*"))
    assert sh("git -C /repo status --porcelain").stdout.strip() == "", "/repo is not clean"
    for mid in ids:
        d = os.path.join(VERIF, "seeded", mid)
        prop = mid.split("-")[0]
        patch = os.path.join(d, "patch.diff")
        t0 = time.time()
        r = sh("git -C /repo apply %s" % patch)
        if r.returncode:
            print(mid, "patch does not apply", r.stderr[:200])
            continue
        try:
            c = sh("cd %s && timeout -k 10 1500 ./check %s --tier quick" % (VERIF, prop))
        finally:
            sh("git -C /repo apply -R %s" % patch)
            sh("git -C /repo checkout -- .")
        assert sh("git -C /repo status --porcelain").stdout.strip() == "", "/repo not restored after " + mid
        out = c.stdout + c.stderr
        vio = [l for l in out.splitlines() if l.startswith("VIOLATION")]
        first = None
        if vio:
            m = re.search(r"replay=(\S+)", vio[0])
            if m and os.path.exists(m.group(1)):
                p = json.load(open(m.group(1)))
                first = {"stage": p.get("stage"), "clause": p.get("clause"), "theorem": p.get("theorem"),
                         "detail": json.dumps(p.get("detail"), default=repr)[:400]}
        res = {"check": "./check %s --tier quick" % prop, "exit": c.returncode, "violations": len(vio),
               "no_failing_input_found": any("no-failing-input-found" in l for l in vio), "first_violation": first,
               "detected": c.returncode == 1 and bool(vio), "seconds": round(time.time() - t0, 1)}
        mp = os.path.join(d, "meta.json")
        meta = json.load(open(mp)) if os.path.exists(mp) else {}
        seed = os.environ.get("VERIF_SEED")
        if seed:
            res["seed"] = int(seed)
            meta.setdefault("other_seeds", {})[seed] = {k: res[k] for k in ("exit", "violations", "detected", "no_failing_input_found")}
        else:
            meta["check_result"] = res
        json.dump(meta, open(mp, "w"), indent=1)
        print(mid, "DETECTED" if res["detected"] else "MISSED", "exit", c.returncode, "violations", len(vio),
              "nfi" if res["no_failing_input_found"] else "", (first or {}).get("clause") or (first or {}).get("stage"), res["seconds"], flush=True)


if __name__ == "__main__":
    main()
