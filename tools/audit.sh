#!/bin/bash
# Development-time audit: full build, forbidden-vernacular scan, independent re-check of every property file with coqchk -o.
set -e
cd /verif
make setup > /dev/null 2>&1
cd coq
mods=$(for i in $(seq -w 1 20); do echo CDD.C$i; done)
{ echo "\$ coqchk -o -Q Base CDD -Q Model CDD -Q Gen CDD -Q Proofs CDD -Q Properties CDD CDD.C01 .. CDD.C20   (Coq 8.16.1)";
  timeout 7200 coqchk -o -silent -Q Base CDD -Q Model CDD -Q Gen CDD -Q Proofs CDD -Q Properties CDD $mods 2>&1 | tail -16; } > ../audit/coqchk.txt
{ echo "\$ grep -rnE 'Admitted|admit|Axiom|Parameter|Conjecture|Unset Guard|bypass_check|Admit Obligations|type-in-type' coq/ --include=*.v | grep -v '(\\*' ";
  grep -rnE 'Admitted|\badmit\b|\bAxiom\b|\bParameter\b|\bConjecture\b|Unset Guard|bypass_check|Admit Obligations|type-in-type|impredicative-set' . --include=*.v --include=_CoqProject | grep -v "^./Gen/.*s2l\|\"" || echo "(no match)"; } > ../audit/forbidden.txt
cat ../audit/coqchk.txt ../audit/forbidden.txt
