#!/usr/bin/env python3
"""Confirm a seeded change: in a scratch worktree of /repo, the demo passes without the patch, fails with it,
and the pinned suite still passes with it.  usage: verify_seeded.py <seeded dir> [...]   (writes meta.json fields)"""
import json
import os
import subprocess
import sys
import tempfile

PY = "/venv/bin/python"


def sh(cmd, cwd=None, env=None, timeout=1800):
    p = subprocess.run(cmd, shell=True, cwd=cwd, env=env, stdout=subprocess.PIPE, stderr=subprocess.STDOUT, text=True, timeout=timeout)
    return p.returncode, "\n".join(l for l in p.stdout.splitlines() if "conda" not in l.lower())


def verify(d):
    d = os.path.abspath(d)
    wt = tempfile.mkdtemp(prefix="verif-seed-")
    os.rmdir(wt)
    res = {}
    try:
        rc, out = sh("git -C /repo worktree add --detach %s HEAD" % wt)
        assert rc == 0, out
        env = dict(os.environ, PYTHONPATH=wt, CDD_ROOT=wt, PYTHONDONTWRITEBYTECODE="1")
        rc0, o0 = sh("%s %s/demo.py" % (PY, d), cwd=wt, env=env, timeout=900)
        res["demo_unchanged_rc"] = rc0
        rc, out = sh("git apply %s/patch.diff" % d, cwd=wt)
        res["patch_applies"] = rc == 0
        if rc == 0:
            rc1, o1 = sh("%s %s/demo.py" % (PY, d), cwd=wt, env=env, timeout=900)
            res["demo_patched_rc"] = rc1
            res["demo_patched_tail"] = o1[-600:]
            rcb, ob = sh("%s /verif/tools/baseline.py %s" % (PY, wt), timeout=2400)
            res["baseline_with_patch"] = ob.strip().splitlines()[0] if ob.strip() else ""
            res["baseline_ok"] = rcb == 0
        else:
            res["apply_error"] = out[-400:]
        res["confirmed"] = bool(res.get("patch_applies") and rc0 == 0 and res.get("demo_patched_rc", 0) != 0 and res.get("baseline_ok"))
    finally:
        sh("git -C /repo worktree remove --force %s" % wt)
    mp = os.path.join(d, "meta.json")
    meta = json.load(open(mp)) if os.path.exists(mp) else {}
    meta["verification"] = res
    json.dump(meta, open(mp, "w"), indent=1)
    print(os.path.basename(d), res.get("confirmed"), {k: v for k, v in res.items() if k not in ("demo_patched_tail",)})


if __name__ == "__main__":
    for d in sys.argv[1:]:
        verify(d)
