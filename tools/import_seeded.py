#!/usr/bin/env python3
"""Development-time helper: copy delivered seeded changes /tmp/mut-<P>b-out/<k>/ into /verif/seeded/<P>-<n> (next free n)."""
import glob
import os
import shutil
import sys

for src in sys.argv[1:]:
    prop = os.path.basename(os.path.dirname(src.rstrip("/")))[4:7]
    if not os.path.exists(os.path.join(src, "patch.diff")):
        print("skip", src)
        continue
    n = 1
    while os.path.exists("/verif/seeded/%s-%d" % (prop, n)):
        n += 1
    dst = "/verif/seeded/%s-%d" % (prop, n)
    os.makedirs(dst)
    for f in ("patch.diff", "demo.py", "notes.md"):
        if os.path.exists(os.path.join(src, f)):
            shutil.copy(os.path.join(src, f), dst)
    print(dst)
