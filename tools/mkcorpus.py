#!/usr/bin/env python3
"""Development-time helper (never run by a check): evaluate the fixed corpus of a check on the UNCHANGED tree at the thorough size and
record which entries satisfy the property (corpus/<prop>.json: "clean").  Ctx.item treats any item on a clean entry as a violation,
whatever its class.  usage: PYTHONPATH=/repo:/verif python tools/mkcorpus.py C01 [C02 ...]"""
import importlib
import json
import os
import sys

sys.path.insert(0, "/verif")
from harness.common import Ctx, CORPUS  # noqa

ARGS = {"C01": (1800, 18000), "C02": (1800, 15000), "C03": (300, 125), "C04": (2100, 0), "C05": (2100, 0), "C08": (900, 4), "C12": (2400, 0),
        "C13": (9000, 0)}


def main():
    for prop in sys.argv[1:]:
        mod = importlib.import_module("harness.checks." + prop.lower())
        ctx = Ctx(prop, "thorough", 0)
        res = mod.collect(ctx, *ARGS[prop])
        agg, items = res[0], res[1]
        allk = set(agg["corpus_keys"])
        failing = set()
        for it in items:
            det = it[1]
            k = det.get("corpus_key") if isinstance(det, dict) else None
            if k:
                failing.add(k)
            # an item of a corpus case that carries no key (harness error, ...) poisons nothing: it is not in allk
        clean = sorted(allk - failing)
        os.makedirs(CORPUS, exist_ok=True)
        json.dump({"property": prop, "seed": "CORPUS_SEED of harness/common.py", "evaluated": len(allk), "clean": clean},
                  open(os.path.join(CORPUS, prop + ".json"), "w"))
        print(prop, "evaluated", len(allk), "clean", len(clean), "failing", len(failing))


if __name__ == "__main__":
    main()
