"""Run cases in worker processes, each with a wall-clock watchdog (SIGALRM)."""
import multiprocessing as mp
import signal
import traceback

from .common import NCPU


class CaseTimeout(BaseException):
    """BaseException: must not be swallowed by `except Exception` in the code under test or in a harness loop."""


def _alarm(signum, frame):
    raise CaseTimeout()


def guarded(fn, arg, seconds):
    """Call fn(arg) under an alarm; returns ('ok', value) | ('timeout', None) | ('raise', repr)."""
    old = signal.signal(signal.SIGALRM, _alarm)
    signal.setitimer(signal.ITIMER_REAL, seconds, max(0.5, seconds / 4.0))  # re-fires if the first one is swallowed
    try:
        return ("ok", fn(arg))
    except CaseTimeout:
        return ("timeout", None)
    except BaseException as e:  # noqa
        return ("raise", type(e).__name__ + ": " + str(e)[:200])
    finally:
        signal.setitimer(signal.ITIMER_REAL, 0)
        signal.signal(signal.SIGALRM, old)


def _wrap(payload):
    fn, chunk = payload
    out = []
    for c in chunk:
        try:
            out.append(fn(c))
        except BaseException as e:  # noqa
            out.append({"harness_error": traceback.format_exc()[-2000:], "case": repr(c)[:500]})
    return out


def run_cases(fn, cases, procs=NCPU, chunk=50):
    """fn: module-level function case -> result (picklable). Yields results (order not preserved)."""
    cases = list(cases)
    chunks = [(fn, cases[i : i + chunk]) for i in range(0, len(cases), chunk)]
    if procs <= 1 or len(chunks) <= 1:
        for ch in chunks:
            yield from _wrap(ch)
        return
    ctx = mp.get_context("fork")
    with ctx.Pool(min(procs, len(chunks))) as pool:
        for res in pool.imap_unordered(_wrap, chunks):
            yield from res
