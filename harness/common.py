"""Shared plumbing: paths, seeds, evidence, replays, known findings, verdict lines."""
import hashlib
import json
import os
import random
import sys
import time

VERIF = os.path.dirname(os.path.dirname(os.path.abspath(__file__)))
REPO = os.environ.get("CDD_REPO", "/repo")
COQ = os.path.join(VERIF, "coq")
EVIDENCE = os.path.join(VERIF, "evidence")
REPLAYS = os.path.join(EVIDENCE, "replays")
KNOWN = os.path.join(VERIF, "known_findings.json")
CORPUS = os.path.join(VERIF, "corpus")
CORPUS_SEED = 20260929
NCPU = min(16, os.cpu_count() or 4)

GLOBAL_TRUSTED_BASE = [
    "Coq 8.16.1 kernel (coqc), including the vm_compute conversion; native_compute is not used",
    "axioms: none (every property theorem is checked to print 'Closed under the global context')",
    "extraction: ExtrOcamlBasic only (bool/option/unit/list/prod/sumbool/sumor + andb/orb inlined), "
    "no Extract Constant / Extract Inductive of ours; OCaml 4.13.1; hand-written driver.ml (line protocol)",
    "the correspondence harness (generators, adapters, canonicalisation, known-finding matchers) "
    "and CPython 3.12 as the executor of the implementation",
]


class Ctx:
    def __init__(self, prop, tier, seed):
        self.prop = prop
        self.tier = tier
        self.seed = seed
        self.rng = random.Random(seed)
        self.t0 = time.time()
        self.violations = []  # (replay_path, suffix)
        self.known_lines = []
        self.known = load_known(prop)
        self.known_hit = {}
        self.clean = load_clean(prop)      # corpus entries that satisfied the property on the pinned tree
        self.corpus_hits = 0

    @property
    def quick(self):
        return self.tier == "quick"

    def wall(self):
        return round(time.time() - self.t0, 2)

    # ---- reporting
    def violation(self, payload, no_input=False):
        """Record a violation; payload is the replay (dict)."""
        os.makedirs(os.path.join(REPLAYS, self.prop), exist_ok=True)
        payload = dict(payload)
        payload.setdefault("property", self.prop)
        payload.setdefault("tier", self.tier)
        payload.setdefault("seed", self.seed)
        blob = json.dumps(payload, sort_keys=True, default=repr)
        h = hashlib.sha1(blob.encode()).hexdigest()[:12]
        path = os.path.join(REPLAYS, self.prop, h + ".json")
        payload["how_to_rerun"] = "cd /verif && ./check %s --replay %s" % (self.prop, path)
        with open(path, "w") as f:
            json.dump(payload, f, indent=1, sort_keys=True, default=repr)
        self.violations.append((path, " no-failing-input-found" if no_input else ""))
        return path

    def item(self, cls, payload, corpus_key=None):
        """A discrepancy item: known finding (by class) or violation.  An item on an entry of the fixed corpus that is recorded as CLEAN
        (it satisfied the property on the pinned tree: corpus/<prop>.json) is a violation whatever its class -- recorded classes
        describe inputs that failed on the pinned tree, they do not excuse a failure on an input that did not."""
        if corpus_key is not None and corpus_key in self.clean:
            self.corpus_hits += 1
            payload = dict(payload)
            payload["discrepancy_class"] = cls
            payload["corpus_key"] = corpus_key
            payload["note"] = "this corpus entry satisfied the property on the pinned tree (corpus/%s.json)" % self.prop
            if len(self.violations) < 20:
                self.violation(payload)
            else:
                self.violations.append((self.violations[-1][0], ""))
            return True
        kf = self.known.get(cls)
        if kf is not None and kf.get("status", "open") == "open":
            if cls not in self.known_hit:
                self.known_hit[cls] = 0
            self.known_hit[cls] += 1
            return False
        payload = dict(payload)
        payload["discrepancy_class"] = cls
        if len(self.violations) < 20:
            self.violation(payload)
        else:
            self.violations.append((self.violations[-1][0], ""))
        return True

    def finish(self, level, coverage, assumptions=None):
        for cls, n in sorted(self.known_hit.items()):
            kf = self.known[cls]
            print("KNOWN-FINDING: property=%s %s [%s; %d case(s) this run]" % (self.prop, kf["what"], cls, n))
        ev = {
            "property_id": self.prop,
            "tier": self.tier,
            "seed": self.seed,
            "level": level,
            "coverage": coverage,
            "assumptions": assumptions or [],
            "wall_s": self.wall(),
            "violations": len(self.violations),
        }
        coverage.setdefault("known_findings_matched", dict(self.known_hit))
        coverage.setdefault("clean_corpus_entries", len(self.clean))
        os.makedirs(EVIDENCE, exist_ok=True)
        with open(os.path.join(EVIDENCE, self.prop + ".json"), "w") as f:
            json.dump(ev, f, indent=1, default=repr)
        seen = set()
        for path, suffix in self.violations:
            if path in seen:
                continue
            seen.add(path)
            print("VIOLATION property=%s replay=%s%s" % (self.prop, path, suffix))
        sys.stdout.flush()
        return 1 if self.violations else 0


def load_clean(prop):
    try:
        return set(json.load(open(os.path.join(CORPUS, prop + ".json")))["clean"])
    except Exception:  # noqa
        return set()


def load_known(prop):
    if not os.path.exists(KNOWN):
        return {}
    with open(KNOWN) as f:
        data = json.load(f)
    return {e["cls"]: e for e in data.get("findings", []) if e["property"] == prop}


def get_seed():
    try:
        return int(os.environ.get("VERIF_SEED", "0"))
    except ValueError:
        return int(hashlib.sha1(os.environ["VERIF_SEED"].encode()).hexdigest()[:8], 16)
