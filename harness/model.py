"""Client of the extracted OCaml model (coq/Extract/model_driver), line protocol."""
import os
import subprocess

from .common import COQ

DRIVER = os.path.join(COQ, "Extract", "model_driver")


class ModelError(Exception):
    pass


def enc(v, out):
    if v is None:
        out.append("N")
    elif v is True:
        out.append("T")
    elif v is False:
        out.append("F")
    elif isinstance(v, int):
        out.append("I %d" % v)
    elif isinstance(v, str):
        out.append("S %d" % len(v))
        if v:
            out.append(" ".join(str(ord(c)) for c in v))
    elif isinstance(v, (list, tuple)):
        out.append("L %d" % len(v))
        for x in v:
            enc(x, out)
    else:
        raise TypeError("cannot encode %r" % (v,))


def dec(toks, pos):
    t = toks[pos]
    if t == "N":
        return None, pos + 1
    if t == "T":
        return True, pos + 1
    if t == "F":
        return False, pos + 1
    if t == "I":
        return int(toks[pos + 1]), pos + 2
    if t == "S":
        n = int(toks[pos + 1])
        return "".join(chr(int(x)) for x in toks[pos + 2 : pos + 2 + n]), pos + 2 + n
    if t == "L":
        n = int(toks[pos + 1])
        pos += 2
        out = []
        for _ in range(n):
            v, pos = dec(toks, pos)
            out.append(v)
        return out, pos
    raise ModelError("bad token %r" % t)


class Model:
    def __init__(self):
        self.p = None

    def start(self):
        self.p = subprocess.Popen(
            ["bash", "-c", "ulimit -s unlimited 2>/dev/null; exec " + DRIVER],
            stdin=subprocess.PIPE,
            stdout=subprocess.PIPE,
            text=True,
            bufsize=1,
        )

    def call(self, fn, arg):
        if self.p is None or self.p.poll() is not None:
            self.start()
        out = []
        enc(arg, out)
        self.p.stdin.write(fn + " " + " ".join(out) + "\n")
        self.p.stdin.flush()
        line = self.p.stdout.readline()
        if not line:
            self.p = None
            raise ModelError("model driver died on %s" % fn)
        v, _ = dec(line.split(), 0)
        if isinstance(v, list) and len(v) == 2 and v[0] == "!":
            raise ModelError("model: " + str(v[1]))
        return v

    def close(self):
        if self.p is not None:
            try:
                self.p.stdin.close()
                self.p.wait(timeout=5)
            except Exception:
                self.p.kill()
            self.p = None


_MODEL = None


def model():
    """Per-process singleton."""
    global _MODEL
    if _MODEL is None:
        _MODEL = Model()
    return _MODEL


def call_many(fn, args):
    """Pipelined calls on the per-process driver; a reader thread avoids pipe deadlock."""
    import threading

    m = model()
    if m.p is None or m.p.poll() is not None:
        m.start()
    res = []

    def reader():
        for _ in range(len(args)):
            line = m.p.stdout.readline()
            if not line:
                res.append(ModelError("driver died"))
                return
            v, _p = dec(line.split(), 0)
            res.append(v)

    th = threading.Thread(target=reader)
    th.start()
    for a in args:
        out = []
        enc(a, out)
        m.p.stdin.write(fn + " " + " ".join(out) + "\n")
    m.p.stdin.flush()
    th.join()
    if len(res) != len(args) or any(isinstance(r, ModelError) for r in res):
        m.p = None
        raise ModelError("model driver died in call_many(%s)" % fn)
    return res
