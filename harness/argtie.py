"""Correspondence of Model/ArgRead.v with cdd/argparse_function/utils/emit_utils.py:parse_out_param (one add_argument call)."""
import ast
import contextlib
import io

from .model import call_many

NAMES = ["seed", "mode", "dataset_name", "lr", "verbose", "n0"]
TYPES = ["int", "float", "str", "bool", "complex", "loads", None, None]
HELPS = ["the seed", "how fast.", "name of it", "which one; defaults to the first", "the value. Defaults to 5", "", None, "x"]
# (scalars only: get_value hands a list / tuple default back as an AST node, not as a value)
DEFAULTS = [0, 5, -3, 0.0, 0.5, False, True, "", "x", "hello world", None, None, None]
CHOICES = [None, None, None, ("train", "eval", "predict"), ("b", "a"), (2, 1, 3), ("x",)]


def gen(rng):
    return {"name": rng.choice(NAMES), "type": rng.choice(TYPES), "choices": rng.choice(CHOICES), "help": rng.choice(HELPS),
            "required": rng.random() < 0.4, "default": rng.choice(DEFAULTS), "action": rng.choice([None, None, None, "append", "store_true"])}


def enc_val(v):
    return [repr(v), str(v), hasattr(v, "__len__") and len(v) == 0, isinstance(v, str)]


def source(c):
    kws = []
    if c["type"] is not None:
        kws.append("type=%s" % c["type"])
    if c["choices"] is not None:
        kws.append("choices=%r" % (c["choices"],))
    if c["action"] is not None:
        kws.append("action=%r" % c["action"])
    if c["help"] is not None:
        kws.append("help=%r" % c["help"])
    if c["required"]:
        kws.append("required=True")
    if c["default"] is not None:
        kws.append("default=%r" % (c["default"],))
    return "argument_parser.add_argument(%s)" % ", ".join([repr("--" + c["name"])] + kws)


def compare(cases):
    from cdd.argparse_function.utils.emit_utils import parse_out_param
    from cdd.shared.ast_utils import NoneStr
    bad, n = [], 0
    qs = [[c["name"], c["type"], None if c["choices"] is None else [enc_val(x) for x in c["choices"]], c["help"], c["required"],
           None if c["default"] is None else enc_val(c["default"]), c["action"]] for c in cases]
    for c, m in zip(cases, call_many("parse_out_param", qs)):
        src = source(c)
        try:
            with contextlib.redirect_stderr(io.StringIO()):
                name, p = parse_out_param(ast.parse(src).body[0], emit_default_doc=True)
            dflt = None if "default" not in p else (["nonestr"] if p["default"] == NoneStr else ["val", repr(p["default"])])
            i = [name, p.get("doc"), p.get("typ"), dflt]
        except BaseException as e:  # noqa
            i = "raises " + type(e).__name__
        n += 1
        want = m if m == "raises" else list(m)
        if isinstance(i, str) and i.startswith("raises"):
            i = "raises"
        if isinstance(i, list) and isinstance(want, list) and want[3] is not None and want[3][0] == "doc":
            # the default was read out of the help text: its conversion to a Python value is not modelled
            i, want = i[:3], want[:3]
        if i != want:
            bad.append({"stage": "argparse reader (parse_out_param)", "input": src, "impl": i, "model": want})
    return n, bad
