"""Adapters between IR parameters and the Norm.v parameter model (ctyp, cdef)."""
import re

from .irtools import NoneStr, _ABSENT

BASES = ("int", "float", "str", "bool")


def enc_typ(t):
    opt = t.startswith("Optional[")
    inner = t[len("Optional["):-1] if opt else t
    if inner in BASES:
        return [opt, inner]
    m = re.match(r"^Literal\[(.*)\]$", inner)
    if m:
        return [opt, [x.strip().strip("'\"") for x in m.group(1).split(",")]]
    return None


def dec_typ(v):
    opt, inner = v
    s = inner if isinstance(inner, str) else "Literal[%s]" % ", ".join("'%s'" % m for m in inner)
    return "Optional[%s]" % s if opt else s


def enc_def(p):
    if "default" not in p:
        return None
    d = p["default"]
    if d == NoneStr or d is None:
        return ["n", None]
    if isinstance(d, bool):
        return ["b", d]
    if isinstance(d, int):
        return ["i", d]
    if isinstance(d, float):
        return ["f", repr(d)]
    if isinstance(d, str):
        return ["s", d]
    return ["?", repr(d)]


def state_of(p):
    """(typ string, default as model value) of an implementation parameter, for comparison with the model"""
    t = p.get("typ")
    return [enc_typ(t) if isinstance(t, str) else None, enc_def(p)]
