"""Build the Coq development against /repo's current tree; audit property theorems."""
import fcntl
import os
import re
import subprocess
import sys
import time

from .common import COQ, NCPU, VERIF

FORBIDDEN = re.compile(
    r"\b(Admitted|admit|Axiom|Axioms|Parameter|Parameters|Conjecture|Conjectures|bypass_check|"
    r"Admit\s+Obligations|Unset\s+Guard\s+Checking|Unset\s+Positivity\s+Checking|"
    r"Unset\s+Universe\s+Checking|type-in-type|impredicative-set|native_compute)\b"
)
COMMENT = re.compile(r"\(\*.*?\*\)", re.S)
STRING_LIT = re.compile(r'"(?:[^"]|"")*"', re.S)


class Lock:
    def __enter__(self):
        self.f = open(os.path.join(COQ, ".buildlock"), "w")
        fcntl.flock(self.f, fcntl.LOCK_EX)
        return self

    def __exit__(self, *a):
        fcntl.flock(self.f, fcntl.LOCK_UN)
        self.f.close()


def sh(cmd, timeout=1800, cwd=COQ):
    p = subprocess.run(cmd, shell=True, cwd=cwd, stdout=subprocess.PIPE, stderr=subprocess.STDOUT, text=True, timeout=timeout)
    out = "\n".join(l for l in p.stdout.splitlines() if "conda" not in l.lower())
    return p.returncode, out


def v_files():
    out = []
    for root, _, files in os.walk(COQ):
        if "/." in root:
            continue
        for f in files:
            if f.endswith(".v"):
                out.append(os.path.join(root, f))
    return sorted(out)


def forbidden_scan():
    """grep for forbidden vernacular outside comments; returns list of (file, token)."""
    bad = []
    for p in v_files():
        src = STRING_LIT.sub('""', COMMENT.sub(" ", STRING_LIT.sub('""', open(p).read())))
        for m in FORBIDDEN.finditer(src):
            bad.append((os.path.relpath(p, COQ), m.group(1)))
    return bad


def regenerate():
    """Re-run every translator: coq/Gen/*.v from /repo's working tree (rewritten only on change)."""
    from translate import run_all

    return run_all.main()


def ensure_makefile():
    mk = os.path.join(COQ, "Makefile")
    cp = os.path.join(COQ, "_CoqProject")
    if not os.path.exists(mk) or os.path.getmtime(mk) < os.path.getmtime(cp):
        rc, out = sh("coq_makefile -f _CoqProject -o Makefile")
        if rc:
            raise RuntimeError("coq_makefile failed: " + out)


def make(targets, timeout=3000, keep_going=False):
    ensure_makefile()
    rc, out = sh("timeout %d make -j%d %s %s" % (timeout, NCPU, "-k" if keep_going else "", " ".join(targets)), timeout=timeout + 60)
    return rc == 0, out


def build_driver():
    """Extract the model and compile the OCaml driver when stale."""
    ok, out = make(["Extract/Extract.vo"])
    if not ok:
        return False, out
    ex = os.path.join(COQ, "Extract")
    for f in ("model.ml", "model.mli"):
        src = os.path.join(COQ, f)
        if os.path.exists(src):
            os.replace(src, os.path.join(ex, f))
    drv = os.path.join(ex, "model_driver")
    need = not os.path.exists(drv) or any(
        os.path.getmtime(os.path.join(ex, f)) > os.path.getmtime(drv) for f in ("model.ml", "model.mli", "driver.ml")
    )
    if need:
        rc, out2 = sh("ocamlfind ocamlopt -w -a -O2 model.mli model.ml driver.ml -o model_driver.tmp 2>&1 || "
                      "ocamlfind ocamlopt -w -a model.mli model.ml driver.ml -o model_driver.tmp", cwd=ex)
        if rc:
            return False, out2
        os.replace(os.path.join(ex, "model_driver.tmp"), drv)
    return True, out


def failing_theorem(log, prop_file):
    """Map a coqc error location in prop_file to the enclosing Theorem name."""
    m = re.search(r'File "\./%s", line (\d+)' % re.escape(prop_file), log)
    if not m:
        return None
    line = int(m.group(1))
    name = None
    for i, l in enumerate(open(os.path.join(COQ, prop_file)).read().splitlines(), 1):
        mm = re.match(r"\s*(Theorem|Lemma|Example|Corollary|Definition)\s+(\w+)", l)
        if mm and i <= line:
            name = mm.group(2)
    return name


def audit(prop, theorems):
    """Check that each named theorem exists in CDD.<prop> and is closed under the global context.
    Returns dict name -> 'closed' | 'missing' | 'axioms: ...'."""
    d = os.path.join(COQ, ".audit")
    os.makedirs(d, exist_ok=True)
    path = os.path.join(d, "Audit_%s_%d.v" % (prop, os.getpid()))
    with open(path, "w") as f:
        f.write("From CDD Require Import %s.\n" % prop)
        for t in theorems:
            f.write('Goal True. idtac "@@BEGIN %s". Abort.\n' % t)
            f.write("Fail Fail Check %s.\nPrint Assumptions %s.\n" % (t, t))
            f.write('Goal True. idtac "@@END %s". Abort.\n' % t)
    qs = " ".join("-Q %s CDD" % x for x in ("Base", "Model", "Gen", "Proofs", "Properties", "Run"))
    rc, out = sh("timeout 600 coqc %s %s" % (qs, path))
    for ext in (".v", ".vo", ".vok", ".vos", ".glob"):
        try:
            os.remove(path[:-2] + ext)
        except OSError:
            pass
    aux = os.path.join(d, ".Audit_%s_%d.aux" % (prop, os.getpid()))
    if os.path.exists(aux):
        os.remove(aux)
    res = {}
    for t in theorems:
        m = re.search(r"@@BEGIN %s\n(.*?)@@END %s" % (re.escape(t), re.escape(t)), out, re.S)
        if not m:
            res[t] = "missing"
        elif "Closed under the global context" in m.group(1):
            res[t] = "closed"
        else:
            res[t] = "axioms: " + " ".join(m.group(1).split())[:300]
    return res, out


def prove(prop, theorems, extra_targets=()):
    """Regenerate Gen/, build Properties/<prop>.vo and the driver, audit the theorems.
    Returns a dict describing the proof status."""
    t0 = time.time()
    with Lock():
        gen_info = regenerate()
        bad = forbidden_scan()
        ok_d, log_d = build_driver()
        pf = "Properties/%s.v" % prop
        ok_p, log_p = make([pf + "o"] + list(extra_targets))
        status = {"driver_ok": ok_d, "proof_built": ok_p, "forbidden": bad, "gen": gen_info}
        if not ok_d:
            status["driver_log"] = log_d[-3000:]
        if ok_p:
            res, out = audit(prop, theorems)
            status["theorems"] = res
        else:
            status["theorems"] = {t: "not built" for t in theorems}
            status["failing_theorem"] = failing_theorem(log_p, pf)
            status["build_log"] = log_p[-3000:]
    status["obligations"] = len(theorems)
    status["discharged"] = sum(1 for v in status["theorems"].values() if v == "closed")
    status["build_s"] = round(time.time() - t0, 2)
    status["ok"] = ok_p and ok_d and not bad and status["discharged"] == len(theorems)
    return status


CHECKER_CMD = ("python translate/run_all.py (regenerate coq/Gen from /repo) && "
               "make -C /verif/coq Properties/<id>.vo (coqc 8.16.1, full .vo build) && "
               "coqc audit file: Check + Print Assumptions for every listed theorem")

if __name__ == "__main__":
    # setup entry point: full build
    with Lock():
        regenerate()
        ensure_makefile()
        bad = forbidden_scan()
        if bad:
            print("forbidden vernacular:", bad)
            sys.exit(1)
        ok, out = make([], keep_going=("-k" in sys.argv))
        print(out[-6000:])
        if not ok and "-k" not in sys.argv:
            sys.exit(1)
        ok, out = build_driver()
        if not ok:
            print(out[-3000:])
            sys.exit(1)
    print("setup ok")
